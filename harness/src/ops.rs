//! request dispatch
use crate::script::*;
use crate::stream::*;
use crate::util::*;
use bcder::decode::{BytesSource, Constructed, DecodeError, Primitive, SliceSource};
use bcder::encode::PrimitiveContent;
use bcder::{Mode, Tag};
use bytes::Bytes;

pub fn err_str<E: std::fmt::Display>(e: &DecodeError<E>) -> String {
    if format!("{}", e) == "SRCFAIL" {
        "err source".into()
    } else {
        "err content".into()
    }
}

fn tag_of(cls: usize, num: u32) -> Tag {
    match cls {
        0 => Tag::universal(num),
        1 => Tag::application(num),
        2 => Tag::ctx(num),
        _ => Tag::private(num),
    }
}

fn cls_of(t: Tag) -> usize {
    if t.is_universal() { 0 } else if t.is_application() { 1 } else if t.is_context_specific() { 2 } else { 3 }
}

fn tag_info(t: Tag, c: bool) -> String {
    let cls = cls_of(t);
    // is_* must agree on exactly one class
    let n_cls = [t.is_universal(), t.is_application(), t.is_context_specific(), t.is_private()]
        .iter().filter(|x| **x).count();
    let num = t.number();
    let canon = n_cls == 1 && num <= 0x1f_ffff && tag_of(cls, num) == t;
    format!("id={} c={} num={} cls={} canon={}", tag_trace(t, c), b01(c), num, cls, b01(canon))
}

pub fn parse_policy(s: &str) -> Option<Policy> {
    if s == "stingy" { return Some(Policy::Stingy); }
    if s == "all" { return Some(Policy::All); }
    if let Some(k) = s.strip_prefix("plus") { return Some(Policy::Plus(k.parse().ok()?)); }
    if let Some(k) = s.strip_prefix("chunk") { return Some(Policy::Chunk(k.parse::<usize>().ok()?.max(1))); }
    if let Some(k) = s.strip_prefix("rand") { return Some(Policy::Rand(k.parse().ok()?)); }
    None
}

fn finish<E: std::fmt::Display>(r: Result<(), DecodeError<E>>, x: &Ctx, rest: Option<usize>) -> String {
    if x.unsupported {
        return "unsupported".into();
    }
    match r {
        Ok(()) => match rest {
            Some(n) => format!("ok {} | rest={}", x.trace.join(" "), n),
            None => format!("ok {} | rest=?", x.trace.join(" ")),
        },
        Err(e) => err_str(&e),
    }
}

fn run_script(mode: Mode, src: &str, data: Vec<u8>, steps: &[Step]) -> String {
    let mut x = Ctx::default();
    match src {
        "slice" => {
            let mut s = SliceSource::new(&data);
            let r = mode.decode(&mut s, |cons| run_steps::<_, N3>(cons, steps, &mut x));
            finish(r, &x, Some(s.len()))
        }
        "slicev" => {
            let r = mode.decode(data.as_slice(), |cons| run_steps::<_, N3>(cons, steps, &mut x));
            finish(r, &x, None)
        }
        "bytes" => {
            let mut s = BytesSource::new(Bytes::from(data));
            let r = mode.decode(&mut s, |cons| run_steps::<_, N3>(cons, steps, &mut x));
            finish(r, &x, Some(s.len()))
        }
        "bytesv" => {
            let r = mode.decode(Bytes::from(data), |cons| run_steps::<_, N3>(cons, steps, &mut x));
            finish(r, &x, None)
        }
        "constructed" => {
            // Constructed::decode instead of Mode::decode
            let mut s = SliceSource::new(&data);
            let r = Constructed::decode(&mut s, mode, |cons| run_steps::<_, N3>(cons, steps, &mut x));
            finish(r, &x, Some(s.len()))
        }
        _ => {
            // streaming sources: "<policy>", "fail<k>:<policy>", "count:<policy>"
            if let Some(rest) = src.strip_prefix("fail") {
                let mut it = rest.splitn(2, ':');
                let k: usize = match it.next().and_then(|k| k.parse().ok()) { Some(k) => k, None => return "bad-op".into() };
                let pol = match it.next().and_then(parse_policy) { Some(p) => p, None => return "bad-op".into() };
                let mut s = StreamSource::new(data, pol, Some(k));
                let r = mode.decode(&mut s, |cons| run_steps::<_, N3>(cons, steps, &mut x));
                let issued = s.requests;
                let base = finish(r, &x, Some(s.remaining()));
                return format!("{} | requests={}", base, issued);
            }
            if let Some(p) = src.strip_prefix("count:") {
                let pol = match parse_policy(p) { Some(p) => p, None => return "bad-op".into() };
                let mut s = StreamSource::new(data, pol, None);
                let r = mode.decode(&mut s, |cons| run_steps::<_, N3>(cons, steps, &mut x));
                let issued = s.requests;
                let base = finish(r, &x, Some(s.remaining()));
                return format!("{} | requests={}", base, issued);
            }
            let pol = match parse_policy(src) { Some(p) => p, None => return "bad-op".into() };
            let mut s = StreamSource::new(data, pol, None);
            let r = mode.decode(&mut s, |cons| run_steps::<_, N3>(cons, steps, &mut x));
            finish(r, &x, Some(s.remaining()))
        }
    }
}

fn enc_int(ty: IntTy, v: &str) -> Option<String> {
    fn go<P: PrimitiveContent>(p: P) -> String {
        let l = p.encoded_len(Mode::Der);
        let mut w = Vec::new();
        p.write_encoded(Mode::Der, &mut w).unwrap();
        // the three modes must agree for integers
        let mut w2 = Vec::new();
        p.write_encoded(Mode::Ber, &mut w2).unwrap();
        let mut w3 = Vec::new();
        p.write_encoded(Mode::Cer, &mut w3).unwrap();
        if w2 != w || w3 != w || p.encoded_len(Mode::Ber) != l || p.encoded_len(Mode::Cer) != l {
            return format!("ok MODEDIFF {} {} {}", to_hex(&w), to_hex(&w2), to_hex(&w3));
        }
        format!("ok {} len={}", to_hex(&w), l)
    }
    Some(match ty {
        IntTy::I8 => go(v.parse::<i8>().ok()?),
        IntTy::I16 => go(v.parse::<i16>().ok()?),
        IntTy::I32 => go(v.parse::<i32>().ok()?),
        IntTy::I64 => go(v.parse::<i64>().ok()?),
        IntTy::I128 => go(v.parse::<i128>().ok()?),
        IntTy::U8 => go(v.parse::<u8>().ok()?),
        IntTy::U16 => go(v.parse::<u16>().ok()?),
        IntTy::U32 => go(v.parse::<u32>().ok()?),
        IntTy::U64 => go(v.parse::<u64>().ok()?),
        IntTy::U128 => go(v.parse::<u128>().ok()?),
    })
}

pub fn handle(line: &str) -> String {
    let toks: Vec<&str> = line.split_ascii_whitespace().collect();
    if toks.is_empty() {
        return "bad-op".into();
    }
    match handle_toks(&toks) {
        Some(s) => s,
        None => "bad-op".into(),
    }
}

fn handle_toks(toks: &[&str]) -> Option<String> {
    Some(match toks[0] {
        "tag.new" => {
            let cls: usize = toks.get(1)?.parse().ok()?;
            let num: u32 = toks.get(2)?.parse().ok()?;
            let t = tag_of(cls, num);
            format!(
                "ok w0={} w1={} len={} num={} cls={}",
                tag_trace(t, false), tag_trace(t, true), t.encoded_len(), t.number(), cls_of(t)
            )
        }
        "tag.take" => {
            let data = of_hex(toks.get(1)?)?;
            let mut s = SliceSource::new(&data);
            match Tag::take_from(&mut s) {
                Ok((t, c)) => format!("ok {} rest={}", tag_info(t, c), s.len()),
                Err(e) => err_str(&e),
            }
        }
        "tag.takeopt" => {
            let data = of_hex(toks.get(1)?)?;
            let mut s = SliceSource::new(&data);
            match Tag::take_opt_from(&mut s) {
                Ok(Some((t, c))) => format!("ok {} rest={}", tag_info(t, c), s.len()),
                Ok(None) => format!("none rest={}", s.len()),
                Err(e) => err_str(&e),
            }
        }
        "tag.takeif" => {
            let cls: usize = toks.get(1)?.parse().ok()?;
            let num: u32 = toks.get(2)?.parse().ok()?;
            let data = of_hex(toks.get(3)?)?;
            let t = tag_of(cls, num);
            let mut s = SliceSource::new(&data);
            match t.take_from_if(&mut s) {
                Ok(Some(c)) => format!("some c={} rest={}", b01(c), s.len()),
                Ok(None) => format!("none rest={}", s.len()),
                Err(e) => err_str(&e),
            }
        }
        "len.write" => {
            let n: usize = toks.get(1)?.parse().ok()?;
            let mut w = Vec::new();
            bcder::encode::write_header(&mut w, Tag::OCTET_STRING, false, n).unwrap();
            let total = bcder::encode::total_encoded_len(Tag::OCTET_STRING, n);
            format!("ok {} total={}", to_hex(&w[1..]), total)
        }
        "len.read" => {
            // observe what the length octets were read as, through the public API only
            let mode = parse_mode(toks.get(1)?)?;
            let hex = of_hex(toks.get(2)?)?;
            let mut a = vec![0x04u8];
            a.extend_from_slice(&hex);
            let rem = std::cell::Cell::new(None);
            let _ = mode.decode(a.as_slice(), |cons| {
                cons.take_value(|_, content| {
                    if let bcder::decode::Content::Primitive(p) = content {
                        rem.set(Some(p.remaining()));
                    }
                    Ok(())
                })
            });
            if let Some(n) = rem.get() {
                format!("def {}", n)
            } else {
                let mut b = vec![0x24u8];
                b.extend_from_slice(&hex);
                let seen = std::cell::Cell::new(false);
                let _ = mode.decode(b.as_slice(), |cons| {
                    cons.take_value(|_, content| {
                        if content.is_constructed() { seen.set(true); }
                        Ok(())
                    })
                });
                if seen.get() { "indef".into() } else { "err content".into() }
            }
        }
        "run" => {
            let mode = parse_mode(toks.get(1)?)?;
            let src = *toks.get(2)?;
            let data = of_hex(toks.get(3)?)?;
            let mut t = Toks::new(toks[4..].to_vec());
            let steps = parse_steps(&mut t, false)?;
            run_script(mode, src, data, &steps)
        }
        "prim" => {
            let mode = parse_mode(toks.get(1)?)?;
            let data = of_hex(toks.get(2)?)?;
            let mut v = toks[3..].to_vec();
            v.push("]");
            let mut t = Toks::new(v);
            let ops = parse_prim_ops(&mut t)?;
            if !t.at_end() { return None; }
            let mut x = Ctx::default();
            let r = Primitive::decode_slice(&data, mode, |prim| run_prim_body(prim, &ops, &mut x));
            match r {
                Ok(()) => format!("ok {}", x.trace.join(" ")),
                Err(e) => err_str(&e),
            }
        }
        "int.enc" => {
            let ty = parse_int_ty(toks.get(1)?)?;
            enc_int(ty, toks.get(2)?)?
        }
        _ => return None,
    })
}

