//! request dispatch
use crate::script::*;
use crate::stream::*;
use crate::util::*;
use bcder::decode::{BytesSource, Constructed, DecodeError, Primitive, SliceSource};
use bcder::encode::PrimitiveContent;
use bcder::{Mode, Tag};
use bytes::Bytes;

pub fn err_str<E: std::fmt::Display>(e: &DecodeError<E>) -> String {
    if format!("{}", e) == "SRCFAIL" {
        "err source".into()
    } else {
        "err content".into()
    }
}

fn tag_of(cls: usize, num: u32) -> Tag {
    match cls {
        0 => Tag::universal(num),
        1 => Tag::application(num),
        2 => Tag::ctx(num),
        _ => Tag::private(num),
    }
}

fn cls_of(t: Tag) -> usize {
    if t.is_universal() { 0 } else if t.is_application() { 1 } else if t.is_context_specific() { 2 } else { 3 }
}

fn tag_info(t: Tag, c: bool) -> String {
    let cls = cls_of(t);
    // is_* must agree on exactly one class
    let n_cls = [t.is_universal(), t.is_application(), t.is_context_specific(), t.is_private()]
        .iter().filter(|x| **x).count();
    let num = t.number();
    let canon = n_cls == 1 && num <= 0x1f_ffff && tag_of(cls, num) == t;
    format!("id={} c={} num={} cls={} canon={}", tag_trace(t, c), b01(c), num, cls, b01(canon))
}

pub fn parse_policy(s: &str) -> Option<Policy> {
    if s == "stingy" { return Some(Policy::Stingy); }
    if s == "all" { return Some(Policy::All); }
    if let Some(k) = s.strip_prefix("plus") { return Some(Policy::Plus(k.parse().ok()?)); }
    if let Some(k) = s.strip_prefix("chunk") { return Some(Policy::Chunk(k.parse::<usize>().ok()?.max(1))); }
    if let Some(k) = s.strip_prefix("rand") { return Some(Policy::Rand(k.parse().ok()?)); }
    None
}

fn finish<E: std::fmt::Display>(r: Result<(), DecodeError<E>>, x: &Ctx, rest: Option<usize>) -> String {
    if x.unsupported {
        return "unsupported".into();
    }
    match r {
        Ok(()) => match rest {
            Some(n) => format!("ok {} | rest={}", x.trace.join(" "), n),
            None => format!("ok {} | rest=?", x.trace.join(" ")),
        },
        Err(e) => err_str(&e),
    }
}

fn run_script(mode: Mode, src: &str, data: Vec<u8>, steps: &[Step]) -> String {
    let mut x = Ctx::default();
    match src {
        "slice" => {
            let mut s = SliceSource::new(&data);
            let r = mode.decode(&mut s, |cons| run_steps::<_, N3>(cons, steps, &mut x));
            finish(r, &x, Some(s.len()))
        }
        "slicev" => {
            let r = mode.decode(data.as_slice(), |cons| run_steps::<_, N3>(cons, steps, &mut x));
            finish(r, &x, None)
        }
        "bytes" => {
            let mut s = BytesSource::new(Bytes::from(data));
            let r = mode.decode(&mut s, |cons| run_steps::<_, N3>(cons, steps, &mut x));
            finish(r, &x, Some(s.len()))
        }
        "bytesv" => {
            let r = mode.decode(Bytes::from(data), |cons| run_steps::<_, N3>(cons, steps, &mut x));
            finish(r, &x, None)
        }
        "constructed" => {
            // Constructed::decode instead of Mode::decode
            let mut s = SliceSource::new(&data);
            let r = Constructed::decode(&mut s, mode, |cons| run_steps::<_, N3>(cons, steps, &mut x));
            finish(r, &x, Some(s.len()))
        }
        _ if src.starts_with("osrc") => {
            // the input is the content of an OCTET STRING used as the source (`osrc<k>`: segments of
            // k octets in an indefinite constructed encoding; k = 0: primitive)
            let k: usize = match src[4..].parse() { Ok(k) => k, Err(_) => return "bad-op".into() };
            let enc = wrap_octet_string(&data, k);
            let os = match Mode::Ber.decode(enc.as_slice(), |cons| bcder::OctetString::take_from(cons)) {
                Ok(os) => os,
                Err(_) => return "bad-op".into(),
            };
            let r = mode.decode(os, |cons| run_steps::<_, N3>(cons, steps, &mut x));
            finish(r, &x, None)
        }
        _ => {
            // streaming sources: "<policy>", "fail<k>:<policy>", "count:<policy>"
            if let Some(rest) = src.strip_prefix("fail") {
                let mut it = rest.splitn(2, ':');
                let k: usize = match it.next().and_then(|k| k.parse().ok()) { Some(k) => k, None => return "bad-op".into() };
                let pol = match it.next().and_then(parse_policy) { Some(p) => p, None => return "bad-op".into() };
                let mut s = StreamSource::new(data, pol, Some(k));
                let r = mode.decode(&mut s, |cons| run_steps::<_, N3>(cons, steps, &mut x));
                let issued = s.requests;
                let base = finish(r, &x, Some(s.remaining()));
                return format!("{} | requests={}", base, issued);
            }
            if let Some(p) = src.strip_prefix("count:") {
                let pol = match parse_policy(p) { Some(p) => p, None => return "bad-op".into() };
                let mut s = StreamSource::new(data, pol, None);
                let r = mode.decode(&mut s, |cons| run_steps::<_, N3>(cons, steps, &mut x));
                let issued = s.requests;
                let base = finish(r, &x, Some(s.remaining()));
                return format!("{} | requests={}", base, issued);
            }
            let pol = match parse_policy(src) { Some(p) => p, None => return "bad-op".into() };
            let mut s = StreamSource::new(data, pol, None);
            let r = mode.decode(&mut s, |cons| run_steps::<_, N3>(cons, steps, &mut x));
            finish(r, &x, Some(s.remaining()))
        }
    }
}

fn def_len(n: usize) -> Vec<u8> {
    if n < 128 { vec![n as u8] }
    else {
        let mut v = vec![];
        let mut m = n;
        while m > 0 { v.insert(0, (m & 0xff) as u8); m >>= 8; }
        let mut out = vec![0x80 | v.len() as u8];
        out.extend(v);
        out
    }
}

pub fn wrap_octet_string(data: &[u8], k: usize) -> Vec<u8> {
    let mut enc = Vec::new();
    if k == 0 {
        enc.push(0x04);
        enc.extend(def_len(data.len()));
        enc.extend_from_slice(data);
    } else {
        enc.extend_from_slice(&[0x24, 0x80]);
        for chunk in data.chunks(k) {
            enc.push(0x04);
            enc.extend(def_len(chunk.len()));
            enc.extend_from_slice(chunk);
        }
        enc.extend_from_slice(&[0, 0]);
    }
    enc
}

/// C08: the routine issues r requests on a fault-free stingy source; with the k-th request failing
/// (every k < r, at most `cap` evenly chosen) the result must be the injected source error, or be
/// identical to the fault-free result when the routine stops before request k.
fn fault_sweep(mode: Mode, pol: Policy, data: Vec<u8>, steps: &[Step], cap: usize) -> String {
    let mut x0 = Ctx::default();
    let mut s0 = StreamSource::new(data.clone(), pol, None);
    let r0 = mode.decode(&mut s0, |cons| run_steps::<_, N3>(cons, steps, &mut x0));
    let total = s0.requests;
    let base = finish(r0, &x0, Some(s0.remaining()));
    let ks: Vec<usize> = if total <= cap { (0..total).collect() } else {
        let mut v: Vec<usize> = (0..cap).map(|i| i * total / cap).collect();
        v.push(total - 1);
        v.dedup();
        v
    };
    let mut checked = 0;
    for k in ks {
        let mut x = Ctx::default();
        let mut s = StreamSource::new(data.clone(), pol, Some(k));
        let r = mode.decode(&mut s, |cons| run_steps::<_, N3>(cons, steps, &mut x));
        let fired = s.requests > k;
        let ans = finish(r, &x, Some(s.remaining()));
        checked += 1;
        if fired {
            if ans != "err source" {
                return format!("FAULTBAD k={} of {} got=[{}] base=[{}]", k, total, ans, base);
            }
        } else if ans != base {
            return format!("FAULTBAD k={} of {} (not reached) got=[{}] base=[{}]", k, total, ans, base);
        }
    }
    // one past the end must change nothing
    format!("ok requests={} checked={} base=[{}]", total, checked, base)
}

fn enc_int(ty: IntTy, v: &str) -> Option<String> {
    fn go<P: PrimitiveContent>(p: P) -> String {
        let l = p.encoded_len(Mode::Der);
        let mut w = Vec::new();
        p.write_encoded(Mode::Der, &mut w).unwrap();
        // the three modes must agree for integers
        let mut w2 = Vec::new();
        p.write_encoded(Mode::Ber, &mut w2).unwrap();
        let mut w3 = Vec::new();
        p.write_encoded(Mode::Cer, &mut w3).unwrap();
        if w2 != w || w3 != w || p.encoded_len(Mode::Ber) != l || p.encoded_len(Mode::Cer) != l {
            return format!("ok MODEDIFF {} {} {}", to_hex(&w), to_hex(&w2), to_hex(&w3));
        }
        format!("ok {} len={}", to_hex(&w), l)
    }
    Some(match ty {
        IntTy::I8 => go(v.parse::<i8>().ok()?),
        IntTy::I16 => go(v.parse::<i16>().ok()?),
        IntTy::I32 => go(v.parse::<i32>().ok()?),
        IntTy::I64 => go(v.parse::<i64>().ok()?),
        IntTy::I128 => go(v.parse::<i128>().ok()?),
        IntTy::U8 => go(v.parse::<u8>().ok()?),
        IntTy::U16 => go(v.parse::<u16>().ok()?),
        IntTy::U32 => go(v.parse::<u32>().ok()?),
        IntTy::U64 => go(v.parse::<u64>().ok()?),
        IntTy::U128 => go(v.parse::<u128>().ok()?),
    })
}

pub fn handle(line: &str) -> String {
    let toks: Vec<&str> = line.split_ascii_whitespace().collect();
    if toks.is_empty() {
        return "bad-op".into();
    }
    match handle_toks(&toks) {
        Some(s) => s,
        None => "bad-op".into(),
    }
}

fn handle_toks(toks: &[&str]) -> Option<String> {
    Some(match toks[0] {
        "tag.new" => {
            let cls: usize = toks.get(1)?.parse().ok()?;
            let num: u32 = toks.get(2)?.parse().ok()?;
            let t = tag_of(cls, num);
            format!(
                "ok w0={} w1={} len={} num={} cls={}",
                tag_trace(t, false), tag_trace(t, true), t.encoded_len(), t.number(), cls_of(t)
            )
        }
        "tag.const" => {
            let t = match *toks.get(1)? {
                "END_OF_VALUE" => Tag::END_OF_VALUE,
                "BOOLEAN" => Tag::BOOLEAN,
                "INTEGER" => Tag::INTEGER,
                "BIT_STRING" => Tag::BIT_STRING,
                "OCTET_STRING" => Tag::OCTET_STRING,
                "NULL" => Tag::NULL,
                "OID" => Tag::OID,
                "OBJECT_DESCRIPTOR" => Tag::OBJECT_DESCRIPTOR,
                "EXTERNAL" => Tag::EXTERNAL,
                "REAL" => Tag::REAL,
                "ENUMERATED" => Tag::ENUMERATED,
                "EMBEDDED_PDV" => Tag::EMBEDDED_PDV,
                "UTF8_STRING" => Tag::UTF8_STRING,
                "RELATIVE_OID" => Tag::RELATIVE_OID,
                "TIME" => Tag::TIME,
                "SEQUENCE" => Tag::SEQUENCE,
                "SET" => Tag::SET,
                "NUMERIC_STRING" => Tag::NUMERIC_STRING,
                "PRINTABLE_STRING" => Tag::PRINTABLE_STRING,
                "TELETEX_STRING" => Tag::TELETEX_STRING,
                "VIDEOTEX_STRING" => Tag::VIDEOTEX_STRING,
                "IA5_STRING" => Tag::IA5_STRING,
                "UTC_TIME" => Tag::UTC_TIME,
                "GENERALIZED_TIME" => Tag::GENERALIZED_TIME,
                "GRAPHIC_STRING" => Tag::GRAPHIC_STRING,
                "VISIBLE_STRING" => Tag::VISIBLE_STRING,
                "GENERAL_STRING" => Tag::GENERAL_STRING,
                "UNIVERSAL_STRING" => Tag::UNIVERSAL_STRING,
                "CHARACTER_STRING" => Tag::CHARACTER_STRING,
                "BMP_STRING" => Tag::BMP_STRING,
                "DATE" => Tag::DATE,
                "TIME_OF_DAY" => Tag::TIME_OF_DAY,
                "DATE_TIME" => Tag::DATE_TIME,
                "DURATION" => Tag::DURATION,
                "OID_IRI" => Tag::OID_IRI,
                "RELATIVE_OID_IRI" => Tag::RELATIVE_OID_IRI,
                "CTX_0" => Tag::CTX_0,
                "CTX_1" => Tag::CTX_1,
                "CTX_2" => Tag::CTX_2,
                "CTX_3" => Tag::CTX_3,
                "CTX_4" => Tag::CTX_4,
                "CTX_5" => Tag::CTX_5,
                "CTX_6" => Tag::CTX_6,
                _ => return None,
            };
            // the constant as a VALUE: equal to the tag built from its class and number, and matched by a
            // tag-selective read of an empty primitive value written under it
            let built = tag_of(cls_of(t) as usize, t.number());
            let mut enc = Vec::new();
            built.write_encoded(false, &mut enc).unwrap();
            enc.push(0);
            let matched = Mode::Ber.decode(SliceSource::new(&enc), |cons| {
                cons.take_opt_primitive_if(t, |prim| prim.skip_all())
            }).map(|r| r.is_some()).unwrap_or(false);
            format!(
                "ok w0={} w1={} len={} num={} cls={} eq={} m={}",
                tag_trace(t, false), tag_trace(t, true), t.encoded_len(), t.number(), cls_of(t),
                if t == built { 1 } else { 0 }, if matched || t == Tag::END_OF_VALUE { 1 } else { 0 }
            )
        }
        "tag.take" => {
            let data = of_hex(toks.get(1)?)?;
            let mut s = SliceSource::new(&data);
            match Tag::take_from(&mut s) {
                Ok((t, c)) => format!("ok {} rest={}", tag_info(t, c), s.len()),
                Err(e) => err_str(&e),
            }
        }
        "tag.takeopt" => {
            let data = of_hex(toks.get(1)?)?;
            let mut s = SliceSource::new(&data);
            match Tag::take_opt_from(&mut s) {
                Ok(Some((t, c))) => format!("ok {} rest={}", tag_info(t, c), s.len()),
                Ok(None) => format!("none rest={}", s.len()),
                Err(e) => err_str(&e),
            }
        }
        "tag.takeif" => {
            let cls: usize = toks.get(1)?.parse().ok()?;
            let num: u32 = toks.get(2)?.parse().ok()?;
            let data = of_hex(toks.get(3)?)?;
            let t = tag_of(cls, num);
            let mut s = SliceSource::new(&data);
            match t.take_from_if(&mut s) {
                Ok(Some(c)) => format!("some c={} rest={}", b01(c), s.len()),
                Ok(None) => format!("none rest={}", s.len()),
                Err(e) => err_str(&e),
            }
        }
        "len.write" => {
            let n: usize = toks.get(1)?.parse().ok()?;
            let mut w = Vec::new();
            bcder::encode::write_header(&mut w, Tag::OCTET_STRING, false, n).unwrap();
            let total = bcder::encode::total_encoded_len(Tag::OCTET_STRING, n);
            format!("ok {} total={}", to_hex(&w[1..]), total)
        }
        "len.read" => {
            // observe what the length octets were read as, through the public API only
            let mode = parse_mode(toks.get(1)?)?;
            let hex = of_hex(toks.get(2)?)?;
            let mut a = vec![0x04u8];
            a.extend_from_slice(&hex);
            let rem = std::cell::Cell::new(None);
            let _ = mode.decode(a.as_slice(), |cons| {
                cons.take_value(|_, content| {
                    if let bcder::decode::Content::Primitive(p) = content {
                        rem.set(Some(p.remaining()));
                    }
                    Ok(())
                })
            });
            if let Some(n) = rem.get() {
                format!("def {}", n)
            } else {
                let mut b = vec![0x24u8];
                b.extend_from_slice(&hex);
                let seen = std::cell::Cell::new(false);
                let _ = mode.decode(b.as_slice(), |cons| {
                    cons.take_value(|_, content| {
                        if content.is_constructed() { seen.set(true); }
                        Ok(())
                    })
                });
                if seen.get() { "indef".into() } else { "err content".into() }
            }
        }
        "run" => {
            let mode = parse_mode(toks.get(1)?)?;
            let src = *toks.get(2)?;
            let data = of_hex(toks.get(3)?)?;
            let mut t = Toks::new(toks[4..].to_vec());
            let steps = parse_steps(&mut t, false)?;
            run_script(mode, src, data, &steps)
        }
        "enc" => {
            let mode = parse_mode(toks.get(1)?)?;
            let mut p = crate::enc::P { t: &toks[2..], i: 0 };
            let v = crate::enc::parse_v(&mut p)?;
            if p.i != toks.len() - 2 { return None; }
            let (l, w) = crate::enc::encode(&v, mode);
            format!("ok len={} {}", l, to_hex(&w))
        }
        "rt" => {
            // rt <mode> <encoder tree> ;; <script> : encode with the real combinators, decode the
            // produced octets with the real readers in the same mode (DER output also in BER mode)
            let mode = parse_mode(toks.get(1)?)?;
            let sep = toks.iter().position(|t| *t == ";;")?;
            let mut p = crate::enc::P { t: &toks[2..sep], i: 0 };
            let v = crate::enc::parse_v(&mut p)?;
            if p.i != sep - 2 { return None; }
            let mut t = Toks::new(toks[sep + 1..].to_vec());
            let steps = parse_steps(&mut t, false)?;
            let (l, w) = crate::enc::encode(&v, mode);
            let a = run_script(mode, "slice", w.clone(), &steps);
            let mut out = format!("ok len={} enc={} dec=[{}]", l, to_hex(&w), a);
            if mode == Mode::Der {
                out.push_str(&format!(" ber=[{}]", run_script(Mode::Ber, "slice", w, &steps)));
            }
            out
        }
        "faultsweep" => {
            let mode = parse_mode(toks.get(1)?)?;
            let pol = parse_policy(toks.get(2)?)?;
            let data = of_hex(toks.get(3)?)?;
            let mut t = Toks::new(toks[4..].to_vec());
            let steps = parse_steps(&mut t, false)?;
            fault_sweep(mode, pol, data, &steps, 48)
        }
        "prim" => {
            let mode = parse_mode(toks.get(1)?)?;
            let data = of_hex(toks.get(2)?)?;
            let mut v = toks[3..].to_vec();
            v.push("]");
            let mut t = Toks::new(v);
            let ops = parse_prim_ops(&mut t)?;
            if !t.at_end() { return None; }
            let mut x = Ctx::default();
            let r = Primitive::decode_slice(&data, mode, |prim| run_prim_body(prim, &ops, &mut x));
            match r {
                Ok(()) => format!("ok {}", x.trace.join(" ")),
                Err(e) => err_str(&e),
            }
        }
        "int.enc" => {
            let ty = parse_int_ty(toks.get(1)?)?;
            enc_int(ty, toks.get(2)?)?
        }
        _ => return handle_leaf(toks),
    })
}


//================================================================== leaf value ops
mod leaf {
    use super::*;
    use bcder::decode::Constructed;
    use bcder::string::{BitString, OctetString, Ia5String, NumericString, PrintableString, Utf8String};
    use bcder::{Integer, Oid, Unsigned};
    use std::collections::hash_map::DefaultHasher;
    use std::convert::TryFrom;
    use std::hash::{Hash, Hasher};
    use std::str::FromStr;

    /// A hasher that is sensitive to HOW the octets are fed (`write(b"ab")` differs from two `write_u8`):
    /// `Hasher` promises nothing else, and word-at-a-time hashers (Fx and the like) behave so. Equal values
    /// must make the same sequence of calls.
    struct Granular(u64);
    impl std::hash::Hasher for Granular {
        fn finish(&self) -> u64 { self.0 }
        fn write(&mut self, bytes: &[u8]) {
            self.0 = self.0.wrapping_mul(0x100000001b3) ^ (bytes.len() as u64 + 0x9e37);
            for b in bytes { self.0 = self.0.wrapping_mul(0x100000001b3) ^ (*b as u64); }
        }
    }

    pub fn hash_of<T: Hash>(t: &T) -> u64 {
        let mut h = DefaultHasher::new();
        t.hash(&mut h);
        let mut g = Granular(0xcbf29ce484222325);
        t.hash(&mut g);
        h.finish() ^ g.finish().rotate_left(17)
    }

    pub fn ord_str(o: std::cmp::Ordering) -> &'static str {
        match o {
            std::cmp::Ordering::Less => "lt",
            std::cmp::Ordering::Equal => "eq",
            std::cmp::Ordering::Greater => "gt",
        }
    }

    pub fn integer_of(content: &[u8]) -> Option<Integer> {
        Primitive::decode_slice(content, Mode::Der, |p| Integer::from_primitive(p)).ok()
    }
    pub fn unsigned_of(content: &[u8]) -> Option<Unsigned> {
        Primitive::decode_slice(content, Mode::Der, |p| Unsigned::from_primitive(p)).ok()
    }

    fn conv<T: std::fmt::Display, E>(r: Result<T, E>) -> String {
        match r {
            Ok(v) => format!("{}", v),
            Err(_) => "ovf".into(),
        }
    }

    pub fn big_conv(i: &Integer) -> String {
        format!(
            "i8={} i16={} i32={} i64={} i128={} u8={} u16={} u32={} u64={} u128={}",
            conv(i8::try_from(i)), conv(i16::try_from(i)), conv(i32::try_from(i)), conv(i64::try_from(i)),
            conv(i128::try_from(i)), conv(u8::try_from(i)), conv(u16::try_from(i)), conv(u32::try_from(i)),
            conv(u64::try_from(i)), conv(u128::try_from(i))
        )
    }
    pub fn ubig_conv(i: &Unsigned) -> String {
        format!(
            "i8={} i16={} i32={} i64={} i128={} u8={} u16={} u32={} u64={} u128={}",
            conv(i8::try_from(i)), conv(i16::try_from(i)), conv(i32::try_from(i)), conv(i64::try_from(i)),
            conv(i128::try_from(i)), conv(u8::try_from(i)), conv(u16::try_from(i)), conv(u32::try_from(i)),
            conv(u64::try_from(i)), conv(u128::try_from(i))
        )
    }

    pub fn big_from(ty: IntTy, v: &str) -> Option<String> {
        fn both<T: Copy>(v: T) -> String
        where Integer: From<T>, Unsigned: From<T> {
            let a = Integer::from(v);
            let b = Unsigned::from(v);
            if a.as_slice() != b.as_slice() {
                return format!("DIFF {} {}", to_hex(a.as_slice()), to_hex(b.as_slice()));
            }
            to_hex(a.as_slice())
        }
        Some(format!("ok {}", match ty {
            IntTy::I8 => to_hex(Integer::from(v.parse::<i8>().ok()?).as_slice()),
            IntTy::I16 => to_hex(Integer::from(v.parse::<i16>().ok()?).as_slice()),
            IntTy::I32 => to_hex(Integer::from(v.parse::<i32>().ok()?).as_slice()),
            IntTy::I64 => to_hex(Integer::from(v.parse::<i64>().ok()?).as_slice()),
            IntTy::I128 => to_hex(Integer::from(v.parse::<i128>().ok()?).as_slice()),
            IntTy::U8 => both(v.parse::<u8>().ok()?),
            IntTy::U16 => both(v.parse::<u16>().ok()?),
            IntTy::U32 => both(v.parse::<u32>().ok()?),
            IntTy::U64 => both(v.parse::<u64>().ok()?),
            IntTy::U128 => both(v.parse::<u128>().ok()?),
        }))
    }

    pub fn uns_frombytes(data: &[u8]) -> String {
        let a = Unsigned::from_slice(data).ok().map(|u| u.as_slice().to_vec());
        let b = Unsigned::from_bytes(Bytes::copy_from_slice(data)).ok().map(|u| u.as_slice().to_vec());
        let c = Unsigned::try_from(Bytes::copy_from_slice(data)).ok().map(|u| u.as_slice().to_vec());
        if a != b || b != c {
            return "DIFF".into();
        }
        match a {
            Some(v) => format!("ok {}", to_hex(&v)),
            None => "err".into(),
        }
    }

    /// decode one OCTET STRING from a complete encoding
    pub fn os_of(mode: Mode, enc: &[u8]) -> Option<OctetString> {
        mode.decode(enc, |cons| OctetString::take_from(cons)).ok()
    }

    pub fn os_views(os: &OctetString) -> String {
        let segs: Vec<String> = os.iter().map(to_hex).collect();
        let octets: Vec<u8> = os.octets().collect();
        format!(
            "segs={} bytes={} into={} len={} empty={} octets={} slice={} src={}",
            if segs.is_empty() { "none".into() } else { segs.join(",") },
            to_hex(os.to_bytes().as_ref()),
            to_hex(os.clone().into_bytes().as_ref()),
            os.len(),
            b01(os.is_empty()),
            to_hex(&octets),
            match os.as_slice() { Some(s) => to_hex(s), None => "none".into() },
            to_hex(&os_drain(os))
        )
    }

    /// the value read through `into_source()`: request 1, 2, 3, 5, 1, … octets at a time
    pub fn os_drain(os: &OctetString) -> Vec<u8> {
        use bcder::decode::{Source, IntoSource};
        let mut src = os.clone().into_source();
        let mut out = Vec::new();
        let ks = [1usize, 2, 3, 5];
        let mut i = 0;
        loop {
            let k = ks[i % 4];
            i += 1;
            let n = match src.request(k) { Ok(n) => n, Err(_) => break };
            if n == 0 { break }
            let t = std::cmp::min(n, k);
            out.extend_from_slice(&src.slice()[..t]);
            src.advance(t);
            if out.len() > 1 << 22 { break }
        }
        out
    }

    pub fn os_cmp(a: &OctetString, b: &OctetString) -> String {
        let c = a.cmp(b);
        let pc = a.partial_cmp(b);
        format!(
            "cmp={} pcmp={} eq={} hasheq={}",
            ord_str(c),
            pc.map(ord_str).unwrap_or("none"),
            b01(a == b),
            b01(hash_of(a) == hash_of(b))
        )
    }

    pub fn os_cmps(a: &OctetString, t: &[u8]) -> String {
        let v: Vec<u8> = t.to_vec();
        let pc: Option<std::cmp::Ordering> = a.partial_cmp(&v);
        format!("eq={} pcmp={}", b01(*a == v), pc.map(ord_str).unwrap_or("none"))
    }

    pub fn chars_str<I: Iterator<Item = char>>(it: I) -> String {
        let v: Vec<String> = it.map(|c| format!("{}", c as u32)).collect();
        if v.is_empty() { "-".into() } else { v.join(",") }
    }

    pub fn cs_chars(cs: Cs, mode: Mode, enc: &[u8]) -> String {
        macro_rules! go {
            ($t:ty) => {{
                match mode.decode(enc, |cons| <$t>::take_from(cons)) {
                    Ok(s) => format!("ok chars={} disp={}", chars_str(s.chars()), to_hex(s.to_string().as_bytes())),
                    Err(e) => err_str(&e),
                }
            }};
        }
        match cs {
            Cs::Utf8 => go!(Utf8String),
            Cs::Num => go!(NumericString),
            Cs::Print => go!(PrintableString),
            Cs::Ia5 => go!(Ia5String),
        }
    }

    pub fn cs_fromstr(cs: Cs, text: &str) -> String {
        macro_rules! go {
            ($t:ty) => {{
                let a = <$t>::from_str(text).ok();
                let b = <$t>::from_string(text.to_string()).ok();
                match (a, b) {
                    (Some(a), Some(b)) => {
                        if a != b { return "DIFF".into(); }
                        format!("ok {} chars={}", to_hex(a.to_bytes().as_ref()), chars_str(a.chars()))
                    }
                    (None, None) => "err".into(),
                    _ => "DIFF".into(),
                }
            }};
        }
        match cs {
            Cs::Utf8 => go!(Utf8String),
            Cs::Num => go!(NumericString),
            Cs::Print => go!(PrintableString),
            Cs::Ia5 => go!(Ia5String),
        }
    }

    pub fn cs_new(cs: Cs, mode: Mode, enc: &[u8]) -> String {
        let os = match os_of(mode, enc) { Some(o) => o, None => return "err content".into() };
        macro_rules! go {
            ($t:ty) => {{
                match <$t>::new(os) {
                    Ok(s) => format!("ok chars={}", chars_str(s.chars())),
                    Err(_) => "err charset".into(),
                }
            }};
        }
        match cs {
            Cs::Utf8 => go!(Utf8String),
            Cs::Num => go!(NumericString),
            Cs::Print => go!(PrintableString),
            Cs::Ia5 => go!(Ia5String),
        }
    }

    pub fn oid_show(content: &[u8]) -> String {
        let oid = Oid(Bytes::copy_from_slice(content));
        let arcs: Vec<String> = oid.iter().map(|c| match c.to_u32() {
            Some(v) => format!("{}", v),
            None => "big".into(),
        }).collect();
        format!("ok txt={} arcs={}", to_hex(format!("{}", oid).as_bytes()), arcs.join(","))
    }

    pub fn oid_parse(text: &str) -> String {
        match Oid::<Bytes>::from_str(text) {
            Ok(o) => format!("ok {}", to_hex(o.0.as_ref())),
            Err(_) => "err".into(),
        }
    }

    pub fn oid_eq(a: &[u8], b: &[u8]) -> String {
        let x = Oid(Bytes::copy_from_slice(a));
        let y = Oid(Bytes::copy_from_slice(b));
        format!("eq={} hasheq={}", b01(x == y), b01(hash_of(&x) == hash_of(&y)))
    }

    pub fn bits_bit(unused: u8, bits: &[u8], from: usize, to: usize) -> String {
        let b = BitString::new(unused, Bytes::copy_from_slice(bits));
        let mut s = String::new();
        for i in from..to {
            s.push(if b.bit(i) { '1' } else { '0' });
        }
        let octs: Vec<u8> = b.octets().collect();
        format!(
            "len={} unused={} olen={} bits={} octets={} slice={} obytes={}",
            b.bit_len(), b.unused(), b.octet_len(), if s.is_empty() { "-".into() } else { s },
            to_hex(&octs), to_hex(b.octet_slice().unwrap()), to_hex(b.octet_bytes().as_ref())
        )
    }

    #[allow(dead_code)]
    pub fn unused(_: &mut Constructed<bcder::decode::SliceSource>) {}
}

pub fn integer_of_pub(c: &[u8]) -> Option<bcder::Integer> { leaf::integer_of(c) }
pub fn unsigned_of_pub(c: &[u8]) -> Option<bcder::Unsigned> { leaf::unsigned_of(c) }

pub fn handle_leaf(toks: &[&str]) -> Option<String> {
    use leaf::*;
    Some(match toks[0] {
        "big.cmp" => {
            let a = of_hex(toks.get(1)?)?;
            let b = of_hex(toks.get(2)?)?;
            match (integer_of(&a), integer_of(&b)) {
                (Some(x), Some(y)) => format!(
                    "cmp={} pcmp={} eq={} hasheq={}",
                    ord_str(x.cmp(&y)), x.partial_cmp(&y).map(ord_str).unwrap_or("none"),
                    b01(x == y), b01(hash_of(&x) == hash_of(&y))
                ),
                _ => "invalid".into(),
            }
        }
        "big.pred" => {
            let a = of_hex(toks.get(1)?)?;
            match integer_of(&a) {
                Some(x) => format!("z={} p={} n={}", b01(x.is_zero()), b01(x.is_positive()), b01(x.is_negative())),
                None => "invalid".into(),
            }
        }
        "big.conv" => {
            let a = of_hex(toks.get(1)?)?;
            match integer_of(&a) { Some(x) => big_conv(&x), None => "invalid".into() }
        }
        "ubig.conv" => {
            let a = of_hex(toks.get(1)?)?;
            match unsigned_of(&a) {
                Some(x) => format!("{} z={}", ubig_conv(&x), b01(x.is_zero())),
                None => "invalid".into(),
            }
        }
        "big.from" => big_from(parse_int_ty(toks.get(1)?)?, toks.get(2)?)?,
        "uns.frombytes" => uns_frombytes(&of_hex(toks.get(1)?)?),
        "os.views" => {
            let mode = parse_mode(toks.get(1)?)?;
            match os_of(mode, &of_hex(toks.get(2)?)?) { Some(os) => format!("ok {}", os_views(&os)), None => "err content".into() }
        }
        "oss.calls" => {
            use bcder::decode::{Source, IntoSource};
            let mode = parse_mode(toks.get(1)?)?;
            match os_of(mode, &of_hex(toks.get(2)?)?) {
                None => "err content".into(),
                Some(os) => {
                    let mut src = os.into_source();
                    let mut granted = src.slice().len();
                    let mut out: Vec<String> = Vec::new();
                    for t in &toks[3..] {
                        let n: usize = if t.len() > 1 { t[1..].parse().ok()? } else { 0 };
                        if t.starts_with('r') {
                            match src.request(n) {
                                Ok(g) => { granted = g; out.push(format!("g{}:{}", g, to_hex(src.slice()))); }
                                Err(_) => { out.push("refused".into()); break }
                            }
                        } else if t.starts_with('a') {
                            let k = std::cmp::min(n, granted);
                            src.advance(k);
                            granted -= k;
                            out.push(format!("a:{}", to_hex(src.slice())));
                        } else if t.starts_with('u') {
                            // the provided method `take_opt_u8` as the source implements it
                            match src.take_opt_u8() {
                                Ok(Some(b)) => { out.push(format!("u{:02x}:{}", b, to_hex(src.slice()))); }
                                Ok(None) => { out.push(format!("unone:{}", to_hex(src.slice()))); }
                                Err(_) => { out.push("refused".into()); break }
                            }
                            granted = src.slice().len();
                        } else if t.starts_with('k') {
                            // the provided method `skip`
                            match src.skip(n) {
                                Ok(r) => { out.push(format!("k{}:{}", r, to_hex(src.slice()))); }
                                Err(_) => { out.push("refused".into()); break }
                            }
                            granted = src.slice().len();
                        } else { return None }
                    }
                    format!("ok {}", out.join(" "))
                }
            }
        }
        "os.cmp" => {
            let mode = parse_mode(toks.get(1)?)?;
            match (os_of(mode, &of_hex(toks.get(2)?)?), os_of(mode, &of_hex(toks.get(3)?)?)) {
                (Some(a), Some(b)) => format!("ok {}", os_cmp(&a, &b)),
                _ => "err content".into(),
            }
        }
        "os.cmps" => {
            let mode = parse_mode(toks.get(1)?)?;
            match os_of(mode, &of_hex(toks.get(2)?)?) {
                Some(a) => format!("ok {}", os_cmps(&a, &of_hex(toks.get(3)?)?)),
                None => "err content".into(),
            }
        }
        "cs.chars" => cs_chars(parse_cs(toks.get(1)?)?, parse_mode(toks.get(2)?)?, &of_hex(toks.get(3)?)?),
        "cs.fromstr" => {
            let bytes = of_hex(toks.get(2)?)?;
            let text = String::from_utf8(bytes).ok()?;
            cs_fromstr(parse_cs(toks.get(1)?)?, &text)
        }
        "cs.new" => cs_new(parse_cs(toks.get(1)?)?, parse_mode(toks.get(2)?)?, &of_hex(toks.get(3)?)?),
        "oid.show" => oid_show(&of_hex(toks.get(1)?)?),
        "oid.parse" => {
            let text = String::from_utf8(of_hex(toks.get(1)?)?).ok()?;
            oid_parse(&text)
        }
        "oid.eq" => oid_eq(&of_hex(toks.get(1)?)?, &of_hex(toks.get(2)?)?),
        "bits.bit" => {
            let unused: u8 = toks.get(1)?.parse().ok()?;
            bits_bit(unused, &of_hex(toks.get(2)?)?, toks.get(3)?.parse().ok()?, toks.get(4)?.parse().ok()?)
        }
        _ => return None,
    })
}
