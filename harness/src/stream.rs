//! Contract-checking streaming `Source` implementations.
//!
//! `StreamSource` hands out its data according to a grant policy that stays within the trait
//! contract (`min(len, avail) <= granted <= avail`), cuts `slice()` to what has been granted,
//! and panics (message starting with `CONTRACT`) when the caller looks at, extracts or advances
//! over more than the last request granted. It can fail at the k-th request.
use bcder::decode::{Pos, Source};
use bytes::Bytes;
use std::fmt;

#[derive(Debug, Clone, Copy, PartialEq, Eq)]
pub struct TestErr;
impl fmt::Display for TestErr {
    fn fmt(&self, f: &mut fmt::Formatter) -> fmt::Result {
        f.write_str("SRCFAIL")
    }
}
impl std::error::Error for TestErr {}

#[derive(Debug, Clone, Copy)]
pub enum Policy {
    /// exactly `min(len, avail)`
    Stingy,
    /// `min(len + k, avail)`
    Plus(usize),
    /// buffer grows in chunks of `c`
    Chunk(usize),
    /// pseudo-random within the contract
    Rand(u64),
    /// everything
    All,
}

pub struct StreamSource {
    data: Vec<u8>,
    pos: usize,
    granted: usize,
    policy: Policy,
    pub requests: usize,
    pub fail_at: Option<usize>,
    rng: u64,
}

impl StreamSource {
    pub fn new(data: Vec<u8>, policy: Policy, fail_at: Option<usize>) -> Self {
        let rng = match policy {
            Policy::Rand(s) => s.wrapping_mul(6364136223846793005).wrapping_add(1442695040888963407),
            _ => 0,
        };
        StreamSource { data, pos: 0, granted: 0, policy, requests: 0, fail_at, rng }
    }
    pub fn remaining(&self) -> usize {
        self.data.len() - self.pos
    }
    fn next_rand(&mut self) -> u64 {
        self.rng ^= self.rng << 13;
        self.rng ^= self.rng >> 7;
        self.rng ^= self.rng << 17;
        self.rng
    }
}

impl Source for StreamSource {
    type Error = TestErr;

    fn pos(&self) -> Pos {
        self.pos.into()
    }

    fn request(&mut self, len: usize) -> Result<usize, TestErr> {
        let idx = self.requests;
        self.requests += 1;
        if self.fail_at == Some(idx) {
            return Err(TestErr);
        }
        let avail = self.data.len() - self.pos;
        let need = len.min(avail);
        let g = match self.policy {
            Policy::Stingy => need,
            Policy::Plus(k) => len.saturating_add(k).min(avail),
            Policy::Chunk(c) => {
                let up = need.div_ceil(c).saturating_mul(c);
                up.min(avail)
            }
            Policy::Rand(_) => {
                let extra = avail - need;
                if extra == 0 { need } else { need + (self.next_rand() as usize) % (extra + 1) }
            }
            Policy::All => avail,
        };
        if g > self.granted {
            self.granted = g;
        }
        Ok(self.granted)
    }

    fn slice(&self) -> &[u8] {
        &self.data[self.pos..self.pos + self.granted]
    }

    fn bytes(&self, start: usize, end: usize) -> Bytes {
        if start > self.granted || end > self.granted {
            panic!("CONTRACT bytes({}, {}) beyond granted {}", start, end, self.granted);
        }
        Bytes::copy_from_slice(&self.data[self.pos + start..self.pos + end])
    }

    fn advance(&mut self, len: usize) {
        if len > self.granted {
            panic!("CONTRACT advance({}) beyond granted {}", len, self.granted);
        }
        self.pos += len;
        self.granted -= len;
    }
}
