//! bcder_impl — line-protocol driver around the REAL bcder crate (path dependency on the tree
//! under verification). One request per line on stdin, one answer per line on stdout; same
//! protocol as /verif/lean/Driver.lean.
mod enc;
mod ops;
mod script;
mod stream;
mod util;

use std::alloc::{GlobalAlloc, Layout, System};
use std::io::{self, BufRead, Write};
use std::panic;
use std::sync::atomic::{AtomicUsize, Ordering};

/// counting allocator: current and peak live bytes (peak is reset per metered request)
struct Counting;
static LIVE: AtomicUsize = AtomicUsize::new(0);
static PEAK: AtomicUsize = AtomicUsize::new(0);
unsafe impl GlobalAlloc for Counting {
    unsafe fn alloc(&self, l: Layout) -> *mut u8 {
        let p = System.alloc(l);
        if !p.is_null() {
            let live = LIVE.fetch_add(l.size(), Ordering::Relaxed) + l.size();
            PEAK.fetch_max(live, Ordering::Relaxed);
        }
        p
    }
    unsafe fn dealloc(&self, p: *mut u8, l: Layout) {
        LIVE.fetch_sub(l.size(), Ordering::Relaxed);
        System.dealloc(p, l)
    }
    unsafe fn realloc(&self, p: *mut u8, l: Layout, new: usize) -> *mut u8 {
        let q = System.realloc(p, l, new);
        if !q.is_null() {
            if new >= l.size() {
                let live = LIVE.fetch_add(new - l.size(), Ordering::Relaxed) + (new - l.size());
                PEAK.fetch_max(live, Ordering::Relaxed);
            } else {
                LIVE.fetch_sub(l.size() - new, Ordering::Relaxed);
            }
        }
        q
    }
}
#[global_allocator]
static A: Counting = Counting;

/// `meter <request>`: run the request on a thread with a 256 KiB stack and report the peak of
/// additional live heap bytes while it ran
fn metered(req: String) -> String {
    let base = LIVE.load(Ordering::Relaxed);
    PEAK.store(base, Ordering::Relaxed);
    let h = std::thread::Builder::new().stack_size(256 * 1024).spawn(move || {
        panic::catch_unwind(|| ops::handle(&req))
    }).unwrap();
    let r = h.join();
    let peak = PEAK.load(Ordering::Relaxed).saturating_sub(base);
    match r {
        Ok(Ok(s)) => format!("{} | peak={}", s, peak),
        _ => "PANIC in metered request".into(),
    }
}

fn main() {
    panic::set_hook(Box::new(|_| {}));
    let stdin = io::stdin();
    let stdout = io::stdout();
    let mut out = io::BufWriter::new(stdout.lock());
    for line in stdin.lock().lines() {
        let line = match line {
            Ok(l) => l,
            Err(_) => break,
        };
        if let Some(rest) = line.strip_prefix("meter ") {
            let ans = metered(rest.to_string());
            writeln!(out, "{}", ans).unwrap();
            continue;
        }
        let ans = match panic::catch_unwind(|| ops::handle(&line)) {
            Ok(s) => s,
            Err(e) => {
                let msg = if let Some(s) = e.downcast_ref::<&str>() {
                    s.to_string()
                } else if let Some(s) = e.downcast_ref::<String>() {
                    s.clone()
                } else {
                    "?".into()
                };
                if msg.starts_with("CONTRACT") {
                    format!("CONTRACT {}", msg)
                } else {
                    format!("PANIC {}", msg.replace('\n', " "))
                }
            }
        };
        writeln!(out, "{}", ans).unwrap();
    }
    out.flush().unwrap();
}
