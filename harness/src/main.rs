//! bcder_impl — line-protocol driver around the REAL bcder crate (path dependency on the tree
//! under verification). One request per line on stdin, one answer per line on stdout; same
//! protocol as /verif/lean/Driver.lean.
mod ops;
mod script;
mod stream;
mod util;

use std::io::{self, BufRead, Write};
use std::panic;

fn main() {
    panic::set_hook(Box::new(|_| {}));
    let stdin = io::stdin();
    let stdout = io::stdout();
    let mut out = io::BufWriter::new(stdout.lock());
    for line in stdin.lock().lines() {
        let line = match line {
            Ok(l) => l,
            Err(_) => break,
        };
        let ans = match panic::catch_unwind(|| ops::handle(&line)) {
            Ok(s) => s,
            Err(e) => {
                let msg = if let Some(s) = e.downcast_ref::<&str>() {
                    s.to_string()
                } else if let Some(s) = e.downcast_ref::<String>() {
                    s.clone()
                } else {
                    "?".into()
                };
                if msg.starts_with("CONTRACT") {
                    format!("CONTRACT {}", msg)
                } else {
                    format!("PANIC {}", msg.replace('\n', " "))
                }
            }
        };
        writeln!(out, "{}", ans).unwrap();
    }
    out.flush().unwrap();
}
