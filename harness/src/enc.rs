//! `enc` / `rt`: build REAL bcder encoder combinators from an encoder-tree request.
use crate::script::{parse_int_ty, parse_tag, IntTy};
use crate::util::*;
use bcder::encode::{self, Choice2, Choice3, Constructed, Nothing, PrimitiveContent, Values};
use bcder::string::{BitString, OctetString};
use bcder::{Captured, Integer, Mode, Oid, Tag, Unsigned};
use bytes::Bytes;
use std::io;

pub enum Pc {
    Int(IntTy, String),
    Bool(bool),
    Null,
    Octets(Vec<u8>),
    Integer(Integer),
    Unsigned(Unsigned),
    Oid(Vec<u8>),
    Bits(u8, Vec<u8>),
}

#[derive(Clone, Copy, PartialEq)]
pub enum ConsKind { New, Explicit, Seq, Set, SeqAs, SetAs }
#[derive(Clone, Copy, PartialEq)]
pub enum SeqKind { Tuple, Vec, Slice, Iter, SliceFn }

pub enum V {
    Prim(Tag, Pc),
    Cons(ConsKind, Tag, Box<V>),
    Seq(SeqKind, Vec<V>),
    OptNone,
    OptSome(Box<V>),
    Choice(usize, usize, Box<V>),
    Nothing,
    Cap(Captured),
    Os(Tag, OctetString),
    OSlice(Tag, Vec<u8>),
    Wrap(Mode, Box<V>),
    BSlice(Tag, u8, Vec<u8>),
}

/// raw octets as `Values` (only to build a `Captured` through its public constructor)
struct Raw(Vec<u8>);
impl Values for Raw {
    fn encoded_len(&self, _: Mode) -> usize { self.0.len() }
    fn write_encoded<W: io::Write>(&self, _: Mode, target: &mut W) -> Result<(), io::Error> {
        target.write_all(&self.0)
    }
}

/// what to do with a fully built real combinator
enum Act<'a, W: io::Write> { Len, Write(&'a mut W) }

fn act<X: Values, W: io::Write>(x: X, mode: Mode, a: Act<W>) -> Result<usize, io::Error> {
    match a {
        Act::Len => Ok(x.encoded_len(mode)),
        Act::Write(w) => { x.write_encoded(mode, w)?; Ok(0) }
    }
}

fn with_int<W: io::Write>(ty: IntTy, v: &str, tag: Tag, mode: Mode, a: Act<W>) -> Result<usize, io::Error> {
    macro_rules! go { ($t:ty) => { act(v.parse::<$t>().expect("int literal").encode_as(tag), mode, a) } }
    match ty {
        IntTy::I8 => go!(i8), IntTy::I16 => go!(i16), IntTy::I32 => go!(i32), IntTy::I64 => go!(i64), IntTy::I128 => go!(i128),
        IntTy::U8 => go!(u8), IntTy::U16 => go!(u16), IntTy::U32 => go!(u32), IntTy::U64 => go!(u64), IntTy::U128 => go!(u128),
    }
}

impl V {
    fn go<W: io::Write>(&self, mode: Mode, a: Act<W>) -> Result<usize, io::Error> {
        match self {
            V::Prim(tag, pc) => match pc {
                Pc::Int(ty, v) => with_int(*ty, v, *tag, mode, a),
                Pc::Bool(b) => act(b.encode_as(*tag), mode, a),
                Pc::Null => act(().encode_as(*tag), mode, a),
                Pc::Octets(o) => act(o.as_slice().encode_as(*tag), mode, a),
                Pc::Integer(i) => act(i.encode_as(*tag), mode, a),
                Pc::Unsigned(u) => act(u.encode_as(*tag), mode, a),
                Pc::Oid(c) => act(Oid(Bytes::copy_from_slice(c)).encode_as(*tag), mode, a),
                Pc::Bits(u, b) => act(BitString::new(*u, Bytes::copy_from_slice(b)).encode_as(*tag), mode, a),
            },
            V::Cons(kind, tag, inner) => match kind {
                ConsKind::New => act(Constructed::new(*tag, &**inner), mode, a),
                ConsKind::Explicit => act((&**inner).explicit(*tag), mode, a),
                ConsKind::Seq => act(encode::sequence(&**inner), mode, a),
                ConsKind::Set => act(encode::set(&**inner), mode, a),
                ConsKind::SeqAs => act(encode::sequence_as(*tag, &**inner), mode, a),
                ConsKind::SetAs => act(encode::set_as(*tag, &**inner), mode, a),
            },
            V::Seq(kind, vs) => match kind {
                SeqKind::Tuple => match vs.len() {
                    1 => act((&vs[0],), mode, a),
                    2 => act((&vs[0], &vs[1]), mode, a),
                    3 => act((&vs[0], &vs[1], &vs[2]), mode, a),
                    4 => act((&vs[0], &vs[1], &vs[2], &vs[3]), mode, a),
                    5 => act((&vs[0], &vs[1], &vs[2], &vs[3], &vs[4]), mode, a),
                    6 => act((&vs[0], &vs[1], &vs[2], &vs[3], &vs[4], &vs[5]), mode, a),
                    7 => act((&vs[0], &vs[1], &vs[2], &vs[3], &vs[4], &vs[5], &vs[6]), mode, a),
                    8 => act((&vs[0], &vs[1], &vs[2], &vs[3], &vs[4], &vs[5], &vs[6], &vs[7]), mode, a),
                    9 => act((&vs[0], &vs[1], &vs[2], &vs[3], &vs[4], &vs[5], &vs[6], &vs[7], &vs[8]), mode, a),
                    10 => act((&vs[0], &vs[1], &vs[2], &vs[3], &vs[4], &vs[5], &vs[6], &vs[7], &vs[8], &vs[9]), mode, a),
                    11 => act((&vs[0], &vs[1], &vs[2], &vs[3], &vs[4], &vs[5], &vs[6], &vs[7], &vs[8], &vs[9], &vs[10]), mode, a),
                    12 => act((&vs[0], &vs[1], &vs[2], &vs[3], &vs[4], &vs[5], &vs[6], &vs[7], &vs[8], &vs[9], &vs[10], &vs[11]), mode, a),
                    _ => panic!("tuple arity"),
                },
                SeqKind::Vec => { let v: Vec<&V> = vs.iter().collect(); act(v, mode, a) }
                SeqKind::Slice => match a {
                    Act::Len => Ok(<[V] as Values>::encoded_len(vs.as_slice(), mode)),
                    Act::Write(w) => { <[V] as Values>::write_encoded(vs.as_slice(), mode, w)?; Ok(0) }
                },
                SeqKind::Iter => act(encode::iter(vs.iter()), mode, a),
                SeqKind::SliceFn => act(encode::slice(vs, |x: &V| Wrapper(x as *const V)), mode, a),
            },
            V::OptNone => act(None::<&V>, mode, a),
            V::OptSome(inner) => act(Some(&**inner), mode, a),
            V::Choice(arity, idx, inner) => match (arity, idx) {
                (2, 0) => act(Choice2::<&V, &V>::One(&**inner), mode, a),
                (2, _) => act(Choice2::<&V, &V>::Two(&**inner), mode, a),
                (_, 0) => act(Choice3::<&V, &V, &V>::One(&**inner), mode, a),
                (_, 1) => act(Choice3::<&V, &V, &V>::Two(&**inner), mode, a),
                (_, _) => act(Choice3::<&V, &V, &V>::Three(&**inner), mode, a),
            },
            V::Nothing => act(Nothing, mode, a),
            V::Cap(c) => act(c, mode, a),
            // with the natural tag: the variants without `_as` (the same encoders under their default tag)
            V::Os(tag, os) if *tag == Tag::OCTET_STRING => act(os.encode_ref(), mode, a),
            V::Os(tag, os) => act(os.encode_ref_as(*tag), mode, a),
            V::OSlice(tag, b) if *tag == Tag::OCTET_STRING => act(OctetString::encode_slice(b.as_slice()), mode, a),
            V::OSlice(tag, b) => act(OctetString::encode_slice_as(b.as_slice(), *tag), mode, a),
            V::Wrap(m, inner) => act(OctetString::encode_wrapped(*m, &**inner), mode, a),
            V::BSlice(tag, u, b) if *tag == Tag::BIT_STRING => act(BitString::encode_slice(b.as_slice(), *u), mode, a),
            V::BSlice(tag, u, b) => act(BitString::encode_slice_as(b.as_slice(), *u, *tag), mode, a),
        }
    }
}

/// `Slice`'s closure must return an owned `Values`; hand out a pointer wrapper
struct Wrapper(*const V);
impl Values for Wrapper {
    fn encoded_len(&self, mode: Mode) -> usize { unsafe { (*self.0).encoded_len(mode) } }
    fn write_encoded<W: io::Write>(&self, mode: Mode, target: &mut W) -> Result<(), io::Error> {
        unsafe { (*self.0).write_encoded(mode, target) }
    }
}

impl Values for V {
    fn encoded_len(&self, mode: Mode) -> usize {
        self.go::<Vec<u8>>(mode, Act::Len).unwrap()
    }
    fn write_encoded<W: io::Write>(&self, mode: Mode, target: &mut W) -> Result<(), io::Error> {
        self.go(mode, Act::Write(target)).map(|_| ())
    }
}

pub struct P<'a> { pub t: &'a [&'a str], pub i: usize }
impl<'a> P<'a> {
    fn next(&mut self) -> Option<&'a str> { let r = self.t.get(self.i).copied(); self.i += 1; r }
}

pub fn parse_v(p: &mut P) -> Option<V> {
    Some(match p.next()? {
        "P" => {
            let tag = parse_tag(p.next()?)?;
            let pc = match p.next()? {
                "i" => { let ty = parse_int_ty(p.next()?)?; Pc::Int(ty, p.next()?.to_string()) }
                "b" => Pc::Bool(p.next()? == "1"),
                "n" => Pc::Null,
                "o" => Pc::Octets(of_hex(p.next()?)?),
                "I" => Pc::Integer(crate::ops::integer_of_pub(&of_hex(p.next()?)?)?),
                "U" => Pc::Unsigned(crate::ops::unsigned_of_pub(&of_hex(p.next()?)?)?),
                "O" => Pc::Oid(of_hex(p.next()?)?),
                "B" => { let u: u8 = p.next()?.parse().ok()?; Pc::Bits(u, of_hex(p.next()?)?) }
                _ => return None,
            };
            V::Prim(tag, pc)
        }
        "C" => {
            let kind = match p.next()? {
                "new" => ConsKind::New, "explicit" => ConsKind::Explicit, "seq" => ConsKind::Seq,
                "set" => ConsKind::Set, "seqas" => ConsKind::SeqAs, "setas" => ConsKind::SetAs, _ => return None };
            let tag = parse_tag(p.next()?)?;
            V::Cons(kind, tag, Box::new(parse_v(p)?))
        }
        "S" => {
            let kind = match p.next()? {
                "tuple" => SeqKind::Tuple, "vec" => SeqKind::Vec, "slice" => SeqKind::Slice,
                "iter" => SeqKind::Iter, "slicefn" => SeqKind::SliceFn, _ => return None };
            let n: usize = p.next()?.parse().ok()?;
            let mut vs = Vec::new();
            for _ in 0..n { vs.push(parse_v(p)?); }
            if kind == SeqKind::Tuple && (n == 0 || n > 12) { return None; }
            V::Seq(kind, vs)
        }
        "N" => V::OptNone,
        "J" => V::OptSome(Box::new(parse_v(p)?)),
        "H" => { let ar: usize = p.next()?.parse().ok()?; let ix: usize = p.next()?.parse().ok()?; V::Choice(ar, ix, Box::new(parse_v(p)?)) }
        "Z" => V::Nothing,
        "K" => {
            let m = parse_mode(p.next()?)?;
            let raw = of_hex(p.next()?)?;
            // three ways to the same captured value: from_values, the builder (extended in two steps), and a
            // round through into_builder
            let cap = match raw.len() % 3 {
                0 => Captured::from_values(m, Raw(raw)),
                1 => {
                    let mut b = Captured::builder(m);
                    let k = raw.len() / 2;
                    b.extend(Raw(raw[..k].to_vec()));
                    b.extend(Raw(raw[k..].to_vec()));
                    b.freeze()
                }
                _ => Captured::from_values(m, Raw(raw)).into_builder().freeze(),
            };
            V::Cap(cap)
        }
        "OS" => {
            let tag = parse_tag(p.next()?)?;
            let m = parse_mode(p.next()?)?;
            let enc = of_hex(p.next()?)?;
            V::Os(tag, m.decode(enc.as_slice(), |cons| OctetString::take_from(cons)).ok()?)
        }
        "OL" => { let tag = parse_tag(p.next()?)?; V::OSlice(tag, of_hex(p.next()?)?) }
        "W" => { let m = parse_mode(p.next()?)?; V::Wrap(m, Box::new(parse_v(p)?)) }
        "BL" => { let tag = parse_tag(p.next()?)?; let u: u8 = p.next()?.parse().ok()?; V::BSlice(tag, u, of_hex(p.next()?)?) }
        _ => return None,
    })
}

pub fn encode(v: &V, mode: Mode) -> (usize, Vec<u8>) {
    let l = v.encoded_len(mode);
    let mut w = Vec::new();
    v.write_encoded(mode, &mut w).unwrap();
    (l, w)
}
