//! The script language of caller code and its interpreter against the real bcder API.
//! Mirrors /verif/lean/Bcder/Model/Script.lean token for token.
use crate::util::*;
use bcder::decode::{Constructed, Content, DecodeError, Primitive, Source};
use bcder::string::{
    BitString, Ia5String, NumericString, OctetString, PrintableString, Utf8String,
};
use bcder::{Captured, Integer, Mode, Oid, Tag, Unsigned};
use bytes::Bytes;

#[derive(Clone, Copy, Debug, PartialEq, Eq)]
pub enum IntTy { I8, I16, I32, I64, I128, U8, U16, U32, U64, U128 }

#[derive(Clone, Copy, Debug, PartialEq, Eq)]
pub enum Cs { Utf8, Num, Print, Ia5 }

#[derive(Clone, Debug)]
pub enum PrimOp {
    Req(usize), Tu8, Tou8, Adv(usize), Skip(usize), Slice, Bytes(usize, usize),
    TakeAll, SkipAll, SliceAll, Wsa, Rem, SetMode(Mode),
    ToBool, ToNull, ToInt(IntTy), Integer, Unsigned, Oid, OidSkip,
}

#[derive(Clone, Copy, Debug)]
pub enum Filter { Accept, RejectAt(usize), OctetOnly }

#[derive(Clone, Debug)]
pub enum Typed {
    Bool, OBool, Null, ONull, U8, OU8, U16, OU16, U32, OU32, U64, OU64,
    SkipU8If(u8), OSkipU8If(u8), Integer, Unsigned,
    Oid, OOid, OidSkip, OOidSkip, OidSkipIf(Vec<u8>),
    Bits, BitsSkip, Os, OOs, Rs(Cs),
}

#[derive(Clone, Debug)]
pub enum TypedC {
    U8, U16, U32, U64, Null, SkipU8If(u8), Os, Bits, BitsSkip, Rs(Cs),
}

#[derive(Clone, Debug)]
pub enum Cont { Prim(Vec<PrimOp>), Cons(Vec<Step>), Generic, Typed(TypedC) }

#[derive(Clone, Debug)]
pub enum Step {
    Tv(Cont), Tov(Cont), Tvi(Tag, Cont), Tovi(Tag, Cont),
    Tp(Vec<PrimOp>), Top(Vec<PrimOp>), Tpi(Tag, Vec<PrimOp>), Topi(Tag, Vec<PrimOp>),
    Tc(Vec<Step>), Toc(Vec<Step>), Tci(Tag, Vec<Step>), Toci(Tag, Vec<Step>),
    Seq(Vec<Step>), OSeq(Vec<Step>), Set(Vec<Step>), OSet(Vec<Step>),
    SkipOpt(Filter), Skip(Filter), SkipOne, SkipAll,
    Cap(Vec<Step>), CapOne, CapAll, Dec(Vec<Step>), Decp(Vec<Step>),
    SetMode(Mode), Typed(Typed), All,
}

//------------------------------------------------------------------ parsing

pub fn parse_tag(s: &str) -> Option<Tag> {
    let (c, ds) = s.split_at(1);
    let n: u32 = ds.parse().ok()?;
    if n > 0x1f_ffff {
        return None;
    }
    match c {
        "u" => Some(Tag::universal(n)),
        "a" => Some(Tag::application(n)),
        "c" => Some(Tag::ctx(n)),
        "p" => Some(Tag::private(n)),
        _ => None,
    }
}

pub fn parse_int_ty(s: &str) -> Option<IntTy> {
    Some(match s {
        "i8" => IntTy::I8, "i16" => IntTy::I16, "i32" => IntTy::I32, "i64" => IntTy::I64,
        "i128" => IntTy::I128, "u8" => IntTy::U8, "u16" => IntTy::U16, "u32" => IntTy::U32,
        "u64" => IntTy::U64, "u128" => IntTy::U128,
        _ => return None,
    })
}

pub fn parse_cs(s: &str) -> Option<Cs> {
    Some(match s {
        "utf8" => Cs::Utf8, "num" => Cs::Num, "print" => Cs::Print, "ia5" => Cs::Ia5,
        _ => return None,
    })
}

pub struct Toks<'a> { t: Vec<&'a str>, i: usize }

impl<'a> Toks<'a> {
    pub fn new(t: Vec<&'a str>) -> Self { Toks { t, i: 0 } }
    fn peek(&self) -> Option<&'a str> { self.t.get(self.i).copied() }
    fn next(&mut self) -> Option<&'a str> { let r = self.peek(); self.i += 1; r }
    fn expect(&mut self, s: &str) -> Option<()> { if self.next()? == s { Some(()) } else { None } }
    pub fn at_end(&self) -> bool { self.i >= self.t.len() }
}

pub fn parse_prim_ops(t: &mut Toks) -> Option<Vec<PrimOp>> {
    // after the opening `[`, up to and including `]`
    let mut out = vec![];
    loop {
        let tok = t.next()?;
        let op = match tok {
            "]" => return Some(out),
            "req" => PrimOp::Req(t.next()?.parse().ok()?),
            "tu8" => PrimOp::Tu8,
            "tou8" => PrimOp::Tou8,
            "adv" => PrimOp::Adv(t.next()?.parse().ok()?),
            "skip" => PrimOp::Skip(t.next()?.parse().ok()?),
            "slice" => PrimOp::Slice,
            "bytes" => PrimOp::Bytes(t.next()?.parse().ok()?, t.next()?.parse().ok()?),
            "takeall" => PrimOp::TakeAll,
            "skipall" => PrimOp::SkipAll,
            "sliceall" => PrimOp::SliceAll,
            "wsa" => PrimOp::Wsa,
            "rem" => PrimOp::Rem,
            "mode" => PrimOp::SetMode(parse_mode(t.next()?)?),
            "bool" => PrimOp::ToBool,
            "null" => PrimOp::ToNull,
            "int" => PrimOp::ToInt(parse_int_ty(t.next()?)?),
            "integer" => PrimOp::Integer,
            "unsigned" => PrimOp::Unsigned,
            "oid" => PrimOp::Oid,
            "oidskip" => PrimOp::OidSkip,
            _ => return None,
        };
        out.push(op);
    }
}

fn parse_filter(s: &str) -> Option<Filter> {
    match s {
        "A" => Some(Filter::Accept),
        "O" => Some(Filter::OctetOnly),
        _ if s.starts_with('R') => Some(Filter::RejectAt(s[1..].parse().ok()?)),
        _ => None,
    }
}

fn parse_typed(t: &mut Toks) -> Option<Typed> {
    Some(match t.next()? {
        "bool" => Typed::Bool, "obool" => Typed::OBool, "null" => Typed::Null, "onull" => Typed::ONull,
        "u8" => Typed::U8, "ou8" => Typed::OU8, "u16" => Typed::U16, "ou16" => Typed::OU16,
        "u32" => Typed::U32, "ou32" => Typed::OU32, "u64" => Typed::U64, "ou64" => Typed::OU64,
        "skipu8if" => Typed::SkipU8If(t.next()?.parse().ok()?),
        "oskipu8if" => Typed::OSkipU8If(t.next()?.parse().ok()?),
        "integer" => Typed::Integer, "unsigned" => Typed::Unsigned,
        "oid" => Typed::Oid, "ooid" => Typed::OOid, "oidskip" => Typed::OidSkip,
        "ooidskip" => Typed::OOidSkip,
        "oidskipif" => Typed::OidSkipIf(of_hex(t.next()?)?),
        "bits" => Typed::Bits, "bitsskip" => Typed::BitsSkip, "os" => Typed::Os, "oos" => Typed::OOs,
        "rs" => Typed::Rs(parse_cs(t.next()?)?),
        _ => return None,
    })
}

fn parse_typed_c(t: &mut Toks) -> Option<TypedC> {
    Some(match t.next()? {
        "u8" => TypedC::U8, "u16" => TypedC::U16, "u32" => TypedC::U32, "u64" => TypedC::U64,
        "null" => TypedC::Null,
        "skipu8if" => TypedC::SkipU8If(t.next()?.parse().ok()?),
        "os" => TypedC::Os, "bits" => TypedC::Bits, "bitsskip" => TypedC::BitsSkip,
        "rs" => TypedC::Rs(parse_cs(t.next()?)?),
        _ => return None,
    })
}

fn parse_body(t: &mut Toks) -> Option<Vec<Step>> {
    t.expect("{")?;
    parse_steps(t, true)
}

fn parse_cont(t: &mut Toks) -> Option<Cont> {
    Some(match t.next()? {
        "P" => { t.expect("[")?; Cont::Prim(parse_prim_ops(t)?) }
        "C" => Cont::Cons(parse_body(t)?),
        "G" => Cont::Generic,
        "X" => Cont::Typed(parse_typed_c(t)?),
        _ => return None,
    })
}

pub fn parse_steps(t: &mut Toks, nested: bool) -> Option<Vec<Step>> {
    let mut out = vec![];
    loop {
        let tok = match t.next() {
            None => return if nested { None } else { Some(out) },
            Some(x) => x,
        };
        let step = match tok {
            "}" => return if nested { Some(out) } else { None },
            "tv" => Step::Tv(parse_cont(t)?),
            "tov" => Step::Tov(parse_cont(t)?),
            "tvi" => { let tag = parse_tag(t.next()?)?; Step::Tvi(tag, parse_cont(t)?) }
            "tovi" => { let tag = parse_tag(t.next()?)?; Step::Tovi(tag, parse_cont(t)?) }
            "tp" => { t.expect("[")?; Step::Tp(parse_prim_ops(t)?) }
            "top" => { t.expect("[")?; Step::Top(parse_prim_ops(t)?) }
            "tpi" => { let tag = parse_tag(t.next()?)?; t.expect("[")?; Step::Tpi(tag, parse_prim_ops(t)?) }
            "topi" => { let tag = parse_tag(t.next()?)?; t.expect("[")?; Step::Topi(tag, parse_prim_ops(t)?) }
            "tc" => Step::Tc(parse_body(t)?),
            "toc" => Step::Toc(parse_body(t)?),
            "tci" => { let tag = parse_tag(t.next()?)?; Step::Tci(tag, parse_body(t)?) }
            "toci" => { let tag = parse_tag(t.next()?)?; Step::Toci(tag, parse_body(t)?) }
            "seq" => Step::Seq(parse_body(t)?),
            "oseq" => Step::OSeq(parse_body(t)?),
            "set" => Step::Set(parse_body(t)?),
            "oset" => Step::OSet(parse_body(t)?),
            "skipopt" => Step::SkipOpt(parse_filter(t.next()?)?),
            "skip" => Step::Skip(parse_filter(t.next()?)?),
            "skipone" => Step::SkipOne,
            "skipall" => Step::SkipAll,
            "cap" => Step::Cap(parse_body(t)?),
            "capone" => Step::CapOne,
            "capall" => Step::CapAll,
            "dec" => Step::Dec(parse_body(t)?),
            "decp" => Step::Decp(parse_body(t)?),
            "mode" => Step::SetMode(parse_mode(t.next()?)?),
            "all" => Step::All,
            "T" => Step::Typed(parse_typed(t)?),
            _ => return None,
        };
        out.push(step);
    }
}

//------------------------------------------------------------------ interpreter

#[derive(Default)]
pub struct Ctx {
    pub trace: Vec<String>,
    pub reg: Option<Captured>,
    pub grant: usize,
    /// a script step this driver cannot express (capture nesting beyond the supported depth)
    pub unsupported: bool,
}

impl Ctx {
    fn emit(&mut self, s: String) { self.trace.push(s) }
}

type R<S> = Result<(), DecodeError<<S as Source>::Error>>;

pub fn tag_trace(tag: Tag, constructed: bool) -> String {
    let mut v = Vec::new();
    tag.write_encoded(constructed, &mut v).unwrap();
    to_hex(&v)
}

fn int_of<S: Source>(prim: &mut Primitive<S>, ty: IntTy) -> Result<i128, DecodeError<S::Error>> {
    // values of u128 above i128::MAX are printed by the caller; keep them apart
    Ok(match ty {
        IntTy::I8 => prim.to_i8()? as i128,
        IntTy::I16 => prim.to_i16()? as i128,
        IntTy::I32 => prim.to_i32()? as i128,
        IntTy::I64 => prim.to_i64()? as i128,
        IntTy::I128 => prim.to_i128()?,
        IntTy::U8 => prim.to_u8()? as i128,
        IntTy::U16 => prim.to_u16()? as i128,
        IntTy::U32 => prim.to_u32()? as i128,
        IntTy::U64 => prim.to_u64()? as i128,
        IntTy::U128 => unreachable!(),
    })
}

fn int_str<S: Source>(prim: &mut Primitive<S>, ty: IntTy) -> Result<String, DecodeError<S::Error>> {
    if ty == IntTy::U128 {
        // compiles whether `to_u128` returns u64 (before the fix) or u128
        let v: u128 = prim.to_u128()?.into();
        Ok(format!("i{}", v))
    } else {
        Ok(format!("i{}", int_of(prim, ty)?))
    }
}

fn run_prim_ops<S: Source>(prim: &mut Primitive<S>, ops: &[PrimOp], x: &mut Ctx) -> R<S> {
    x.grant = 0;
    for op in ops {
        match op {
            PrimOp::Req(n) => {
                let res = prim.request(*n)?;
                // a window over a value's content never grants more than is left of the content
                if res > prim.remaining() {
                    x.emit(format!("OVER{}", res));
                }
                let g = res.min(*n);
                x.grant = g;
                x.emit(format!("r{}", g));
            }
            PrimOp::Tu8 => {
                let b = prim.take_u8()?;
                x.grant = 0;
                x.emit(format!("y{:02x}", b));
            }
            PrimOp::Tou8 => {
                let r = prim.take_opt_u8()?;
                x.grant = 0;
                match r {
                    Some(b) => x.emit(format!("y{:02x}", b)),
                    None => x.emit("yn".into()),
                }
            }
            PrimOp::Adv(k) => {
                let a = (*k).min(x.grant);
                prim.advance(a);
                x.grant -= a;
                x.emit(format!("a{}", a));
            }
            PrimOp::Skip(n) => {
                let g = prim.skip(*n)?;
                x.grant = 0;
                x.emit(format!("k{}", g));
            }
            PrimOp::Slice => {
                let s = prim.slice();
                let s = &s[..x.grant.min(s.len())];
                let h = to_hex(s);
                x.emit(format!("s{}", h));
            }
            PrimOp::Bytes(a, b) => {
                let a2 = (*a).min(x.grant);
                let b2 = a2.max((*b).min(x.grant));
                let bs = prim.bytes(a2, b2);
                x.emit(format!("B{}", to_hex(bs.as_ref())));
            }
            PrimOp::TakeAll => {
                let bs = prim.take_all()?;
                x.grant = 0;
                x.emit(format!("t{}", to_hex(bs.as_ref())));
            }
            PrimOp::SkipAll => {
                prim.skip_all()?;
                x.grant = 0;
                x.emit("K".into());
            }
            PrimOp::SliceAll => {
                let h = to_hex(prim.slice_all()?);
                x.emit(format!("S{}", h));
            }
            PrimOp::Wsa => {
                let h = prim.with_slice_all(|s| Ok::<_, &'static str>(to_hex(s)))?;
                x.grant = 0;
                x.emit(format!("W{}", h));
            }
            PrimOp::Rem => {
                let r = prim.remaining();
                x.emit(format!("m{}", r));
            }
            PrimOp::SetMode(m) => prim.set_mode(*m),
            PrimOp::ToBool => {
                let b = prim.to_bool()?;
                x.grant = 0;
                x.emit(format!("b{}", b01(b)));
            }
            PrimOp::ToNull => {
                prim.to_null()?;
                x.emit("n".into());
            }
            PrimOp::ToInt(ty) => {
                let s = int_str(prim, *ty)?;
                x.grant = 0;
                x.emit(s);
            }
            PrimOp::Integer => {
                let v = Integer::from_primitive(prim)?;
                x.grant = 0;
                x.emit(format!("I{}", to_hex(v.as_slice())));
            }
            PrimOp::Unsigned => {
                let v = Unsigned::from_primitive(prim)?;
                x.grant = 0;
                x.emit(format!("U{}", to_hex(v.as_slice())));
            }
            PrimOp::Oid => {
                let v = Oid::from_primitive(prim)?;
                x.grant = 0;
                x.emit(format!("O{}", to_hex(v.0.as_ref())));
            }
            PrimOp::OidSkip => {
                Oid::skip_primitive(prim)?;
                x.grant = 0;
                x.emit("o".into());
            }
        }
    }
    Ok(())
}

pub fn run_prim_body<S: Source>(prim: &mut Primitive<S>, ops: &[PrimOp], x: &mut Ctx) -> R<S> {
    run_prim_ops(prim, ops, x)
}

pub fn os_trace(os: &OctetString) -> String {
    // primitive: the content; constructed: the segments the iterator yields
    match os.as_slice() {
        Some(s) => format!("p{}", to_hex(s)),
        None => {
            let segs: Vec<String> = os.iter().map(to_hex).collect();
            format!("c{}", segs.join(","))
        }
    }
}

/// length of identifier + length octets of a definite-length encoding with a 1-octet identifier
pub fn header_len(v: &[u8]) -> (usize, usize) {
    let l0 = v[1];
    if l0 < 0x80 {
        (2, l0 as usize)
    } else {
        let k = (l0 & 0x7f) as usize;
        let mut n = 0usize;
        for i in 0..k {
            n = (n << 8) | v[2 + i] as usize;
        }
        (2 + k, n)
    }
}

fn filter_fn<'a>(f: Filter, x: &'a mut Ctx) -> impl FnMut(Tag, bool, usize) -> Result<(), bcder::decode::ContentError> + 'a {
    let mut n = 0usize;
    move |tag, constructed, depth| {
        x.trace.push(format!("f{}@{}", tag_trace(tag, constructed), depth));
        let ok = match f {
            Filter::Accept => true,
            Filter::RejectAt(k) => n != k,
            Filter::OctetOnly => tag == Tag::OCTET_STRING,
        };
        n += 1;
        if ok { Ok(()) } else { Err("rejected by filter".into()) }
    }
}

fn generic_value<S: Source>(tag: Tag, content: &mut Content<S>, x: &mut Ctx) -> R<S> {
    match content {
        Content::Primitive(prim) => {
            let bs = prim.take_all()?;
            x.emit(format!("v{}={}", tag_trace(tag, false), to_hex(bs.as_ref())));
            Ok(())
        }
        Content::Constructed(cons) => {
            x.emit(format!("v{}(", tag_trace(tag, true)));
            generic_all(cons, x)?;
            x.emit(")".into());
            Ok(())
        }
    }
}

fn generic_all<S: Source>(cons: &mut Constructed<S>, x: &mut Ctx) -> R<S> {
    while cons.take_opt_value(|tag, content| generic_value(tag, content, x))?.is_some() {}
    Ok(())
}

fn run_typed_c<S: Source>(r: &TypedC, content: &mut Content<S>, x: &mut Ctx) -> R<S> {
    match r {
        TypedC::U8 => { let v = content.to_u8()?; x.emit(format!("i{}", v)); }
        TypedC::U16 => { let v = content.to_u16()?; x.emit(format!("i{}", v)); }
        TypedC::U32 => { let v = content.to_u32()?; x.emit(format!("i{}", v)); }
        TypedC::U64 => { let v = content.to_u64()?; x.emit(format!("i{}", v)); }
        TypedC::Null => { content.to_null()?; x.emit("n".into()); }
        TypedC::SkipU8If(n) => { content.skip_u8_if(*n)?; x.emit("ok".into()); }
        TypedC::Os => { let os = OctetString::from_content(content)?; x.emit(format!("os:{}", os_trace(&os))); }
        TypedC::Bits => {
            let b = BitString::from_content(content)?;
            x.emit(format!("bits:{}:{}", b.unused(), to_hex(b.octet_slice().unwrap())));
        }
        TypedC::BitsSkip => { BitString::skip_content(content)?; x.emit("bitsskip".into()); }
        TypedC::Rs(cs) => {
            let s = match cs {
                Cs::Utf8 => os_trace(Utf8String::from_content(content)?.as_ref()),
                Cs::Num => os_trace(NumericString::from_content(content)?.as_ref()),
                Cs::Print => os_trace(PrintableString::from_content(content)?.as_ref()),
                Cs::Ia5 => os_trace(Ia5String::from_content(content)?.as_ref()),
            };
            x.emit(format!("rs:{}", s));
        }
    }
    Ok(())
}

fn opt_emit<T>(r: Option<T>, x: &mut Ctx) {
    if r.is_none() { x.emit("none".into()) }
}

fn run_typed<S: Source>(r: &Typed, cons: &mut Constructed<S>, x: &mut Ctx) -> R<S> {
    match r {
        Typed::Bool => { let b = cons.take_bool()?; x.emit(format!("b{}", b01(b))); }
        Typed::OBool => match cons.take_opt_bool()? {
            Some(b) => x.emit(format!("b{}", b01(b))), None => x.emit("none".into()) },
        Typed::Null => { cons.take_null()?; x.emit("n".into()); }
        Typed::ONull => { cons.take_opt_null()?; x.emit("n?".into()); }
        Typed::U8 => { let v = cons.take_u8()?; x.emit(format!("i{}", v)); }
        Typed::OU8 => match cons.take_opt_u8()? { Some(v) => x.emit(format!("i{}", v)), None => x.emit("none".into()) },
        Typed::U16 => { let v = cons.take_u16()?; x.emit(format!("i{}", v)); }
        Typed::OU16 => match cons.take_opt_u16()? { Some(v) => x.emit(format!("i{}", v)), None => x.emit("none".into()) },
        Typed::U32 => { let v = cons.take_u32()?; x.emit(format!("i{}", v)); }
        Typed::OU32 => match cons.take_opt_u32()? { Some(v) => x.emit(format!("i{}", v)), None => x.emit("none".into()) },
        Typed::U64 => { let v = cons.take_u64()?; x.emit(format!("i{}", v)); }
        Typed::OU64 => match cons.take_opt_u64()? { Some(v) => x.emit(format!("i{}", v)), None => x.emit("none".into()) },
        Typed::SkipU8If(n) => { cons.skip_u8_if(*n)?; x.emit("ok".into()); }
        Typed::OSkipU8If(n) => { cons.skip_opt_u8_if(*n)?; x.emit("ok?".into()); }
        Typed::Integer => { let v = Integer::take_from(cons)?; x.emit(format!("I{}", to_hex(v.as_slice()))); }
        Typed::Unsigned => { let v = Unsigned::take_from(cons)?; x.emit(format!("U{}", to_hex(v.as_slice()))); }
        Typed::Oid => { let v = Oid::take_from(cons)?; x.emit(format!("O{}", to_hex(v.0.as_ref()))); }
        Typed::OOid => match Oid::take_opt_from(cons)? {
            Some(v) => x.emit(format!("O{}", to_hex(v.0.as_ref()))), None => x.emit("none".into()) },
        Typed::OidSkip => { Oid::skip_in(cons)?; x.emit("o".into()); }
        Typed::OOidSkip => match Oid::skip_opt_in(cons)? { Some(()) => x.emit("o".into()), None => x.emit("none".into()) },
        Typed::OidSkipIf(c) => { Oid(Bytes::from(c.clone())).skip_if(cons)?; x.emit("o=".into()); }
        Typed::Bits => {
            let b = BitString::take_from(cons)?;
            x.emit(format!("bits:{}:{}", b.unused(), to_hex(b.octet_slice().unwrap())));
        }
        Typed::BitsSkip => { BitString::skip_in(cons)?; x.emit("bitsskip".into()); }
        Typed::Os => { let os = OctetString::take_from(cons)?; x.emit(format!("os:{}", os_trace(&os))); }
        Typed::OOs => match OctetString::take_opt_from(cons)? {
            Some(os) => x.emit(format!("os:{}", os_trace(&os))), None => x.emit("none".into()) },
        Typed::Rs(cs) => {
            let s = match cs {
                Cs::Utf8 => os_trace(Utf8String::take_from(cons)?.as_ref()),
                Cs::Num => os_trace(NumericString::take_from(cons)?.as_ref()),
                Cs::Print => os_trace(PrintableString::take_from(cons)?.as_ref()),
                Cs::Ia5 => os_trace(Ia5String::take_from(cons)?.as_ref()),
            };
            x.emit(format!("rs:{}", s));
        }
    }
    Ok(())
}

/// Bounded nesting of `capture` closures: each level changes the source type, so the recursion
/// of `run_steps` through `capture` has to be cut at a fixed depth at compile time.
pub trait Nest {
    fn cap<S: Source>(cons: &mut Constructed<S>, body: &[Step], x: &mut Ctx)
        -> Result<Captured, DecodeError<S::Error>>;
}
pub struct N0;
pub struct N1;
pub struct N2;
pub struct N3;
impl Nest for N0 {
    fn cap<S: Source>(cons: &mut Constructed<S>, _body: &[Step], x: &mut Ctx)
        -> Result<Captured, DecodeError<S::Error>> {
        x.unsupported = true;
        Err(cons.content_err("unsupported capture nesting"))
    }
}
macro_rules! nest_impl {
    ($n:ident, $prev:ident) => {
        impl Nest for $n {
            fn cap<S: Source>(cons: &mut Constructed<S>, body: &[Step], x: &mut Ctx)
                -> Result<Captured, DecodeError<S::Error>> {
                cons.capture(|inner| run_steps::<_, $prev>(inner, body, x))
            }
        }
    };
}
nest_impl!(N1, N0);
nest_impl!(N2, N1);
nest_impl!(N3, N2);

fn run_cont<S: Source, N: Nest>(k: &Cont, tag: Tag, content: &mut Content<S>, x: &mut Ctx) -> R<S> {
    match k {
        Cont::Prim(ops) => run_prim_ops(content.as_primitive()?, ops, x),
        Cont::Cons(body) => run_steps::<S, N>(content.as_constructed()?, body, x),
        Cont::Generic => generic_value(tag, content, x),
        Cont::Typed(r) => run_typed_c(r, content, x),
    }
}

pub fn run_steps<S: Source, N: Nest>(cons: &mut Constructed<S>, steps: &[Step], x: &mut Ctx) -> R<S> {
    for step in steps {
        match step {
            Step::Tv(k) => {
                cons.take_value(|tag, content| {
                    x.emit(format!("t{}", tag_trace(tag, content.is_constructed())));
                    run_cont::<S, N>(k, tag, content, x)
                })?;
            }
            Step::Tov(k) => {
                let r = cons.take_opt_value(|tag, content| {
                    x.emit(format!("t{}", tag_trace(tag, content.is_constructed())));
                    run_cont::<S, N>(k, tag, content, x)
                })?;
                opt_emit(r, x);
            }
            Step::Tvi(t, k) => {
                cons.take_value_if(*t, |content| run_cont::<S, N>(k, *t, content, x))?;
            }
            Step::Tovi(t, k) => {
                let r = cons.take_opt_value_if(*t, |content| {
                    x.emit("some".into());
                    run_cont::<S, N>(k, *t, content, x)
                })?;
                opt_emit(r, x);
            }
            Step::Tp(ops) => {
                cons.take_primitive(|tag, prim| {
                    x.emit(format!("t{}", tag_trace(tag, false)));
                    run_prim_ops(prim, ops, x)
                })?;
            }
            Step::Top(ops) => {
                let r = cons.take_opt_primitive(|tag, prim| {
                    x.emit(format!("t{}", tag_trace(tag, false)));
                    run_prim_ops(prim, ops, x)
                })?;
                opt_emit(r, x);
            }
            Step::Tpi(t, ops) => {
                cons.take_primitive_if(*t, |prim| run_prim_ops(prim, ops, x))?;
            }
            Step::Topi(t, ops) => {
                let r = cons.take_opt_primitive_if(*t, |prim| {
                    x.emit("some".into());
                    run_prim_ops(prim, ops, x)
                })?;
                opt_emit(r, x);
            }
            Step::Tc(body) => {
                cons.take_constructed(|tag, inner| {
                    x.emit(format!("t{}", tag_trace(tag, true)));
                    run_steps::<S, N>(inner, body, x)
                })?;
            }
            Step::Toc(body) => {
                let r = cons.take_opt_constructed(|tag, inner| {
                    x.emit(format!("t{}", tag_trace(tag, true)));
                    run_steps::<S, N>(inner, body, x)
                })?;
                opt_emit(r, x);
            }
            Step::Tci(t, body) => {
                cons.take_constructed_if(*t, |inner| run_steps::<S, N>(inner, body, x))?;
            }
            Step::Toci(t, body) => {
                let r = cons.take_opt_constructed_if(*t, |inner| {
                    x.emit("some".into());
                    run_steps::<S, N>(inner, body, x)
                })?;
                opt_emit(r, x);
            }
            Step::Seq(body) => {
                cons.take_sequence(|inner| run_steps::<S, N>(inner, body, x))?;
            }
            Step::OSeq(body) => {
                let r = cons.take_opt_sequence(|inner| {
                    x.emit("some".into());
                    run_steps::<S, N>(inner, body, x)
                })?;
                opt_emit(r, x);
            }
            Step::Set(body) => {
                cons.take_set(|inner| run_steps::<S, N>(inner, body, x))?;
            }
            Step::OSet(body) => {
                let r = cons.take_opt_set(|inner| {
                    x.emit("some".into());
                    run_steps::<S, N>(inner, body, x)
                })?;
                opt_emit(r, x);
            }
            Step::SkipOpt(f) => {
                let r = cons.skip_opt(filter_fn(*f, x))?;
                x.emit(if r.is_some() { "skipped".into() } else { "none".into() });
            }
            Step::Skip(f) => {
                cons.skip(filter_fn(*f, x))?;
                x.emit("skipped".into());
            }
            Step::SkipOne => {
                let r = cons.skip_one()?;
                x.emit(if r.is_some() { "skipped".into() } else { "none".into() });
            }
            Step::SkipAll => {
                cons.skip_all()?;
                x.emit("skippedall".into());
            }
            Step::Cap(body) => {
                let cap = N::cap(cons, body, x)?;
                x.emit(format!("C{}", to_hex(cap.as_slice())));
                x.reg = Some(cap);
            }
            Step::CapOne => {
                let cap = cons.capture_one()?;
                x.emit(format!("C{}", to_hex(cap.as_slice())));
                x.reg = Some(cap);
            }
            Step::CapAll => {
                let cap = cons.capture_all()?;
                x.emit(format!("C{}", to_hex(cap.as_slice())));
                x.reg = Some(cap);
            }
            Step::Dec(body) => {
                let cap = match x.reg.clone() {
                    Some(c) => c,
                    None => { x.emit("Dnone".into()); continue }
                };
                x.emit("D(".into());
                let r = cap.decode(|inner| run_steps::<_, N2>(inner, body, x));
                match r {
                    Ok(()) => x.emit(")".into()),
                    Err(e) => return Err(e.convert()),
                }
            }
            Step::Decp(body) => {
                let mut cap = match x.reg.take() {
                    Some(c) => c,
                    None => { x.emit("Pnone".into()); continue }
                };
                let mark = x.trace.len();
                x.emit("P(".into());
                let r = cap.decode_partial(|inner| run_steps::<_, N2>(inner, body, x));
                match r {
                    Ok(()) => {
                        x.emit(format!("){}", format!("R{}", to_hex(cap.as_slice()))));
                        x.reg = Some(cap);
                    }
                    Err(_) => {
                        x.trace.truncate(mark);
                        x.emit("Perr".into());
                        x.reg = None;
                    }
                }
            }
            Step::SetMode(m) => cons.set_mode(*m),
            Step::Typed(r) => run_typed(r, cons, x)?,
            Step::All => generic_all(cons, x)?,
        }
    }
    Ok(())
}
