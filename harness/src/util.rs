//! hex and small helpers
use bcder::Mode;

pub fn to_hex(bs: &[u8]) -> String {
    if bs.is_empty() {
        return "-".into();
    }
    let mut s = String::with_capacity(bs.len() * 2);
    for b in bs {
        s.push_str(&format!("{:02x}", b));
    }
    s
}

pub fn of_hex(s: &str) -> Option<Vec<u8>> {
    if s == "-" {
        return Some(vec![]);
    }
    if s.len() % 2 != 0 {
        return None;
    }
    let b = s.as_bytes();
    let mut out = Vec::with_capacity(b.len() / 2);
    for i in (0..b.len()).step_by(2) {
        let x = (b[i] as char).to_digit(16)?;
        let y = (b[i + 1] as char).to_digit(16)?;
        out.push((x * 16 + y) as u8);
    }
    Some(out)
}

pub fn parse_mode(s: &str) -> Option<Mode> {
    match s {
        "ber" => Some(Mode::Ber),
        "cer" => Some(Mode::Cer),
        "der" => Some(Mode::Der),
        _ => None,
    }
}

pub fn b01(b: bool) -> &'static str {
    if b { "1" } else { "0" }
}
