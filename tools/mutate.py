#!/usr/bin/env python3
"""Systematic mutation run (validation of the machinery, not a check):

  tools/mutate.py [--files tag.rs,length.rs,...] [--max N] [--workers K] [--seed S] [--out DIR]

Generates first-order mutants of /repo/src (relational / arithmetic / boolean operators, boundary
constants, dropped `?` statements, disabled error branches), applies each to a scratch worktree under
/tmp/mut (never /repo), and for every mutant that still COMPILES AND PASSES the crate's own 33 tests
runs the quick checks (those registered for the mutated file first, then all others) until one
reports a VIOLATION.  Output: one JSON line per mutant in DIR/results.jsonl
  {"id", "file", "line", "op", "before", "after", "tests": "pass|fail|nocompile", "caught_by": "Cxx"|null}
Survivors (tests pass, no check fires) are either equivalent mutants or gaps in the checks; they are
listed at the end and are what the generators get strengthened against.
"""
import argparse, json, os, random, re, subprocess, sys, hashlib, shutil
from concurrent.futures import ThreadPoolExecutor

ROOT = os.path.dirname(os.path.dirname(os.path.abspath(__file__)))
REPO = "/repo"

# which checks to try first for a mutant of a given file
FIRST = {
    "tag.rs": ["C12", "C09", "C02"], "length.rs": ["C13", "C02", "C06"], "mode.rs": ["C02", "C04"],
    "int.rs": ["C14", "C15", "C04", "C05"], "oid.rs": ["C20", "C04"], "captured.rs": ["C11", "C06", "C05"],
    "decode/content.rs": ["C02", "C10", "C09", "C11", "C03", "C14", "C01"], "decode/source.rs": ["C03", "C07", "C11", "C08", "C02"],
    "decode/error.rs": ["C08", "C02"],
    "encode/primitive.rs": ["C14", "C06", "C04"], "encode/values.rs": ["C06", "C04", "C05"],
    "string/bit.rs": ["C19", "C04", "C06"], "string/octet.rs": ["C16", "C17", "C07", "C04", "C18"],
    "string/restricted.rs": ["C18", "C17", "C04"],
}
ALL = ["C%02d" % i for i in range(1, 21)]

def code_lines(path):
    """(index, line) of lines that are code: outside comments, doc comments, and the tests module"""
    out = []
    lines = open(path).read().split("\n")
    in_tests = False
    dead = 0          # > 0: inside an item that is not compiled on this (64-bit) target
    armed = False
    for i, l in enumerate(lines):
        s = l.strip()
        if s.startswith("#[cfg(test)]"):
            in_tests = True
        if in_tests:
            continue
        if s.startswith('#[cfg(not(target_pointer_width = "64"))]'):
            armed = True
            continue
        if armed or dead:
            opens, closes = l.count("{"), l.count("}")
            if armed and opens:
                armed = False
                dead = opens - closes
                if dead <= 0:
                    dead = 0
                continue
            if dead:
                dead += opens - closes
                continue
            continue
        if not s or s.startswith("//") or s.startswith("#[") or s.startswith("use ") or s.startswith("pub use "):
            continue
        out.append((i, l))
    return lines, out

def mutations(line):
    """yield (op, new_line) for one source line"""
    real = line.split("//")[0]
    tail = line[len(real):]
    # string and char literals are masked (same length) so that nothing inside them is mutated
    code = re.sub(r'"(?:[^"\\]|\\.)*"', lambda m: '"' + "\x00" * (len(m.group(0)) - 2) + '"', real)
    code = re.sub(r"b?'(?:[^'\\]|\\.)'", lambda m: "\x01" * len(m.group(0)), code)
    def emit(op, new):
        # put the literals back
        out = "".join(r if c in "\x00\x01" else c for c, r in zip(new, real)) if len(new) == len(real) else None
        if out is None:
            # length changed: re-insert literals by position from the left of the edit and from the right
            i = 0
            while i < min(len(new), len(real)) and (new[i] == real[i] or new[i] in "\x00\x01"):
                i += 1
            j = 0
            while j < min(len(new), len(real)) - i and (new[-1 - j] == real[-1 - j] or new[-1 - j] in "\x00\x01"):
                j += 1
            out = real[:i] + new[i:len(new) - j] + real[len(real) - j:]
        if out != real and "\x00" not in out and "\x01" not in out:
            yield (op, out + tail)
    # relational operators (avoid generics / arrows / shifts)
    for m in re.finditer(r"(?<![<>=!\-])(<=|>=|==|!=|<|>)(?![<>=])", code):
        a, b = m.span()
        tok = m.group(1)
        before, after = code[:a], code[b:]
        if tok in ("<", ">"):
            # skip generics / lifetimes: require spaces around
            if not (before.endswith(" ") and after.startswith(" ")):
                continue
        if before.rstrip().endswith("-") or after.startswith(">"):
            continue
        for rep in {"<": ["<=", ">"], "<=": ["<", "=="], ">": [">=", "<"], ">=": [">", "=="], "==": ["!="], "!=": ["=="]}[tok]:
            yield from emit("rel %s->%s" % (tok, rep), before + rep + after)
    # boolean connectives
    for m in re.finditer(r"&&|\|\|", code):
        a, b = m.span()
        rep = "||" if m.group(0) == "&&" else "&&"
        yield from emit("bool %s->%s" % (m.group(0), rep), code[:a] + rep + code[b:])
    # negation removal
    for m in re.finditer(r"!(?=[a-zA-Z_(])", code):
        a, b = m.span()
        if code[:a].rstrip().endswith(("assert", "matches", "unreachable", "unimplemented", "panic", "vec", "format", "write", "debug_assert")):
            continue
        yield from emit("neg removed", code[:a] + code[b:])
    # arithmetic
    for m in re.finditer(r" (\+|-) (?=[0-9a-zA-Z_(])", code):
        a, b = m.span()
        rep = " - " if m.group(1) == "+" else " + "
        yield from emit("arith %s->%s" % (m.group(1), rep.strip()), code[:a] + rep + code[b:])
    for m in re.finditer(r"(\+|-) 1\b(?!\.)", code):
        a, b = m.span()
        yield from emit("off-by-one %s 1 -> %s 0" % (m.group(1), m.group(1)), code[:a] + m.group(1) + " 0" + code[b:])
        yield from emit("off-by-one %s 1 -> %s 2" % (m.group(1), m.group(1)), code[:a] + m.group(1) + " 2" + code[b:])
    # numeric literals: boundary shifts
    for m in re.finditer(r"\b(0x[0-9a-fA-F_]+|[0-9][0-9_]*)\b(?!\.)", code):
        a, b = m.span()
        lit = m.group(1)
        if code[:a].endswith(("u", "i", "[u8; ", "tuple")):
            continue
        try:
            v = int(lit.replace("_", ""), 0)
        except ValueError:
            continue
        for nv in {v + 1, max(v - 1, 0)} - {v}:
            new = ("0x%x" % nv) if lit.startswith("0x") else str(nv)
            yield from emit("const %s->%s" % (lit, new), code[:a] + new + code[b:])
    # drop a `?;` statement
    s = code.strip()
    if s.endswith("?;") and not s.startswith("let ") and "=" not in s and not s.startswith("return"):
        yield from emit("statement dropped", code[:len(code) - len(code.lstrip())] + "// " + s)
    # disable an error branch: `if cond {` followed by return Err is handled by `cond -> false`
    m = re.match(r"^(\s*)(else )?if (.+) \{\s*$", code)
    if m and " let " not in m.group(3) and not m.group(3).startswith("let "):
        yield from emit("cond -> false", "%s%sif false && (%s) {" % (m.group(1), m.group(2) or "", m.group(3)))
        yield from emit("cond -> true", "%s%sif true || (%s) {" % (m.group(1), m.group(2) or "", m.group(3)))

def run(cmd, cwd=None, env=None, timeout=1800):
    try:
        r = subprocess.run(cmd, cwd=cwd, env=env, capture_output=True, text=True, timeout=timeout)
        return r.returncode, r.stdout + r.stderr
    except subprocess.TimeoutExpired:
        return 124, "timeout"

def worker(wid, jobs, outdir, results):
    wt = "/tmp/mut/w%d" % wid
    run(["git", "-C", REPO, "worktree", "remove", "--force", wt])
    run(["git", "-C", REPO, "worktree", "add", "--detach", wt, "HEAD"])
    env = dict(os.environ, CARGO_NET_OFFLINE="true")
    scratch = os.path.join(outdir, "w%d" % wid)
    os.makedirs(scratch, exist_ok=True)
    for job in jobs:
        path = os.path.join(wt, "src", job["file"])
        orig = open(path).read()
        lines = orig.split("\n")
        assert lines[job["line"]] == job["before"], (job, lines[job["line"]])
        lines[job["line"]] = job["after"]
        open(path, "w").write("\n".join(lines))
        res = dict(job)
        rc, out = run(["cargo", "test", "--offline", "--lib", "--quiet"], cwd=wt, env=env, timeout=600)
        if rc != 0:
            res["tests"] = "nocompile" if ("error[" in out or "error:" in out and "test result" not in out) else "fail"
            res["caught_by"] = None
        else:
            res["tests"] = "pass"
            res["caught_by"] = None
            order = FIRST.get(job["file"], []) + [c for c in ALL if c not in FIRST.get(job["file"], [])]
            cenv = dict(env, VERIF_REPO=wt, VERIF_SCRATCH_OUT=scratch)
            for c in order:
                rc2, out2 = run([os.path.join(ROOT, "check"), c, "--tier", "quick"], cwd=ROOT, env=cenv, timeout=1200)
                if "VIOLATION" in out2:
                    res["caught_by"] = c
                    res["how"] = [l for l in out2.split("\n") if "VIOLATION" in l][0][-60:]
                    break
        open(path, "w").write(orig)
        results.append(res)
        with open(os.path.join(outdir, "results.jsonl"), "a") as f:
            f.write(json.dumps(res) + "\n")
    run(["git", "-C", REPO, "worktree", "remove", "--force", wt])
    h = hashlib.sha1(os.path.abspath(wt).encode()).hexdigest()[:8]
    shutil.rmtree(os.path.join(ROOT, "harness", "target-" + h), ignore_errors=True)
    shutil.rmtree(os.path.join(ROOT, "harness", "m-" + h), ignore_errors=True)

def main():
    ap = argparse.ArgumentParser()
    ap.add_argument("--files", default=",".join(FIRST.keys()))
    ap.add_argument("--max", type=int, default=200)
    ap.add_argument("--workers", type=int, default=6)
    ap.add_argument("--seed", type=int, default=1)
    ap.add_argument("--out", default="/tmp/mut/out")
    ap.add_argument("--list", action="store_true")
    args = ap.parse_args()
    rng = random.Random(args.seed)
    jobs = []
    for f in args.files.split(","):
        path = os.path.join(REPO, "src", f)
        if not os.path.exists(path):
            continue
        lines, code = code_lines(path)
        for i, l in code:
            for op, new in mutations(l):
                jobs.append({"file": f, "line": i, "op": op, "before": l, "after": new})
    rng.shuffle(jobs)
    jobs = jobs[:args.max]
    for n, j in enumerate(jobs):
        j["id"] = "m%04d" % n
    if args.list:
        for j in jobs:
            print(j["id"], j["file"], j["line"] + 1, j["op"], "|", j["after"].strip())
        print(len(jobs), "mutants")
        return
    os.makedirs(args.out, exist_ok=True)
    open(os.path.join(args.out, "results.jsonl"), "w").close()
    results = []
    chunks = [jobs[i::args.workers] for i in range(args.workers)]
    with ThreadPoolExecutor(max_workers=args.workers) as ex:
        for w, ch in enumerate(chunks):
            ex.submit(worker, w, ch, args.out, results)
    surv = [r for r in results if r["tests"] == "pass" and not r["caught_by"]]
    killed_tests = sum(1 for r in results if r["tests"] != "pass")
    caught = sum(1 for r in results if r["caught_by"])
    print("mutants: %d; rejected by compiler or the crate's own tests: %d; pass the tests: %d, of which caught by a check: %d, SURVIVORS: %d"
          % (len(results), killed_tests, len(results) - killed_tests, caught, len(surv)))
    for r in surv:
        print("SURVIVOR", r["id"], r["file"], r["line"] + 1, r["op"], "|", r["after"].strip())

if __name__ == "__main__":
    main()
