#!/usr/bin/env python3
"""Writes lean/Bcder/Audit/Cxx.lean (`#print axioms` for every listed theorem) from gen.Cxx.THEOREMS."""
import os, sys, importlib
ROOT = os.path.dirname(os.path.dirname(os.path.abspath(__file__)))
sys.path.insert(0, os.path.join(ROOT, "tools"))
for i in range(1, 21):
    p = "C%02d" % i
    try:
        m = importlib.import_module("gen." + p)
    except ModuleNotFoundError:
        continue
    if not os.path.exists(os.path.join(ROOT, "lean", "Bcder", "Props", p + ".lean")):
        continue
    lines = ["import Bcder.Props.%s" % p] + ["import Bcder.Props.%s" % x for x in getattr(m, "EXTRA_MODULES", [])]
    for t in m.THEOREMS:
        full = t if t.startswith("Bcder.") else "Bcder.Props.%s.%s" % (p, t)
        lines.append("#print axioms %s" % full)
    open(os.path.join(ROOT, "lean", "Bcder", "Audit", p + ".lean"), "w").write("\n".join(lines) + "\n")
print("ok")
