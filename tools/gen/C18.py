"""C18 — a restricted character string only ever holds characters of its character set"""
from common import *

THEOREMS = ['chars_eq_spec', 'check_eq_spec', 'fromStr_eq_spec', 'fromStr_utf8', 'fromStr_wellformed', 'utf8_decode_iff', 'numeric_decode_iff', 'printable_decode_iff', 'ia5_decode_iff', 'chars_scalar', 'new_eq_spec', 'new_octets_err', 'rs_chars_eq_spec', 'chars_of_new', 'segmentation_irrelevant', 'fromContent_eq']
RULE = ("cs.chars <cs> <mode> <encoding> / cs.new / cs.fromstr: all 1- and 2-octet strings, every lead octet c0-ff x continuation "
        "boundary alphabet {7f,80,8f,90,9f,a0,bf,c0} for 3-4 octet forms, random valid text in several scripts, each under random "
        "segmentations (split inside a multi-octet character, empty segments), 4 character sets x 3 modes x all constructors. "
        "non-trivial = accepted.")
CROSS = {'C16': 2000, 'C17': 1500, 'C07': 1500}   # cross streams: samples of neighbouring properties' request streams (outcomes, model <-> implementation)
EXHAUSTIVE = {"quick": False, "thorough": False}
EXHAUSTIVE_NOTE = {"quick": "all octet strings of <= 2 octets x 4 character sets (primitive, BER)", "thorough": "same plus all 3-octet strings for UTF-8"}
ASSUMPTIONS = ["Rust strings given to from_str/from_string are valid UTF-8 by construction"]

CSS = ["utf8", "num", "print", "ia5"]
TAG = {"utf8": 0x0c, "num": 0x12, "print": 0x13, "ia5": 0x16}

def has_spec(r):
    return r.startswith("cs.")
def model_is_demanded(r):
    return True

def enc_cs(rng, cs, content, segmented):
    t = TAG[cs]
    if not segmented:
        return os_prim(content, bytes([t]))
    return rand_os_form(rng, content, maxdepth=3, outer_tag=(bytes([t]), bytes([t | 0x20])))

def gen(tier, rng):
    import itertools
    out = []
    modes = ["ber", "cer", "der"]
    strings = [b""] + [bytes([a]) for a in range(256)] + [bytes([a, b]) for a in range(256) for b in range(256)]
    for s in strings:
        for cs in CSS:
            out.append("cs.chars %s ber %s" % (cs, hx(os_prim(s, bytes([TAG[cs]])))))
    CONT = [0x7f, 0x80, 0x8f, 0x90, 0x9f, 0xa0, 0xbf, 0xc0]
    multi = []
    for lead in range(0xc0, 0x100):
        for k in (2, 3):
            for tail in itertools.product(CONT, repeat=k):
                multi.append(bytes([lead]) + bytes(tail))
    if tier == "thorough":
        multi += [bytes([a, b, c]) for a in range(0xe0, 0xf0) for b in range(0x80, 0xc0) for c in (0x7f, 0x80, 0xbf, 0xc0)]
    for s in multi:
        out.append("cs.chars utf8 %s %s" % (rng.choice(modes), hx(os_prim(s, b"\x0c"))))
        if rng.random() < 0.3:
            out.append("cs.chars utf8 ber %s" % hx(enc_cs(rng, "utf8", b"a" + s + b"z", True)))
    samples = ["hello world", "Grüße", "日本語テキスト", "emoji 😀 ok", "0123456789 ", "A-Z (a) 'x' +,-./:=?", "\x00\x7f", "٣", "퟿", "\U0010ffff", "é" * 5, "𐍈"]
    for _ in range(3000 if tier == "quick" else 30000):
        base = rng.choice(samples)
        t = "".join(rng.choice(base) for _ in range(rng.randrange(0, 10))) if rng.random() < 0.7 else base
        b = t.encode()
        for cs in CSS:
            m = rng.choice(modes)
            out.append("cs.chars %s %s %s" % (cs, m, hx(enc_cs(rng, cs, b, rng.random() < 0.7))))
            out.append("cs.new %s %s %s" % (cs, rng.choice(["ber", "cer"]), hx(rand_os_form(rng, b))))
            out.append("cs.fromstr %s %s" % (cs, hx(b)))
        if rng.random() < 0.3:
            bad = mutate(rng, b)
            out.append("cs.chars utf8 ber %s" % hx(enc_cs(rng, "utf8", bad, rng.random() < 0.5)))
            out.append("cs.new utf8 ber %s" % hx(rand_os_form(rng, bad)))
    for cs in CSS:
        for a in range(128):
            out.append("cs.fromstr %s %s" % (cs, hx(bytes([a]))))
        out.append("cs.fromstr %s -" % cs)
        for t in ("é", "abc", "123 456", "a b", "€", "😀"):
            out.append("cs.fromstr %s %s" % (cs, hx(t.encode())))
    # truncated encodings of this property's typed values (scripts.truncated_leaves)
    import scripts as _scripts
    for (_m, _d, _sc) in _scripts.truncated_leaves([0x0c, 0x12, 0x13, 0x16]):
        for _src in ("slice", "stingy"):
            out.append("run %s %s %s %s" % (_m, _src, hx(_d), _sc))
    return out

def nontrivial(req, ans):
    return ans.startswith("ok")

LEVEL = "proof"
LEVEL_TEXT = ("Lean 4 theorems for ALL octet strings and all four character sets: the model of CharSet::next_char / check / chars equals the reference decoder (RFC 3629 encoding table searched for the unique valid prefix; the NumericString, PrintableString and IA5String repertoires) on every input - it never panics, accepts exactly the valid encodings and yields exactly the encoded characters (chars_eq_spec, check_eq_spec; utf8_decode_iff characterises the reference independently of its search: l all scalar values and bs = concatenation of utf8Encode); every yielded character is a Unicode scalar value (chars_scalar); from_str accepts exactly the valid strings (fromStr_eq_spec, fromStr_wellformed); RestrictedString::new accepts iff the concatenated octets are valid, an accepted string iterates to exactly its characters without panic, and two values with the same octets behave alike whatever their segmentation (new_eq_spec, chars_of_new, segmentation_irrelevant); decoding = octet string read followed by the validity test (fromContent_eq). Correspondence: every character set x valid/invalid boundary encodings (overlong, surrogates, > U+10FFFF, truncated, stray continuation), segmented strings with characters straddling segment boundaries, from_str on Rust strings.")
LEVEL_NOTE = ("Trusted: Lean 4.33 kernel; axioms propext, Classical.choice, Quot.sound only; the hand-written model (lean/Bcder/Model/Restricted.lean) tied to /repo on every run by differential correspondence; the reference decoder lean/Bcder/Spec/Values.lean. That a Rust str is well-formed UTF-8 is the language guarantee (explicit hypothesis in fromStr_wellformed). OS.octets = the concatenation of segments is C16/C17 territory and a hypothesis here; its error branch is covered by new_octets_err.")
