"""C12 — identifier octets <-> tags"""
from common import *

THEOREMS = ['new_octets', 'new_number_class', 'write_eq_spec', 'takeOptFrom_eq_spec', 'takeFrom_eq_spec', 'tagOf_inj', 'takeFromIf_eq_spec', 'consts_universal', 'consts_distinct', 'low_tag_octets', 'Bcder.Props.C12b.read_write', 'Bcder.Props.C12b.write_prefix_free']
EXTRA_MODULES = ['C12b']
RULE = ("tag.new: every class x numbers within +-40 of 0,30,31,127,128,16383,16384,0x1FFFFF plus random; "
        "tag.take/takeopt: every first octet x following octets from a boundary alphabet up to 5 octets, complete and truncated; "
        "tag.takeif: expected tags of 1-4 octets against equal / different / prefix-sharing / non-minimal / truncated identifiers. "
        "non-trivial = a tag was produced or matched.")
CROSS = {'C09': 2500, 'C02': 1500, 'C07': 1500}   # cross streams: samples of neighbouring properties' request streams (outcomes, model <-> implementation)
EXHAUSTIVE = {"quick": False, "thorough": False}
EXHAUSTIVE_NOTE = {"quick": "tag.take exhaustive for identifier strings of <= 2 octets",
                   "thorough": "tag.new exhaustive for all 4 x 2^21 (class, number); tag.take exhaustive for <= 3 octets"}
ASSUMPTIONS = ["Tag::new's documented assert (number > 0x1FFFFF) is caller misuse and not requested"]

def has_spec(r):
    return r.startswith("tag.")
def model_is_demanded(r):
    return True

ALPHA = [0x00, 0x01, 0x1e, 0x1f, 0x20, 0x7f, 0x80, 0x81, 0xbf, 0xc0, 0xff]
NUMS = [0, 30, 31, 127, 128, 16383, 16384, 0x1FFFFF]

CONSTS = ['END_OF_VALUE', 'BOOLEAN', 'INTEGER', 'BIT_STRING', 'OCTET_STRING', 'NULL', 'OID', 'OBJECT_DESCRIPTOR', 'EXTERNAL', 'REAL', 'ENUMERATED', 'EMBEDDED_PDV', 'UTF8_STRING', 'RELATIVE_OID', 'TIME', 'SEQUENCE', 'SET', 'NUMERIC_STRING', 'PRINTABLE_STRING', 'TELETEX_STRING', 'VIDEOTEX_STRING', 'IA5_STRING', 'UTC_TIME', 'GENERALIZED_TIME', 'GRAPHIC_STRING', 'VISIBLE_STRING', 'GENERAL_STRING', 'UNIVERSAL_STRING', 'CHARACTER_STRING', 'BMP_STRING', 'DATE', 'TIME_OF_DAY', 'DATE_TIME', 'DURATION', 'OID_IRI', 'RELATIVE_OID_IRI', 'CTX_0', 'CTX_1', 'CTX_2', 'CTX_3', 'CTX_4', 'CTX_5', 'CTX_6']

def gen(tier, rng):
    out = []
    # every named constant of Tag must be the tag of the class and number its name stands for
    # (added after the mutation run: constants no reader uses were not observed by any request)
    for n in CONSTS:
        out.append("tag.const " + n)
    w = 40
    for cls in range(4):
        seen = set()
        for b in NUMS:
            for n in range(max(0, b - w), min(0x1FFFFF, b + w) + 1):
                seen.add(n)
        for n in sorted(seen):
            out.append("tag.new %d %d" % (cls, n))
        for _ in range(5000 if tier == "quick" else 50000):
            bits = rng.randrange(1, 22)
            out.append("tag.new %d %d" % (cls, rng.randrange(1 << bits)))
    if tier == "thorough":
        for cls in range(4):
            out += ["tag.new %d %d" % (cls, n) for n in range(0, 1 << 21)]
    # readers
    for b0 in range(256):
        out.append("tag.take %02x" % b0)
        out.append("tag.takeopt %02x" % b0)
        for b1 in range(256):
            out.append("tag.take %02x%02x" % (b0, b1))
    out.append("tag.take -")
    out.append("tag.takeopt -")
    firsts = [0x1f, 0x3f, 0x5f, 0x7f, 0x9f, 0xbf, 0xdf, 0xff, 0x1e, 0x00, 0x20]
    for b0 in firsts:
        for k in (2, 3, 4, 5):
            import itertools
            combos = list(itertools.product(ALPHA, repeat=k)) if k <= 3 or tier == "thorough" and k <= 4 else None
            if combos is None:
                combos = [tuple(rng.choice(ALPHA) for _ in range(k)) for _ in range(3000)]
            for c in combos:
                out.append("tag.take %02x%s" % (b0, bytes(c).hex()))
        if tier == "thorough":
            for b1 in range(256):
                for b2 in range(256):
                    out.append("tag.take %02x%02x%02x" % (b0, b1, b2))
    for _ in range(20000 if tier == "quick" else 200000):
        k = rng.randrange(1, 6)
        bs = bytes([rng.choice([0x1f, 0x3f, 0x9f, 0xff, rng.randrange(256)])] + [rng.choice(ALPHA) if rng.random() < 0.6 else rng.randrange(256) for _ in range(k)])
        out.append("tag.take %s" % bs.hex())
        out.append("tag.takeopt %s" % bs.hex())
    # conditional reading
    exp = [(c, n) for c in range(4) for n in (0, 1, 4, 16, 30, 31, 32, 127, 128, 129, 16383, 16384, 0x1FFFFF)]
    for (c, n) in exp:
        own = ident(c, False, n)
        cands = set()
        for c2 in range(4):
            for n2 in (n, max(0, n - 1), min(n + 1, 0x1FFFFF), n ^ 0x80 if n ^ 0x80 <= 0x1FFFFF else n, 0, 31):
                for cons in (False, True):
                    cands.add(ident(c2, cons, n2))
        for idb in list(cands):
            for t in range(1, len(idb)):
                cands.add(idb[:t])          # truncated
        cands.add(b"")
        # non-minimal spellings of the same number
        lead = (c << 6) | 0x1f
        if n <= 127:
            cands.add(bytes([lead, 0x80, n]))
            cands.add(bytes([lead, n]))
        cands.add(bytes([lead, 0x80, 0x80, n & 0x7f]))
        cands.add(bytes([lead, 0xff, 0xff, 0xff, 0x7f]))
        for idb in cands:
            for tail in (b"", b"\x00", b"\x05\x00"):
                out.append("tag.takeif %d %d %s" % (c, n, hx(idb + tail)))
    for _ in range(10000 if tier == "quick" else 100000):
        c, n = rng.randrange(4), rng.choice([rng.randrange(31), rng.randrange(128), rng.randrange(1 << 14), rng.randrange(1 << 21)])
        if rng.random() < 0.5:
            data = ident(c, rng.random() < 0.5, n) + bytes(rng.randrange(256) for _ in range(rng.randrange(3)))
        else:
            data = mutate(rng, ident(rng.randrange(4), rng.random() < 0.5, n ^ rng.choice([0, 1, 0x80, 0x4000])  if (n ^ 0x4000) <= 0x1FFFFF else n))
        out.append("tag.takeif %d %d %s" % (c, n, hx(data)))
    return out

LEVEL = "proof"
LEVEL_TEXT = "Lean 4 theorems for all 4 classes x all numbers <= 0x1FFFFF x both constructed flags and for ALL identifier octet strings: Tag::new stores the octets of (class, number), number()/class recover them (new_number_class), write_encoded is the reference minimal X.690 form with the reported size (write_eq_spec), writing then reading returns the same tag and form and consumes exactly what was written, and identifier octets are self-delimiting (C12b.read_write, C12b.write_prefix_free), take_opt_from/take_from equal the reference reader on every input and return exactly the constructed tag of the class and number encoded - so equal class/number never give unequal tags and distinct identifier octets never give equal tags (takeFrom_eq_spec, tagOf_inj), truncated/over-long/non-minimal identifiers are rejected, and take_from_if consumes the identifier exactly when it is the expected tag's and leaves the source untouched otherwise (takeFromIf_eq_spec). Correspondence: ~230k requests incl. all identifier strings of <= 2 octets; thorough: all 4 x 2^21 numbers."
LEVEL_NOTE = "Trusted: Lean 4.33 kernel; axioms propext, Classical.choice, Quot.sound only; the hand-written model (lean/Bcder/Model) tied to /repo on every run by differential correspondence (tools/check.py, harness/, lean/Driver.lean); reference definitions lean/Bcder/Spec. Tag::new's documented assertion (number > 0x1FFFFF) is excluded. The predefined constants: the thirteen the model's readers use are proved to be tagOf 0 n for their X.680 numbers and pairwise distinct (consts_universal, consts_distinct); all 43 constants of src/tag.rs are compared with Tag::new(class, number) of their X.680 numbers by the correspondence (tag.const)."
