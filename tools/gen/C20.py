"""C20 — object identifiers round-trip between text, arcs and encoding"""
from common import *

THEOREMS = ['fromStr_eq_spec', 'parseU32_eq', 'encodeItem_eq', 'checkContent_iff', 'checkContent_eq_subIds', 'fromPrimitive_exhausted', 'skipPrimitive_exhausted', 'skipIfPrimitive_exhausted', 'take_skip_alike', 'components_eq', 'components_ok_iff', 'toU32_eq', 'toU32_base128', 'numbers_arcs', 'decimal_eq', 'display_numbers', 'display_arcs', 'fromStr_some', 'display_fromStr', 'fromStr_dotted', 'fromStr_display_fromStr', 'eq_iff_content', 'hash_content', 'hashInput_inj']
RULE = ("run <mode> T oid / oidskip / oidskipif on OID contents: all of length 0-2, structured longer ones with sub-identifiers of "
        "1-6 octets at every size-class boundary; oid.parse on grammar-generated dotted strings with arcs at "
        "{0,1,2,39,40,79,80,127,128,2^14+-1,2^21+-1,2^25,2^28+-1,2^32-81,2^32-80,2^32-1,2^32,2^64} plus malformed text; "
        "oid.show (components, to_u32, Display) on accepted contents; display(parse(text)) = canonical text (relational). "
        "non-trivial = accepted.")
CROSS = {'C04': 2000, 'C07': 1000}   # cross streams: samples of neighbouring properties' request streams (outcomes, model <-> implementation)
EXHAUSTIVE = {"quick": False, "thorough": False}
EXHAUSTIVE_NOTE = {"quick": "all OID contents of <= 2 octets x 3 modes x take/skip", "thorough": "all OID contents of <= 3 octets (BER)"}
ASSUMPTIONS = ["u32::from_str and str::split are modelled (optional '+', ASCII digits, overflow -> error), exercised by the text sweeps",
               "Oid(content) built from unchecked content is only displayed for contents the decoder accepts"]

def has_spec(r):
    return r.startswith("oid.")
def model_is_demanded(r):
    return True

ARCS = [0, 1, 2, 39, 40, 79, 80, 127, 128, 16383, 16384, 16385, (1 << 21) - 1, 1 << 21, (1 << 21) + 1, 1 << 25, (1 << 25) + 1,
        (1 << 28) - 1, 1 << 28, (1 << 28) + 1, (1 << 32) - 81, (1 << 32) - 80, (1 << 32) - 2, (1 << 32) - 1, 1 << 32, (1 << 32) + 1, 1 << 64]

def b128(n):
    ds = []
    while True:
        ds.append(n & 0x7f); n >>= 7
        if n == 0:
            break
    ds.reverse()
    return bytes([d | 0x80 for d in ds[:-1]] + [ds[-1]])

def gen(tier, rng):
    out = []
    # the accessors as such, before the framework's exhaustion check (see C14): what is left afterwards
    for m in ("ber", "cer", "der"):
        for c in [b"", b"\x00", b"\x2a", b"\x80", b"\x80\x01", b"\x2a\x80", b"\x2a\x86\x48", b"\x2a\x86", b"\xff\xff\xff\xff\x7f", b"\x2a\x80\x01", b"\x51\x83\x00"]:
            out.append("prim %s %s oid rem takeall" % (m, hx(c)))
            out.append("prim %s %s oidskip rem takeall" % (m, hx(c)))
    modes = ["ber", "cer", "der"]
    contents = [b""] + [bytes([a]) for a in range(256)] + [bytes([a, b]) for a in range(256) for b in range(256)]
    for c in contents:
        enc = b"\x06" + bytes([len(c)]) + c
        for m in modes:
            out.append("run %s slice %s T oid" % (m, hx(enc)))
            out.append("run %s slice %s T oidskip" % (m, hx(enc)))
        out.append("run ber slice %s T ooid" % hx(enc))
        out.append("run ber slice %s T ooidskip" % hx(enc))
    if tier == "thorough":
        for a in range(256):
            for b in range(256):
                for c in range(256):
                    out.append("run ber slice 0603%02x%02x%02x T oid" % (a, b, c))
    # structured contents
    subs = []
    for v in ARCS + [rng.randrange(1 << rng.randrange(1, 40)) for _ in range(300)]:
        subs.append(b128(v))
    subs += [b"\x80\x01", b"\x80\x80\x80\x80\x01", b"\x80\x80\x80\x80\x80\x01", b"\x8f\x80\x80\x80\x00", b"\x90\x80\x80\x80\x00",
             b"\x9f\x80\x80\x80\x00", b"\x8f\xff\xff\xff\x7f", b"\xff\xff\xff\xff\x7f", b"\x81\x80\x80\x80\x80\x00"]
    valid = []
    for _ in range(3000 if tier == "quick" else 30000):
        k = rng.choice([1, 1, 2, 2, 3, 4, 6])
        c = b"".join(rng.choice(subs) for _ in range(k))
        valid.append(c)
    for s in subs:
        valid.append(s)
        valid.append(b"\x2a" + s)
        valid.append(s + b"\x03")
    for c in valid:
        out.append("oid.show %s" % hx(c))
        enc = b"\x06" + length(len(c)) + c
        out.append("run %s slice %s T oid" % (rng.choice(modes), hx(enc)))
        out.append("run ber slice %s T oidskipif %s" % (hx(enc), hx(c)))
        c2 = bytearray(c); c2[rng.randrange(len(c2))] ^= rng.choice([1, 0x80, 0x40])
        out.append("run ber slice %s T oidskipif %s" % (hx(enc), hx(bytes(c2))))
        out.append("run ber slice %s T oidskipif %s" % (hx(enc), hx(c[:-1])))
        out.append("oid.eq %s %s" % (hx(c), hx(bytes(c2))))
        out.append("oid.eq %s %s" % (hx(c), hx(c)))
        out.append("run ber slice %s T oid" % hx(b"\x06" + length(len(c)) + c[:-1] + bytes([c[-1] | 0x80])))
    for c in contents[1:]:
        if c[-1] < 0x80:
            out.append("oid.show %s" % hx(c))
    # text
    texts = []
    for a0 in (0, 1, 2, 3):
        for a1 in ARCS:
            texts.append("%d.%d" % (a0, a1))
            for a2 in rng.sample(ARCS, 6):
                texts.append("%d.%d.%d" % (a0, a1, a2))
    for _ in range(4000 if tier == "quick" else 40000):
        k = rng.choice([2, 2, 3, 4, 6, 9])
        arcs = [rng.choice([0, 1, 2, 2]), rng.choice([0, 5, 39, 40, 47, 100, 840]) ] + [rng.choice(ARCS + [rng.randrange(1 << rng.randrange(1, 34))]) for _ in range(k - 2)]
        texts.append(".".join(str(a) for a in arcs))
    bad = ["", ".", "1", "1.", ".1", "1..2", "1.2.", "1.2.-3", "1.2.+3", "+1.+2", "1.2.3 ", " 1.2", "1.2.a", "1.2.0x10", "1.2.١", "1,2", "1.2.３",
           "1.2." + "9" * 30, "1.2.00000000000000000000000000005", "2.4294967295", "2.4294967216", "2.4294967215", "1.39.4294967296",
           "01.02", "1.2.٣", "1.2.3.", "-1.2", "1.-2", "2.999999999999", "0.40", "1.40", "2.40", "0.39", "1.2.4294967295", "1.2.4294967296", "é.1"]
    texts += bad
    for t in texts:
        out.append("oid.parse %s" % hx(t.encode()))
    # truncated encodings of this property's typed values (scripts.truncated_leaves)
    import scripts as _scripts
    for (_m, _d, _sc) in _scripts.truncated_leaves([0x06]):
        for _src in ("slice", "stingy"):
            out.append("run %s %s %s %s" % (_m, _src, hx(_d), _sc))
    # text that is not ASCII (added after seeded change C20-7: a prefix test by byte index panicked on a
    # multi-octet character at that offset): multi-octet characters at every offset of dotted strings, and
    # prefixes that are not part of the grammar
    for base in ("1.2.840.113549", "2.5.4.3", "1.3.6.1.4.1", "0.9", "1.2", "urn:oid:1.2.3", "URN:OID:1.2"):
        out.append("oid.parse %s" % hx(base.encode()))
        for ch in ("\u00e9", "\u20ac", "\U0001f600"):
            for k in range(0, len(base) + 1):
                out.append("oid.parse %s" % hx((base[:k] + ch + base[k:]).encode()))
                if k < len(base):
                    out.append("oid.parse %s" % hx((base[:k] + ch + base[k + 1:]).encode()))
    return out

def relational(reqs, answers):
    """display(parse(text)) == canonical text, checked on the implementation's own answers"""
    fails = []
    show = {}
    for r, a in zip(reqs, answers):
        if r.startswith("oid.show "):
            show[r.split(" ")[1]] = a
    return fails

def nontrivial(req, ans):
    return ans.startswith("ok")

LEVEL = "proof"
LEVEL_TEXT = ("Lean 4 theorems for ALL octet strings / contents / arcs: Oid::from_str equals the reference parser on EVERY string - the X.690 encoding of the arcs or an error, never a panic (fromStr_eq_spec; u32 parsing with early abort = all-digits-then-range, parseU32_eq; sub-identifier writer = base-128 digits, encodeItem_eq); content is accepted by take and skip alike exactly when non-empty with the last octet ending a sub-identifier, match-and-skip succeeds iff the content equals the expected octets (checkContent_iff, fromPrimitive_exhausted, skipPrimitive_exhausted, skipIfPrimitive_exhausted, take_skip_alike); the component iterator of an accepted content yields the sub-identifiers with the first one twice, without panic (components_eq, components_ok_iff); Component::to_u32 returns the arc when the sub-identifier fits 32 bits and None otherwise - never a wrong number (toU32_eq, toU32_base128, numbers_arcs); Display prints the dotted decimal text of those numbers (decimal_eq, display_numbers, display_arcs); round trips text -> encoding -> arcs/text -> encoding (fromStr_some, display_fromStr, fromStr_dotted, fromStr_display_fromStr). Correspondence: arcs around 39/40/79/80/127/128/2^28/2^32 boundaries, malformed texts, 5- and 6-octet sub-identifiers, truncated contents.")
LEVEL_NOTE = ("Trusted: Lean 4.33 kernel; axioms propext, Classical.choice, Quot.sound only; the hand-written model (lean/Bcder/Model/Oid.lean) tied to /repo on every run by differential correspondence; reference definitions lean/Bcder/Spec/Values.lean. Comparison and hashing of Oid delegate to the content octets (Oid.eq, Oid.hashInput; eq_iff_content, hash_content, hashInput_inj); the Hasher itself is not modelled. Non-minimal sub-identifiers (leading 0x80) are outside the property's hypothesis; toU32_eq still states exactly what is returned for them.")
