"""C16 — an octet string's content is the concatenation of its primitive segments"""
from common import *

THEOREMS = ['prim_accept_iff', 'prim_reject', 'prim_views', 'cons_der_reject', 'views_eq_concat', 'octets_eq_osContent', 'len_eq_sum', 'new_inv_prim', 'new_inv_cons', 'request_inv', 'advance_inv', 'request_all', 'write_der_ok', 'write_ber_cons', 'reencode_der_wellformed', 'reencode_ber_wellformed', 'reencode_ber_d12_shape', 'capture_run0', 'cons_cer_accept_iff', 'cons_cer_reject', 'cons_cer_accept_iff_spec', 'cons_cer_views', 'cons_accept_captures_consumed', 'Bcder.Props.C16b.runFilter_ber', 'Bcder.Props.C16b.berLoop_def', 'Bcder.Props.C16b.berLoop_indef', 'Bcder.Props.C16b.ber_def_accept_iff', 'Bcder.Props.C16b.ber_def_accept_iff_spec', 'Bcder.Props.C16b.ber_indef_accept_iff', 'Bcder.Props.C16b.ber_indef_accept_iff_spec', 'Bcder.Props.C16b.ber_indef_captured', 'Bcder.Props.C16b.ber_accept_views', 'Bcder.Props.C16b.ber_accept_reencode', 'Bcder.Props.C16b.ber_reject', 'Bcder.Props.C16b.fromContent_nopanic', 'Bcder.Props.C16b.ber_def_reject_foreign', 'Bcder.Props.C16b.ber_indef_reject_foreign', 'Bcder.Props.C16b.ber_def_reject_malformed']
EXTRA_MODULES = ['C16b']
RULE = ("os.views <mode> <encoding>: forms of depth <= 4 over contents of length 0-12, definite and indefinite at every level, empty segments and "
        "empty constructed values, foreign tags at every position, mutations; CER: segment-length vectors over {0,1,999,1000,1001} of length <= 3 "
        "(all); 3 modes; all views (segments, to_bytes, into_bytes, len, is_empty, octets, as_slice); use as a Source (run ... osrc); "
        "re-encoding (os.enc). non-trivial = accepted.")
CROSS = {'C11': 2000, 'C17': 1500, 'C07': 3000, 'C10': 1500}   # cross streams: samples of neighbouring properties' request streams (outcomes, model <-> implementation)
EXHAUSTIVE = {"quick": False, "thorough": False}
EXHAUSTIVE_NOTE = {"quick": "all CER segment-length vectors over {0,1,999,1000,1001} of length <= 3", "thorough": "length <= 4"}
ASSUMPTIONS = []

def has_spec(r):
    return r.startswith("os.views") or r.startswith("oss.calls")
def model_is_demanded(r):
    return True

def long_eoc_form(rng, content, depth):
    """nested BER form of an octet string in which every indefinite-length node ends in a randomly chosen
       end-of-contents form (00 00 or a long-form zero length)"""
    if depth >= 3 or (depth > 0 and rng.random() < 0.4):
        return os_prim(content)
    nseg = rng.choice([1, 2, 2, 3])
    pieces = split_content(rng, content, nseg)
    kids = [long_eoc_form(rng, p, depth + 1) for p in pieces]
    body = b"".join(kids)
    if rng.random() < 0.7:
        eoc = rng.choice([b"\x00\x00", b"\x00\x81\x00", b"\x00\x81\x00", b"\x00\x82\x00\x00", b"\x00\x83\x00\x00\x00", b"\x00\x84\x00\x00\x00\x00"])
        return b"\x24\x80" + body + eoc
    return b"\x24" + length(len(body)) + body

def gen(tier, rng):
    import itertools
    out = []
    modes = ["ber", "cer", "der"]
    N = 6000 if tier == "quick" else 60000
    for _ in range(N):
        c = bytes(rng.randrange(256) for _ in range(rng.choice([0, 0, 1, 2, 3, 5, 8, 12])))
        e = rand_os_form(rng, c, maxdepth=4)
        for m in modes:
            out.append("os.views %s %s" % (m, hx(e)))
        # re-encoding of the decoded value: BER keeps the segmentation, DER flattens
        if rng.random() < 0.5:
            for em in ("ber", "der"):
                q = "enc %s OS u4 ber %s" % (em, hx(e))
                out.append(q); REENC[q] = ("os.views ber %s" % hx(e), em, e)
        if rng.random() < 0.5:
            e2 = mutate(rng, e)
            out.append("os.views %s %s" % (rng.choice(modes), hx(e2)))
        if rng.random() < 0.3:
            # BER: end-of-contents markers with a long-form zero length (00 81 00, 00 82 00 00, …) at every
            # nesting level, followed by further segments (added after seeded change C16-5)
            el = long_eoc_form(rng, c, 0)
            out.append("os.views ber %s" % hx(el))
            for em in ("ber", "der"):
                q = "enc %s OS u4 ber %s" % (em, hx(el))
                out.append(q); REENC[q] = ("os.views ber %s" % hx(el), em, el)
        if rng.random() < 0.2:
            # foreign tag somewhere
            e3 = bytearray(e)
            idx = [i for i, b in enumerate(e3) if b in (0x04, 0x24)]
            if idx:
                i = rng.choice(idx); e3[i] = rng.choice([0x03, 0x05, 0x0c, 0x30, 0x23, 0x84, 0xa4])
                out.append("os.views %s %s" % (rng.choice(modes), hx(bytes(e3))))
    # use as a decoding source: same outcome as decoding the content from a slice
    import scripts
    for _ in range(1500 if tier == "quick" else 15000):
        m, d, sc = scripts.case(rng, mutate_p=0.15)
        base = "run %s slice %s %s" % (m, hx(d), sc)
        out.append(base)
        for k in (0, 1, 2, 3, 7):
            r = "run %s osrc%d %s %s" % (m, k, hx(d), sc)
            out.append(r); SRC[r] = base
    for (m, d, sc) in scripts.leaf_battery(rng, 600 if tier == "quick" else 6000):
        base = "run %s slice %s %s" % (m, hx(d), sc)
        out.append(base)
        for k in (1, 2, 3):
            r = "run %s osrc%d %s %s" % (m, k, hx(d), sc)
            out.append(r); SRC[r] = base
    # CER segment vectors
    L = [0, 1, 999, 1000, 1001]
    for k in (1, 2, 3) if tier == "quick" else (1, 2, 3, 4):
        for vec in itertools.product(L, repeat=k):
            kids = [os_prim(bytes([(i + j) & 0xff for j in range(n)])) for i, n in enumerate(vec)]
            out.append("os.views cer %s" % hx(os_cons(kids, True)))
            if k <= 2:
                out.append("os.views cer %s" % hx(os_cons(kids, False)))
                out.append("os.views ber %s" % hx(os_cons(kids, True)))
    for n in L:
        out.append("os.views cer %s" % hx(os_prim(bytes(n))))
        out.append("os.views cer %s" % hx(os_cons([os_cons([os_prim(bytes(n))], True)], True)))
    out.append("os.views cer %s" % hx(os_cons([], True)))
    out.append("os.views cer %s" % hx(os_cons([], False)))
    # truncated encodings of this property's typed values (scripts.truncated_leaves)
    import scripts as _scripts
    for (_m, _d, _sc) in _scripts.truncated_leaves([0x04]):
        for _src in ("slice", "stingy"):
            out.append("run %s %s %s %s" % (_m, _src, hx(_d), _sc))
    # the octet string as a source, call by call, including the provided methods take_opt_u8 / skip as the
    # source implements them (added after seeded change C16-7: an override of take_u8 / take_opt_u8 that stops
    # at an empty segment is invisible to request / slice / advance)
    for form in ("2480040261620400040163" "0000", "240b0402616204000401630400", "2480040004000401610000",
                 "24800400240404000400040162" "0000", "0403616263", "0400", "2400", "24800000"):
        for calls in ("u u u u u", "r1 a1 u u u", "k1 u k1 u", "u k5 u", "r2 a2 u u", "r100 a100 u", "k0 u k100 u"):
            out.append("oss.calls ber %s %s" % (form, calls))
    for _ in range(600 if tier == "quick" else 6000):
        data = bytes(rng.randrange(256) for _ in range(rng.choice([0, 1, 2, 3, 5, 9])))
        form = rand_os_form(rng, data)
        calls = [rng.choice(["u", "u", "r1", "r2", "r5", "a1", "a2", "k1", "k3", "k100"]) for _ in range(rng.randrange(1, 9))]
        out.append("oss.calls ber %s %s" % (hx(form), " ".join(calls)))
    return out

SRC = {}
REENC = {}
BACK = {}
def phase2(reqs, answers):
    """read the re-encoded octets back with the real decoder in the mode they were written in"""
    more = []
    for r, a in zip(reqs, answers):
        if r in REENC and a.startswith("ok len="):
            out = a.split(" ")[2]
            q = "os.views %s %s" % (REENC[r][1], out)
            more.append(q); BACK[q] = r
    return more

def canon(req, ans):
    import scripts
    return scripts.canon_rest(req, ans)

def relational(reqs, answers):
    import re
    fails = []
    idx = {r: a for r, a in zip(reqs, answers)}
    def content(a):
        import re as _re
        m = _re.search(r" bytes=([0-9a-f]*|-)", a or "")
        return m.group(1) if m else None
    for q, r in BACK.items():
        orig_req, em, e = REENC[r]
        a_orig, a_back = idx.get(orig_req), idx.get(q)
        if a_orig is None or not a_orig.startswith("ok"):
            continue
        if a_back is None or not a_back.startswith("ok") or content(a_back) != content(a_orig):
            f = {"request": r, "impl": "%s ; read back: %s" % (idx.get(r), a_back),
                 "spec": "re-encoding yields a well-formed %s encoding of the same content (%s)" % (em.upper(), content(a_orig))}
            fails.append(f)
    for r in REENC:
        a = idx.get(r)
        orig = idx.get(REENC[r][0])
        if orig is not None and orig.startswith("ok") and (a is None or not a.startswith("ok len=")):
            fails.append({"request": r, "impl": a, "spec": "an accepted octet string can be re-encoded"})
    for r, base in SRC.items():
        a, b = idx.get(r), idx.get(base)
        if a is None or b is None:
            continue
        b2 = re.sub(r" \| rest=[0-9?]+", "", b) if b.startswith("ok") else b
        if a != b2:
            fails.append({"request": r, "impl": a, "spec": "an octet string used as a source presents exactly its content: same outcome as over a slice: " + b})
    return fails

def nontrivial(req, ans):
    return ans.startswith("ok")

LEVEL = "proof"
LEVEL_TEXT = ("Lean 4 theorems for ALL inputs, unbounded size and nesting. Primitive form: accepted exactly when not CER or at most 1000 octets, all views present the content (prim_accept_iff, prim_views); constructed in DER rejected (cons_der_reject). Views: for every captured content that parses (BER rules) into OCTET STRING values nested to any depth - incl. the pre-repair shape with the outer end-of-contents in the capture - the segment iterator yields exactly the primitive leaves in encoding order, octets/to_bytes their concatenation, len its length, is_empty accordingly, without panic or fuel exhaustion (views_eq_concat, octets_eq_osContent, len_eq_sum). As a decoding source: current ++ segments of the remainder is invariant and equals the unconsumed suffix of the content; request never fails, grants >= len whenever that much remains, advance drops exactly n (new_inv_*, request_inv, advance_inv, request_all). Re-encoding: DER writes identifier, minimal length, concatenated content and that parses as one primitive value with the same content; BER keeps the segmentation (write_der_ok, reencode_der_wellformed, write_ber_cons, reencode_ber_wellformed; C16b.ber_accept_reencode: EVERY constructed value accepted in BER - definite or indefinite outer form - holds captured octets that parse as a sequence of values, never with the end-of-contents marker, and re-encodes in BER as one well-formed definite-length constructed value with the same kids and the same content; reencode_ber_d12_shape is the kernel-checked witness of what the repaired defect D12 produced). BER constructed acceptance is characterised completely too (Props/C16b.lean, on the skip-machine theorems of C10 and the capture closed form): in a definite or indefinite BER parent the value is accepted exactly when the content parses into values that are OCTET STRING at EVERY depth (ber_def_accept_iff_spec, ber_indef_accept_iff_spec), a foreign tag at any depth or malformed nesting is rejected with a content error and never a panic (ber_reject, *_reject_foreign, *_reject_malformed), and every accepted value satisfies the hypothesis of the view theorems, so all its views present the concatenation of the primitive segments (ber_accept_views). CER constructed acceptance is characterised completely (cons_cer_accept_iff, cons_cer_accept_iff_spec: segments <= 1000 with only the last short, = the reference acceptance predicate; every failure a content error). Correspondence + oracles: forms of depth <= 4 in all modes, mutated forms, CER segment vectors over {0,1,999,1000,1001}, use as a source behind every script, re-encoding in BER and DER read back by the real decoder.")
LEVEL_NOTE = ("Trusted: Lean 4.33 kernel; axioms propext, Classical.choice, Quot.sound only; the hand-written model (lean/Bcder/Model/Octet.lean) tied to /repo on every run by differential correspondence; reference osContent / osSegments / osAccept in lean/Bcder/Spec/Tlv.lean. Which constructed encodings take_constructed_ber accepts is C16b (ber_def_accept_iff_spec, ber_indef_accept_iff_spec: exactly the well-formed values whose every identifier at every depth is OCTET STRING; ber_*_reject_foreign / _malformed; built on C10 and capture_run0), with the model's loop budgets as explicit hypotheses (Rust has none; hdrsL ts < fuel always suffices); cons_accept_captures_consumed (from C11) shows an accepted constructed value holds exactly the octets advanced over. The former known finding D12 is repaired (fix: commit in /repo); its witnesses are corpus cases.")
