"""C01 — decoding untrusted octets never panics, aborts, hangs or overflows"""
from common import *
import scripts, itertools

THEOREMS = ['generic_total', 'generic_never_panics', 'nested_never_panics_definite', 'nested_never_panics_indefinite', 'fuel_adequate', 'generic_terminates', 'leaves_run', 'stepG0_err_panic', 'parseValue_consumes', 'Bcder.Props.C01b.int_total', 'Bcder.Props.C01b.bool_total', 'Bcder.Props.C01b.null_total', 'Bcder.Props.C01b.integer_total', 'Bcder.Props.C01b.unsigned_total', 'Bcder.Props.C01b.oid_total', 'Bcder.Props.C01b.bits_total', 'Bcder.Props.C01b.octets_prim_total', 'Bcder.Props.C01b.octets_cons_der_total', 'Bcder.Props.C01b.octets_cons_ber_total', 'Bcder.Props.C01b.chars_total', 'Bcder.Props.C01b.skip_total', 'Bcder.leafSafe_run', 'Bcder.harmless_run', 'Bcder.LeafSafe.bind', 'Bcder.ls_toInt', 'Bcder.Props.C01c.bodyF_safe', 'Bcder.Props.C01c.safe_pnv', 'Bcder.Props.C01c.safe_pnvE', 'Bcder.Props.C01c.safeK_skipOpt', 'Bcder.Props.C01c.safeK_skipAll', 'Bcder.Props.C01c.safeK_capture', 'Bcder.Props.C01c.safeK_captureOne', 'Bcder.Props.C01c.safeK_captureAll', 'Bcder.Props.C01c.safeC_octets', 'Bcder.Props.C01c.reader_safe', 'Bcder.Props.C01c.closure_safe', 'Bcder.Props.C01c.decode_never_panics', 'Bcder.Props.C01c.sample_never_panics', 'Bcder.Props.C01c.sample2_never_panics', 'Bcder.Props.C01c.safeK_captureF', 'Bcder.Props.C01c.reader_nested', 'Bcder.Props.C01c.nested_capture_never_panics']
EXTRA_MODULES = ['C01b', 'C01c']
RULE = ("the malformed streams of all other properties through every entry point (generic reads, typed readers for every value type, skip, "
        "capture, Captured::decode[_partial], OctetString as a source) in 3 modes over slice and contract-asserting streaming sources, then "
        "every accessor / iterator / comparison / formatter / conversion of what was accepted; all octet strings of length <= 1 (and a sample "
        "of length 2-3) through every typed reader; 100000-level deep definite / indefinite / mixed nestings through skip, capture_one and "
        "OctetString decoding + all views on a thread with a 256 KiB stack; declared lengths up to ff ff ff ff on short inputs; peak heap use "
        "per metered request bounded by 16 x input length + 64 KiB. Any PANIC / CONTRACT / HANG / ABORT answer of the implementation driver "
        "is a violation. non-trivial = request that reaches library code (all).")
EXHAUSTIVE = {"quick": False, "thorough": False}
EXHAUSTIVE_NOTE = {"quick": "all octet strings of length <= 1 x 28 typed readers x 3 modes", "thorough": "all octet strings of length <= 2 x typed readers (BER)"}
ASSUMPTIONS = ["stack depth, aborts, hangs and allocation volume are runtime behaviour outside the Lean model: explored by the implementation driver only",
               "documented caller-misuse panics (Tag::new > 0x1FFFFF, BitString::new assertion, LimitedSource misuse, Captured mode mismatch, CER string encoders) are excluded"]

TYPED = ["bool", "obool", "null", "onull", "u8", "ou8", "u16", "ou16", "u32", "ou32", "u64", "ou64", "skipu8if 5", "oskipu8if 0",
         "integer", "unsigned", "oid", "ooid", "oidskip", "ooidskip", "oidskipif 2a03", "bits", "bitsskip", "os", "oos",
         "rs utf8", "rs num", "rs print", "rs ia5"]
EXPECT = {}

def model_is_demanded(r):
    return False
def canon(req, ans):
    return scripts.canon_rest(req, ans)
def impl_only(r):
    return r.startswith("meter ")

def deep(n, form):
    if form == "def":
        # innermost first
        body = b"\x04\x01\x61"
        parts = []
        # definite nesting needs lengths: build from inside
        for _ in range(n):
            body = b"\x24" + length(len(body)) + body
        return body
    if form == "indef":
        return b"\x24\x80" * n + b"\x04\x01\x61" + b"\x00\x00" * n
    # mixed: alternate, definite outside computed from inside
    body = b"\x04\x01\x61"
    for i in range(n):
        if i % 2 == 0:
            body = b"\x24\x80" + body + b"\x00\x00"
        else:
            body = b"\x24" + length(len(body)) + body
    return body

def gen(tier, rng):
    out = []
    modes = ["ber", "cer", "der"]
    for m in modes:
        for t in TYPED:
            out.append("run %s slice - T %s" % (m, t))
            for a in range(256):
                out.append("run %s slice %02x T %s" % (m, a, t))
    two = [bytes([a, b]) for a in range(256) for b in range(256)]
    sample = two if tier == "thorough" else rng.sample(two, 3000)
    for d in sample:
        for t in TYPED:
            out.append("run ber slice %s T %s" % (d.hex(), t))
    heads = [0x01, 0x02, 0x03, 0x04, 0x05, 0x06, 0x0c, 0x12, 0x13, 0x16, 0x23, 0x24, 0x2c, 0x30, 0x1f, 0x3f, 0x00, 0x20]
    for h in heads:
        for l in [0x00, 0x01, 0x02, 0x7f, 0x80, 0x81, 0x82, 0x84, 0x85, 0xff]:
            for tail in [b"", b"\x00", b"\x00\x00", b"\xff\xff\xff\xff", b"\x04\x01\x61\x00\x00", b"\x80\x00\x00\x00\x00"]:
                d = bytes([h, l]) + tail
                for m in modes:
                    for t in rng.sample(TYPED, 6):
                        out.append("run %s %s %s T %s" % (m, rng.choice(["slice", "stingy", "chunk1"]), d.hex(), t))
                    out.append("run %s slice %s all" % (m, d.hex()))
                    out.append("run %s slice %s capall dec { all } decp { all }" % (m, d.hex()))
                    out.append("run %s osrc1 %s all" % (m, d.hex()))
    N = 12000 if tier == "quick" else 120000
    for _ in range(N):
        m, d, s = scripts.case(rng, mutate_p=0.7)
        out.append("run %s %s %s %s" % (m, rng.choice(["slice", "bytes", "stingy", "chunk2", "rand3", "osrc2"]), hx(d), s))
        # post-decode accessors on (possibly malformed) encodings
        e = mutate(rng, rand_os_form(rng, bytes(rng.randrange(256) for _ in range(rng.randrange(0, 6))))) if rng.random() < 0.5 else d
        k = rng.randrange(7)
        mm = rng.choice(modes)
        if k == 0: out.append("os.views %s %s" % (mm, hx(e)))
        elif k == 1: out.append("os.cmp %s %s %s" % (mm, hx(e), hx(rand_os_form(rng, b"ab"))))
        elif k == 2: out.append("cs.chars %s %s %s" % (rng.choice(["utf8", "num", "print", "ia5"]), mm, hx(e)))
        elif k == 3: out.append("cs.new %s %s %s" % (rng.choice(["utf8", "num", "print", "ia5"]), mm, hx(e)))
        elif k == 4: out.append("big.conv %s" % hx(d[:20]))
        elif k == 5: out.append("uns.frombytes %s" % hx(d[:20]))
        else: out.append("oid.parse %s" % hx(bytes(rng.choice(b"0123456789.+- ") for _ in range(rng.randrange(0, 14)))))
    for (m, d, sc) in scripts.leaf_battery(rng, 6000 if tier == "quick" else 60000):
        out.append("run %s %s %s %s" % (m, rng.choice(["slice", "stingy", "chunk1", "bytes"]), hx(d), sc))
    # ---- runtime clauses: depth, declared lengths, allocation
    depth = 100000
    for form in ("def", "indef", "mixed"):
        d = deep(depth, form)
        h = hx(d)
        for script, want in (("skipone", "ok skipped | rest=0"), ("skipall", "ok skippedall | rest=0"),
                             ("capone", "ok C%s | rest=0" % h), ("T os", None)):
            r = "meter run ber slice %s %s" % (h, script)
            out.append(r); EXPECT[r] = (want, len(d))
        r = "meter os.views ber %s" % h
        out.append(r); EXPECT[r] = ("ok segs=61 bytes=61 into=61 len=1 empty=0 octets=61 slice=none src=61", len(d))
        r = "meter os.cmp ber %s 040161" % h
        out.append(r); EXPECT[r] = ("ok cmp=eq pcmp=eq eq=1 hasheq=1", len(d))
        r = "meter run ber osrc0 %s all" % hx(b"\x04\x01\x61")
        out.append(r); EXPECT[r] = (None, 3)
    for m in modes:
        for head in ("04", "24", "30", "03", "06", "0c", "02"):
            for ln in ("84ffffffff", "847fffffff", "8400ffffff", "83ffffff", "82ffff"):
                for script in ("all", "skipone", "capone", "T os", "T bits", "T oid", "T integer", "T rs utf8", "tv P [ takeall ]", "tv P [ skipall ]", "tv P [ req 4294967295 slice ]"):
                    r = "meter run %s slice %s%s0000 %s" % (m, head, ln, script)
                    out.append(r); EXPECT[r] = (None, 8)
    for m in modes:
        for ln in ("8410000000", "84ffffffff", "8300ffff", "847fffffff"):
            for script in ("all", "skipone", "capone", "T os", "tv P [ takeall ]", "tv P [ skipall ]", "skipall"):
                for k in (2, 6, 1000):
                    r = "meter run %s osrc%d 04%s04026162 %s" % (m, k, ln, script)
                    out.append(r); EXPECT[r] = (None, 16)
                    r = "meter run %s osrc%d 308004%s04026162 tc { %s }" % (m, k, ln, script)
                    out.append(r); EXPECT[r] = (None, 18)
    return out

def relational(reqs, answers):
    fails = []
    for r, a in zip(reqs, answers):
        if r in EXPECT:
            want, n = EXPECT[r]
            if " | peak=" not in a:
                fails.append({"request": r[:200], "impl": a[:200], "spec": "terminates without panic / stack overflow"}); continue
            body, peak = a.rsplit(" | peak=", 1)
            if want is not None and body != want:
                fails.append({"request": r[:200], "impl": body[:200], "spec": want[:200]}); continue
            if body.startswith(("PANIC", "CONTRACT")):
                fails.append({"request": r[:200], "impl": body[:200], "spec": "no panic"}); continue
            if int(peak) > 16 * n + 65536:
                fails.append({"request": r[:200], "impl": "peak heap %s bytes for %d input octets" % (peak, n), "spec": "allocation in proportion to the input (<= 16 x len + 64 KiB)"})
    return fails

def nontrivial(req, ans):
    return True

LEVEL = "proof"
LEVEL_TEXT = ("PARTIAL (the logic part is proved, the runtime part is explored). Lean 4 theorems for ALL octet strings, all modes: Mode::decode with the generic reader ends in a value with everything consumed, a content error, or the model's out-of-fuel marker - never in one of the model's panic sites (index, unwrap, assertion, advance past limit) - at top level and inside definite parents with any limit and indefinite parents (generic_total, generic_never_panics, nested_never_panics_*); a loop budget of input length + 2 is never exhausted, i.e. the number of loop iterations and the recursion depth are bounded by the input length because every value consumes at least its two header octets (fuel_adequate, generic_terminates, parseValue_consumes) - the never-loops-forever part; source operations fail only as contract panics and routines whose failure leaves are content errors can only end in those (stepG0_err_panic, leaves_run). TYPED READING NEVER PANICS, FOR EVERY COMPOSITION (Props/C01c.lean, Lemmas/LeafSafe.lean): content-level code built from infallible accesses and the four LimitedSource helpers (LeafSafe: all ten fixed-width INTEGER accessors incl. slice_to_builtin behind check_head, BOOLEAN, NULL, Integer, Unsigned, OID, BIT STRING take and skip, primitive OCTET STRING) ends on EVERY limited source - any declared length, however little data is really there - in a value or a non-panic error (leafSafe_run); process_next_value, untagged and tag-selective, maps closures that never panic to readers that never panic and keep the Constructed usable (safe_pnv, safe_pnvE, via the closed forms of C02/C09); the mutually inductive families Reader / Closure contain take_[opt_]{value,primitive,constructed}[_if], sequencing, mapping/rejecting, skip_opt/skip_one/skip_all with any filter and budget, capture / capture_one / capture_all (the advance of the enclosing source over the captured octets stays within its limit because readers keep the LimitedSource accounting: consumed + limit left <= old limit, safeK_capture), BitString::from_content and OctetString::from_content in every form and mode (safeC_octets), at ANY nesting depth (reader_safe, closure_safe by mutual structural recursion); Mode::decode with any such reader never reaches a panic site on any octet string in any mode (decode_never_panics; instances sample_never_panics, sample2_never_panics). The typed accessors and skipping are total on every content - a value or a content error (octet strings and skip: or the loop budget), never a panic site: Props/C01b.lean collects int_total (all ten INTEGER types), bool_total, null_total, integer_total, unsigned_total, oid_total, bits_total, octets_prim_total, octets_cons_*_total, chars_total, skip_total from the per-type theorems of C14-C20, C10 and C16b. Captures whose closure captures again are in the family since session 4 (Reader.captureF over C11c.Framable closures; safeK_captureF, reader_nested, nested_capture_never_panics: in particular the truncation of captured octets by the recorded marker size cannot underflow). Runtime part, on every run against the real crate: ~250k requests through every entry point in 3 modes over slice and contract-asserting streaming sources, all accessors of accepted values, 100000-level nestings on a 256 KiB stack, declared lengths up to 2^32-1, metered peak heap <= 16 x input + 64 KiB, hang watchdog; any PANIC/CONTRACT/HANG/ABORT answer is a violation.")
LEVEL_NOTE = ("Trusted: Lean 4.33 kernel; axioms propext, Classical.choice, Quot.sound only; the hand-written model tied to /repo on every run by differential correspondence. NOT expressible in the model and therefore not proved: call-stack depth of the Rust code, aborts on allocation failure, allocation volume, wall-clock hangs, integer overflow checks of the compiled code (the harness is built with overflow checks on) - these are explored by the implementation driver only. skip/capture/typed-reader totality at the program level rests on C10/C11/C14-C20 and on the correspondence check; documented caller-misuse panics are excluded.")
