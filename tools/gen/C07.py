"""C07 — decoding results do not depend on how the source delivers its data"""
from common import *
import scripts

THEOREMS = ['source_independence', 'Bcder.Props.C07b.ossPol_conforming', 'Bcder.Props.C07b.request_exact', 'Bcder.Props.C07b.request_sim', 'Bcder.Props.C07b.slice_sim', 'Bcder.Props.C07b.advance_sim', 'Bcder.Props.C07b.advance_past', 'Bcder.Props.C07b.calls_sim', 'Bcder.Props.C07b.oss_is_conforming_source', 'Bcder.Props.C07b.oss_prim_is_conforming_source', 'source_independence_closed', 'capture_one_independent', 'octet_string_independent', 'stingy_conforming', 'chunked_conforming', 'generic_read_independent', 'skip_all_independent', 'take_int_independent']
EXTRA_MODULES = ['C07b']
RULE = ("every generated (mode, input, script) case — generic reads, optional/tag-selective reads, skips, captures, typed readers for all "
        "value types, on well-formed and mutated inputs — is executed over SliceSource, BytesSource (by &mut and by value), Constructed::decode, "
        "an OCTET STRING used as the source (primitive and segmented into 1/3/1000-octet pieces), and contract-asserting streaming sources that "
        "grant exactly what is asked (stingy), +2, +1000, grow in chunks of 1/2/3/7 octets, or grant pseudo-randomly within the contract. All "
        "answers (value/rejection and octets left) must be identical to the slice run and to the model; a look/extract/advance beyond the last "
        "grant makes the streaming source panic with CONTRACT. non-trivial = accepted by the slice run.")
CROSS = {'C11': 2000, 'C16': 2000, 'C10': 1500}   # cross streams: samples of neighbouring properties' request streams (outcomes, model <-> implementation)
EXHAUSTIVE = {"quick": False, "thorough": False}
EXHAUSTIVE_NOTE = {"quick": "", "thorough": ""}
ASSUMPTIONS = ["sources outside the harness's families are covered by the theorem only through the trait contract as modelled"]

SRCS = ["slice", "slicev", "bytes", "bytesv", "constructed", "osrc0", "osrc1", "osrc3", "osrc1000",
        "stingy", "plus2", "plus1000", "chunk1", "chunk2", "chunk3", "chunk7", "rand1", "rand2", "all"]
GROUP = {}

def model_is_demanded(r):
    return True

def canon(req, ans):
    return scripts.canon_rest(req, ans)

def model_request(r):
    return r

def gen(tier, rng):
    out = []
    N = 3000 if tier == "quick" else 30000
    for _ in range(N):
        m, d, s = scripts.case(rng, mutate_p=0.25)
        base = "run %s slice %s %s" % (m, hx(d), s)
        for src in SRCS:
            r = "run %s %s %s %s" % (m, src, hx(d), s)
            out.append(r)
            GROUP[r] = base
    for (m, d, sc) in scripts.leaf_battery(rng, 2500 if tier == "quick" else 25000):
        base = "run %s slice %s %s" % (m, hx(d), sc)
        for src in ["slice", "bytes", "stingy", "plus2", "chunk1", "chunk3", "rand1", "osrc1"]:
            r = "run %s %s %s %s" % (m, src, hx(d), sc)
            out.append(r)
            GROUP[r] = base
    # ---- the OCTET STRING source call by call (C07b): every grant and every slice shown, compared with the
    # model of OctetStringSource and with the abstract conforming source under the policy ossPol
    for _ in range(2500 if tier == "quick" else 25000):
        data = bytes(rng.randrange(256) for _ in range(rng.choice([0, 1, 2, 3, 5, 9, 17])))
        form = rand_os_form(rng, data)
        calls = []
        for _ in range(rng.randrange(1, 11)):
            x = rng.random()
            if x < 0.45:
                calls.append("r%d" % rng.choice([0, 1, 1, 2, 3, 4, 5, 8, 16, 100]))
            elif x < 0.75:
                calls.append("a%d" % rng.choice([0, 1, 1, 2, 3, 100]))
            elif x < 0.9:
                calls.append("u")            # the provided take_opt_u8 (added after seeded change C16-7)
            else:
                calls.append("k%d" % rng.choice([0, 1, 2, 3, 7, 100]))   # the provided skip
        out.append("oss.calls ber %s %s" % (hx(form), " ".join(calls)))
        if rng.random() < 0.2:
            out.append("oss.calls der %s %s" % (hx(b"\x04" + length(len(data)) + data), " ".join(calls)))
    for form in ("2480040261620400040163" "0000", "240b04026162040004016304 00".replace(" ", ""), "2480040004000401610000", "24800400240404000400040162" "0000"):
        for calls in ("u u u u u", "r1 a1 u u u", "k1 u k1 u", "u k5 u", "r2 a2 u u"):
            out.append("oss.calls ber %s %s" % (form, calls))
    return out

def has_spec(r):
    return r.startswith("oss.calls")

def relational(reqs, answers):
    fails = []
    idx = {r: a for r, a in zip(reqs, answers)}
    for r, base in GROUP.items():
        a, b = idx.get(r), idx.get(base)
        if a is None or b is None or r == base:
            continue
        b2 = canon(r, b.replace("rest=", "rest=")) if False else b
        src = r.split(" ")[2]
        if src in ("slicev", "bytesv") or src.startswith("osrc"):
            b2 = b.split(" | rest=")[0] if b.startswith("ok") else b
        if a != b2:
            fails.append({"request": r, "impl": a, "spec": "same outcome and octets consumed as over a slice: " + b})
    return fails

def nontrivial(req, ans):
    return ans.startswith("ok") and req.split(" ")[2] == "slice"

LEVEL = "proof"
LEVEL_TEXT = "Lean 4 theorem by induction over programs (run_sim, Lemmas/Stream.lean): for EVERY routine - capture-free or capturing (Constructed::capture*, constructed OCTET STRING decoding; nested captures included) -, every input, limit and EVERY grant policy obeying the Source contract, the run over the streaming source yields the same value / the same rejection and the same remaining input as the run over a slice, and never looks at, extracts or advances over ungranted octets (source_independence; source_independence_closed: when no capture is left open the base source stands exactly where the slice does). The stream layer models open CaptureSources literally with respect to the base source: it is not advanced while a capture is open, every request reaches it with the captured offset added (pos + len), slices are taken behind that offset, into_bytes advances it when the outermost capture ends (sim_capBegin, sim_capEnd, adv_sim). Instantiated for value-by-value reading, skip_all, all fixed-width INTEGER readers, capture_one and OCTET STRING decoding in every form (capture_one_independent, octet_string_independent; kernel-evaluated runs over the stingy and the one-octet-at-a-time source). Correspondence: every case over 19 real Source implementations incl. contract-asserting stingy/chunked/over-granting ones and OctetString as a source; for the streaming kinds the model answers from the stream layer itself, captures included."
LEVEL_NOTE = "Trusted: Lean 4.33 kernel; axioms propext, Classical.choice, Quot.sound only; the hand-written model (lean/Bcder/Model) tied to /repo on every run by differential correspondence (tools/check.py, harness/, lean/Driver.lean); reference definitions lean/Bcder/Spec. Modelled rather than proved in the stream layer: the limits of the LimitedSources that enclose an open CaptureSource are not applied a second time to requests (the library keeps inner limit + captured offset <= outer limit: capture copies the limit, readers only narrow and restore it; under that discipline they cut nothing off) - the generous layer does the same, and the correspondence runs every capture case over limited parents. The hypothesis 'the slice run does not panic' is discharged by C01. OctetStringSource IS one of the conforming sources the theorem quantifies over (C07b): ossPol (the smallest segment boundary covering the request) is a conforming policy, and every sequence of request / slice / advance calls is answered by the model of OctetStringSource exactly as by the abstract source of the stream layer under that policy (request_sim, slice_sim, advance_sim, calls_sim, oss_is_conforming_source; for every octet string whose content is an item sequence, which from_content guarantees: C16); oss.calls compares the real OctetStringSource with both, call by call, on every run."
