"""C05 — DER decoding is canonical: re-encoding an accepted value reproduces the input"""
from common import *
import schema

THEOREMS = ['readIdent_canonical', 'readLen_canonical', 'der_no_indefinite', 'header_canonical', 'der_parse_canonical', 'parseValue_canonical', 'parseAll_canonical', 'der_injective', 'decode_der_canonical', 'decode_der_injective', 'decode_der_canonical_runG', 'der_reparse', 'der_reencode_accepted', 'leaf_int_canonical', 'leaf_bool_canonical', 'leaf_null_canonical', 'leaf_integer_canonical', 'leaf_unsigned_canonical', 'leaf_oid_canonical', 'leaf_bits_canonical', 'leaf_octets_canonical', 'frame_inv', 'der_prim_framing', 'der_prim_canonical', 'canon_cons', 'canon_seq', 'der_canonical', 'top_canonical', 'top_canonical_runG', 'typed_injective', 'typed_injective_full', 'reencode_decodes', 'sample_canonical', 'canon_congr', 'Bcder.Props.C05b.restricted_run_inv', 'Bcder.Props.C05b.primOnly_restricted', 'Bcder.Props.C05b.leaf_restricted_canonical', 'Bcder.Props.C05b.restricted_returns_valid', 'Bcder.Props.C05b.write_octetString_der', 'Bcder.Props.C05b.write_octetSlice', 'Bcder.Props.C05b.write_bitSlice', 'Bcder.Props.C05b.derCodec_octetString', 'Bcder.Props.C05b.derCodec_restricted', 'Bcder.Props.C05b.derCodec_bitSlice', 'Bcder.Props.C05b.printable_canonical', 'Bcder.Props.C05b.untagged_some_ident', 'Bcder.Props.C05b.canon_untagged', 'Bcder.Props.C05b.canon_takeValue', 'Bcder.Props.C05b.canon_alt', 'Bcder.Props.C05b.choice_canonical', 'Bcder.Props.C05b.canon_captureOne', 'Bcder.Props.C05b.derCodec_captured_sample']
EXTRA_MODULES = ['C05b']
RULE = ("valid DER encodings of random schemas (all leaf types, SEQUENCE/SET, explicit/implicit tags, OPTIONAL) and systematically "
        "de-canonicalised variants (long-form and non-minimal lengths, indefinite forms, BOOLEAN 01, padded integers, constructed strings, "
        "non-minimal identifier octets, random mutations) are decoded in DER mode by the typed readers; every variant the crate accepts is "
        "re-encoded in DER from the DECODED values with the real encoders (second phase, encoder tree rebuilt from the decoded trace) and must "
        "be octet-for-octet the consumed input. Captured values are included (capture_one + Captured re-encoding). "
        "non-trivial = accepted in DER mode.")
CROSS = {'C04': 2000, 'C02': 2000, 'C07': 2000}   # cross streams: samples of neighbouring properties' request streams (outcomes, model <-> implementation)
EXHAUSTIVE = {"quick": False, "thorough": False}
EXHAUSTIVE_NOTE = {"quick": "", "thorough": ""}
ASSUMPTIONS = ["unused bits of a BIT STRING are kept verbatim by the value, so they re-encode identically (DER's zero-unused-bits rule is not enforced by the crate and not claimed by the property)"]

def model_is_demanded(r):
    return True

SHAPES = {}
PAIR = {}

def leaf_shape(rng):
    k = rng.choice(["bool", "null", "int", "integer", "unsigned", "oid", "bits", "os", "utf8", "num", "print", "ia5", "cap"])
    return (k, rng.choice(list(schema.RANGES)) if k == "int" else None)

def shape(rng, depth=0):
    if depth >= 3 or rng.random() < 0.5:
        return leaf_shape(rng)
    r = rng.random()
    if r < 0.6:
        n = rng.randrange(0, 5)
        fields = []
        for i in range(n):
            if rng.random() < 0.3:
                fields.append(("opt", "a%d" % (1000 + i), shape(rng, depth + 1)))
            else:
                fields.append(shape(rng, depth + 1))
        return (rng.choice(["seq", "set"]), fields)
    return ("explicit", "%s%d" % (rng.choice("cap"), rng.choice([0, 5, 30, 31, 127, 128, 16384])), shape(rng, depth + 1))

STRTAG = {"utf8": 12, "num": 18, "print": 19, "ia5": 22}
STRTEXT = {"utf8": "héllo€", "num": "012 34", "print": "Ab (1)?", "ia5": "a@b~"}

def build(rng, sh):
    """-> (der bytes, decode script)"""
    k = sh[0]
    if k == "bool": return b"\x01\x01" + rng.choice([b"\x00", b"\xff"]), "T bool"
    if k == "null": return b"\x05\x00", "T null"
    if k == "int":
        v = schema.rand_int(rng, sh[1]); c = schema.tc(v)
        return b"\x02" + length(len(c)) + c, "tpi u2 [ int %s ]" % sh[1]
    if k == "integer":
        c = schema.tc(rng.randrange(-(1 << 70), 1 << 70)); return b"\x02" + length(len(c)) + c, "T integer"
    if k == "unsigned":
        c = schema.tc(rng.randrange(0, 1 << 70)); return b"\x02" + length(len(c)) + c, "T unsigned"
    if k == "oid":
        c = bytes([0x2a, 0x86, 0x48, 0x01][:rng.randrange(1, 5)])
        if c[-1] & 0x80: c += b"\x01"
        return b"\x06" + length(len(c)) + c, "T oid"
    if k == "bits":
        d = bytes(rng.randrange(256) for _ in range(rng.randrange(0, 5))); u = rng.randrange(8) if d else 0
        return b"\x03" + length(len(d) + 1) + bytes([u]) + d, "T bits"
    if k == "os":
        d = bytes(rng.randrange(256) for _ in range(rng.choice([0, 1, 3, 130]))); return b"\x04" + length(len(d)) + d, "T os"
    if k in STRTAG:
        s = "".join(rng.choice(STRTEXT[k]) for _ in range(rng.randrange(0, 6))).encode()
        return bytes([STRTAG[k]]) + length(len(s)) + s, "T rs %s" % k
    if k == "cap":
        t = rand_tree(rng, "der"); return t.encode(), "capone"
    if k in ("seq", "set"):
        parts, decs = [], []
        for f in sh[1]:
            if f[0] == "opt":
                b, d = build(rng, f[2])
                cls = {"u": 0, "a": 1, "c": 2, "p": 3}[f[1][0]]
                if rng.random() < 0.5:
                    parts.append(ident(cls, True, int(f[1][1:])) + length(len(b)) + b)
                decs.append("toci %s { %s }" % (f[1], d))
            else:
                b, d = build(rng, f); parts.append(b); decs.append(d)
        body = b"".join(parts)
        return (b"\x30" if k == "seq" else b"\x31") + length(len(body)) + body, "%s { %s }" % (k, " ".join(decs))
    if k == "explicit":
        b, d = build(rng, sh[2])
        cls = {"u": 0, "a": 1, "c": 2, "p": 3}[sh[1][0]]
        return ident(cls, True, int(sh[1][1:])) + length(len(b)) + b, "tci %s { %s }" % (sh[1], d)
    raise ValueError(k)

def reenc(sh, toks):
    """encoder tree from the decoded trace tokens (consumed from the front of `toks`)"""
    k = sh[0]
    if k in ("seq", "set"):
        parts = []
        for f in sh[1]:
            if f[0] == "opt":
                t = toks.pop(0)
                if t == "none":
                    parts.append("N")
                else:
                    parts.append("J C explicit %s %s" % (f[1], reenc(f[2], toks)))
            else:
                parts.append(reenc(f, toks))
        inner = "S vec %d %s" % (len(parts), " ".join(parts)) if parts else "Z"
        return "C %s u16 %s" % (k, inner)
    if k == "explicit":
        return "C explicit %s %s" % (sh[1], reenc(sh[2], toks))
    t = toks.pop(0)
    if k == "bool": return "P u1 b %s" % t[1]
    if k == "null": return "P u5 n"
    if k == "int": return "P u2 i %s %s" % (sh[1], t[1:])
    if k == "integer": return "P u2 I %s" % t[1:]
    if k == "unsigned": return "P u2 U %s" % t[1:]
    if k == "oid": return "P u6 O %s" % t[1:]
    if k == "bits":
        _, u, h = t.split(":"); return "P u3 B %s %s" % (u, h)
    if k == "os": return "OL u4 %s" % t[len("os:p"):]
    if k in STRTAG: return "OL u%d %s" % (STRTAG[k], t[len("rs:p"):])
    if k == "cap": return "K der %s" % t[1:]
    raise ValueError(k)

def decanon(rng, der):
    """a de-canonicalised or damaged variant"""
    r = rng.random()
    b = bytearray(der)
    if r < 0.25 and len(b) >= 2 and b[1] < 0x80:
        k = rng.choice([1, 2, 3, 4])
        return bytes(b[:1]) + bytes([0x80 | k]) + int(b[1]).to_bytes(k, 'big') + bytes(b[2:])
    if r < 0.25 and len(b) >= 2 and b[1] in (0x81, 0x82, 0x83) and (b[0] & 0x1f) != 0x1f:
        k = b[1] & 0x7f        # long form already: one more (zero) length octet
        return bytes(b[:1]) + bytes([0x80 | (k + 1)]) + b"\x00" + bytes(b[2:])
    if r < 0.35 and len(b) >= 2 and (b[0] & 0x20) and b[1] < 0x80:
        return bytes(b[:1]) + b"\x80" + bytes(b[2:]) + b"\x00\x00"
    if r < 0.45:
        i = der.find(b"\x01\x01\xff")
        if i >= 0:
            b[i + 2] = rng.choice([1, 0x7f, 0xfe]); return bytes(b)
    if r < 0.55:
        i = der.find(b"\x02\x01")
        if i >= 0 and der[i + 2] < 0x80:
            return der[:i] + b"\x02\x02\x00" + der[i + 2:]      # padded integer (enclosing lengths now wrong too)
    if r < 0.65:
        i = der.find(b"\x04")
        if i >= 0 and i + 1 < len(der) and der[i + 1] < 0x7e:
            n = der[i + 1]
            return der[:i] + b"\x24" + bytes([n + 2]) + b"\x04" + der[i + 1:i + 2 + n] + der[i + 2 + n:]
    if r < 0.7 and b and (b[0] & 0x1f) != 0x1f:
        return bytes([b[0] | 0x1f, b[0] & 0x1f]) + bytes(b[1:])
    return mutate(rng, der)

def gen(tier, rng):
    out = []
    N = 12000 if tier == "quick" else 120000
    for _ in range(N):
        sh = shape(rng)
        der, dec = build(rng, sh)
        variants = [der]
        for _ in range(rng.randrange(0, 3)):
            variants.append(decanon(rng, der))
        for v in variants:
            for src in ("slice", "stingy"):
                r = "run der %s %s %s" % (src, hx(v), dec)
                out.append(r)
                SHAPES[r] = (sh, v)
    # every definite length form around the form boundaries: the minimal one is accepted, every longer one is not
    for L in ([0, 1, 127, 128, 129, 200, 255, 256, 257] if tier == "quick" else [0, 1, 127, 128, 129, 200, 255, 256, 257, 65535, 65536, 65537]):
        content = bytes((i * 7 + L) & 0xff for i in range(L))
        minimal = length(L)
        forms = [minimal]
        for k in (1, 2, 3, 4):
            f = bytes([0x80 | k]) + L.to_bytes(k, 'big') if L < (1 << (8 * k)) else None
            if f and f not in forms:
                forms.append(f)
        for f in forms:
            for (tagb, dec, sh) in ((b"\x04", "T os", ("os", None)), (b"\x0c", "T rs utf8", None)):
                if sh is None and any(c >= 0x80 for c in content):
                    continue
                v = tagb + f + content
                for src in ("slice", "stingy"):
                    r = "run der %s %s %s" % (src, hx(v), dec)
                    out.append(r)
                    SHAPES[r] = (sh, v)
            inner = None
            for c in range(max(L - 5, 0), L):
                cand = b"\x04" + length(c) + content[:c]
                if len(cand) == L:
                    inner = cand
            if inner is not None:
                v = b"\x30" + f + inner
                r = "run der slice %s seq { T os }" % hx(v)
                out.append(r)
                SHAPES[r] = (("seq", [("os", None)]), v)
    # padded / non-minimal leaves behind a source that grants exactly what is requested
    import scripts
    for (m, d, sc) in scripts.leaf_battery(rng, 3000 if tier == "quick" else 30000):
        toks = sc.split()
        if d[:1] == b"\x02" and ((toks[0] == "T" and toks[1] in ("u8", "u16", "u32", "u64")) or (toks[0] == "tpi" and toks[3] == "int")):
            ty = toks[4] if toks[0] == "tpi" else toks[1]
            r = "run der stingy %s tpi u2 [ int %s ]" % (hx(d), ty)
            out.append(r)
            SHAPES[r] = (("int", ty), d)
    return out

def phase2(reqs, answers):
    more = []
    for r, a in zip(reqs, answers):
        if r in SHAPES and a.startswith("ok "):
            sh, v = SHAPES[r]
            toks = a.split()[1:]
            bar = toks.index("|")
            rest = int(toks[bar + 1][5:])
            tr = toks[:bar]
            try:
                tree = reenc(sh, list(tr))
            except Exception as e:
                continue
            q = "enc der %s" % tree
            more.append(q)
            PAIR[q] = (r, v[:len(v) - rest])
    return more

def has_spec(r):
    return r.startswith("enc ")

def relational(reqs, answers):
    fails = []
    for r, a in zip(reqs, answers):
        if r in PAIR:
            orig, consumed = PAIR[r]
            got = a.split(" ")[2] if a.startswith("ok len=") else a
            if got != hx(consumed):
                fails.append({"request": orig, "impl": "accepted in DER mode; re-encoding the decoded value gives %s" % got[:300], "spec": "re-encoding reproduces the accepted octets %s" % hx(consumed)[:300]})
    return fails

def nontrivial(req, ans):
    return req.startswith("run der") and ans.startswith("ok ")

LEVEL = "proof"
LEVEL_TEXT = ("Lean 4 theorems for ALL inputs. Headers: the reference readers accept identifier octets and - in DER/CER - definite length octets only in their canonical form (readIdent_canonical, readLen_canonical), DER rejects the indefinite form (der_no_indefinite). Structure: whatever the grammar and, through C02, the generic reader accept in DER mode is the canonical encoding treesBytes of the trees returned, so two different octet strings never decode to equal trees, and the canonical octets are accepted again (der_parse_canonical, der_injective, decode_der_canonical, decode_der_injective, der_reparse, der_reencode_accepted). Typed leaves: for every supported primitive type the accepted content is exactly what the encoder writes for the decoded value (leaf_*_canonical: all ten fixed-width INTEGER types, BOOLEAN, NULL, Integer, Unsigned, OBJECT IDENTIFIER, BIT STRING, OCTET STRING). Typed framing and composition: if a tag-selective read returns a value in DER mode, the octets it consumed are the canonical header followed by exactly the content window (frame_inv, der_prim_framing, der_prim_canonical), and by induction over the DerCodec family (primitive / tagged constructed / sequence / OPTIONAL present or absent / Choice / mapped) the octets consumed by any such decoder are exactly Enc.write .der of the decoded value (der_canonical, top_canonical, typed_injective_full, reencode_decodes). C05b: the four restricted character strings are leaves (primOnly_restricted, leaf_restricted_canonical, restricted_returns_valid: accepted = primitive form, content unchanged, a string of the character set), and the encoders the crate really uses for string values - OctetStringEncoder (OctetString / RestrictedString::encode_as), OctetSliceEncoder, BitSliceEncoder - write what Primitive<...> writes for every value a DER decoder can return, so they are in the family too (DerCodec.congr, canon_congr; derCodec_octetString, derCodec_restricted, derCodec_bitSlice, printable_canonical). The mandatory untagged readers are canonical whenever, for every tag, the tag-selective reader with the closure applied to that tag is (canon_untagged via C04b.untagged_eq; choice_canonical: a CHOICE read with take_value). capture_one is canonical against Captured's copying encoder (canon_captureOne, from C11b.capture_one_value). Correspondence: valid DER of random schemas and systematically de-canonicalised variants (every definite length form around 127/128/255/256/65535/65536, indefinite forms, BOOLEAN 01, padded integers, constructed strings, non-minimal identifiers), each accepted variant re-encoded with the real encoders and compared octet for octet, over slice and stingy sources.")
LEVEL_NOTE = ("Trusted: Lean 4.33 kernel; axioms propext, Classical.choice, Quot.sound only; the hand-written model tied to /repo on every run by differential correspondence through the real decoders and encoders. In the typed algebra primitive closures must be window programs (no limit changes, no capture: every leaf accessor is, Lemmas/Window). Not in the algebra (covered structurally by the grammar theorems and by the correspondence check): the optional untagged readers (in an indefinite context they consume the end-of-contents marker when reporting absence; the mandatory ones - take_value, take_primitive, take_constructed - are in: canon_untagged, canon_takeValue, choice_canonical; Captured values read by capture_one are in: canon_captureOne, DerCodec.sem) (restricted character strings and the OctetStringEncoder / OctetSliceEncoder / BitSliceEncoder re-encoders are in it: C05b, DerCodec.congr), SET OF ordering and DEFAULT omission (the crate has no such notion). Unused bits of a BIT STRING are kept verbatim by the value.")
