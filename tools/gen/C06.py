"""C06 — announced encoded length equals octets written, for every encoder composition"""
from common import *
import schema

THEOREMS = ['write_len', 'writeList_len', 'len_eq_write', 'write_eq_len', 'fail_iff', 'announced_eq_written', 'intOK_of_inRange', 'encUnsigned_len', 'encSigned_len', 'os_len', 'length_write_spec', 'write_prim', 'write_cons_ber', 'write_cons_der', 'write_cons_cer', 'write_seq', 'write_octetString_der', 'write_wrapped', 'cer_unimplemented', 'captured_incompatible', 'write_ok_spec', 'spec_some_write']
RULE = ("random encoder trees built from the REAL combinators (tuples of arity 1-12, Option, Vec, slices, Iter, Slice, Choice2/3, Constructed, "
        "explicit, sequence/set[_as], Captured, OctetString / BitString / slice encoders, encode_wrapped, Nothing) with leaves of every type and "
        "sizes crossing 127/128, 255/256, 65535/65536 at depth <= 4, 3 modes. Oracles: reported encoded_len == number of octets written "
        "(on the implementation's own answer) and octets == reference encoder Spec.encode (identifier octets, minimal definite length, parts in "
        "order; CER constructed: 80 … 00 00). non-trivial = tree with at least one constructed node.")
CROSS = {'C04': 2000, 'C16': 1500}   # cross streams: samples of neighbouring properties' request streams (outcomes, model <-> implementation)
EXHAUSTIVE = {"quick": False, "thorough": False}
EXHAUSTIVE_NOTE = {"quick": "", "thorough": ""}
ASSUMPTIONS = ["documented unimplemented!() CER string encoders and the Captured mode-mismatch assertion are excluded",
               "total lengths stay below 2^32"]

def has_spec(r):
    return r.startswith("enc ")
def model_is_demanded(r):
    return True

def extra(rng, mode):
    r = rng.random()
    if r < 0.3:
        im = rng.choice(["ber", "cer", "der"])
        inner = schema.value(rng, im)[0]
        return "W %s %s" % (im, inner) if mode != "cer" else "P u4 o 00"
    if r < 0.6:
        body = b"".join(rand_tree(rng, mode).encode() for _ in range(rng.randrange(0, 3)))
        m2 = mode if rng.random() < 0.7 or mode != "ber" else rng.choice(["ber", "cer", "der"])
        return "K %s %s" % (m2, hx(body))
    if r < 0.8 and mode != "cer":
        c = bytes(rng.randrange(256) for _ in range(rng.randrange(0, 9)))
        form = rand_os_form(rng, c)
        # only forms whose outermost value is not indefinite (D12 is checked in C16)
        if form[:2] == b"\x24\x80":
            form = os_prim(c)
        return "OS u4 ber %s" % hx(form)
    return "Z"

def gen(tier, rng):
    out = []
    N = 10000 if tier == "quick" else 100000
    for i in range(N):
        mode = rng.choice(["ber", "cer", "der"])
        e = schema.value(rng, mode, big=(i % 12 == 0))[0]
        if rng.random() < 0.3:
            e = "C seq u16 S tuple 2 %s %s" % (e, extra(rng, mode))
        out.append("enc %s %s" % (mode, e))
    # wrapped values: the inner mode is the encoder's own, whatever the outer mode is
    for om in ("ber", "der"):
        for im in ("ber", "cer", "der"):
            for _ in range(150):
                inner = schema.value(rng, im)[0]
                out.append("enc %s W %s C seq u16 S tuple 2 %s P u5 n" % (om, im, inner))
                out.append("enc %s C seq u16 S tuple 2 W %s %s P u1 b 1" % (om, im, inner))
    # length boundaries at every depth
    for mode in ("ber", "cer", "der"):
        for n in (0, 1, 125, 126, 127, 128, 129, 253, 254, 255, 256, 257, 65531, 65532, 65533, 65535, 65536, 65537):
            body = "P u4 o %s" % hx(bytes(n))
            out.append("enc %s %s" % (mode, body))
            out.append("enc %s C seq u16 %s" % (mode, body))
            out.append("enc %s C explicit c0 C seq u16 S tuple 2 %s P u5 n" % (mode, body))
            out.append("enc %s C new a31 C set u17 C seqas p16384 %s" % (mode, body))
    return out

def relational(reqs, answers):
    fails = []
    for r, a in zip(reqs, answers):
        if r.startswith("enc ") and a.startswith("ok len="):
            toks = a.split(" ")
            ln = int(toks[1][4:])
            n = 0 if toks[2] == "-" else len(toks[2]) // 2
            if ln != n:
                fails.append({"request": r[:500], "impl": a[:300], "spec": "encoded_len == %d octets written" % n})
    return fails

def nontrivial(req, ans):
    return ans.startswith("ok len=") and " C " in req

LEVEL = "proof"
LEVEL_TEXT = ("Lean 4 theorems for EVERY encoder composition (the inductive Enc: primitive, constructed/explicit/sequence/set, tuples/vec/slice/iter, Option, Choice, Nothing, Captured, octet-string, octet-slice, wrapping and bit-slice encoders), all three modes and every nesting depth, by mutual structural induction over the two INDEPENDENTLY modelled methods: the length announced by encoded_len is exactly the number of octets write_encoded writes, and both fail together with the same documented panic (write_len, len_eq_write, write_eq_len, fail_iff, announced_eq_written - the integer leaves only need to hold values of their Rust type: encUnsigned_len, encSigned_len, intOK_of_inRange); what is written is identifier ++ minimal definite length ++ content for primitives and BER/DER constructed values, identifier 80 content 00 00 for CER constructed values, and the concatenation of the parts in order for every sequence-like combinator (write_prim, write_cons_ber/der/cer, write_seq, length_write_spec); below 2^32 octets the writer equals the reference encoder lean/Bcder/Spec/Encode.lean (write_ok_spec, spec_some_write). Correspondence: random encoder trees of depth <= 6 with every combinator wrapped in every mode, length boundaries 127/128/255/256/65535/65536, compared octet-for-octet with the real combinators.")
LEVEL_NOTE = ("Trusted: Lean 4.33 kernel; axioms propext, Classical.choice, Quot.sound only; the hand-written model (lean/Bcder/Model/Encode.lean: encoded_len and write_encoded modelled separately) tied to /repo on every run by differential correspondence through the REAL combinators. Documented caller misuse on which both methods panic alike: string encoders in CER (unimplemented), captured data of an incompatible mode, content of 2^32 octets or more. The equation encInt = minimal two's complement is C14's and enters only the reference-encoder theorems as a decidable hypothesis.")
