"""C02 — generic decoding accepts exactly well-formed X.690 structure for the mode"""
from common import *
import itertools, scripts

THEOREMS = ['refines', 'decode_run', 'accepts_iff', 'accepts_consumes', 'rejects', 'accepts_runG', 'rejects_runG', 'definite_parent', 'indefinite_parent', 'suffix_lemma', 'pnv_eq', 'body_rel_sw', 'vs_sw', 'parseSwitched_same', 'Bcder.Props.C02b.take_value_spec', 'Bcder.Props.C02b.readN_spec', 'Bcder.Props.C02b.readN_top', 'Bcder.Props.C02b.switched_spec']
EXTRA_MODULES = ['C02b']
RULE = ("run <mode> slice <octets> all  (read every value, descend, take primitive contents) on: trees generated from the grammar "
        "(depth <= 4, all tag sizes, every legal length form per mode, definite/indefinite mixes) encoded for the same or another mode, "
        "their structural mutations (identifier/length octets, child length vs parent +-1, EOC placement, truncation at every offset), "
        "ALL octet strings of length <= 2 and all strings over a 14-letter structural alphabet of length <= 4; partial reads "
        "(k values then stop), reads nested in definite/indefinite parents, explicit mode switches. The reference answer is the sub-list "
        "grammar parser Spec.parseAll. non-trivial = accepted with at least one value.")
CROSS = {'C10': 3000, 'C09': 2000, 'C03': 1500, 'C11': 1500, 'C07': 2500}   # cross streams: samples of neighbouring properties' request streams (outcomes, model <-> implementation)
EXHAUSTIVE = {"quick": False, "thorough": False}
EXHAUSTIVE_NOTE = {"quick": "all octet strings of length <= 2 x 3 modes; all strings over {00,01,02,04,05,1f,20,24,30,7f,80,81,82,ff} of length <= 4 x 3 modes",
                   "thorough": "all octet strings of length <= 3 (BER, DER); alphabet strings of length <= 5"}
ASSUMPTIONS = ["identifier octets limited to 4 and length octets to 1+4 as documented"]

ALPHA = [0x00, 0x01, 0x02, 0x04, 0x05, 0x1f, 0x20, 0x24, 0x30, 0x7f, 0x80, 0x81, 0x82, 0xff]

def has_spec(r):
    return r.endswith(" all") and r.split(" ")[4] == "all"
def model_is_demanded(r):
    return True

def truncations(data):
    return [data[:i] for i in range(len(data))]

def gen(tier, rng):
    out = []
    modes = ["ber", "cer", "der"]
    for m in modes:
        out.append("run %s slice - all" % m)
        for a in range(256):
            out.append("run %s slice %02x all" % (m, a))
            for b in range(256):
                out.append("run %s slice %02x%02x all" % (m, a, b))
        for k in (3, 4) if tier == "quick" else (3, 4, 5):
            for c in itertools.product(ALPHA, repeat=k):
                out.append("run %s slice %s all" % (m, bytes(c).hex()))
    if tier == "thorough":
        for m in ("ber", "der"):
            for a in range(256):
                for b in range(256):
                    for c in range(256):
                        out.append("run %s slice %02x%02x%02x all" % (m, a, b, c))
    N = 15000 if tier == "quick" else 150000
    for _ in range(N):
        m = rng.choice(modes)
        em = m if rng.random() < 0.8 else rng.choice(modes)
        trees = [rand_tree(rng, em) for _ in range(rng.choice([1, 1, 2, 3]))]
        data = b"".join(t.encode() for t in trees)
        out.append("run %s slice %s all" % (m, hx(data)))
        r = rng.random()
        if r < 0.5:
            out.append("run %s slice %s all" % (m, hx(mutate(rng, data))))
        if r < 0.08:
            for t in truncations(data)[:60]:
                out.append("run %s slice %s all" % (m, hx(t)))
        # partial reads and nesting contexts (model is the oracle; spec only for `all`)
        k = rng.randrange(0, len(trees) + 2)
        out.append("run %s slice %s %s" % (m, hx(data), " ".join(["tov G"] * k)))
        out.append("run %s slice %s %s" % (m, hx(data), " ".join(["tv G"] * k)))
        if trees and trees[0].is_cons():
            out.append("run %s slice %s tc { mode %s all } all" % (m, hx(data), rng.choice(modes)))
            out.append("run %s slice %s tc { %s } all" % (m, hx(data), " ".join(["tov G"] * rng.randrange(0, 4))))
        # indefinite values whose terminator is damaged, read with exactly as many reads as there are children
        if rng.random() < 0.35 and m != "der":
            kids = [rand_tree(rng, em) for _ in range(rng.randrange(0, 3))]
            kb = b"".join(k.encode() for k in kids)
            for term in (b"\x00\x00", b"\x20\x00", b"\x00\x81\x00", b"\x00\x01\x00", b"\x00\x80", b"\x01\x00", b"\x00", b"", b"\x1f\x00\x00", b"\x00\x00\x00"):
                d2 = b"\x30\x80" + kb + term
                exact = " ".join(["tv G"] * len(kids))
                out.append("run %s slice %s tc { %s }" % (m, hx(d2), exact))
                out.append("run %s slice %s tc { %s toci c9 { } }" % (m, hx(d2), exact))
                out.append("run %s slice %s seq { %s } all" % (m, hx(d2 + b"\x05\x00"), exact))
                out.append("run %s slice %s all" % (m, hx(d2)))
                # nested in a definite parent
                if len(d2) < 120 and m == "ber":
                    out.append("run ber slice %s tc { tc { %s } }" % (hx(b"\x31" + bytes([len(d2)]) + d2), exact))
        # child length vs parent remainder +-1
        if rng.random() < 0.3:
            inner = rand_tree(rng, em)
            ie = inner.encode()
            for d in (-1, 0, 1):
                ln = len(ie) + d
                if 0 <= ln < 128:
                    out.append("run %s slice %s all" % (m, hx(b"\x30" + bytes([ln]) + ie)))
                    out.append("run %s slice %s all" % (m, hx(b"\x30" + bytes([ln]) + ie + b"\x05\x00")))
    # whole values of 64 KiB and more under every length form that can hold the length, content present
    # (added after seeded change C02-7: a wrong minimality threshold in the four-octet arm of
    # Length::take_from only shows when the content is really there), at top level, nested, and after a
    # mode switch
    for n in (65535, 65536, 65537, 70000):
        content = bytes((i * 13 + 5) & 0xff for i in range(n))
        for f in (3, 4):
            if n >= (1 << (8 * f)):
                continue
            enc = b"\x04" + length(n, f) + content
            for m in ("ber", "cer", "der"):
                out.append("run %s slice %s all" % (m, hx(enc)))
                if m == "cer":
                    out.append("run cer slice %s all" % hx(b"\x30\x80" + enc + b"\x00\x00"))
                else:
                    out.append("run %s slice %s all" % (m, hx(b"\x30" + length(len(enc)) + enc)))
            out.append("run ber slice %s tc { mode der all }" % hx(b"\x30" + length(len(enc)) + enc))
    return out

def nontrivial(req, ans):
    return ans.startswith("ok v")

LEVEL = "proof"
LEVEL_TEXT = ("Lean 4 theorems, for ALL octet strings, all three modes and every enclosing context (top level; definite parent with any number of octets left, incl. more than the source holds; indefinite parent; any nesting depth): the generic reader over the model of Constructed::process_next_value (readAll/readValue in lean/Bcder/Model/Generic.lean) succeeds exactly when the X.690 sub-list grammar of lean/Bcder/Spec/Tlv.lean accepts, returns exactly the encoded trees (class, number, constructed flag, nesting, primitive contents, definite/indefinite form), nested values inherit the mode, and the source is left exactly behind the last value read (refines: DS/IS/US/VS; decode_run, accepts_iff, accepts_consumes, rejects for Mode::decode at top level; accepts_runG/rejects_runG lift to the generous layer the driver executes). pnv_eq gives process_next_value as a closed function of the limited view for ANY closure, the per-mode form checks included. The caller's choices (C02b): one mandatory generic read = the grammar's value at the front of the view (take_value_spec), n of them = n values in a row with the source exactly behind the n-th (readN_spec, readN_top), and a value whose content is read in another mode (Constructed::set_mode in the closure) = header under the outer mode, content under the inner one (switched_spec, parseSwitched; nested values inherit the inner mode through readAll). Correspondence: the driver answers every purely generic read with both the tree reader and the trace reader and flags any difference; impl vs model vs grammar on ~100k inputs per quick run (all strings of <= 2 octets, boundary alphabet of <= 4 octets, damaged/valid structured inputs), exact-count reads, nested mode switches.")
LEVEL_NOTE = ("Trusted: Lean 4.33 kernel; axioms propext, Classical.choice, Quot.sound only; the hand-written model (lean/Bcder/Model) tied to /repo on every run by differential correspondence (tools/check.py, harness/, lean/Driver.lean); the grammar lean/Bcder/Spec/Tlv.lean is the reading of X.690 that is trusted. Theorems are stated with an explicit recursion fuel shared by reader and grammar (the driver uses input length + 4; the Rust code is bounded by its stack instead); reads of a caller-chosen number of values and a mode switch at a nested level are C02b (take_value_spec, readN_spec / readN_top: n mandatory generic reads succeed iff the grammar sees n values in a row, the source is left exactly behind the n-th and what follows is neither looked at nor consumed; switched_spec: a value whose content is read in another mode is accepted iff its header is well-formed under the outer mode and its content under the inner one, parseSwitched); other placements of set_mode (in the middle of a content) are covered by the correspondence check only. Stated on runG0 = SliceSource semantics; C07 carries capture-free reads to every conforming source.")
