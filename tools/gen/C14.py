"""C14 — BOOLEAN, NULL, fixed-width INTEGER codecs"""
from common import *
import itertools

THEOREMS = ['sliceToSigned_eq', 'sliceToUnsigned_eq', 'decode_eq_spec', 'decode_ok_iff', 'decode_err', 'bool_eq_spec', 'null_eq_spec', 'skipU8If_eq_spec', 'encInt_spec', 'minimalTC_unique', 'minimalTC_spec', 'encInt_eq_minimalTC', 'encIntLen_eq', 'roundtrip', 'decode_ok_enc', 'encBool_spec', 'bool_roundtrip', 'null_roundtrip', 'decodeSlice_int']
RULE = ("prim <mode> <content> int <ty>: all contents of length 0-2 x 10 accessors x 3 modes, structured contents of length 3-17 "
        "(head octets from {00,01,7f,80,81,fe,ff}^2, extreme and random tails); int.enc: all i8/u8/i16/u16 values, every bit-length "
        "class +-2 of the wider types, random; bool/null contents; skip_u8_if / Content::skip_u8_if on (expected, content) pairs. "
        "non-trivial = accepted by the implementation.")
CROSS = {'C04': 2000, 'C15': 1000, 'C07': 1500}   # cross streams: samples of neighbouring properties' request streams (outcomes, model <-> implementation)
EXHAUSTIVE = {"quick": False, "thorough": False}
EXHAUSTIVE_NOTE = {"quick": "decoders: all contents of <= 2 octets x 10 accessors x 3 modes; encoders: all 8- and 16-bit values",
                   "thorough": "decoders: all contents of <= 3 octets (3 modes for <=2, DER for 3); encoders additionally all values below 2^20 of every wider type"}
ASSUMPTIONS = ["leading_zeros / swap_bytes / from_be_bytes are modelled, not verified (exercised by the encoder sweeps)"]

TYS = ["i8", "i16", "i32", "i64", "i128", "u8", "u16", "u32", "u64", "u128"]
W = {"i8": 1, "i16": 2, "i32": 4, "i64": 8, "i128": 16, "u8": 1, "u16": 2, "u32": 4, "u64": 8, "u128": 16}
HEADS = [0x00, 0x01, 0x7f, 0x80, 0x81, 0xfe, 0xff]

def has_spec(r):
    return r.startswith("int.enc") or r.startswith("prim ")
def model_is_demanded(r):
    return True

def rng_of(ty):
    w = W[ty] * 8
    if ty[0] == "i":
        return -(1 << (w - 1)), (1 << (w - 1)) - 1
    return 0, (1 << w) - 1

def gen(tier, rng):
    out = []
    modes = ["ber", "cer", "der"]
    # ---- decoders
    contents = [b""] + [bytes([a]) for a in range(256)] + [bytes([a, b]) for a in range(256) for b in range(256)]
    for m in modes:
        for ty in TYS:
            for c in contents:
                out.append("prim %s %s int %s" % (m, hx(c), ty))
    longer = []
    for n in range(3, 18):
        for a, b in itertools.product(HEADS, repeat=2):
            for fill in (0x00, 0xff, 0x80, 0x7f):
                longer.append(bytes([a, b]) + bytes([fill] * (n - 2)))
            for _ in range(2):
                longer.append(bytes([a, b]) + bytes(rng.randrange(256) for _ in range(n - 2)))
    for c in longer:
        m = rng.choice(modes)
        for ty in TYS:
            out.append("prim %s %s int %s" % (m, hx(c), ty))
    if tier == "thorough":
        for a in range(256):
            for b in range(256):
                for c in range(256):
                    for ty in ("i16", "u16", "i32", "u32"):
                        out.append("prim der %02x%02x%02x int %s" % (a, b, c, ty))
    # ---- the same decoders behind a source that grants exactly what is requested
    import scripts
    for c in [bytes([a, b]) for a in HEADS for b in HEADS] + [bytes([a, b, 0x12]) for a in HEADS for b in HEADS] + longer[::7]:
        enc = b"\x02" + length(len(c)) + c
        m = rng.choice(modes)
        for ty in TYS:
            for src in ("stingy", "chunk1"):
                out.append("run %s %s %s tpi u2 [ int %s ]" % (m, src, hx(enc), ty))
        for rd in ("T u8", "T u16", "T u32", "T u64", "tv X u8", "T skipu8if 127", "T integer", "T unsigned"):
            out.append("run %s stingy %s %s" % (m, hx(enc), rd))
    # ---- bool / null
    for m in modes:
        out.append("prim %s - bool" % m)
        out.append("prim %s - null" % m)
        for a in range(256):
            out.append("prim %s %02x bool" % (m, a))
            out.append("prim %s %02x null" % (m, a))
            out.append("prim %s %02x%02x bool" % (m, a, rng.randrange(256)))
        out.append("prim %s 0000 null" % m)
    # ---- the accessors as such, before the framework's exhaustion check (added after the mutation run:
    # `to_null` accepting non-empty content survived because the exhaustion check rejects it anyway):
    # what is left after the accessor, then taking it, shows what the accessor itself accepted and consumed
    for m in modes:
        for c in [b"", b"\x00", b"\xff", b"\x00\x00", b"\x05\x00", b"\x01\x02\x03"]:
            out.append("prim %s %s null rem takeall" % (m, hx(c)))
            out.append("prim %s %s rem null rem" % (m, hx(c)))
        for c in [b"", b"\x00", b"\xff", b"\x01", b"\x00\x00", b"\xff\x01", b"\x01\x02\x03"]:
            out.append("prim %s %s bool rem takeall" % (m, hx(c)))
        for ty in TYS:
            for c in [b"", b"\x00", b"\x7f", b"\x80", b"\x00\x80", b"\x00\x7f", b"\xff\x7f", b"\xff\x80", b"\x01\x02\x03",
                      b"\x00" * (W[ty] + 1), b"\x00" + b"\xff" * W[ty], b"\x7f" + b"\xff" * (W[ty] - 1), b"\x80" + b"\x00" * (W[ty] - 1),
                      b"\x01" * (W[ty] + 1), b"\x01" * (W[ty] + 2)]:
                out.append("prim %s %s int %s rem takeall" % (m, hx(c), ty))
    # ---- encoders
    for ty in ("i8", "u8", "i16", "u16"):
        lo, hi = rng_of(ty)
        for v in range(lo, hi + 1):
            out.append("int.enc %s %d" % (ty, v))
    for ty in ("i32", "u32", "i64", "u64", "i128", "u128"):
        lo, hi = rng_of(ty)
        vals = set([lo, hi, 0, 1, -1 if lo < 0 else 0])
        for k in range(0, W[ty] * 8 + 1):
            for d in (-2, -1, 0, 1, 2):
                for s in ((1, -1) if lo < 0 else (1,)):
                    v = s * (1 << k) + d
                    if lo <= v <= hi:
                        vals.add(v)
        for _ in range(3000 if tier == "quick" else 30000):
            k = rng.randrange(1, W[ty] * 8 + 1)
            v = rng.randrange(1 << k)
            if lo < 0 and rng.random() < 0.5:
                v = -v
            if lo <= v <= hi:
                vals.add(v)
        if tier == "thorough":
            for v in range(0, 1 << 20):
                vals.add(v)
                if lo < 0:
                    vals.add(-v)
        for v in sorted(vals):
            out.append("int.enc %s %d" % (ty, v))
    # ---- value-matching helpers (through the run interface)
    for e in (0, 1, 56, 127, 128, 200, 255):
        for c in ([bytes([e])] if e < 128 else []) + [bytes([0, e]), bytes([e]), bytes([e, 0]), bytes([0, 0, e]), b"", bytes([(e + 1) & 0xff]), bytes([0, (e + 1) & 0xff])]:
            enc = b"\x02" + bytes([len(c)]) + c
            for m in modes:
                out.append("run %s slice %s T skipu8if %d" % (m, hx(enc), e))
                out.append("run %s slice %s T oskipu8if %d" % (m, hx(enc), e))
                out.append("run %s slice %s tv X skipu8if %d" % (m, hx(enc), e))
                out.append("run %s slice %s T u8" % (m, hx(enc)))
    # truncated encodings of this property's typed values (scripts.truncated_leaves)
    import scripts as _scripts
    for (_m, _d, _sc) in _scripts.truncated_leaves([0x02, 0x01, 0x05]):
        for _src in ("slice", "stingy"):
            out.append("run %s %s %s %s" % (_m, _src, hx(_d), _sc))
    return out

def nontrivial(req, ans):
    return ans.startswith("ok")

LEVEL = "proof"
LEVEL_TEXT = ("Lean 4 theorems for ALL contents, all ten builtin integer types (i8..i128, u8..u128), all modes, any trailing octets: every accessor Primitive::to_* followed by the exhaustion check returns the value exactly when the content is the minimal two's complement form of a number in the type's range and fails with a content error otherwise - never a wrapped or truncated value, never a panic, hand-written i8/u8/u16 paths included (decode_eq_spec, decode_ok_iff, decode_err; pure core sliceToSigned_eq / sliceToUnsigned_eq for every width); BOOLEAN reads exactly one octet with the per-mode rule, NULL has empty content, skip_u8_if succeeds exactly when the decoded value equals the expected one (bool_eq_spec, null_eq_spec, skipU8If_eq_spec); every integer type encodes to exactly the minimal two's complement octets of its value with the announced length, and encode-then-decode returns the value (encInt_spec, minimalTC_unique, encInt_eq_minimalTC, encIntLen_eq, roundtrip, decode_ok_enc, bool/null round trips). Correspondence: every width x values at each range edge +-1, non-minimal / empty / over-long contents, all 256 BOOLEAN octets per mode.")
LEVEL_NOTE = ("Trusted: Lean 4.33 kernel; axioms propext, Classical.choice, Quot.sound only; the hand-written model (lean/Bcder/Model/Int.lean) tied to /repo on every run by differential correspondence; reference tcValue / isMinimalTC / minimalTC / inRange / decodeInt / decodeBool in lean/Bcder/Spec. skip_u8_if is inlined by the script interpreter; the theorem is about that inlined program. Stated on runG0 (SliceSource semantics); decodeSlice_* give the contract-checking layer up to its contract panic, which C07/C08 and the streaming correspondence runs rule out.")
