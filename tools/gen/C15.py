"""C15 — arbitrary-size integers behave like the numbers they encode"""
from common import *

THEOREMS = ['cmp_eq_value', 'minimal_inj', 'eq_iff_value', 'isZero_iff_value', 'isPositive_eq_value', 'isNegative_eq_value', 'unsignedFromBytes_spec', 'unsignedFromBytes_nil', 'unsignedFromBytes_of_minimal', 'integerFromPrimitive_spec', 'unsignedFromPrimitive_spec', 'sliceToSigned_value', 'sliceToUnsigned_value', 'sliceToSigned_decodeInt', 'sliceToUnsigned_decodeInt', 'encInt_spec', 'from_then_toSigned', 'from_then_toUnsigned', 'tcValue_range', 'minimal_magnitude', 'cmpZip_eq_compare', 'cmp_swap', 'cmp_trans', 'cmp_eq_iff_eq']
RULE = ("big.cmp: all pairs of 1-octet contents, 1-octet x 2-octet minimal contents, random pairs biased to equal length / sign / "
        "shared prefixes up to 24 octets; big.pred / big.conv / ubig.conv on the same pool; big.from for every fixed-width type over "
        "boundary and random values; uns.frombytes on all magnitudes of length 1-2, all-zero strings, random with leading zeros. "
        "non-trivial = both operands valid integers / conversion defined.")
CROSS = {'C14': 1500, 'C04': 1500}   # cross streams: samples of neighbouring properties' request streams (outcomes, model <-> implementation)
EXHAUSTIVE = {"quick": False, "thorough": False}
EXHAUSTIVE_NOTE = {"quick": "all pairs of 1-octet contents; all magnitudes of <= 2 octets for from_slice",
                   "thorough": "additionally all pairs of (1|2)-octet minimal contents"}
ASSUMPTIONS = ["the Hasher is not modelled: 'hasheq' compares DefaultHasher outputs of values that compare equal",
               "Integer values are built through Integer::from_primitive (validated minimal form)"]

def has_spec(r):
    return True
def model_is_demanded(r):
    return True

def canon(req, ans):
    # hashes of unequal values are unconstrained
    if " eq=0 " in ans + " ":
        ans = ans.replace(" hasheq=0", "").replace(" hasheq=1", "")
    return ans

def minimal(b):
    if len(b) == 0:
        return False
    if len(b) == 1:
        return True
    return not ((b[0] == 0 and b[1] < 0x80) or (b[0] == 0xff and b[1] >= 0x80))

def tc(v):
    n = 1
    while not (-(1 << (8 * n - 1)) <= v < (1 << (8 * n - 1))):
        n += 1
    return (v % (1 << (8 * n))).to_bytes(n, 'big')

def gen(tier, rng):
    out = []
    # the accessors as such, before the framework's exhaustion check (see C14): what is left afterwards
    for m in ("ber", "cer", "der"):
        for c in [b"", b"\x00", b"\x7f", b"\x80", b"\xff", b"\x00\x00", b"\x00\x7f", b"\x00\x80", b"\xff\x7f", b"\xff\x80", b"\xff\xff",
                  b"\x01\x02\x03", b"\x00\x80\x00", b"\xff\x7f\xff", b"\x00" * 9 + b"\x01", b"\x7f" * 20]:
            out.append("prim %s %s integer rem takeall" % (m, hx(c)))
            out.append("prim %s %s unsigned rem takeall" % (m, hx(c)))
    one = [bytes([a]) for a in range(256)]
    two = [bytes([a, b]) for a in range(256) for b in range(256) if minimal(bytes([a, b]))]
    for a in one:
        for b in one:
            out.append("big.cmp %s %s" % (hx(a), hx(b)))
    sample2 = two if tier == "thorough" else rng.sample(two, 600)
    for a in one:
        for b in (sample2 if tier == "thorough" else rng.sample(sample2, 60)):
            out.append("big.cmp %s %s" % (hx(a), hx(b)))
            out.append("big.cmp %s %s" % (hx(b), hx(a)))
    if tier == "thorough":
        s = rng.sample(two, 1500)
        for a in s:
            for b in rng.sample(s, 300):
                out.append("big.cmp %s %s" % (hx(a), hx(b)))
    pool = list(one) + rng.sample(two, 2000)
    def rnd():
        n = rng.choice([1, 2, 2, 3, 3, 4, 5, 8, 9, 16, 17, 24])
        b = bytearray(rng.randrange(256) for _ in range(n))
        if rng.random() < 0.4:
            b[0] = rng.choice([0x00, 0xff, 0x7f, 0x80, 0x01, 0xfe])
        if n > 1 and rng.random() < 0.4:
            b[1] = rng.choice([0x00, 0xff, 0x7f, 0x80])
        return bytes(b)
    for _ in range(3000):
        pool.append(rnd())
    for v in [0, 1, -1, 127, 128, -128, -129, 255, 256, -256, -257, 32767, 32768, -32768, -32769] + \
             [s * (1 << k) + d for k in (8, 15, 16, 31, 32, 63, 64, 127, 128) for d in (-1, 0, 1) for s in (1, -1)]:
        pool.append(tc(v))
    for _ in range(40000 if tier == "quick" else 400000):
        a = rng.choice(pool)
        r = rng.random()
        if r < 0.3:
            b = bytearray(a)
            if b:
                i = rng.randrange(len(b)); b[i] = (b[i] + rng.choice([1, 255, 0x80])) & 0xff
            b = bytes(b)
        elif r < 0.5:
            b = a[:1] + bytes(rng.randrange(256) for _ in range(len(a) - 1))
        elif r < 0.6:
            b = a
        else:
            b = rng.choice(pool)
        out.append("big.cmp %s %s" % (hx(a), hx(b)))
    for a in pool + [b"", b"\x00\x00", b"\xff\xff", b"\x00\x7f", b"\xff\x80"]:
        out.append("big.pred %s" % hx(a))
        out.append("big.conv %s" % hx(a))
        out.append("ubig.conv %s" % hx(a))
    W = {"i8": 1, "i16": 2, "i32": 4, "i64": 8, "i128": 16, "u8": 1, "u16": 2, "u32": 4, "u64": 8, "u128": 16}
    for ty, w in W.items():
        lo, hi = (-(1 << (8 * w - 1)), (1 << (8 * w - 1)) - 1) if ty[0] == "i" else (0, (1 << (8 * w)) - 1)
        vals = set([lo, hi, 0])
        for k in range(8 * w + 1):
            for d in (-1, 0, 1):
                for s in (1, -1):
                    v = s * (1 << k) + d
                    if lo <= v <= hi:
                        vals.add(v)
        for _ in range(500):
            v = rng.randrange(lo, hi + 1)
            vals.add(v)
            vals.add(v >> rng.randrange(0, 8 * w))
        if w <= 2:
            vals |= set(range(lo, hi + 1))
        for v in sorted(vals):
            out.append("big.from %s %d" % (ty, v))
    out.append("uns.frombytes -")
    for a in range(256):
        out.append("uns.frombytes %02x" % a)
        for b in range(256):
            out.append("uns.frombytes %02x%02x" % (a, b))
    for n in range(1, 17):
        out.append("uns.frombytes %s" % ("00" * n))
    for _ in range(5000):
        z = rng.randrange(0, 5)
        body = bytes(rng.randrange(256) for _ in range(rng.randrange(0, 12)))
        if body and rng.random() < 0.5:
            body = bytes([rng.choice([0x80, 0xff, 0x7f, 0x01])]) + body[1:]
        out.append("uns.frombytes %s" % hx(b"\x00" * z + body))
    # truncated encodings of this property's typed values (scripts.truncated_leaves)
    import scripts as _scripts
    for (_m, _d, _sc) in _scripts.truncated_leaves([0x02]):
        for _src in ("slice", "stingy"):
            out.append("run %s %s %s %s" % (_m, _src, hx(_d), _sc))
    return out

def nontrivial(req, ans):
    return not ans.startswith("invalid") and not ans.startswith("err")

LEVEL = "proof"
LEVEL_TEXT = ("Lean 4 theorems for ALL contents of unbounded length: Integer / Unsigned decoding accepts exactly the minimal two's complement forms (non-negative ones for Unsigned) (integerFromPrimitive_spec, unsignedFromPrimitive_spec); on accepted values Ord equals the order of the numbers, equality (and hence the hash of the content octets) equality of the numbers, is_zero / is_positive / is_negative the sign of the number (cmp_eq_value, eq_iff_value, minimal_inj, isZero_iff_value, isPositive_eq_value, isNegative_eq_value), and Ord is a lawful total order consistent with == (cmp_swap, cmp_trans, cmp_eq_iff_eq: what sorting and ordered maps rely on); Unsigned::from_bytes/from_slice of ANY non-empty magnitude - leading zeros, zero itself - yields that number in minimal form, never a panic (unsignedFromBytes_spec, unsignedFromBytes_nil); conversion to a w-octet signed/unsigned builtin succeeds exactly when the number fits and preserves it (sliceToSigned_value, sliceToUnsigned_value, *_decodeInt) and conversion from every builtin yields the minimal form of the same number and converts back (encInt_spec, from_then_toSigned, from_then_toUnsigned). Correspondence: big integers around every octet-length and sign boundary, all-zero / all-FF paddings, comparisons of equal/different length and sign, conversions at each builtin range edge.")
LEVEL_NOTE = ("Trusted: Lean 4.33 kernel; axioms propext, Classical.choice, Quot.sound only; the hand-written model (lean/Bcder/Model/Int.lean) tied to /repo on every run by differential correspondence; reference tcValue / isMinimalTC / inRange in lean/Bcder/Spec. An Integer is represented by its content octets; the theorems about accepted values assume minimal form, which is what decoding guarantees (examples in the file show the hypothesis is needed: the model panics on the empty value exactly where Rust indexes [0]). Hash is covered as hashing the content octets.")
