"""C17 — string comparison and hashing depend on content only"""
from common import *
import itertools

THEOREMS = ['lexCmp_eq_spec', 'lexCompare_eq_iff', 'eq_iff_content', 'cmp_content', 'eqSlice_content', 'cmpSlice_content', 'len_content', 'hash_content', 'hashFeed_content', 'lexCompare_swap', 'lexCompare_trans_lt', 'cmp_swap', 'cmp_trans', 'cmp_eq_iff_eq']
RULE = ("contents over a 3-letter alphabet of length 0-4 under ALL segmentations into <= 3 segments (empty segments allowed), realised as "
        "real BER encodings (primitive, flat definite, flat indefinite, nested, empty constructed), all pairs of a pool; plus random longer "
        "contents with random nestings; each compared with ==, cmp, partial_cmp, hash, and against plain slices (os.cmps); restricted "
        "strings through their Deref/PartialEq impls. non-trivial = both sides decoded.")
CROSS = {'C16': 2000, 'C18': 1500}   # cross streams: samples of neighbouring properties' request streams (outcomes, model <-> implementation)
EXHAUSTIVE = {"quick": False, "thorough": False}
EXHAUSTIVE_NOTE = {"quick": "all segmentations into <= 3 segments of all contents of length <= 3 over {61,62,00}; 200k pairs", "thorough": "2M pairs"}
ASSUMPTIONS = ["hash equality is observed with DefaultHasher only (the fix feeds octets one by one, which is chunking-independent for any Hasher)"]

def has_spec(r):
    return r.startswith("os.cmp")
def model_is_demanded(r):
    return True

def canon(req, ans):
    if " eq=0 " in ans + " ":
        ans = ans.replace(" hasheq=0", "").replace(" hasheq=1", "")
    return ans

def pool(tier, rng):
    encs = {}
    alpha = [0x61, 0x62, 0x00]
    for n in range(0, 4 if tier == "quick" else 5):
        for c in itertools.product(alpha, repeat=n):
            c = bytes(c)
            encs.setdefault(c, set()).add(os_prim(c))
            for nseg in (1, 2, 3):
                for pieces in all_splits(c, nseg):
                    kids = [os_prim(p) for p in pieces]
                    encs[c].add(os_cons(kids, False))
                    encs[c].add(os_cons(kids, True))
                    if nseg == 2:
                        encs[c].add(os_cons([os_cons([kids[0]], True), kids[1]], False))
                        encs[c].add(os_cons([kids[0], os_cons([], False), os_cons([kids[1]], False)], True))
            if n == 0:
                encs[c].add(os_cons([], False)); encs[c].add(os_cons([], True))
                encs[c].add(os_cons([os_cons([], True)], False))
    for _ in range(200):
        c = bytes(rng.choice([0x61, 0x62, 0x63, 0x00, 0xff]) for _ in range(rng.randrange(0, 12)))
        for _ in range(4):
            encs.setdefault(c, set()).add(rand_os_form(rng, c))
    flat = [(c, e) for c, es in encs.items() for e in sorted(es)]
    return flat

def gen(tier, rng):
    out = []
    flat = pool(tier, rng)
    npairs = 200000 if tier == "quick" else 2000000
    by_content = {}
    for c, e in flat:
        by_content.setdefault(c, []).append(e)
    contents = sorted(by_content)
    for _ in range(npairs):
        c1 = rng.choice(contents)
        r = rng.random()
        if r < 0.35:
            c2 = c1
        elif r < 0.6:
            # neighbour: prefix / extension / one octet changed
            k = rng.random()
            if k < 0.33 and c1:
                c2 = c1[:-1]
            elif k < 0.66:
                c2 = c1 + bytes([rng.choice([0x61, 0x62, 0x00])])
            else:
                c2 = bytes([rng.choice([0x61, 0x62, 0x00]) if i == len(c1) - 1 else x for i, x in enumerate(c1)])
            if c2 not in by_content:
                c2 = rng.choice(contents)
        else:
            c2 = rng.choice(contents)
        e1 = rng.choice(by_content[c1]); e2 = rng.choice(by_content[c2])
        out.append("os.cmp ber %s %s" % (hx(e1), hx(e2)))
    for c, e in flat:
        for t in {c, c[:-1], c + b"a", c + b"\x00", b"", c[:1], bytes([x ^ 1 for x in c])}:
            out.append("os.cmps ber %s %s" % (hx(e), hx(t)))
    return out

def nontrivial(req, ans):
    return ans.startswith("ok")

LEVEL = "proof"
LEVEL_TEXT = 'Lean 4 theorems for ALL values the decoder can produce (any segmentation/nesting): ==, cmp, ==/partial_cmp with a slice and the hasher feed are functions of the content octet sequence alone (eq_iff_content, cmp_content = reference lexicographic order, eqSlice_content, cmpSlice_content, hash_content), and the order is equality exactly on equal contents (lexCompare_eq_iff); Ord is a lawful total order whatever the segmentation of the operands: cmp b a is the reverse of cmp a b, Less is transitive, Equal exactly where == holds (cmp_swap, cmp_trans, cmp_eq_iff_eq). Correspondence: all segmentations of short contents as real BER encodings, 200k pairs, against the model and a grammar-based reference.'
LEVEL_NOTE = "Trusted: Lean 4.33 kernel; axioms propext, Classical.choice, Quot.sound only; the hand-written model (lean/Bcder/Model) tied to /repo on every run by differential correspondence (tools/check.py, harness/, lean/Driver.lean); reference definitions lean/Bcder/Spec. The Hasher itself is not modelled (only what is fed to it); RestrictedString delegates to OctetString (same impls). That OS.octets is the concatenation of the primitive segments is C16's statement."
