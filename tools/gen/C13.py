"""C13 — length octets: requests for the correspondence check and the reference comparison."""
from common import *

THEOREMS = ["write_eq_spec", "write_len", "written_minimal", "read_write", "read_eq_spec", "total_len", "write_prefix_free", "write_inj"]
RULE = ("len.write n: every n within +-300 of each length-class boundary plus random n < 2^32; "
        "len.read: every first octet x tails of 0-2 octets (all) and 3-5 octets from a boundary alphabet x 3 modes, "
        "complete and truncated; run: whole values with the length octets under test and matching content. "
        "non-trivial = request accepted by the implementation (a length was written/read).")
CROSS = {'C02': 2500, 'C06': 1000}   # cross streams: samples of neighbouring properties' request streams (outcomes, model <-> implementation)
EXHAUSTIVE = {"quick": False, "thorough": False}
EXHAUSTIVE_NOTE = {"quick": "len.read exhaustive for length-octet strings of <= 2 octets x 3 modes",
                   "thorough": "len.write exhaustive for n < 2^20; len.read exhaustive for length-octet strings of <= 3 octets x 3 modes"}
ASSUMPTIONS = ["64-bit usize (the target_pointer_width=64 variants of length.rs)",
               "lengths >= 2^32 are the documented panic and are not requested",
               "error messages/positions are not compared"]

def has_spec(r):
    return r.startswith("len.write") or r.startswith("len.read")
def model_is_demanded(r):
    return True

ALPHA = [0x00, 0x01, 0x7f, 0x80, 0x81, 0xff]

def gen(tier, rng):
    out = []
    bounds = [0, 0x80, 0x100, 0x10000, 0x1000000, 0x100000000]
    w = 300 if tier == "quick" else 3000
    for b in bounds:
        for n in range(max(0, b - w), min(0xFFFFFFFF, b + w) + 1):
            out.append("len.write %d" % n)
    for _ in range(20000 if tier == "quick" else 200000):
        bits = rng.randrange(1, 33)
        out.append("len.write %d" % rng.randrange(1 << bits))
    if tier == "thorough":
        out += ["len.write %d" % n for n in range(0, 1 << 20)]
    modes = ["ber", "cer", "der"]
    for m in modes:
        for b0 in range(256):
            out.append("len.read %s %02x" % (m, b0))
            for b1 in range(256):
                out.append("len.read %s %02x%02x" % (m, b0, b1))
        firsts = list(range(0x7e, 0x88)) + [0x00, 0xfe, 0xff]
        for b0 in firsts:
            for b1 in range(256):
                for b2 in (range(256) if tier == "thorough" else [0, 1, 0x7f, 0x80, 0xff]):
                    out.append("len.read %s %02x%02x%02x" % (m, b0, b1, b2))
            for k in (3, 4, 5):
                for _ in range(300):
                    tail = bytes(rng.choice(ALPHA) if rng.random() < 0.7 else rng.randrange(256) for _ in range(k))
                    out.append("len.read %s %02x%s" % (m, b0, tail.hex()))
    # long forms, systematically (added after the mutation run: `len > 0x00FF_FFFF` -> `>=` in the 0x84 arm
    # survived the random tails): every tail over the boundary alphabet for 81..85, and every value at a
    # minimal-form boundary (+-1) written with every number of length octets that can hold it
    import itertools
    for m in modes:
        for b0 in (0x81, 0x82, 0x83, 0x84, 0x85):
            for k in (1, 2, 3, 4) + ((5,) if b0 >= 0x84 else ()):
                for tail in itertools.product(ALPHA, repeat=k):
                    out.append("len.read %s %02x%s" % (m, b0, bytes(tail).hex()))
        for v in sorted({max(0, b + d) for b in (0, 0x7f, 0x80, 0xff, 0x100, 0xffff, 0x10000, 0xffffff, 0x1000000, 0xffffffff)
                         for d in (-1, 0, 1)}):
            for k in (1, 2, 3, 4, 5):
                if v < (1 << (8 * k)):
                    out.append("len.read %s %02x%s" % (m, 0x80 + k, v.to_bytes(k, "big").hex()))
                    out.append("len.read %s %02x%s" % (m, 0x80 + k, v.to_bytes(k, "big").hex()[:-2]))
    # whole values: content present, so success shows that exactly the length octets were consumed
    out.append("len.read ber -")
    for m in modes:
        for n in [0, 1, 5, 127, 128, 129, 255, 256, 300, 1000, 65535, 65536, 70000]:
            content = bytes((i * 7 + 3) & 0xff for i in range(n))
            forms = [None, 1, 2, 3, 4]
            for f in forms:
                if f is not None and n >= (1 << (8 * f)):
                    continue
                enc = b"\x04" + length(n, f) + content
                out.append("run %s slice %s all" % (m, hx(enc)))
                out.append("run %s slice %s all" % (m, hx(enc + b"\x05\x00")))
                out.append("run %s slice %s tp [ rem takeall ]" % (m, hx(enc)))
                out.append("run %s slice %s all" % (m, hx(enc[:-1])) if n else "run %s slice %s all" % (m, hx(enc)))
    return out

LEVEL = "proof"
LEVEL_TEXT = ("Lean 4 theorems for all n < 2^32, all modes and ALL length-octet strings: the writer emits the reference shortest form "
              "(write_eq_spec, write_len, written_minimal, total_len), every mode reads it back (read_write), the written forms are self-delimiting - no form is a prefix of another, distinct lengths are written differently (write_prefix_free, write_inj) -, and on every input the reader "
              "equals the reference reader (read_eq_spec: BER any form, CER/DER only the shortest, 0x80 indefinite, >4 octets/truncated rejected, "
              "exact consumption). The model is tied to /repo on every run by differential correspondence (about 300k requests quick).")
LEVEL_NOTE = ("Trusted: Lean kernel; axioms propext, Classical.choice, Quot.sound; hand-written model of src/length.rs (64-bit variants) and "
              "write_header/total_encoded_len; the correspondence check (sampled + exhaustive sub-domains) as the tie to the Rust; reference "
              "definitions Spec.lenOctets/readLen. Length is private, so reading is observed through Mode::decode/Primitive::remaining.")
