"""C08 — source failures surface as that source error"""
from common import *
import scripts

THEOREMS = ['fault_surfaces', 'first_request_fails', 'generic_read_fault', 'octet_string_fault']
RULE = ("for each generated (mode, input, script) case the implementation driver counts the requests r the routine issues on a fault-free "
        "contract-asserting source (stingy / chunked / over-granting), then re-runs it with the k-th request failing for every k < r (at most "
        "48 evenly spaced k for long runs): the call must return exactly the injected source error (Display == marker) — never a value, a "
        "content error or a panic — and is identical to the fault-free run when fewer than k+1 requests are issued. "
        "non-trivial = at least one request position was faulted.")
CROSS = {'C07': 3000, 'C11': 1500}   # cross streams: samples of neighbouring properties' request streams (outcomes, model <-> implementation)
EXHAUSTIVE = {"quick": False, "thorough": False}
EXHAUSTIVE_NOTE = {"quick": "every request position for cases issuing <= 48 requests", "thorough": "same"}
ASSUMPTIONS = ["the fault is a failing Source::request; slice/bytes/advance cannot fail by the trait's signature"]

def model_is_demanded(r):
    return False
def impl_only(r):
    return r.startswith("faultsweep")

def gen(tier, rng):
    out = []
    N = 6000 if tier == "quick" else 60000
    for _ in range(N):
        m, d, s = scripts.case(rng, mutate_p=0.2)
        pol = rng.choice(["stingy", "stingy", "chunk1", "chunk3", "plus2", "rand5", "all"])
        out.append("faultsweep %s %s %s %s" % (m, pol, hx(d), s))
        # the fault-free run is also compared with the model
        out.append("run %s %s %s %s" % (m, pol, hx(d), s))
        # exact prediction by the stream-layer model: number of requests issued, and the outcome
        # with the k-th request failing (capture-free scripts; others are answered "nomodel")
        if pol in ("stingy", "chunk1", "chunk3", "plus2", "all"):
            out.append("run %s count:%s %s %s" % (m, pol, hx(d), s))
            for k in rng.sample(range(0, 24), 3):
                out.append("run %s fail%d:%s %s %s" % (m, k, pol, hx(d), s))
    for (m, d, sc) in scripts.leaf_battery(rng, 3000 if tier == "quick" else 30000):
        pol = rng.choice(["stingy", "chunk1", "plus2"])
        out.append("faultsweep %s %s %s %s" % (m, pol, hx(d), sc))
        out.append("run %s count:%s %s %s" % (m, pol, hx(d), sc))
        out.append("run %s fail%d:%s %s %s" % (m, rng.randrange(0, 8), pol, hx(d), sc))
    return out

def relational(reqs, answers):
    fails = []
    for r, a in zip(reqs, answers):
        if r.startswith("faultsweep") and not a.startswith("ok requests="):
            fails.append({"request": r, "impl": a, "spec": "the injected source error, or the fault-free result if the request is never issued"})
    return fails

def nontrivial(req, ans):
    return ans.startswith("ok requests=") and not ans.startswith("ok requests=0 ")

LEVEL = "proof"
LEVEL_TEXT = 'Lean 4 theorem (same program induction): for EVERY routine (capture-free or capturing, see C07), input, conforming policy and EVERY position k of the failing request, the result is the injected source error or - if fewer than k+1 requests are issued - exactly the fault-free result; never another value, a content error in its place, or a panic (fault_surfaces). The stream-layer model predicts the number of requests and the outcome for each k exactly; the check compares these predictions with the real crate and sweeps every request position (faultsweep).'
LEVEL_NOTE = 'Trusted: Lean 4.33 kernel; axioms propext, Classical.choice, Quot.sound only; the hand-written model (lean/Bcder/Model) tied to /repo on every run by differential correspondence (tools/check.py, harness/, lean/Driver.lean); reference definitions lean/Bcder/Spec. Capturing routines are inside the theorem since the stream layer models CaptureSource (see C07; octet_string_fault, kernel-evaluated fault inside a capture). The fault is a failing Source::request.'
