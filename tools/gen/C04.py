"""C04 — encoding a value and decoding the result returns the same value"""
from common import *
import schema

THEOREMS = []
RULE = ("random schemas (depth <= 3: SEQUENCE / SET / SEQUENCE OF, explicit and implicit tags of 1-4 identifier octets, OPTIONAL fields present "
        "and absent, CHOICE) over leaves of every supported type (BOOLEAN, NULL, all ten fixed-width integer types over boundary and random "
        "values, Integer, Unsigned, OID, BIT STRING, OCTET STRING, the four restricted strings; sizes crossing 127/128, 255/256, 65535/65536) "
        "encoded with the REAL combinators in a mode and decoded with the REAL typed readers in the same mode (DER output also in BER mode). "
        "Oracle computed by the generator: the decoded trace is the value that was encoded, all octets are consumed, and the produced octets "
        "parse under the reference grammar of the mode. non-trivial = round trip of a schema with at least one field.")
EXHAUSTIVE = {"quick": False, "thorough": False}
EXHAUSTIVE_NOTE = {"quick": "", "thorough": ""}
ASSUMPTIONS = ["CER encoders of string types are documented as unimplemented and not requested in CER",
               "BER re-encoding of an OCTET STRING *value* decoded from an indefinite constructed form is the known finding D12 (not generated here; see C16)"]

ORACLE = {}

def model_is_demanded(r):
    return False
def has_spec(r):
    return False

def gen(tier, rng):
    out = []
    N = 8000 if tier == "quick" else 80000
    for i in range(N):
        mode = rng.choice(["ber", "der", "der", "cer"])
        e, d, t, _ = schema.value(rng, mode, big=(i % 25 == 0))
        r = "rt %s %s ;; %s" % (mode, e, d)
        out.append(r)
        ORACLE[r] = (mode, t)
    return out

def phase2(reqs, answers):
    """the produced octets must be a well-formed encoding under the mode's rules: ask for a generic read"""
    more = []
    for r, a in zip(reqs, answers):
        if r in ORACLE and a.startswith("ok len="):
            enc = a.split(" enc=")[1].split(" ")[0]
            q = "run %s slice %s all" % (ORACLE[r][0], enc)
            more.append(q)
            WELL[q] = r
    return more

WELL = {}
def has_spec(r):
    return r.startswith("run ") and r.endswith(" all")

def relational(reqs, answers):
    fails = []
    for r, a in zip(reqs, answers):
        if r in WELL:
            if not a.startswith("ok "):
                fails.append({"request": WELL[r], "impl": "produced octets rejected by a generic read: " + a, "spec": "the produced octets are a well-formed encoding"})
            continue
        if r not in ORACLE:
            continue
        mode, t = ORACLE[r]
        if not a.startswith("ok len="):
            fails.append({"request": r, "impl": a, "spec": "ok … " + " ".join(t)}); continue
        ln = int(a.split(" ")[1][4:])
        enc = a.split(" enc=")[1].split(" ")[0]
        nbytes = 0 if enc == "-" else len(enc) // 2
        want = "ok %s | rest=0" % " ".join(t)
        dec = a.split(" dec=[")[1].split("]")[0]
        if " ".join(dec.split()) != " ".join(want.split()):
            fails.append({"request": r, "impl": a[:600], "spec": "dec=[%s]" % want}); continue
        if mode == "der":
            ber = a.split(" ber=[")[1].split("]")[0]
            if " ".join(ber.split()) != " ".join(want.split()):
                fails.append({"request": r, "impl": a[:600], "spec": "ber=[%s]" % want}); continue
        if ln != nbytes:
            fails.append({"request": r, "impl": a[:600], "spec": "announced length = octets written (%d)" % nbytes})
    return fails

def nontrivial(req, ans):
    return ans.startswith("ok len=") and "dec=[ok " in ans and "dec=[ok  |" not in ans

LEVEL = "proof"
LEVEL_TEXT = "see THEOREMS"
LEVEL_NOTE = ""
