"""C04 — encoding a value and decoding the result returns the same value"""
from common import *
import schema

THEOREMS = ['readIdent_identOctets', 'readLen_lenOctets', 'frame_definite', 'rt_prim_opt', 'rt_prim', 'rt_value_opt', 'rt_cons_opt', 'rt_cons', 'eoc_exhausted', 'rt_cons_cer_opt', 'rt_cons_cer', 'rt_seq', 'rt_mandatory', 'codec_roundtrip', 'top_roundtrip', 'write_der_eq_ber', 'der_decodes_in_ber', 'leaf_int', 'leaf_bool', 'leaf_null', 'leaf_oid', 'leaf_integer', 'leaf_bits', 'leaf_octets', 'sample_codec', 'sample_roundtrip', 'Bcder.Props.C04b.pnv_absent', 'Bcder.Props.C04b.rtf_optNone_prim', 'Bcder.Props.C04b.rtf_optNone_value', 'Bcder.Props.C04b.rtf_optNone_cons', 'Bcder.Props.C04b.rtf_seq', 'Bcder.Props.C04b.rtf_cons_opt', 'Bcder.Props.C04b.rtf_cons_cer_opt', 'Bcder.Props.C04b.primLike_prim', 'Bcder.Props.C04b.primLike_octetSlice', 'Bcder.Props.C04b.primLike_octetString_prim', 'Bcder.Props.C04b.primLike_octetString_der', 'Bcder.Props.C04b.primLike_bitSlice', 'Bcder.Props.C04b.leaf_restricted', 'Bcder.Props.C04b.codecF_roundtrip', 'Bcder.Props.C04b.topF_roundtrip', 'Bcder.Props.C04b.follow_needed', 'Bcder.Props.C04b.sampleF_codec', 'Bcder.Props.C04b.sampleF_roundtrip', 'Bcder.Props.C04b.sampleS_codec', 'Bcder.Props.C04b.sampleS_roundtrip', 'Bcder.Props.C04b.untagged_eq', 'Bcder.Props.C04b.rtf_untagged', 'Bcder.Props.C04b.choice_codec', 'Bcder.Props.C04b.choice_roundtrip', 'Bcder.Props.C04c.parse_append', 'Bcder.Props.C04c.rt_captureOne', 'Bcder.Props.C04c.codecF_captured', 'Bcder.Props.C04c.sampleC_roundtrip', 'Bcder.Props.C04c.primLike_wrapped', 'Bcder.Props.C04c.wrapped_roundtrip']
EXTRA_MODULES = ['C04b', 'C04c']
RULE = ("random schemas (depth <= 3: SEQUENCE / SET / SEQUENCE OF, explicit and implicit tags of 1-4 identifier octets, OPTIONAL fields present "
        "and absent, CHOICE) over leaves of every supported type (BOOLEAN, NULL, all ten fixed-width integer types over boundary and random "
        "values, Integer, Unsigned, OID, BIT STRING, OCTET STRING, the four restricted strings; sizes crossing 127/128, 255/256, 65535/65536) "
        "encoded with the REAL combinators in a mode and decoded with the REAL typed readers in the same mode (DER output also in BER mode). "
        "Oracle computed by the generator: the decoded trace is the value that was encoded, all octets are consumed, and the produced octets "
        "parse under the reference grammar of the mode. non-trivial = round trip of a schema with at least one field.")
CROSS = {'C07': 3000, 'C16': 2000, 'C11': 2000, 'C06': 1500, 'C05': 1500, 'C15': 2500, 'C14': 1500, 'C18': 1000, 'C19': 1000, 'C20': 1000}   # cross streams: samples of neighbouring properties' request streams (outcomes, model <-> implementation)
EXHAUSTIVE = {"quick": False, "thorough": False}
EXHAUSTIVE_NOTE = {"quick": "", "thorough": ""}
ASSUMPTIONS = ["CER encoders of string types are documented as unimplemented and not requested in CER"]

ORACLE = {}

def model_is_demanded(r):
    return False
def has_spec(r):
    return False

def gen(tier, rng):
    out = []
    N = 8000 if tier == "quick" else 80000
    for i in range(N):
        mode = rng.choice(["ber", "der", "der", "cer"])
        e, d, t, _ = schema.value(rng, mode, big=(i % 25 == 0))
        r = "rt %s %s ;; %s" % (mode, e, d)
        out.append(r)
        ORACLE[r] = (mode, t)
    # an OCTET STRING value decoded from any BER form (any segmentation, definite or indefinite at every
    # level), encoded again in BER (segmentation kept) and in DER (flattened), and decoded from that
    for i in range(600 if tier == "quick" else 6000):
        data = bytes(rng.randrange(256) for _ in range(rng.choice([0, 1, 2, 3, 5, 9])))
        form = rand_os_form(rng, data)
        for em in ("ber", "der"):
            r = "rt %s OS u4 ber %s ;; T os" % (em, hx(form))
            out.append(r)
            OSRT[r] = (data, form, em)
    return out

OSRT = {}
def os_content(dec):
    """content of an `os:` trace item: p<hex> or c<seg>,<seg>,…"""
    import re
    m = re.match(r"ok os:([pc])([0-9a-f,\-]*) \| rest=0$", " ".join(dec.split()))
    if not m:
        return None
    return bytes.fromhex(m.group(2).replace(",", "").replace("-", ""))

def phase2(reqs, answers):
    """the produced octets must be a well-formed encoding under the mode's rules: ask for a generic read"""
    more = []
    for r, a in zip(reqs, answers):
        if r in ORACLE and a.startswith("ok len="):
            enc = a.split(" enc=")[1].split(" ")[0]
            q = "run %s slice %s all" % (ORACLE[r][0], enc)
            more.append(q)
            WELL[q] = r
    return more

WELL = {}
def has_spec(r):
    return r.startswith("run ") and r.endswith(" all")

def relational(reqs, answers):
    fails = []
    for r, a in zip(reqs, answers):
        if r in WELL:
            if not a.startswith("ok "):
                fails.append({"request": WELL[r], "impl": "produced octets rejected by a generic read: " + a, "spec": "the produced octets are a well-formed encoding"})
            continue
        if r in OSRT:
            data, form, em = OSRT[r]
            got = os_content(a.split(" dec=[")[1].split("]")[0]) if a.startswith("ok len=") else None
            if got != data:
                f = {"request": r, "impl": a[:400], "spec": "decoding the re-encoded octet string yields the content " + hx(data)}
                fails.append(f)
            continue
        if r not in ORACLE:
            continue
        mode, t = ORACLE[r]
        if not a.startswith("ok len="):
            fails.append({"request": r, "impl": a, "spec": "ok … " + " ".join(t)}); continue
        ln = int(a.split(" ")[1][4:])
        enc = a.split(" enc=")[1].split(" ")[0]
        nbytes = 0 if enc == "-" else len(enc) // 2
        want = "ok %s | rest=0" % " ".join(t)
        dec = a.split(" dec=[")[1].split("]")[0]
        if " ".join(dec.split()) != " ".join(want.split()):
            fails.append({"request": r, "impl": a[:600], "spec": "dec=[%s]" % want}); continue
        if mode == "der":
            ber = a.split(" ber=[")[1].split("]")[0]
            if " ".join(ber.split()) != " ".join(want.split()):
                fails.append({"request": r, "impl": a[:600], "spec": "ber=[%s]" % want}); continue
        if ln != nbytes:
            fails.append({"request": r, "impl": a[:600], "spec": "announced length = octets written (%d)" % nbytes})
    return fails

def nontrivial(req, ans):
    return ans.startswith("ok len=") and "dec=[ok " in ans and "dec=[ok  |" not in ans

LEVEL = "proof"
LEVEL_TEXT = ("Lean 4 theorems. Framing, for EVERY tag (class <= 3, number <= 0x1FFFFF, not end-of-contents), every content below 2^32 octets, every context (top level, definite parent with any sufficient limit, indefinite parent), anything following, ANY closure: a value written as identifier ++ minimal definite length ++ content is read back by the tag-selective readers with the closure run on exactly the content window and the limit afterwards reduced by exactly the value's size (frame_definite; readIdent_identOctets, readLen_lenOctets); CER constructed values (80 ... 00 00) likewise (rt_cons_cer, eoc_exhausted). Composition: the inductive family Codec pairs every encoder composition built from primitive / implicitly or explicitly tagged constructed / sequence-set-tuple-vec / OPTIONAL-present / Choice / mapped values with the decoder built from take_primitive_if, take_value_if, take_constructed_if, their optional variants and sequencing; codec_roundtrip proves by induction over that family, at every nesting depth and in every mode, that decoding the written octets returns the value, consumes exactly them and leaves the Constructed as it was (top_roundtrip: Mode::decode returns the value with nothing left). OPTIONAL fields that are ABSENT and the string encoders (C04b): the family CodecF extends Codec by None / take_opt_*_if with any closure and by every encoder that writes a primitive value (OctetSliceEncoder, OctetStringEncoder - in DER any segmentation is written primitive -, BitSliceEncoder; leaves: OCTET STRING and the four restricted character strings, leaf_restricted), tracking the follow set T of tags that must not come next; codecF_roundtrip proves the round trip whenever what follows is empty or starts with a tag outside T (rtf_seq: the tag of an absent field must differ from the first tag of what is written next, exactly the ASN.1 unambiguity rule; rtf_cons_opt / rtf_cons_cer_opt: inside a constructed value the end of the content, or the end-of-contents marker, discharges it), topF_roundtrip: at top level unconditionally; follow_needed shows by kernel evaluation that the condition cannot be dropped; the untagged readers take_value / take_primitive / take_constructed and their optional forms are the tag-selective readers for the tag that was written, with the closure applied to it (untagged_eq, rtf_untagged; CodecF.untagged, mandatoryOf; choice_roundtrip: a Choice2 value read back with take_value); Values wrapped in an OCTET STRING (WrappingOctetStringEncoder): the outer read returns the octet string holding exactly the inner encoding, and decoding that content with the inner decoder returns the inner value (C04c.wrapped_roundtrip; that reading from the octet string as a source equals reading from its content is C07b). Captured values: octets that are one complete value of the mode, written by copying, are returned unchanged by capture_one in every context (C04c.rt_captureOne, codecF_captured); DER output decodes to the same value in BER mode (der_decodes_in_ber). Leaves: all ten fixed-width INTEGER types, BOOLEAN, NULL, OBJECT IDENTIFIER, arbitrary-size INTEGER, BIT STRING, primitive OCTET STRING (leaf_*), from C14/C15/C19/C20. Correspondence: random typed value trees (all leaf types, SEQUENCE/SET, explicit/implicit tags, OPTIONAL present/absent, segmented strings) encoded by the REAL combinators in each mode, decoded by the real readers, DER output also in BER.")
LEVEL_NOTE = ("Trusted: Lean 4.33 kernel; axioms propext, Classical.choice, Quot.sound only; the hand-written model tied to /repo on every run by differential correspondence through the real encoders and decoders. Covered by the correspondence check and other properties rather than by codec_roundtrip / codecF_roundtrip: constructed (segmented) OCTET STRINGs written in BER as they are (content level: C16, C17; C16b.ber_accept_reencode), captured data other than one complete value read back by capture_one (that case is C04c: rt_captureOne, codecF_captured, with parse_append - the grammar does not depend on what follows a value) (C11; C16b.ber_accept_reencode: every accepted constructed OCTET STRING re-encodes in BER as a well-formed value of the same content), well-formedness of the produced octets as such (C06 write_ok_spec: the writer equals the reference encoder; C02: the reference grammar). Stated on runG0 (SliceSource semantics; C07 carries capture-free reads to every conforming source).")
