"""C11 — captured data is exactly the encoding of the values advanced over"""
from common import *
import scripts

THEOREMS = ['capture_exact', 'Bcder.Props.C11c.framable_bind', 'Bcder.Props.C11c.capture_run1', 'Bcder.Props.C11c.framable_pnv', 'Bcder.Props.C11c.framable_asConstructed', 'Bcder.Props.C11c.framable_capture', 'Bcder.Props.C11c.good_pnv', 'Bcder.Props.C11c.good_pnvIf', 'Bcder.Props.C11c.good_mandatory', 'Bcder.Props.C11c.good_seq', 'Bcder.Props.C11c.good_skipOpt', 'Bcder.Props.C11c.good_skipOne', 'Bcder.Props.C11c.good_skipAll', 'Bcder.Props.C11c.good_capture', 'Bcder.Props.C11c.good_captureOne', 'Bcder.Props.C11c.good_captureAll', 'Bcder.Props.C11c.capture_no_marker', 'Bcder.Props.C11c.d12b_example', 'capture_exact_tracks', 'tracks_bind', 'tracks_capture', 'nested_capture_exact', 'nested_example', 'capture_one_exact', 'capture_all_exact', 'eoc_not_captured', 'Bcder.Props.C11b.capture_one_value', 'Bcder.Props.C11b.capture_all_indef_values', 'Bcder.Props.C11b.untilEoc_values', 'Bcder.Props.C11b.parse_prefix', 'Bcder.Props.C11b.captured_value_decodes', 'Bcder.Props.C11b.captured_value_read_later', 'Bcder.Props.C11b.decode_later_same', 'Bcder.Props.C11b.reencode_unchanged']
EXTRA_MODULES = ['C11b', 'C11c']
RULE = ("capture bodies reading j <= n values by every accessor family (generic, typed, skip), capture_one, capture_all, in definite / "
        "indefinite / top-level parents at depth <= 3, 3 modes; then Captured::decode, repeated decode_partial, and reading on after the "
        "capture. Oracle computed by the generator: the captured octets are the concatenation of the complete encodings of the values "
        "read; decoding them later gives the trace of decoding them in place; decode_partial pieces partition them. Cases in which the "
        "body observes the end of an INDEFINITE parent (it reads the end-of-contents marker) must NOT contain that marker, and reading goes on behind it "
        "(the repaired defect D12; its witness is a corpus case). "
        "non-trivial = something was captured.")
CROSS = {'C10': 2500, 'C16': 2000, 'C07': 3000, 'C02': 1500}   # cross streams: samples of neighbouring properties' request streams (outcomes, model <-> implementation)
EXHAUSTIVE = {"quick": False, "thorough": False}
EXHAUSTIVE_NOTE = {"quick": "", "thorough": ""}
ASSUMPTIONS = []

def model_is_demanded(r):
    return False     # the generator's oracle states the property

ORACLE = {}

def gen(tier, rng):
    out = []
    modes = ["ber", "cer", "der"]
    N = 12000 if tier == "quick" else 120000
    for _ in range(N):
        m = rng.choice(modes)
        n = rng.choice([0, 1, 2, 2, 3, 4])
        trees = [rand_tree(rng, m, maxdepth=3) if rng.random() < 0.7 else scripts.typed_leaf(rng, m)[0] for _ in range(n)]
        encs = [t.encode() for t in trees]
        kind = rng.choice(["cap", "cap", "cap", "capone", "capall"])
        ctx = rng.choice(["top", "def", "indef", "nested", "indef_in_def", "def_in_indef"])
        if m == "cer" and ctx in ("def", "nested", "indef_in_def", "def_in_indef"): ctx = "indef"
        if m == "der" and ctx in ("indef", "indef_in_def", "def_in_indef"): ctx = "def"
        sees_end = False
        if kind == "cap":
            j = rng.randrange(0, n + 1)
            reads = []
            for t in trees[:j]:
                reads.append(rng.choice(["tv G", "tov G", "skipone", "skip A", "tv G"]))
            extra = rng.random() < 0.25 and j == n
            if extra:
                reads.append(rng.choice(["tov G", "skipone", "all", "skipall"]))
                sees_end = True
            body = "cap { %s }" % " ".join(reads)
            want = b"".join(encs[:j])
            rest_n = n - j
        elif kind == "capone":
            if n == 0:
                continue
            body, want, j, rest_n = "capone", encs[0], 1, n - 1
        else:
            body, want, j, rest_n = "capall", b"".join(encs), n, 0
            sees_end = True
        follow = rng.choice(["dec { all }", "dec { all }", "decp { tov G } decp { tov G } decp { all }", ""])
        inner = "%s %s all" % (body, follow)
        data_body = b"".join(encs)
        eoc = b""
        if ctx == "top":
            data, script = data_body, inner
        elif ctx == "def":
            data, script = b"\x30" + length(len(data_body)) + data_body, "tc { %s }" % inner
        elif ctx == "indef":
            # the end-of-contents marker: 00 00, or (BER only) with a long-form zero length
            eoc = b"\x00\x00"
            if m == "ber" and rng.random() < 0.3:
                eoc = rng.choice([b"\x00\x81\x00", b"\x00\x82\x00\x00", b"\x00\x83\x00\x00\x00", b"\x00\x84\x00\x00\x00\x00"])
            data, script = b"\x30\x80" + data_body + eoc, "tc { %s }" % inner
        elif ctx == "indef_in_def":
            # an indefinite value inside a definite one, followed by a sibling: the limit in force while
            # the inner value is read is the OUTER value's (added after seeded change C11-5 slipped through
            # once the cross-stream sample had changed)
            eoc = b"\x00\x00"
            mid = b"\xa1\x80" + data_body + eoc
            sib = b"\x01\x01\xff"
            data, script = b"\x30" + length(len(mid) + len(sib)) + mid + sib, "tc { tc { %s } all }" % inner
        elif ctx == "def_in_indef":
            mid = b"\xa1" + length(len(data_body)) + data_body
            data, script = b"\x30\x80" + mid + b"\x05\x00\x00\x00", "tc { tc { %s } all }" % inner
        else:
            mid = b"\xa1" + length(len(data_body)) + data_body
            data, script = b"\x30" + length(len(mid)) + mid, "tc { tc { %s } }" % inner
        src = rng.choice(["slice", "bytes", "chunk2", "stingy"])
        req = "run %s %s %s %s" % (m, src, hx(data), " ".join(script.split()))
        out.append(req)
        nofollow = None
        if follow and sees_end and eoc:
            nofollow = "run %s %s %s %s" % (m, src, hx(data), " ".join(script.replace(follow, "").split()))
            out.append(nofollow)
        inplace = "run %s slice %s all" % (m, hx(want))
        out.append(inplace)
        ORACLE[req] = (want, eoc if sees_end else b"", inplace, follow, nofollow)
    # ---- captures inside a capture (added after seeded change C11-6: an inner capture that runs into the
    # end-of-contents marker of the enclosing value must hand the marker's size to the outer capture too).
    # Every capture of the script emits one C token, inner ones first; the outer one is the last.
    for _ in range(3000 if tier == "quick" else 30000):
        m = rng.choice(modes)
        n = rng.choice([1, 2, 2, 3, 4])
        trees = [rand_tree(rng, m, maxdepth=2) if rng.random() < 0.6 else scripts.typed_leaf(rng, m)[0] for _ in range(n)]
        encs = [t.encode() for t in trees]
        ctx = rng.choice(["top", "def", "indef", "indef", "indef_in_def"])
        if m == "cer" and ctx in ("def", "indef_in_def"): ctx = "indef"
        if m == "der" and ctx in ("indef", "indef_in_def"): ctx = "def"
        # split the n values into groups; each group is read plainly or by an inner capture
        parts, wants, i = [], [], 0
        depth2 = rng.random() < 0.3
        while i < n:
            k = rng.randrange(1, n - i + 1)
            last = (i + k == n)
            form = rng.choice(["plain", "capone", "cap", "capall" if last else "cap"])
            if form == "plain":
                parts.append(" ".join(["tv G"] * k))
            elif form == "capone":
                parts.append("capone " + " ".join(["tv G"] * (k - 1)))
                wants.append(encs[i])
            elif form == "cap":
                if depth2 and k >= 2:
                    parts.append("cap { capone %s }" % " ".join(["tv G"] * (k - 1)))
                    wants.append(encs[i]); wants.append(b"".join(encs[i:i + k]))
                else:
                    parts.append("cap { %s }" % " ".join(["tv G"] * k))
                    wants.append(b"".join(encs[i:i + k]))
            else:
                parts.append("capall")
                wants.append(b"".join(encs[i:i + k]))
            i += k
        if rng.random() < 0.3:
            parts.append(rng.choice(["tov G", "capall", "skipall", "cap { tov G }"]))   # runs into the end
            if parts[-1] == "capall" or parts[-1].startswith("cap {"):
                wants.append(b"")
        wants.append(b"".join(encs))          # the outer capture
        inner = "cap { %s } all" % " ".join(parts)
        data_body = b"".join(encs)
        if ctx == "top":
            data, script = data_body, inner
        elif ctx == "def":
            data, script = b"\x30" + length(len(data_body)) + data_body, "tc { %s }" % inner
        elif ctx == "indef_in_def":
            mid = b"\xa1\x80" + data_body + b"\x00\x00"
            sib = b"\x01\x01\xff"
            data, script = b"\x30" + length(len(mid) + len(sib)) + mid + sib, "tc { tc { %s } all }" % inner
        else:
            eoc = b"\x00\x00"
            if m == "ber" and rng.random() < 0.3:
                eoc = rng.choice([b"\x00\x81\x00", b"\x00\x82\x00\x00"])
            data, script = b"\x30\x80" + data_body + eoc, "tc { %s }" % inner
        src = rng.choice(["slice", "bytes", "chunk2", "stingy"])
        req = "run %s %s %s %s" % (m, src, hx(data), " ".join(script.split()))
        out.append(req)
        NESTED[req] = wants
    return out

NESTED = {}

def relational(reqs, answers):
    fails = []
    idx = {r: a for r, a in zip(reqs, answers)}
    for r, wants in NESTED.items():
        a = idx.get(r)
        if a is None:
            continue
        spec = " ".join("C" + hx(w) for w in wants)
        if not a.startswith("ok "):
            fails.append({"request": r, "impl": a, "spec": "ok … " + spec}); continue
        caps = [t[1:] for t in a.split() if t.startswith("C")]
        if caps != [hx(w) for w in wants]:
            fails.append({"request": r, "impl": a[:500], "spec": "every capture, nested or not, returns exactly the values read inside it (inner first): " + spec})
    for r, (want, eoc, inplace, follow, nofollow) in ORACLE.items():
        a = idx.get(r)
        if a is None or not a.startswith("ok "):
            if a is not None and not a.startswith("err"):
                pass
            # a well-formed input and a fitting script: failure is a violation
            if a is not None:
                e = {"request": r, "impl": a, "spec": "ok … C%s …" % hx(want)}
                fails.append(e)
            continue
        toks = a.split()
        caps = [t for t in toks if t.startswith("C")]
        if not caps:
            fails.append({"request": r, "impl": a, "spec": "C%s" % hx(want)}); continue
        got = caps[0][1:]
        if got != hx(want):
            if eoc and got == hx(want + eoc):
                fails.append({"request": r, "impl": a, "spec": "C%s (never the end-of-contents of the enclosing value)" % hx(want)})
            else:
                fails.append({"request": r, "impl": a, "spec": "C%s" % hx(want)})
            continue
        # later full decode == in-place decode
        if follow.startswith("dec {") and "D(" in toks:
            i = toks.index("D(")
            depth, j = 0, i + 1
            inner = []
            while j < len(toks):
                if toks[j].endswith("(") and toks[j].startswith("v"): depth += 1
                if toks[j] == ")":
                    if depth == 0: break
                    depth -= 1
                inner.append(toks[j]); j += 1
            ip = idx.get(inplace, "")
            want_tr = ip.split()[1:ip.split().index("|")] if ip.startswith("ok") else None
            if want_tr is None or inner != want_tr:
                fails.append({"request": r, "impl": a, "spec": "decoding the captured data later yields the in-place trace: " + ip})
        if follow.startswith("decp"):
            # pieces partition the captured octets: last R token must be empty, and R tokens are suffixes
            rs = [t[2:] for t in toks if t.startswith(")R")]
            prev = hx(want)
            ok = True
            for x in rs:
                xs = "" if x == "-" else x
                ps = "" if prev == "-" else prev
                if not ps.endswith(xs):
                    ok = False
                prev = x
            if rs and rs[-1] != "-":
                ok = False
            if "Perr" in toks:
                ok = False
            if not ok:
                fails.append({"request": r, "impl": a, "spec": "successive decode_partial calls consume consecutive prefixes and end with nothing left"})
    return fails

def nontrivial(req, ans):
    return ans.startswith("ok") and " C" in ans and " C- " not in ans

LEVEL = "proof"
LEVEL_TEXT = "Lean 4 theorems: for every closure that tracks - capture-free ones and, since capture_exact_tracks, closures that open further captures to any depth (tracks_capture, tracks_bind) - Constructed::capture returns exactly the octets the closure advanced over - minus the end-of-contents marker of the enclosing value if the closure read it (state changed; eoc_len octets, Constructed.eoc in the model) -, decoding continues immediately after what was advanced over, the enclosing limit is reduced by exactly that amount and an enclosing capture sees all of it (capture_exact; capture_one_exact, capture_all_exact). capture_one returns exactly the octets of ONE complete value the grammar accepts at the capture position, the Constructed is unchanged and decoding continues right behind it (C11b.capture_one_value, via the skip-machine theorems of C10). NEVER THE END-OF-CONTENTS MARKER: inside an indefinite-length value whose content is, by the grammar of the mode, the values ts followed by end-of-contents, capture_all returns octets that parse, on their own, as exactly ts with nothing left, the Constructed is done and decoding continues behind the marker (C11b.capture_all_indef_values, on C11b.untilEoc_values: the octets in front of the marker the grammar stops at are exactly the values; kernel-checked witness of the repaired defect D12: eoc_not_captured). The grammar is local (C11b.parse_prefix), so the captured octets parsed on their own - by the grammar and, through C02, by the generic reader at top level - are exactly those values: decoding later = decoding in place (C11b.captured_value_decodes, captured_value_read_later, decode_later_same); writing captured data back out reproduces it unchanged (C11b.reencode_unchanged). For closures that capture again (C11c): every closure built from take_* (framable value closures), skip_*, sequencing and capture / capture_one / capture_all leaves the Constructed as it was or has closed it with eoc = the size of an end-of-contents header at the end of what it moved over, and does nothing on a closed one (Good, closed under these combinators); hence capture never returns the marker, at any depth of nesting (capture_no_marker; d12b_example is the kernel-evaluated witness of the repaired defect D12b). Correspondence + generator oracle: captures of j <= n values by every accessor family in definite/indefinite/top-level/nested parents (bodies that do and do not observe the end of the parent), later decode / decode_partial, over slice/bytes/stingy/chunked sources. Since session 4 also captures inside captures (capone / capall / cap{...} in any order inside a cap body, in top-level / definite / indefinite / indefinite-in-definite parents), with an oracle for EVERY capture of the script."
LEVEL_NOTE = 'Trusted: Lean 4.33 kernel; axioms propext, Classical.choice, Quot.sound only; the hand-written model (lean/Bcder/Model) tied to /repo on every run by differential correspondence (tools/check.py, harness/, lean/Driver.lean); reference definitions lean/Bcder/Spec. That the octets advanced over by an arbitrary closure are complete value encodings is the frame lemma of C02; for arbitrary capture bodies (other than capture_one / capture_all) the exclusion of the end-of-contents marker is capture_exact + the value of eoc_len given by C02/C10 for each reader (pnv_eq, skip_absent_iff: eoc = octets of the marker) and the correspondence check; captures inside a capture body, to any depth, are inside capture_exact_tracks (the closure need only track, which captures themselves do: tracks_capture, tracks_bind; nested_capture_exact, nested_example). That the bookkeeping field eoc IS the size of the marker and stays it is C11c: for every closure built from the readers (take_* with framable value closures - capture-free ones or ones that capture on the nested value -, skip_opt / skip_one / skip_all, sequencing, capture / capture_one / capture_all of such closures, to any depth - the family Good, closed under these combinators) the Constructed is left as it was or has been closed with eoc = the size of an end-of-contents header at the end of the octets moved over, and a reader applied to a closed Constructed does nothing; hence capture_no_marker: capture never returns the marker. This is exactly where the repaired defect D12b sat (a nested capture on a closed value reset the field); it was found by the correspondence check after seeded change C11-6 widened the generator, and the theorem was added afterwards. Source::pos is modelled by the number of octets left in the base source (only differences of positions are used).'
