"""C19 — bit strings expose exactly the encoded bits"""
from common import *

THEOREMS = ['fromContent_exhausted_run', 'fromContent_ok_iff', 'fromContent_accepts', 'fromContent_rejects', 'fromContent_cons', 'skipContent_eq_fromContent', 'skipContent_ok_iff', 'accepted_invariant', 'bitLen_eq', 'bit_eq_spec', 'bit_lt', 'bit_ge', 'bit_two_part', 'bits_list', 'roundtrip', 'decode_enc_content', 'accepted_bits', 'encLen_eq', 'views_eq', 'accepted_views', 'new_ok_iff']
RULE = ("run <mode> T bits / T bitsskip / tv X bits on BIT STRING encodings: all contents of length 0-2 (primitive), constructed forms, "
        "sizes around the CER bound (999..1002 content octets), wrong tags; bits.bit for every accepted shape: all unused counts x data of "
        "0-3 octets (boundary octets) and random longer data, every index 0..bit_len+16; non-zero unused bits included. "
        "non-trivial = accepted / bit index inside the string.")
CROSS = {'C04': 2000, 'C07': 1000}   # cross streams: samples of neighbouring properties' request streams (outcomes, model <-> implementation)
EXHAUSTIVE = {"quick": False, "thorough": False}
EXHAUSTIVE_NOTE = {"quick": "all BIT STRING contents of <= 2 octets x 3 modes x take/skip", "thorough": "all contents of <= 3 octets (DER), <= 2 octets x 3 modes"}
ASSUMPTIONS = ["BitString::new's documented assertion (unused <= 7, empty => unused == 0) is caller misuse and not requested"]

def has_spec(r):
    return r.startswith("bits.bit")
def model_is_demanded(r):
    return True

def gen(tier, rng):
    out = []
    modes = ["ber", "cer", "der"]
    contents = [b""] + [bytes([a]) for a in range(256)] + [bytes([a, b]) for a in range(256) for b in range(256)]
    for m in modes:
        for c in contents:
            enc = b"\x03" + bytes([len(c)]) + c
            out.append("run %s slice %s T bits" % (m, hx(enc)))
            out.append("run %s slice %s T bitsskip" % (m, hx(enc)))
    if tier == "thorough":
        for a in range(9):
            for b in range(256):
                for c in range(256):
                    out.append("run der slice 0303%02x%02x%02x T bits" % (a, b, c))
    for m in modes:
        for n in (998, 999, 1000, 1001, 1002, 127, 128, 255, 256):
            for u in (0, 3, 7, 8):
                c = bytes([u]) + bytes(rng.randrange(256) for _ in range(n - 1))
                enc = b"\x03" + length(len(c)) + c
                out.append("run %s slice %s T bits" % (m, hx(enc)))
                out.append("run %s slice %s T bitsskip" % (m, hx(enc)))
                out.append("run %s slice %s tv X bits" % (m, hx(enc)))
                out.append("run %s slice %s tv X bitsskip" % (m, hx(enc)))
        # constructed / wrong tag / trailing
        for enc in (b"\x23\x03\x03\x01\x00", b"\x23\x80\x03\x02\x00\x01\x00\x00", b"\x04\x02\x00\x01", b"\x03\x02\x00\x01\x05\x00", b"\x23\x00"):
            out.append("run %s slice %s T bits" % (m, hx(enc)))
            out.append("run %s slice %s T bitsskip" % (m, hx(enc)))
            out.append("run %s slice %s tv X bits" % (m, hx(enc)))
    # truncated encodings: the announced length reaches beyond the octets that are there (top level, and
    # inside a parent that announces them too). Take and skip must agree there as well (added after seeded
    # change C19-5 was found to be caught only by a cross-stream sample).
    for m in modes:
        for c in (b"\x00", b"\x00\xaa", b"\x03\xa8", b"\x07\x80\x00", b"\x00" + bytes(range(1, 20)), b"\x01", b"\x08\x00"):
            for extra in (1, 2, 5, 200):
                enc = b"\x03" + length(len(c) + extra) + c
                for rd in ("T bits", "T bitsskip", "tv X bits", "tv X bitsskip"):
                    out.append("run %s slice %s %s" % (m, hx(enc), rd))
                    out.append("run %s stingy %s %s" % (m, hx(enc), rd))
                seq = b"\x30" + length(len(enc) + extra) + enc
                out.append("run %s slice %s tc { T bits }" % (m, hx(seq)))
                out.append("run %s slice %s tc { T bitsskip }" % (m, hx(seq)))
                out.append("run %s bytes %s tc { T bitsskip }" % (m, hx(seq)))
    B = [0x00, 0x01, 0x7f, 0x80, 0xaa, 0x55, 0xfe, 0xff]
    datas = [b""] + [bytes([a]) for a in range(256)]
    datas += [bytes([a, b]) for a in B for b in range(256)] + [bytes([a, b, c]) for a in B for b in B for c in B]
    for _ in range(300):
        datas.append(bytes(rng.randrange(256) for _ in range(rng.randrange(4, 40))))
    for d in datas:
        for u in (range(8) if len(d) else [0]):
            out.append("bits.bit %d %s 0 %d" % (u, hx(d), 8 * len(d) - u + 17))
    # BitString::new's documented assertion (unused <= 7, and 0 for an empty string): violated on purpose; both
    # sides must refuse (a panic in the crate, the model's Err.panic). Added after mutation run 4 weakened the
    # assertion unnoticed.
    for u, d in ((8, b"\x00"), (9, b"\xff\x00"), (255, b"\x01"), (1, b""), (7, b"")):
        out.append("bits.bit %d %s 0 4" % (u, hx(d)))
    return out

def panic_expected(r):
    if not r.startswith("bits.bit "):
        return False
    t = r.split(" ")
    return int(t[1]) > 7 or (t[2] == "-" and int(t[1]) != 0)

def canon(req, ans):
    return "PANIC" if ans.startswith("PANIC") else ans

def nontrivial(req, ans):
    return ans.startswith("ok") or ans.startswith("len=")

LEVEL = "proof"
LEVEL_TEXT = ("Lean 4 theorems for ALL contents, all modes, any trailing octets: BitString::from_content followed by the exhaustion check succeeds exactly when the content is non-empty, the unused count is <= 7 and zero if no data octets follow, and (CER) the content has <= 1000 octets - otherwise a content error, never a panic (fromContent_ok_iff, fromContent_rejects); constructed content is rejected; skip_content accepts exactly the same contents and leaves the same source (skipContent_eq_fromContent); for every accepted value bit_len = 8*octets - unused (bitLen_eq) and for EVERY index i (unbounded; the u8 cast of the bit offset included) bit(i) is the i-th bit MSB-first below the bit length and false beyond (bit_eq_spec, bit_lt, bit_ge, bits_list); the data octets are returned unchanged and re-encoding reproduces the content (decode_enc_content, roundtrip, encLen_eq). Correspondence: bit strings of every unused count x lengths around the octet/1000 boundaries, bit queries below/at/beyond the length incl. offsets >= 256.")
LEVEL_NOTE = ("Trusted: Lean 4.33 kernel; axioms propext, Classical.choice, Quot.sound only; the hand-written model (lean/Bcder/Model/BitString.lean) tied to /repo on every run by differential correspondence. The octet views (octets/octet_slice/octet_bytes/octet_len/unused) are model functions (views_eq, accepted_views: they return the data octets of the accepted value unchanged); BitString::new's assertion is modelled (new_ok_iff). Constructed BIT STRINGs are rejected by the crate by design.")
