"""C09 — optional and tag-selective reads consume nothing when the value is absent"""
from common import *
import scripts

THEOREMS = ['tag_takeFromIf0', 'pnvE_eq', 'absent_untouched_if', 'absent_untouched_if_ne', 'absent_untouched', 'absent_iff_if', 'reread', 'present_if', 'mandatory_run', 'primitive_on_constructed', 'constructed_on_primitive', 'Bcder.Props.C02.pnv_eq', 'Bcder.Props.C11c.framable_pnv', 'Bcder.Props.C11c.absent_untouched_framed', 'Bcder.Props.C11c.absent_untouched_if_framed']
EXTRA_MODULES = ['C11c']
RULE = ("every optional accessor (take_opt_value[_if], take_opt_primitive[_if], take_opt_constructed[_if], take_opt_sequence/set, typed "
        "take_opt_bool/u8/u16/u32/u64, skip_opt_u8_if, take_opt_null, Oid::take_opt/skip_opt, OctetString::take_opt_from, skip_opt) x expected "
        "tags of 1-4 octets x positions (start/middle/end) in definite, indefinite and top-level parents x next value in {matching, other tag, "
        "same tag other form, truncated identifier, end-of-contents, nothing}, each followed by a generic read of everything left. "
        "Relational oracle: when the optional read reports absence, the rest of the run is identical to the run without it. "
        "non-trivial = the optional read reported absence or presence (no error).")
CROSS = {'C02': 2000, 'C10': 3000, 'C11': 1500}   # cross streams: samples of neighbouring properties' request streams (outcomes, model <-> implementation)
EXHAUSTIVE = {"quick": False, "thorough": False}
EXHAUSTIVE_NOTE = {"quick": "", "thorough": ""}
ASSUMPTIONS = []

def model_is_demanded(r):
    return True

OPTS = ["tov G", "tovi %T G", "top [ takeall ]", "topi %T [ takeall ]", "toc { all }", "toci %T { all }", "oseq { all }", "oset { all }",
        "T obool", "T ou8", "T ou16", "T ou32", "T ou64", "T ooid", "T ooidskip", "T oos", "skipopt A", "skipone", "T oskipu8if 5"]
MANDS = {"tov G": "tv G", "tovi %T G": "tvi %T G", "top [ takeall ]": "tp [ takeall ]", "topi %T [ takeall ]": "tpi %T [ takeall ]",
         "toc { all }": "tc { all }", "toci %T { all }": "tci %T { all }", "oseq { all }": "seq { all }", "oset { all }": "set { all }",
         "T obool": "T bool", "T ou8": "T u8", "T ou16": "T u16", "T ou32": "T u32", "T ou64": "T u64", "T ooid": "T oid",
         "T ooidskip": "T oidskip", "T oos": "T os", "skipopt A": "skip A", "T oskipu8if 5": "T skipu8if 5"}
TAGS = [(0, 1), (0, 2), (0, 4), (0, 6), (0, 16), (0, 17), (2, 0), (2, 30), (2, 31), (1, 127), (3, 128), (2, 16383), (2, 16384), (1, 0x1FFFFF)]
PAIRS = {}
MAND = {}

def gen(tier, rng):
    out = []
    modes = ["ber", "cer", "der"]
    N = 12000 if tier == "quick" else 120000
    for _ in range(N):
        m = rng.choice(modes)
        cls, num = rng.choice(TAGS)
        exp = scripts.tagtok(cls, num)
        # the next value
        kind = rng.choice(["match", "match", "other", "form", "trunc", "eoc", "nothing", "typed"])
        cons_ok = m != "cer"
        if kind == "match":
            nxt = Tree(cls, num, content=bytes(rng.randrange(256) for _ in range(rng.randrange(0, 4)))) if rng.random() < 0.5 else \
                  Tree(cls, num, kids=[Tree(0, 5, content=b"")], indef=(m == "cer") or (m == "ber" and rng.random() < 0.5))
            nb = nxt.encode()
        elif kind == "other":
            c2, n2 = rng.choice(TAGS)
            nxt = Tree(c2, n2 if (c2, n2) != (cls, num) else n2 + 1, content=b"\x01")
            nb = nxt.encode()
        elif kind == "form":
            nb = Tree(cls, num, content=b"\x05\x00").encode() if rng.random() < 0.5 else Tree(cls, num, kids=[], indef=(m != "der" and rng.random() < 0.7)).encode()
        elif kind == "trunc":
            full = ident(cls, False, max(num, 31))
            nb = full[:rng.randrange(1, len(full))] if len(full) > 1 else full
        elif kind == "eoc":
            nb = b"\x00\x00"
        elif kind == "typed":
            nb = scripts.typed_leaf(rng, m)[0].encode()
        else:
            nb = b""
        before = rng.choice([b"", b"\x02\x01\x01", b"\x04\x00\x05\x00"])
        nbefore = {b"": 0, b"\x02\x01\x01": 1, b"\x04\x00\x05\x00": 2}[before]
        after = rng.choice([b"", b"\x05\x00", b"\x02\x01\x05"]) if kind not in ("eoc", "trunc") else b""
        body = before + nb + after
        pre = " ".join(["tv G"] * nbefore)
        ctx = rng.choice(["top", "def", "indef"])
        if m == "cer" and ctx == "def": ctx = "indef"
        if m == "der" and ctx == "indef": ctx = "def"
        if kind == "eoc" and ctx != "indef":
            ctx = "indef" if m != "der" else "top"
        for opt in rng.sample(OPTS, 4):
            o = opt.replace("%T", exp)
            then = rng.choice(["all", "all", "tov G all", "topi %s [ takeall ] all" % exp, "skipall"])
            def mk(inner):
                if ctx == "top":
                    return body, inner
                if ctx == "def":
                    return b"\x30" + length(len(body)) + body, "tc { %s }" % inner
                if kind == "eoc":
                    return b"\x30\x80" + before + b"\x00\x00", "tc { %s }" % inner
                return b"\x30\x80" + body + b"\x00\x00", "tc { %s }" % inner
            d, sa = mk(" ".join((pre + " " + o + " " + then).split()))
            _, sb = mk(" ".join((pre + " " + then).split()))
            ra = "run %s slice %s %s" % (m, hx(d), sa)
            rb = "run %s slice %s %s" % (m, hx(d), sb)
            out.append(ra); out.append(rb)
            PAIRS[ra] = (rb, nbefore)
            if opt in MANDS:
                _, sm = mk(" ".join((pre + " " + MANDS[opt].replace("%T", exp) + " " + then).split()))
                rm = "run %s slice %s %s" % (m, hx(d), sm)
                out.append(rm)
                MAND[ra] = rm
    # absence is stable, in nested contexts: an inner value (definite or indefinite) that has a following
    # sibling in its parent (definite, indefinite or top level); after the inner values have been read the
    # optional read is issued two or three times (each must report absence and consume nothing - in
    # particular nothing of the parent's next value), then the parent goes on with the sibling.
    # (added after seeded change C09-4: is_exhausted looking at the inherited limit instead of the state)
    for _ in range(N // 4):
        m = rng.choice(modes)
        k = rng.randrange(0, 3)
        vals = [rng.choice([b"\x02\x01\x07", b"\x05\x00", b"\x04\x02ab"]) for _ in range(k)]
        inner_indef = (m == "cer") or (m == "ber" and rng.random() < 0.6)
        ibody = b"".join(vals)
        inner = b"\x30\x80" + ibody + b"\x00\x00" if inner_indef else b"\x30" + length(len(ibody)) + ibody
        sib = rng.choice([b"\x02\x01\x2a", b"\x05\x00", b"\x04\x01z", b"\x30\x80\x00\x00" if m != "der" else b"\x30\x00"])
        nsib = rng.randrange(1, 3)
        obody = inner + sib * nsib
        octx = rng.choice(["top", "def", "indef"])
        if m == "cer" and octx == "def": octx = "indef"
        if m == "der" and octx == "indef": octx = "def"
        cls, num = rng.choice(TAGS)
        exp = scripts.tagtok(cls, num)
        opts = [rng.choice(OPTS).replace("%T", exp) for _ in range(rng.randrange(2, 4))]
        iscript = " ".join(["tv G"] * k + opts + rng.choice([[], ["all"], ["skipall"]]))
        oscript = "tc { %s } %s all" % (iscript, rng.choice(["tv G", "tov G", "skipone", ""]))
        if octx == "top":
            d, sc = obody, oscript
        elif octx == "def":
            d, sc = b"\x30" + length(len(obody)) + obody, "tc { %s }" % oscript
        else:
            d, sc = b"\x30\x80" + obody + b"\x00\x00", "tc { %s }" % oscript
        out.append("run %s %s %s %s" % (m, rng.choice(["slice", "slice", "bytes", "stingy"]), hx(d), " ".join(sc.split())))
    return out

def strip_first_none(toks, nbefore):
    """remove the `none` emitted by the optional read under test: it is the first `none` after the
       traces of the `nbefore` leading generic reads"""
    seen, i = 0, 0
    depth = 0
    # skip leading 'tXX' for tc wrapper
    while i < len(toks) and seen < nbefore:
        t = toks[i]
        if t.startswith("v") and t.endswith("("):
            depth += 1
        elif t == ")":
            depth -= 1
            if depth == 0:
                seen += 1
        elif t.startswith("v") and depth == 0:
            seen += 1
        i += 1
    # toks[i] should be the result of the optional read
    return i

def relational(reqs, answers):
    fails = []
    idx = {r: a for r, a in zip(reqs, answers)}
    for ra, (rb, nbefore) in PAIRS.items():
        a, b = idx.get(ra), idx.get(rb)
        if a is None or b is None or not a.startswith("ok "):
            continue
        ta = a.split()[1:]
        # locate the optional read's own result
        off = 1 if (ta and ta[0].startswith("t") and "tc {" in ra) else 0
        i = off + strip_first_none(ta[off:], nbefore)
        if i < len(ta) and (ta[i] == "none" or ta[i] == "n?" or ta[i] == "ok?"):
            if ta[i] != "none":
                continue   # take_opt_null / skip_opt_u8_if do not tell absence from presence
            rest_a = ta[:i] + ta[i + 1:]
            if not b.startswith("ok "):
                fails.append({"request": ra, "impl": a, "spec": "after an absent optional read the position reads like without it: %s -> %s" % (rb, b)})
                continue
            if rest_a != b.split()[1:]:
                fails.append({"request": ra, "impl": a, "spec": "after an absent optional read the position reads like without it: %s -> %s" % (rb, b)})
    for ra, rm in MAND.items():
        a, mnd = idx.get(ra), idx.get(rm)
        if a is None or mnd is None:
            continue
        # mandatory = optional with absence turned into an error
        if a.startswith("ok "):
            ta = a.split()[1:]
            off = 1 if (ta and ta[0].startswith("t") and "tc {" in ra) else 0
            i = off + strip_first_none(ta[off:], PAIRS[ra][1])
            was_absent = i < len(ta) and ta[i] == "none"
            if was_absent and not mnd.startswith("err content"):
                fails.append({"request": rm, "impl": mnd, "spec": "mandatory variant fails where the optional one reports absence (%s -> %s)" % (ra, a)})
            if not was_absent and not (ta[i:i+1] in (["n?"], ["ok?"])) and not mnd.startswith("ok "):
                fails.append({"request": rm, "impl": mnd, "spec": "mandatory variant succeeds where the optional one found the value (%s -> %s)" % (ra, a)})
    return fails

def nontrivial(req, ans):
    return ans.startswith("ok")

LEVEL = "proof"
LEVEL_TEXT = ("Lean 4 theorems for EVERY source state without open capture, every Constructed state (definite/indefinite/done/top level), every mode, every expected tag (class <= 3, number <= 0x1FFFFF) and ANY closure: process_next_value(Some(expected), op) - the engine of all take_opt_*_if / take_*_if readers - is a closed function of the limited view (pnvE_eq; pnv_eq for the untagged readers); a read that reports absence leaves source and Constructed exactly as they were, except for the end-of-contents octets that close an indefinite parent (absent_untouched_if, absent_untouched); absence is reported exactly when the enclosing value has ended, nothing is left in view, or the next identifier is a complete identifier of another tag (absent_iff_if); the position can then be read under another expectation (reread); a present value is handed to the closure as exactly the next value (present_if, bodyF shared with C02); mandatory variants turn absence into a content error (mandatory_run); form-restricted variants fail on the other form. Correspondence: optional/tagged reads in all states, re-reads after absence, damaged identifiers, on slice and streaming sources.")
LEVEL_NOTE = ("Trusted: Lean 4.33 kernel; axioms propext, Classical.choice, Quot.sound only; the hand-written model (lean/Bcder/Model) tied to /repo on every run by differential correspondence (tools/check.py, harness/, lean/Driver.lean). Stated on runG0 = SliceSource semantics (runG refines it; C07 carries capture-free reads to every conforming source). Under open captures (inside a capture closure, to any depth) the reads behave as without them, the capture recording exactly the octets moved over (C11c.framable_pnv), so absence leaves source, capture and Constructed untouched there too (C11c.absent_untouched_framed, absent_untouched_if_framed). Edge the theorems make explicit: with no octets left in view (truncated input) a tagged optional read reports absence in every state; the parent's exhaustion check then rejects the input.")
