"""C03 — code given a value's content can neither see nor consume octets outside it"""
from common import *
import scripts

THEOREMS = ['content_isolation', 'result_independent_of_rest', 'consumes_only_content', 'exhausted_iff', 'short_read_fails', 'full_read_state', 'scripts_are_window']
RULE = ("random primitive-level scripts (length <= 7; request n, take_u8, take_opt_u8, advance k<=granted, skip, slice, bytes, take_all, "
        "skip_all, slice_all, with_slice_all, remaining; n around the remaining length +-2 and huge) on primitives of length 0-40 placed "
        "first/middle/last in definite, indefinite, nested and captured parents, 3 modes, over slice/bytes/stingy/chunked sources; the "
        "observation log, the enclosing result and the decoding of the following sibling are compared with the model and with an "
        "independent window oracle computed by the generator (a cursor over the content alone). non-trivial = script accepted.")
CROSS = {'C10': 3000, 'C02': 2000, 'C11': 1500, 'C07': 2500}   # cross streams: samples of neighbouring properties' request streams (outcomes, model <-> implementation)
EXHAUSTIVE = {"quick": False, "thorough": False}
EXHAUSTIVE_NOTE = {"quick": "", "thorough": ""}
ASSUMPTIONS = ["caller scripts stay within the Source contract by construction (advance k <= last capped grant); documented misuse panics are excluded"]

def model_is_demanded(r):
    return True

def window_oracle(content, ops):
    """what the property demands: a cursor over `content` alone. returns trace list or None (error)"""
    pos, g, tr = 0, 0, []
    n = len(content)
    toks = ops.split()
    i = 0
    while i < len(toks):
        t = toks[i]
        rem = n - pos
        if t == "req":
            k = int(toks[i + 1]); i += 1
            g = min(k, rem); tr.append("r%d" % g)
        elif t == "tu8":
            if rem < 1: return None
            tr.append("y%02x" % content[pos]); pos += 1; g = 0
        elif t == "tou8":
            if rem < 1: tr.append("yn")
            else:
                tr.append("y%02x" % content[pos]); pos += 1
            g = 0
        elif t == "adv":
            k = int(toks[i + 1]); i += 1
            a = min(k, g); pos += a; g -= a; tr.append("a%d" % a)
        elif t == "skip":
            k = int(toks[i + 1]); i += 1
            a = min(k, rem); pos += a; g = 0; tr.append("k%d" % a)
        elif t == "slice":
            tr.append("s" + hx(content[pos:pos + g]))
        elif t == "bytes":
            a, b = int(toks[i + 1]), int(toks[i + 2]); i += 2
            a2 = min(a, g); b2 = max(a2, min(b, g))
            tr.append("B" + hx(content[pos + a2:pos + b2]))
        elif t == "takeall":
            tr.append("t" + hx(content[pos:])); pos = n; g = 0
        elif t == "skipall":
            tr.append("K"); pos = n; g = 0
        elif t == "sliceall":
            tr.append("S" + hx(content[pos:]))
        elif t == "wsa":
            tr.append("W" + hx(content[pos:])); pos = n; g = 0
        elif t == "rem":
            tr.append("m%d" % rem)
        i += 1
    if pos != n:
        return None        # returned without consuming everything: the enclosing read must fail
    return tr

def gen(tier, rng):
    out = []
    N = 25000 if tier == "quick" else 250000
    modes = ["ber", "cer", "der"]
    srcs = ["slice", "slice", "bytes", "stingy", "chunk1", "chunk3", "plus2", "rand7"]
    for _ in range(N):
        n = rng.choice([0, 1, 2, 3, 5, 8, 13, 40])
        content = bytes(rng.randrange(256) for _ in range(n))
        ops = scripts.rand_prim_ops(rng, n)
        m = rng.choice(modes)
        before = [Tree(0, 2, content=b"\x01")] if rng.random() < 0.5 else []
        after = [Tree(0, 5, content=b""), Tree(0, 4, content=b"zz")][:rng.randrange(0, 3)]
        target = Tree(rng.choice([0, 2]), rng.choice([4, 12, 31, 300]), content=content)
        sibs = before + [target] + after
        pre = " ".join("tv G" for _ in before)
        post = " ".join("tv G" for _ in after)
        ctx = rng.choice(["top", "def", "indef", "nested", "cap"])
        if m == "cer" and ctx in ("def", "nested"):
            ctx = "indef"
        if m == "der" and ctx in ("indef",):
            ctx = "def"
        body = b"".join(t.encode() for t in sibs)
        inner_script = "%s tp [ %s ] %s" % (pre, ops, post)
        if ctx == "top":
            data, script = body, inner_script
        elif ctx == "def":
            data, script = b"\x30" + length(len(body)) + body, "tc { %s }" % inner_script
        elif ctx == "indef":
            data, script = b"\x30\x80" + body + b"\x00\x00", "tc { %s }" % inner_script
        elif ctx == "nested":
            mid = b"\xa0" + length(len(body)) + body
            data, script = b"\x30" + length(len(mid) + 2) + mid + b"\x05\x00", "tc { tc { %s } tv G }" % inner_script
        else:
            data, script = body + b"\x05\x00", "cap { %s } tv G" % inner_script
        data = data + (b"\x02\x01\x07" if rng.random() < 0.3 else b"")
        src = rng.choice(srcs)
        req = "run %s %s %s %s" % (m, src, hx(data), " ".join(script.split()))
        out.append(req)
        ORACLE[req] = (content, ops, target)
    # input that ENDS INSIDE the declared content of the value: whatever the closure does with what is there
    # (reads some of it, all of it, nothing, or tries to read on), the enclosing read must fail
    for _ in range(3000 if tier == "quick" else 30000):
        n = rng.choice([1, 2, 3, 5, 8, 13])
        k = rng.randrange(0, n)
        content = bytes(rng.randrange(256) for _ in range(n))
        ops = scripts.rand_prim_ops(rng, k) if rng.random() < 0.7 else " ".join(["tu8"] * rng.randrange(0, k + 1))
        m = rng.choice(modes)
        target = Tree(rng.choice([0, 2]), rng.choice([4, 12, 31]), content=content)
        enc = target.encode()
        data = enc[:len(enc) - (n - k)]
        ctx = rng.choice(["top", "def"]) if m != "cer" else "top"
        script = "tp [ %s ]" % ops
        if ctx == "def":
            data, script = b"\x30" + length(len(enc)) + data, "tc { %s }" % script
        req = "run %s %s %s %s" % (m, rng.choice(srcs), hx(data), " ".join(script.split()))
        out.append(req)
        TRUNC[req] = True
    return out

ORACLE = {}
TRUNC = {}

def relational(reqs, answers):
    """window oracle: the observation log inside `tp [ … ]` must be what a cursor over the content alone gives,
       and the enclosing read must fail iff the script errs or leaves content unread"""
    fails = []
    for r, a in zip(reqs, answers):
        if r in TRUNC:
            if not a.startswith("err content"):
                fails.append({"request": r, "impl": a, "spec": "err content (the input ends inside the value's declared content)"})
            continue
        if r not in ORACLE:
            continue
        content, ops, target = ORACLE[r]
        want = window_oracle(content, ops)
        if want is None:
            if not a.startswith("err content"):
                fails.append({"request": r, "impl": a, "spec": "err content (script reads past the end or leaves content unread)"})
            continue
        if not a.startswith("ok "):
            fails.append({"request": r, "impl": a, "spec": "ok … " + " ".join(want)})
            continue
        toks = a.split(" ")
        tagtok = "t" + ident(target.cls, False, target.num).hex()
        try:
            i = toks.index(tagtok)
        except ValueError:
            fails.append({"request": r, "impl": a, "spec": "trace contains " + tagtok}); continue
        got = toks[i + 1:i + 1 + len(want)]
        if got != want:
            fails.append({"request": r, "impl": a, "spec": "window observations: " + " ".join(want)})
    return fails

def canon(req, ans):
    return ans

def nontrivial(req, ans):
    return ans.startswith("ok")

LEVEL = "proof"
LEVEL_TEXT = "Lean 4 theorems for EVERY program built from the window operations (the whole Source API of a Primitive and all its helpers; the script language is proved to be such: scripts_are_window), every content, everything that follows and any enclosing capture: the closure's observations and result are those of the same closure on the content alone (content_isolation, result_independent_of_rest - reads past the end find nothing), it consumes only content and leaves the limit at |content| - consumed (consumes_only_content), returning with unread content makes the enclosing read fail (short_read_fails), and when the exhaustion check passes the source stands exactly at the end of the value with limit 0, the state a conventional skip_all/take_all leaves (full_read_state). Correspondence: random scripts on primitives in definite/indefinite/nested/captured parents over slice/bytes/stingy/chunked sources against the model AND an independent window oracle computed by the generator; request() grants beyond the content are flagged (OVER)."
LEVEL_NOTE = 'Trusted: Lean 4.33 kernel; axioms propext, Classical.choice, Quot.sound only; the hand-written model (lean/Bcder/Model) tied to /repo on every run by differential correspondence (tools/check.py, harness/, lean/Driver.lean); reference definitions lean/Bcder/Spec. Closures are programs over the modelled access patterns; arbitrary Rust closures that breach the Source contract (documented misuse panics) are excluded.'
