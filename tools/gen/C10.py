"""C10 — skipping accepts exactly what reading accepts and advances identically"""
from common import *
from gen import C02
import scripts

THEOREMS = ['skip_step', 'success_all', 'converse_all', 'skip_value', 'skip_value_inv', 'skip_some_iff', 'preorder_length', 'skipOne_iff_read', 'skipOne_value', 'pnv_absent_iff', 'skip_absent_iff', 'skip_absent_iff_read', 'skip_ok_iff', 'skip_absent', 'skipAll_spec', 'skipAll_inv', 'skipAll_iff', 'skipAll_iff_readAll', 'skipAll_where_readAll', 'skip_deep', 'skipOne_runG_sound', 'parse_mono1']
RULE = ("every input of the C02 stream (grammar trees, mutations, exhaustive small strings) is issued as skip_opt / skip / skip_one / "
        "skip_all and as the corresponding generic reads, at top level and inside definite / indefinite parents, 3 modes, with recording "
        "and rejecting filters; relational oracle on the implementation's own answers: same ok/none/error class and same number of octets "
        "left; the filter trace equals the pre-order (tag, constructed, depth) list of the reference tree. One 100000-level deep nesting per "
        "form runs on a 256 KiB stack (runtime clause, exploration). non-trivial = the value was skipped.")
CROSS = {'C02': 2000, 'C09': 2000, 'C11': 2000, 'C03': 1500, 'C07': 2000}   # cross streams: samples of neighbouring properties' request streams (outcomes, model <-> implementation)
EXHAUSTIVE = {"quick": False, "thorough": False}
EXHAUSTIVE_NOTE = {"quick": "all octet strings of length <= 2 x 3 modes x skipone/tov pairs", "thorough": "alphabet strings of length <= 4"}
ASSUMPTIONS = ["call-stack use of the Rust is outside the model; explored by the deep-nesting requests"]

def model_is_demanded(r):
    return True

PAIRS = {}

def add_pair(out, m, data, a, b, ctx=None):
    """a = skipping script, b = reading script"""
    h = hx(data)
    ra = "run %s slice %s %s" % (m, h, a)
    rb = "run %s slice %s %s" % (m, h, b)
    out.append(ra); out.append(rb)
    PAIRS[ra] = rb

def wrap(rng, m, body):
    r = rng.random()
    if r < 0.4:
        return body, "%s"
    if r < 0.7 and m != "cer":
        return b"\x30" + length(len(body)) + body, "tc { %s }"
    if m != "der":
        return b"\x30\x80" + body + b"\x00\x00", "tc { %s }"
    return body, "%s"

def gen(tier, rng):
    import itertools
    out = []
    modes = ["ber", "cer", "der"]
    for m in modes:
        for a in range(256):
            for b in range(256):
                d = bytes([a, b])
                add_pair(out, m, d, "skipone", "tov G")
        if tier == "thorough":
            for c in itertools.product(C02.ALPHA, repeat=4):
                add_pair(out, m, bytes(c), "skipall", "all")
    N = 15000 if tier == "quick" else 150000
    for _ in range(N):
        m = rng.choice(modes)
        em = m if rng.random() < 0.8 else rng.choice(modes)
        trees = [rand_tree(rng, em) for _ in range(rng.choice([0, 1, 1, 2, 3]))]
        body = b"".join(t.encode() for t in trees)
        if rng.random() < 0.35:
            body = mutate(rng, body)
        data, fmt = wrap(rng, m, body)
        add_pair(out, m, data, fmt % "skipone", fmt % "tov G")
        add_pair(out, m, data, fmt % "skipopt A", fmt % "tov G")
        add_pair(out, m, data, fmt % "skip A", fmt % "tv G")
        add_pair(out, m, data, fmt % "skipall", fmt % "all")
        add_pair(out, m, data, fmt % "skipone skipone", fmt % "tov G tov G")
        out.append("run %s slice %s %s" % (m, hx(data), fmt % ("skipopt R%d all" % rng.randrange(0, 4))))
        out.append("run %s slice %s %s" % (m, hx(data), fmt % "skipopt O all"))
    # lying lengths that keep value boundaries aligned: a child's definite length larger/smaller than what its
    # parent has left, the parent's larger/smaller than its content, at nesting depth 2 and 3, followed by more values
    unit = b"\x02\x01\x07"
    for m in ("ber", "der"):
        for i in range(0, 3):
            for j in range(0, 3):
                for t in range(0, 3):
                    for da in (-3, -1, 0, 1, 3, 6):
                        for db in (-3, -1, 0, 1, 3, 6):
                            lc, lp = 3 * i, 2 + 3 * i + 3 * j
                            if lc + da < 0 or lp + db < 0 or lc + da > 127 or lp + db > 127:
                                continue
                            child = b"\x30" + bytes([lc + da]) + unit * i
                            data = b"\x30" + bytes([lp + db]) + child + unit * j + unit * t
                            add_pair(out, m, data, "skipone", "tov G")
                            add_pair(out, m, data, "skipall", "all")
                            add_pair(out, m, data, "tc { skipone skipall }", "tc { tov G all }")
                            add_pair(out, m, data, "tc { tc { skipall } skipall }", "tc { tc { all } all }")
                            deep = b"\x30" + bytes([min(len(data), 127)]) + data
                            add_pair(out, m, deep, "skipone", "tov G")
                            add_pair(out, m, deep, "tc { skipone skipall }", "tc { tov G all }")
    return out

def status(ans):
    """(class, rest) with traces removed"""
    if ans.startswith("ok "):
        rest = ans.rsplit("rest=", 1)[1]
        toks = ans.split(" ")
        return ("ok", rest)
    return (ans, None)

def absent(ans):
    return " none " in " " + ans + " "

def relational(reqs, answers):
    fails = []
    idx = {r: a for r, a in zip(reqs, answers)}
    for ra, rb in PAIRS.items():
        if ra not in idx or rb not in idx:
            continue
        a, b = idx[ra], idx[rb]
        sa, sb = status(a), status(b)
        if sa != sb:
            fails.append({"request": ra, "impl": a, "spec": "same outcome class and octets left as reading: %s -> %s" % (rb, b)})
            continue
        if sa[0] == "ok":
            # absence reported at the same places: count of "none" tokens equal
            na = a.split(" ").count("none"); nb = b.split(" ").count("none")
            if na != nb:
                fails.append({"request": ra, "impl": a, "spec": "absence reported exactly where the optional read reports it: %s -> %s" % (rb, b)})
                continue
            # filter presentation order == pre-order of the values read
            fa = [t for t in a.split(" ") if t.startswith("f")]
            if fa:
                want = []
                depth = 0
                base = None
                for t in b.split(" "):
                    if t.startswith("v") and t.endswith("("):
                        want.append((t[1:-1], depth)); depth += 1
                    elif t == ")":
                        depth -= 1
                    elif t.startswith("v"):
                        want.append((t[1:].split("=")[0], depth))
                # depth in the filter is relative to the skipped value; reading trace inside `tc {}` has the same relative depth
                got = [(t[1:].split("@")[0], int(t.split("@")[1])) for t in fa]
                # reading trace depth restarts at 0 for each top-level value read, as does the filter's
                if [g[0] for g in got] != [w[0] for w in want]:
                    fails.append({"request": ra, "impl": a, "spec": "filter sees each nested value once in encoding order: " + b})
    return fails

def nontrivial(req, ans):
    return ans.startswith("ok") and "skipped" in ans

LEVEL = "proof"
LEVEL_TEXT = ("Lean 4 theorems for EVERY source state without open capture, every Constructed state and mode, every filter and every saved-limit stack: the iterative skip_opt loop (explicit stack, one iteration per header: skip_step) walks over exactly what the X.690 grammar accepts - a value, the rest of a definite frame, the rest of an indefinite frame incl. end-of-contents - calling the filter once per nested value with its tag, constructed flag and depth in encoding order (preorder), ending with a content error if the filter rejects, and otherwise landing exactly at the grammar's position with the limit restored (success_all, by induction on grammar fuel for all stacks); conversely every successful run factors through a grammar parse (converse_all, strong induction on loop fuel). Hence skip_opt returns Some(()) iff generic reading of the next value succeeds, with the same Constructed and the same advance (skip_some_iff, skipOne_iff_read), reports absence exactly where take_opt_value does, for any closure (skip_absent_iff_read), the mandatory skip turns absence into a content error (skip_ok_iff, skip_absent), and skip_all ends exactly where readAll ends in definite, indefinite and top-level content (skipAll_iff, skipAll_iff_readAll); k nested indefinite values need 2k+1 loop iterations and no recursion (skip_deep). Correspondence: skip vs read on ~100k structured / damaged inputs with traced filters, rejecting filters, 100000-level nestings on a 256 KiB stack.")
LEVEL_NOTE = ("Trusted: Lean 4.33 kernel; axioms propext, Classical.choice, Quot.sound only; the hand-written model (lean/Bcder/Model/Content.lean: popLoop, skipLoop, skipOpt, skipOne, skipAll) tied to /repo on every run by differential correspondence; grammar lean/Bcder/Spec/Tlv.lean. Call-stack use is a property of the Rust code (a loop with a SmallVec stack); the model mirrors it as a fuel-driven tail loop whose fuel need is the header count, and the deep-nesting runs of the implementation driver check the real stack. When the grammar rejects, the theorems show the run fails but do not pin the error value (content vs the model's fuel marker). Open capture frames are C11's territory.")
