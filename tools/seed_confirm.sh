#!/bin/bash
# Confirms a seeded change produced by a sub-agent: tools/seed_confirm.sh <PROP> <dir with patch.diff demo.rs meta.json> <new id>
# fresh scratch worktree of /repo HEAD; with the patch: lib + doc tests pass, demo fails; without: demo passes.
# On success copies the three files to /verif/seeded/<new id>/ and records the confirmation in meta.json.
prop=$1; src=$2; id=$3
wt=/tmp/seedconfirm-$id
git -C /repo worktree remove --force $wt >/dev/null 2>&1
git -C /repo worktree add --detach $wt HEAD >/dev/null 2>&1 || { echo "$id worktree-failed"; exit 1; }
cd $wt
if ! git apply $src/patch.diff; then echo "$id patch-does-not-apply"; cd /; git -C /repo worktree remove --force $wt; exit 1; fi
export CARGO_NET_OFFLINE=true
lib=$(cargo test --offline --lib 2>&1 | grep "test result" | head -1)
doc=$(cargo test --offline --doc 2>&1 | grep "test result" | head -1)
mkdir -p tests; cp $src/demo.rs tests/seed_demo.rs
with=$(cargo test --offline --test seed_demo 2>&1 | grep "test result" | head -1)
git apply -R $src/patch.diff
without=$(cargo test --offline --test seed_demo 2>&1 | grep "test result" | head -1)
cd /; git -C /repo worktree remove --force $wt >/dev/null 2>&1
echo "$id | lib: $lib | doc: $doc | demo with change: $with | demo without: $without"
case "$lib" in *"33 passed; 0 failed"*) ;; *) echo "$id NOT-CONFIRMED (lib tests)"; exit 1;; esac
case "$doc" in *"0 failed"*) ;; *) echo "$id NOT-CONFIRMED (doc tests)"; exit 1;; esac
case "$with" in *FAILED*) ;; *) echo "$id NOT-CONFIRMED (demo does not fail with the change)"; exit 1;; esac
case "$without" in *"ok."*) ;; *) echo "$id NOT-CONFIRMED (demo does not pass without the change)"; exit 1;; esac
mkdir -p /verif/seeded/$id
cp $src/patch.diff $src/demo.rs /verif/seeded/$id/
python3 - "$src/meta.json" "/verif/seeded/$id/meta.json" "$id | lib: $lib | doc: $doc | demo with change: $with | demo without: $without" <<'PY'
import json,sys
m=json.load(open(sys.argv[1]))
m["confirmed_by_builder"]=sys.argv[3]
m["how_to_run_demo"]="apply patch.diff to a worktree of /repo, copy demo.rs to tests/seed_demo.rs, cargo test --offline --test seed_demo"
json.dump(m,open(sys.argv[2],"w"),indent=1,ensure_ascii=False)
PY
echo "$id CONFIRMED"
