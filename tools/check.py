#!/usr/bin/env python3
"""Orchestrator: ./check <Cxx> --tier quick|thorough [--replay FILE]

For one property:
 1. build the harness against the tree under verification ($VERIF_REPO, default /repo)
 2. check the proof obligations (lake build of the property's theorem module + axiom audit)
 3. correspondence: run the model driver and the implementation driver on the same requests
 4. property oracle: where a reference (`spec.`) answer exists, compare the implementation with it
 5. on a broken obligation / correspondence, report VIOLATION with a replay file
"""
import argparse, importlib, json, os, random, re, subprocess, sys, time, hashlib
from concurrent.futures import ThreadPoolExecutor

ROOT = os.path.dirname(os.path.dirname(os.path.abspath(__file__)))
LEAN = os.path.join(ROOT, "lean")
HARNESS = os.path.join(ROOT, "harness")
sys.path.insert(0, os.path.join(ROOT, "tools"))

ALLOWED_AXIOMS = {"propext", "Classical.choice", "Quot.sound"}
FORBIDDEN = re.compile(r"\b(sorry|admit|native_decide|implemented_by|unsafe)\b|^\s*axiom\s|maxHeartbeats\s+0", re.M)

def log(*a):
    print(*a, file=sys.stderr, flush=True)

def repo_path():
    return os.environ.get("VERIF_REPO", "/repo")

def build_harness():
    repo = os.path.abspath(repo_path())
    tag = hashlib.sha1(repo.encode()).hexdigest()[:8]
    target = os.path.join(HARNESS, "target-" + tag)
    # one generated manifest per tree under check (harness/m-<tag>/Cargo.toml pointing at ../src), so that
    # checks of different trees can run at the same time without rewriting each other's manifest
    mdir = os.path.join(HARNESS, "m-" + tag)
    os.makedirs(mdir, exist_ok=True)
    tmpl = open(os.path.join(HARNESS, "Cargo.toml.in")).read().replace("@REPO@", repo)
    tmpl = tmpl.replace('path = "src/main.rs"', 'path = "../src/main.rs"')
    cur = None
    try:
        cur = open(os.path.join(mdir, "Cargo.toml")).read()
    except FileNotFoundError:
        pass
    if cur != tmpl:
        open(os.path.join(mdir, "Cargo.toml"), "w").write(tmpl)
    lock = os.path.join(mdir, "Cargo.lock")
    if not os.path.exists(lock):
        import shutil
        src = os.path.join(repo, "Cargo.lock")       # not tracked by the repository: scratch worktrees have none
        if not os.path.exists(src):
            src = os.path.join(HARNESS, "Cargo.lock.in")
        shutil.copy(src, lock)
    env = dict(os.environ, CARGO_NET_OFFLINE="true", CARGO_TARGET_DIR=target)
    r = subprocess.run(["cargo", "build", "--offline", "--quiet"], cwd=mdir, env=env,
                       capture_output=True, text=True)
    if r.returncode != 0:
        return None, r.stderr
    return os.path.join(target, "debug", "bcder_impl"), ""

def model_bin():
    return os.path.join(LEAN, ".lake", "build", "bin", "bcder_model")

def build_lean(targets):
    r = subprocess.run(["lake", "build"] + targets, cwd=LEAN, capture_output=True, text=True)
    return r.returncode == 0, r.stdout + r.stderr

def strip_comments(src):
    # remove /- ... -/ (nested not handled beyond one level) and -- comments
    out = re.sub(r"/-.*?-/", "", src, flags=re.S)
    out = re.sub(r"--.*", "", out)
    return out

def registered_props():
    """proof modules that are part of the deliverable: properties with THEOREMS, plus their EXTRA_MODULES"""
    reg = set()
    for i in range(1, 21):
        try:
            m = importlib.import_module("gen.C%02d" % i)
        except ModuleNotFoundError:
            continue
        if getattr(m, "THEOREMS", []):
            reg.add("C%02d" % i)
            reg.update(getattr(m, "EXTRA_MODULES", []))
    return reg

def source_scan():
    """forbidden tokens anywhere in the model, spec, lemma and REGISTERED proof files (unregistered
    work-in-progress proof files are not imported by anything registered and are not scanned)"""
    bad = []
    reg = registered_props()
    for dp, dn, fn in os.walk(LEAN):
        if ".lake" in dp:
            continue
        for f in fn:
            if f.endswith(".lean"):
                if os.path.basename(dp) in ("Props", "Audit") and f[:-5] not in reg:
                    continue
                p = os.path.join(dp, f)
                src = strip_comments(open(p).read())
                for m in FORBIDDEN.finditer(src):
                    bad.append((os.path.relpath(p, LEAN), m.group(0).strip()))
    return bad

def audit(prop, theorems):
    """returns (results: {thm: (ok, axioms or message)}, raw output)"""
    path = os.path.join(LEAN, "Bcder", "Audit", prop + ".lean")
    res = {}
    if not os.path.exists(path):
        return {t: (False, "no audit file") for t in theorems}, ""
    r = subprocess.run(["lake", "env", "lean", path], cwd=LEAN, capture_output=True, text=True)
    out = r.stdout + r.stderr
    # "'Name' depends on axioms: [a, b]" or "'Name' does not depend on any axioms"
    found = {}
    for m in re.finditer(r"'([^']+)' depends on axioms: \[([^\]]*)\]", out, flags=re.S):
        found[m.group(1)] = [a.strip() for a in m.group(2).replace("\n", " ").split(",") if a.strip()]
    for m in re.finditer(r"'([^']+)' does not depend on any axioms", out):
        found[m.group(1)] = []
    for t in theorems:
        full = t if t.startswith("Bcder.") else "Bcder.Props." + prop + "." + t
        if full not in found:
            res[t] = (False, "theorem not found in audit output")
            continue
        ax = found[full]
        extra = [a for a in ax if a not in ALLOWED_AXIOMS]
        if extra:
            res[t] = (False, "axioms not allowed: " + ", ".join(extra))
        else:
            res[t] = (True, ax)
    return res, out

def run_lines(binary, lines, workers=16, timeout=1800):
    """feed request lines to a driver in parallel chunks; returns answers in order.
    A chunk whose process dies or hangs is bisected to attribute the fault to one request."""
    if not lines:
        return []
    n = len(lines)
    chunk = max(1, min(20000, (n + workers - 1) // workers))
    chunks = [(i, lines[i:i + chunk]) for i in range(0, n, chunk)]
    answers = [None] * n

    def run_chunk(start, ls, tmo):
        try:
            p = subprocess.run([binary], input="\n".join(ls) + "\n", capture_output=True, text=True, timeout=tmo)
            out = p.stdout.split("\n")
            if out and out[-1] == "":
                out.pop()
            if len(out) == len(ls) and p.returncode == 0:
                return out
            died = "ABORT rc=%s" % p.returncode
        except subprocess.TimeoutExpired:
            died = "HANG"
        if len(ls) == 1:
            return [died]
        mid = len(ls) // 2
        return run_chunk(start, ls[:mid], max(10, tmo / 2)) + run_chunk(start + mid, ls[mid:], max(10, tmo / 2))

    with ThreadPoolExecutor(max_workers=workers) as ex:
        futs = [(s, ex.submit(run_chunk, s, ls, timeout)) for s, ls in chunks]
        for s, f in futs:
            out = f.result()
            answers[s:s + len(out)] = out
    return answers

def write_replay(prop, kind, entries, note=""):
    rdir = os.environ.get("VERIF_SCRATCH_OUT") or os.path.join(ROOT, "replays")   # scratch: seeded-change runs
    os.makedirs(rdir, exist_ok=True)
    i = 0
    while True:
        path = os.path.join(rdir, "%s-%d.txt" % (prop, i))
        if not os.path.exists(path):
            break
        i += 1
    with open(path, "w") as f:
        f.write("# property %s\n# kind: %s\n" % (prop, kind))
        if note:
            f.write("# " + note.replace("\n", "\n# ") + "\n")
        for e in entries:
            f.write("REQUEST %s\n" % e["request"])
            for k in ("impl", "model", "spec", "demanded"):
                if k in e and e[k] is not None:
                    f.write("  %s: %s\n" % (k, e[k]))
    return path

def load_known():
    p = os.path.join(ROOT, "known_findings.json")
    if not os.path.exists(p):
        return {"known": [], "fixed": []}
    return json.load(open(p))

def shrink_request(req, still_fails, budget=200):
    """generic token/hex shrinker: drop tokens and shorten hex tokens while `still_fails(req)`"""
    toks = req.split(" ")
    changed = True
    while changed and budget > 0:
        changed = False
        # shorten hex tokens
        for i, t in enumerate(toks):
            if re.fullmatch(r"([0-9a-f]{2}){2,}", t):
                for cut in (len(t) // 2 // 2 * 2, 2):
                    if cut <= 0 or cut >= len(t):
                        continue
                    for cand in (t[:-cut], t[cut:]):
                        if not cand:
                            cand = "-"
                        nt = toks[:i] + [cand] + toks[i + 1:]
                        budget -= 1
                        if budget <= 0:
                            break
                        if still_fails(" ".join(nt)):
                            toks = nt
                            changed = True
                            break
                    if changed or budget <= 0:
                        break
            if changed or budget <= 0:
                break
    return " ".join(toks)

def main():
    ap = argparse.ArgumentParser()
    ap.add_argument("prop")
    ap.add_argument("--tier", default=os.environ.get("VERIF_TIER", "quick"), choices=["quick", "thorough"])
    ap.add_argument("--replay")
    args = ap.parse_args()
    prop = args.prop
    t0 = time.time()
    seed = int(os.environ.get("VERIF_SEED", "1"))
    rng = random.Random(seed * 1000003 + int(prop[1:]))
    mod = importlib.import_module("gen." + prop)
    violations = []     # (kind, replay path, text)
    known_printed = []
    known = load_known()
    evidence_path = os.path.join(os.environ.get("VERIF_SCRATCH_OUT") or os.path.join(ROOT, "evidence"), prop + ".json")
    os.makedirs(os.path.dirname(evidence_path), exist_ok=True)

    # ---------- 1. harness build
    impl, err = build_harness()
    if impl is None:
        path = write_replay(prop, "harness does not build against the tree: correspondence cannot be established",
                            [], note=err[-3000:])
        print("VIOLATION property=%s replay=%s no-failing-input-found" % (prop, path))
        write_evidence(evidence_path, prop, args.tier, seed, mod, {}, 0, 0, [], time.time() - t0, 1, [], extra={"harness_build": "failed"})
        sys.exit(1)

    # ---------- 2. proof obligations
    theorems = list(getattr(mod, "THEOREMS", []))
    ok, out = build_lean(["bcder_model", "Bcder.Props." + prop] +
                         ["Bcder.Props." + x for x in getattr(mod, "EXTRA_MODULES", [])])
    audit_res = {}
    audit_raw = ""
    scan = source_scan()
    if ok:
        audit_res, audit_raw = audit(prop, theorems)
    else:
        audit_res = {t: (False, "lake build failed") for t in theorems}
        audit_raw = out
    if scan:
        for t in theorems:
            audit_res[t] = (False, "forbidden token in sources: %s" % scan[:3])
    discharged = sum(1 for t in theorems if audit_res.get(t, (False,))[0])
    proof_broken = [t for t in theorems if not audit_res.get(t, (False,))[0]]
    if args.tier == "thorough" and ok:
        # the property's own module and the further modules its theorem list draws on (EXTRA_MODULES)
        for modname in [prop] + list(getattr(mod, "EXTRA_MODULES", [])):
            r = subprocess.run(["lake", "env", "leanchecker", "Bcder.Props." + modname], cwd=LEAN, capture_output=True, text=True)
            if r.returncode != 0:
                proof_broken.append("leanchecker %s: " % modname + (r.stdout + r.stderr)[-500:])

    if not os.path.exists(model_bin()):
        path = write_replay(prop, "model driver does not build", [], note=out[-3000:])
        print("VIOLATION property=%s replay=%s no-failing-input-found" % (prop, path))
        sys.exit(1)

    # ---------- 3./4. requests
    if args.replay:
        reqs = [l[len("REQUEST "):].rstrip("\n") for l in open(args.replay) if l.startswith("REQUEST ")]
    else:
        corpus = []
        cp = os.path.join(ROOT, "corpus", prop + ".txt")
        if os.path.exists(cp):
            corpus = [l.rstrip("\n") for l in open(cp) if l.strip() and not l.startswith("#")]
        reqs = corpus + list(mod.gen(args.tier, rng))
    has_spec = getattr(mod, "has_spec", lambda r: False)
    canon = getattr(mod, "canon", lambda req, ans: ans)
    impl_only = getattr(mod, "impl_only", lambda r: False)
    impl_req = getattr(mod, "impl_request", lambda r: r)
    model_req = getattr(mod, "model_request", lambda r: r)

    t1 = time.time()
    impl_ans = run_lines(impl, [impl_req(r) for r in reqs])
    midx = [i for i, r in enumerate(reqs) if not impl_only(r)]
    m_out = run_lines(model_bin(), [model_req(reqs[i]) for i in midx])
    model_ans = list(impl_ans)
    for i, a in zip(midx, m_out):
        model_ans[i] = a
    phase2 = getattr(mod, "phase2", None)
    if phase2 and not args.replay:
        more = list(phase2(reqs, [canon(r, a) for r, a in zip(reqs, impl_ans)]))
        if more:
            i2 = run_lines(impl, [impl_req(r) for r in more])
            mi2 = [i for i, r in enumerate(more) if not impl_only(r)]
            mo2 = run_lines(model_bin(), [model_req(more[i]) for i in mi2])
            m2 = list(i2)
            for i, a in zip(mi2, mo2):
                m2[i] = a
            reqs += more; impl_ans += i2; model_ans += m2
    spec_idx = [i for i, r in enumerate(reqs) if has_spec(r)]
    spec_ans_l = run_lines(model_bin(), ["spec." + model_req(reqs[i]) for i in spec_idx])
    spec_ans = dict(zip(spec_idx, spec_ans_l))
    log("%s: %d requests (%d with reference answers) in %.1fs" % (prop, len(reqs), len(spec_idx), time.time() - t1))

    disagreements = []    # impl vs model
    spec_failures = []    # impl vs spec (property oracle)
    bad = []
    hist = {}
    distinct = set()
    nontrivial = getattr(mod, "nontrivial", lambda req, ans: ans.startswith("ok") or ans.startswith("def") or ans.startswith("some"))
    for i, r in enumerate(reqs):
        a_i = canon(r, impl_ans[i])
        a_m = canon(r, model_ans[i])
        k = a_i.split(" ")[0] if a_i else ""
        if k == "err":
            k = " ".join(a_i.split(" ")[:2])
        if "=" in k:
            k = k.split("=")[0] + "=…"
        hist[k] = hist.get(k, 0) + 1
        if a_i.startswith(("PANIC", "CONTRACT", "HANG", "ABORT")) and not getattr(mod, "panic_expected", lambda r: False)(r):
            spec_failures.append({"request": r, "impl": a_i, "model": a_m, "spec": "no panic / contract breach / hang / abort (C01, C07)"})
            continue
        if a_i == "bad-op" or a_m == "bad-op" or a_i == "unsupported":
            bad.append((r, a_i, a_m))
            continue
        if nontrivial(r, a_i):
            distinct.add(r)
        if a_i != a_m and a_m != "nomodel":
            disagreements.append({"request": r, "impl": a_i, "model": a_m, "spec": canon(r, spec_ans[i]) if i in spec_ans else None})
        if i in spec_ans:
            a_s = canon(r, spec_ans[i])
            if a_s not in ("nospec", "bad-op") and a_i != a_s:
                spec_failures.append({"request": r, "impl": a_i, "model": a_m, "spec": a_s})
    extra_checks = getattr(mod, "relational", None)
    rel_failures = []
    if extra_checks:
        rel_failures = extra_checks(reqs, [canon(r, a) for r, a in zip(reqs, impl_ans)])

    # ---------- 4b. cross streams: a sample of the request streams of neighbouring properties (same model
    # definitions, other access paths / source kinds), compared model <-> implementation on outcomes only.
    # The theorems of this property are about model definitions shared with those streams; a
    # disagreement there means the model this property is proved about no longer describes the code.
    cross_n = 0
    cross_hist = {}
    if not args.replay:
        for other, n in getattr(mod, "CROSS", {}).items():
            if args.tier == "thorough":
                n *= 4
            om = importlib.import_module("gen." + other)
            orng = random.Random(seed * 1000003 + int(other[1:]))
            oreqs = list(om.gen("quick", orng))
            if not oreqs:
                continue
            # stratified by operation: every kind of request of the neighbour is represented
            # (at least 120 of each, evenly spaced), the rest of the budget in proportion
            groups = {}
            for r in oreqs:
                groups.setdefault(r.split(" ")[0], []).append(r)
            picked = []
            for opname, rs in groups.items():
                want = max(min(len(rs), 120), n * len(rs) // len(oreqs))
                # chosen by a hash of the request text, not by position: adding a request family to the
                # neighbour's generator then displaces only a few of the requests sampled before (a
                # position-based sample changed wholesale, and with it what a cross stream happened to catch)
                picked += sorted(rs, key=lambda r: hashlib.sha1((str(seed) + r).encode()).digest())[:want]
            oreqs = picked
            o_impl_req = getattr(om, "impl_request", lambda r: r)
            o_model_req = getattr(om, "model_request", lambda r: r)
            o_impl_only = getattr(om, "impl_only", lambda r: False)
            o_canon = getattr(om, "canon", lambda req, ans: ans)
            oreqs = [r for r in oreqs if not o_impl_only(r)]
            oi = run_lines(impl, [o_impl_req(r) for r in oreqs])
            omo = run_lines(model_bin(), [o_model_req(r) for r in oreqs])
            cross_n += len(oreqs)
            cross_hist[other] = len(oreqs)
            for r, a, b in zip(oreqs, oi, omo):
                a_i, a_m = o_canon(r, a), o_canon(r, b)
                if a_i.startswith(("PANIC", "CONTRACT", "HANG", "ABORT")) and not getattr(om, "panic_expected", lambda r: False)(r):
                    spec_failures.append({"request": r, "impl": a_i, "model": a_m, "spec": "no panic / contract breach / hang / abort (cross stream %s)" % other})
                elif a_i in ("bad-op", "unsupported") or a_m == "bad-op":
                    continue
                elif a_i != a_m and a_m != "nomodel":
                    disagreements.append({"request": r, "impl": a_i, "model": a_m, "spec": None, "cross": other})

    # ---------- 5. verdict
    def is_known(entry):
        for k in known.get("known", []):
            if prop not in k.get("properties", [k.get("property")]):
                continue
            if k.get("sig") and entry.get("sig") == k["sig"]:
                return k
            if k.get("request_regex") and re.search(k["request_regex"], entry["request"]):
                return k
        return None

    # genuine property failures of the implementation (impl vs spec / relation)
    failing = spec_failures + rel_failures
    reported_requests = set()
    unknown_failing = []
    for e in failing:
        k = is_known(e)
        if k:
            msg = "KNOWN-FINDING: property=%s %s" % (prop, k["what"])
            if msg not in known_printed:
                known_printed.append(msg)
        else:
            unknown_failing.append(e)
    if unknown_failing:
        unknown_failing.sort(key=lambda e: len(e["request"]))
        path = write_replay(prop, "implementation violates the property (implementation vs reference answer)", unknown_failing[:20])
        violations.append("VIOLATION property=%s replay=%s" % (prop, path))
        reported_requests |= {e["request"] for e in unknown_failing}
    # correspondence broken without a reference answer that differs
    rest = [e for e in disagreements if e["request"] not in reported_requests and not is_known(e)]
    if rest:
        rest.sort(key=lambda e: len(e["request"]))
        # the theorems identify the model's answer with the demanded one on the proved domain
        with_input = [e for e in rest if getattr(mod, "model_is_demanded", lambda r: False)(e["request"]) and not proof_broken]
        if with_input:
            for e in with_input:
                e["demanded"] = e["model"]
            path = write_replay(prop, "implementation disagrees with the model, whose answer the property theorems prove to be the demanded one", with_input[:20])
            violations.append("VIOLATION property=%s replay=%s" % (prop, path))
        else:
            path = write_replay(prop, "correspondence model<->implementation broken; no reference answer differs", rest[:20],
                                note="correspondence ops: " + ", ".join(sorted({e["request"].split(" ")[0] for e in rest})))
            violations.append("VIOLATION property=%s replay=%s no-failing-input-found" % (prop, path))
    if bad:
        path = write_replay(prop, "driver rejected requests (machinery fault)", [{"request": r, "impl": a, "model": b} for r, a, b in bad[:20]])
        violations.append("VIOLATION property=%s replay=%s no-failing-input-found" % (prop, path))
    if proof_broken and not violations:
        path = write_replay(prop, "proof obligation no longer checks", [],
                            note="theorems: %s\n%s" % (", ".join(proof_broken), audit_raw[-2000:]))
        violations.append("VIOLATION property=%s replay=%s no-failing-input-found" % (prop, path))

    for m in known_printed:
        print(m)
    for v in violations:
        print(v)

    samples = []
    step = max(1, len(reqs) // 8)
    for i in range(0, len(reqs), step):
        samples.append({"request": reqs[i], "impl": impl_ans[i], "model": model_ans[i]})
    write_evidence(evidence_path, prop, args.tier, seed, mod, audit_res, len(theorems), discharged, samples[:10],
                   time.time() - t0, len(violations), known_printed,
                   extra={"evaluations": len(reqs), "distinct_nontrivial": len(distinct),
                          "answer_histogram": hist, "reference_compared": len(spec_idx),
                          "disagreements": len(disagreements), "reference_failures": len(spec_failures),
                          "relational_failures": len(rel_failures), "cross_stream_requests": cross_hist, "repo": repo_path(),
                          "repo_head": git_head(repo_path())})
    sys.exit(1 if violations else 0)

def git_head(repo):
    try:
        h = subprocess.run(["git", "-C", repo, "rev-parse", "--short", "HEAD"], capture_output=True, text=True).stdout.strip()
        d = subprocess.run(["git", "-C", repo, "status", "--porcelain", "--untracked-files=no"], capture_output=True, text=True).stdout.strip()
        return h + ("+dirty" if d else "")
    except Exception:
        return "?"

def write_evidence(path, prop, tier, seed, mod, audit_res, obligations, discharged, samples, wall, nviol, known_printed, extra):
    thm = {t: {"ok": v[0], "axioms": v[1] if v[0] else None, "problem": None if v[0] else v[1]} for t, v in audit_res.items()}
    cov = {
        "obligations": obligations,
        "discharged": discharged,
        "checker_cmd": "cd lean && lake build Bcder.Props.%s && lake env lean Bcder/Audit/%s.lean  (thorough: + lake env leanchecker Bcder.Props.%s and its EXTRA_MODULES)" % (prop, prop, prop),
        "trusted_base": [
            "Lean 4.33.0 kernel",
            "axioms per theorem listed under `theorems` (allowed: propext, Classical.choice, Quot.sound)",
            "hand-written model lean/Bcder/Model/*.lean tied to the code by this run's differential correspondence (tools/check.py, harness/, lean/Driver.lean)",
            "reference definitions lean/Bcder/Spec/*.lean (reading of X.690 and of the property)",
            "Lean compiler for executing the model in bcder_model",
        ],
        "theorems": thm,
        "rule": getattr(mod, "RULE", ""),
        "samples": samples,
        "exhaustive": bool(getattr(mod, "EXHAUSTIVE", {}).get(tier, False)),
        "exhaustive_subdomains": getattr(mod, "EXHAUSTIVE_NOTE", {}).get(tier, ""),
    }
    cov.update(extra)
    ev = {
        "property_id": prop, "tier": tier, "seed": seed, "level": getattr(mod, "LEVEL", "proof"),
        "coverage": cov,
        "assumptions": getattr(mod, "ASSUMPTIONS", []),
        "wall_s": round(wall, 2), "violations": nviol,
        "known_findings_printed": known_printed,
    }
    with open(path, "w") as f:
        json.dump(ev, f, indent=1)

if __name__ == "__main__":
    main()
