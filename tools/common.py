"""Shared helpers for generators: one PRNG, hex, BER building blocks."""
import random

def hx(bs):
    bs = bytes(bs)
    return bs.hex() if bs else "-"

def ident(cls, constructed, num):
    lead = (cls << 6) | (0x20 if constructed else 0)
    if num <= 30:
        return bytes([lead | num])
    ds = []
    n = num
    while True:
        ds.append(n & 0x7f)
        n >>= 7
        if n == 0:
            break
    ds.reverse()
    return bytes([lead | 0x1f] + [d | 0x80 for d in ds[:-1]] + [ds[-1]])

def length(n, form=None):
    """form None = minimal; k in 1..4 = long form with k octets; 'indef'"""
    if form == 'indef':
        return b"\x80"
    if form is None:
        if n < 128:
            return bytes([n])
        k = (n.bit_length() + 7) // 8
        return bytes([0x80 | k]) + n.to_bytes(k, 'big')
    return bytes([0x80 | form]) + n.to_bytes(form, 'big')

def tlv(idb, content, form=None):
    if form == 'indef':
        return idb + b"\x80" + content + b"\x00\x00"
    return idb + length(len(content), form) + content

BOUNDARY = [0, 1, 2, 30, 31, 32, 126, 127, 128, 129, 254, 255, 256, 257, 999, 1000, 1001,
            16383, 16384, 16385, 65534, 65535, 65536, 65537, 0x1FFFFF, 0x200000,
            (1 << 24) - 1, 1 << 24, (1 << 24) + 1, (1 << 32) - 2, (1 << 32) - 1]

class Tree:
    """a BER value: prim(idb, content) or cons(idb, kids, indef)"""
    def __init__(self, cls, num, content=None, kids=None, indef=False, lform=None):
        self.cls, self.num, self.content, self.kids, self.indef, self.lform = cls, num, content, kids, indef, lform
    def is_cons(self):
        return self.kids is not None
    def encode(self):
        idb = ident(self.cls, self.is_cons(), self.num)
        if self.is_cons():
            body = b"".join(k.encode() for k in self.kids)
            if self.indef:
                return idb + b"\x80" + body + b"\x00\x00"
            return idb + length(len(body), self.lform) + body
        return idb + length(len(self.content), self.lform) + self.content
    def count(self):
        return 1 + (sum(k.count() for k in self.kids) if self.is_cons() else 0)

def rand_tag(rng, allow_eoc=False):
    r = rng.random()
    cls = rng.choice([0, 0, 0, 1, 2, 2, 3])
    if r < 0.7:
        num = rng.choice([1, 2, 3, 4, 5, 6, 12, 16, 17, 19, 22, 30])
    elif r < 0.85:
        num = rng.choice([31, 32, 127, 128, 255, 16383])
    else:
        num = rng.choice([16384, 0x1FFFFF, rng.randrange(1, 0x200000)])
    if cls == 0 and num == 0 and not allow_eoc:
        num = 1
    return cls, num

def rand_tree(rng, mode, depth=0, maxdepth=4, budget=None):
    """random well-formed tree for `mode` ('ber','cer','der')"""
    if budget is None:
        budget = [rng.randrange(1, 14)]
    budget[0] -= 1
    cls, num = rand_tag(rng)
    if depth >= maxdepth or budget[0] <= 0 or rng.random() < 0.5:
        n = rng.choice([0, 0, 1, 1, 2, 3, 5, 8, 127, 128, 130]) if rng.random() < 0.9 else rng.choice([255, 256, 300])
        content = bytes(rng.randrange(256) for _ in range(n))
        lform = None
        if mode == 'ber' and rng.random() < 0.25:
            lform = rng.choice([k for k in (1, 2, 3, 4) if n < (1 << (8 * k))])
        return Tree(cls, num, content=content, lform=lform)
    nk = rng.choice([0, 1, 1, 2, 2, 3])
    kids = [rand_tree(rng, mode, depth + 1, maxdepth, budget) for _ in range(nk)]
    if mode == 'cer':
        indef = True
    elif mode == 'der':
        indef = False
    else:
        indef = rng.random() < 0.45
    lform = None
    if mode == 'ber' and not indef and rng.random() < 0.2:
        ln = sum(len(k.encode()) for k in kids)
        lform = rng.choice([k for k in (1, 2, 3, 4) if ln < (1 << (8 * k))])
    return Tree(cls, num, kids=kids, indef=indef, lform=lform)

def mutate(rng, data):
    """structural mutation of an encoding"""
    data = bytearray(data)
    if not data:
        return bytes([rng.randrange(256)])
    r = rng.random()
    i = rng.randrange(len(data))
    if r < 0.25:
        del data[i:]                      # truncate
    elif r < 0.5:
        data[i] = rng.choice([0x00, 0x01, 0x1f, 0x20, 0x7f, 0x80, 0x81, 0x82, 0x84, 0x85, 0xff, (data[i] + 1) & 0xff, (data[i] - 1) & 0xff])
    elif r < 0.65:
        data.insert(i, rng.choice([0x00, 0x80, 0x30, 0x04, 0xff]))
    elif r < 0.8:
        del data[i]
    elif r < 0.9:
        data += bytes([rng.choice([0, 0, 0x30, 0x80, 0x02, 0x01])] * rng.randrange(1, 3))
    else:
        j = rng.randrange(len(data))
        data[i], data[j] = data[j], data[i]
    return bytes(data)

# ---------------------------------------------------------------- octet string forms
def os_prim(content, tag=b"\x04", lform=None):
    return tag + length(len(content), lform) + content

def os_cons(kids, indef=False, tag=b"\x24"):
    body = b"".join(kids)
    if indef:
        return tag + b"\x80" + body + b"\x00\x00"
    return tag + length(len(body)) + body

def split_content(rng, content, nseg, allow_empty=True):
    """random split of content into nseg pieces"""
    n = len(content)
    cuts = sorted(rng.randrange(0, n + 1) for _ in range(nseg - 1)) if allow_empty else sorted(rng.sample(range(1, n), min(nseg - 1, max(0, n - 1))))
    pieces, prev = [], 0
    for c in cuts:
        pieces.append(content[prev:c]); prev = c
    pieces.append(content[prev:])
    return pieces

def rand_os_form(rng, content, depth=0, maxdepth=3, outer_tag=None, inner_prim=b"\x04", inner_cons=b"\x24"):
    """random BER encoding (any segmentation / nesting) of an octet string with this content;
       outer_tag = (prim_tag_bytes, cons_tag_bytes) for the outermost value"""
    pt, ct = (inner_prim, inner_cons) if outer_tag is None else outer_tag
    if depth >= maxdepth or rng.random() < (0.45 if depth else 0.3):
        return os_prim(content, pt)
    nseg = rng.choice([0, 1, 2, 2, 3, 4]) if len(content) == 0 else rng.choice([1, 2, 2, 3, 4])
    if nseg == 0:
        return os_cons([], rng.random() < 0.5, ct)
    pieces = split_content(rng, content, nseg)
    kids = [rand_os_form(rng, p, depth + 1, maxdepth, None, inner_prim, inner_cons) for p in pieces]
    return os_cons(kids, rng.random() < 0.5, ct)

def all_splits(content, nseg):
    """all ways to cut content into exactly nseg (possibly empty) consecutive pieces"""
    import itertools
    n = len(content)
    for cuts in itertools.combinations_with_replacement(range(n + 1), nseg - 1):
        pieces, prev = [], 0
        for c in cuts:
            pieces.append(content[prev:c]); prev = c
        pieces.append(content[prev:])
        yield pieces
