#!/usr/bin/env python3
"""Regenerates MANIFEST.json from the per-property generator modules (single source of truth)."""
import json, os, sys, importlib
ROOT = os.path.dirname(os.path.dirname(os.path.abspath(__file__)))
sys.path.insert(0, os.path.join(ROOT, "tools"))
ALL = ["C%02d" % i for i in range(1, 21)]
checks, na = [], []
for p in ALL:
    try:
        m = importlib.import_module("gen." + p)
    except ModuleNotFoundError:
        na.append({"property_id": p, "reason": "check not built yet in this revision of /verif (planned: Lean 4 proof + correspondence, see DESIGN.md section 7)"})
        continue
    if not getattr(m, "THEOREMS", []):
        na.append({"property_id": p, "reason": "correspondence check and property oracle are built (./check %s runs), but no theorem is proved yet in this revision, so the property is not claimed at proof level; see DESIGN.md" % p})
        continue
    checks.append({
        "property_id": p,
        "quick_cmd": "./check %s --tier quick" % p,
        "thorough_cmd": "./check %s --tier thorough" % p,
        "evidence_file": "evidence/%s.json" % p,
        "replay_cmd_template": "./check %s --replay {path}" % p,
        "engine": "lean4-proof+correspondence",
        "level_claimed": {"category": getattr(m, "LEVEL", "proof"), "text": m.LEVEL_TEXT, "design_ref": getattr(m, "DESIGN_REF", "DESIGN.md section 7 (%s)" % p)},
        "level_note": m.LEVEL_NOTE,
        "technique": getattr(m, "TECHNIQUE", "machine-checked proof in Lean 4 about a hand-written executable model + differential correspondence model<->implementation"),
    })
man = {
    "version": 1,
    "setup_cmd": "tools/setup.sh",
    "hooks": {
        "guard": "bcder_verif",
        "enable": "none needed: every observation goes through the public API; RUSTFLAGS='--cfg bcder_verif' is reserved",
        "baseline_off_cmd": "cd /repo && cargo test --workspace --no-fail-fast --offline",
        "source_commits": [],
        "add_only": True,
    },
    "engines": [{
        "name": "lean4-proof+correspondence",
        "path": "tools/check.py",
        "serves_properties": [c["property_id"] for c in checks],
        "kind_free_text": "Lean 4 theorems (lean/Bcder/Props) about an executable model (lean/Bcder/Model) checked by lake + #print axioms audit; model tied to /repo by running lean/Driver.lean and harness/ (real crate) on the same requests",
    }],
    "checks": checks,
    "not_applicable": na,
    "notes": "fix: commits in /repo and the one recorded known finding are listed in known_findings.json; see DESIGN.md",
}
json.dump(man, open(os.path.join(ROOT, "MANIFEST.json"), "w"), indent=1)
print("claimed:", [c["property_id"] for c in checks])
