"""Schemas with values for C04/C05/C06: produce (encoder tree text, decode script, expected trace tokens)."""
from common import *
import scripts

def tc(v):
    n = 1
    while not (-(1 << (8 * n - 1)) <= v < (1 << (8 * n - 1))):
        n += 1
    return (v % (1 << (8 * n))).to_bytes(n, 'big')

RANGES = {"i8": (-(1 << 7), (1 << 7) - 1), "i16": (-(1 << 15), (1 << 15) - 1), "i32": (-(1 << 31), (1 << 31) - 1),
          "i64": (-(1 << 63), (1 << 63) - 1), "i128": (-(1 << 127), (1 << 127) - 1),
          "u8": (0, (1 << 8) - 1), "u16": (0, (1 << 16) - 1), "u32": (0, (1 << 32) - 1), "u64": (0, (1 << 64) - 1), "u128": (0, (1 << 128) - 1)}

def rand_int(rng, ty):
    lo, hi = RANGES[ty]
    r = rng.random()
    if r < 0.25:
        return rng.choice([lo, hi, 0, 1, min(hi, 127), min(hi, 128), min(hi, 255), min(hi, 256), max(lo, -1), max(lo, -128), max(lo, -129)])
    if r < 0.6:
        k = rng.randrange(1, hi.bit_length() + 1)
        v = rng.randrange(1 << k) + rng.choice([-1, 0, 0, 1])
        if lo < 0 and rng.random() < 0.5:
            v = -v
        return max(lo, min(hi, v))
    return rng.randrange(lo, hi + 1)

def rand_bytes(rng, big=False):
    n = rng.choice([0, 1, 2, 3, 5, 8]) if not big else rng.choice([126, 127, 128, 129, 255, 256, 257, 1000, 65535, 65536])
    return bytes(rng.randrange(256) for _ in range(n))

class Leaf:
    """(enc tree, decode script, trace tokens, universal tag number)"""
    pass

def leaf(rng, mode, big=False, implicit=None):
    """returns (enc, dec, trace, first_tag) ; implicit = tag token to use instead of the universal one"""
    kinds = ["bool", "null", "int", "int", "integer", "unsigned", "oid", "bits", "os", "str"]
    k = rng.choice(kinds)
    t = implicit
    if k == "bool":
        v = rng.random() < 0.5
        tag = t or "u1"
        dec = "T bool" if not t else "tpi %s [ bool ]" % t
        return "P %s b %d" % (tag, v), dec, ["b%d" % v], tag
    if k == "null":
        tag = t or "u5"
        dec = "T null" if not t else "tpi %s [ null ]" % t
        return "P %s n" % tag, dec, ["n"], tag
    if k == "int":
        ty = rng.choice(list(RANGES))
        v = rand_int(rng, ty)
        tag = t or "u2"
        if not t and ty in ("u8", "u16", "u32", "u64") and rng.random() < 0.5:
            dec = "T %s" % ty
        else:
            dec = "tpi %s [ int %s ]" % (tag, ty)
        return "P %s i %s %d" % (tag, ty, v), dec, ["i%d" % v], tag
    if k == "integer":
        v = rand_int(rng, rng.choice(["i8", "i64", "i128"])) if rng.random() < 0.7 else rng.randrange(-(1 << 200), 1 << 200)
        c = tc(v)
        tag = t or "u2"
        dec = "T integer" if not t else "tpi %s [ integer ]" % t
        return "P %s I %s" % (tag, hx(c)), dec, ["I" + hx(c)], tag
    if k == "unsigned":
        v = rand_int(rng, rng.choice(["u8", "u64", "u128"]))
        c = tc(v)
        tag = t or "u2"
        dec = "T unsigned" if not t else "tpi %s [ unsigned ]" % t
        return "P %s U %s" % (tag, hx(c)), dec, ["U" + hx(c)], tag
    if k == "oid":
        c = bytes([rng.choice([0x2a, 0x2b, 0x55, 0x88])]) if rng.random() < 0.3 else bytes([0x2a, 0x86, 0x48, 0x86, 0xf7, 0x0d, 0x01, 0x01][:rng.randrange(1, 9)])
        if c[-1] & 0x80:
            c = c + b"\x01"
        tag = t or "u6"
        dec = "T oid" if not t else "tpi %s [ oid ]" % t
        return "P %s O %s" % (tag, hx(c)), dec, ["O" + hx(c)], tag
    if k == "bits":
        data = rand_bytes(rng, big and rng.random() < 0.3)
        if mode == "cer" and len(data) > 999:
            data = data[:999]
        u = rng.randrange(8) if data else 0
        tag = t or "u3"
        dec = "T bits" if not t else "tvi %s X bits" % t
        enc = "P %s B %d %s" % (tag, u, hx(data)) if (mode == "cer" or rng.random() < 0.5) else "BL %s %d %s" % (tag, u, hx(data))
        return enc, dec, ["bits:%d:%s" % (u, hx(data))], tag
    if k == "os":
        data = rand_bytes(rng, big)
        if mode == "cer" and len(data) > 1000:
            data = data[:1000]
        tag = t or "u4"
        dec = "T os" if not t else "tvi %s X os" % t
        r2 = rng.random()
        if mode == "cer" or r2 < 0.3:
            enc = "P %s o %s" % (tag, hx(data))
        elif r2 < 0.5:
            enc = "OL %s %s" % (tag, hx(data))
        elif r2 < 0.7 or mode != "der":
            enc = "OS %s der %s" % (tag, hx(os_prim(data)))
        else:
            # a value decoded from a segmented BER encoding, re-encoded in DER (flattened to primitive)
            enc = "OS %s ber %s" % (tag, hx(rand_os_form(rng, data)))
        return enc, dec, ["os:p" + hx(data)], tag
    # restricted strings
    cs, num, text = rng.choice([("utf8", 12, "héllo wörld €😀"), ("num", 18, "0123 456"), ("print", 19, "Abc (1)+,-./:=?"), ("ia5", 22, "a@b.c~\x00")])
    s = "".join(rng.choice(text) for _ in range(rng.randrange(0, 8))).encode()
    tag = t or "u%d" % num
    dec = "T rs %s" % cs if not t else "tvi %s X rs %s" % (t, cs)
    if mode == "cer":
        enc = "P %s o %s" % (tag, hx(s))
    else:
        enc = rng.choice(["OL %s %s", "P %s o %s"]) % (tag, hx(s))
    return enc, dec, ["rs:p" + hx(s)], tag

CTX = iter(())

def value(rng, mode, depth=0, big=False):
    """a random schema with a value: (enc, dec, trace, outer tag token)"""
    r = rng.random()
    if depth >= 3 or r < 0.45:
        return leaf(rng, mode, big)
    if r < 0.7:
        # SEQUENCE / SET of fields, some OPTIONAL (with distinct context tags)
        n = rng.choice([0, 1, 2, 3, 4, 6, 12])
        encs, decs, trace = [], [], []
        for i in range(n):
            opt = rng.random() < 0.3
            if opt:
                # OPTIONAL fields get tags no other field of this generator uses (the usual ASN.1
                # side condition: an absent optional field must be distinguishable from what follows)
                tag = "a%d" % ((1000 + i) if rng.random() < 0.8 else (20000 + i))
                present = rng.random() < 0.5
                if rng.random() < 0.5:
                    # explicit
                    e, d, t, _ = value(rng, mode, depth + 1, big)
                    if present:
                        encs.append("J C explicit %s %s" % (tag, e)); trace += ["some"] + t
                    else:
                        encs.append("N"); trace += ["none"]
                    decs.append("toci %s { %s }" % (tag, d))
                else:
                    e, d, t, _ = leaf(rng, mode, big, implicit=tag)
                    # optional form of the implicit readers
                    d = d.replace("tpi ", "topi ", 1).replace("tvi ", "tovi ", 1)
                    if present:
                        encs.append("J " + e); trace += ["some"] + t
                    else:
                        encs.append("N"); trace += ["none"]
                    decs.append(d)
            else:
                e, d, t, _ = value(rng, mode, depth + 1, big)
                encs.append(e); decs.append(d); trace += t
        kind = rng.choice(["tuple", "vec", "slice", "iter", "slicefn"]) if 0 < n <= 12 else rng.choice(["vec", "slice", "iter", "slicefn"])
        inner = "S %s %d %s" % (kind, n, " ".join(encs)) if n else rng.choice(["Z", "S vec 0", "N"])
        which = rng.choice(["seq", "set", "seqas"])
        if which == "seq":
            return "C seq u16 %s" % inner, "seq { %s }" % " ".join(decs), trace, "u16"
        if which == "set":
            return "C set u17 %s" % inner, "set { %s }" % " ".join(decs), trace, "u17"
        tag = "a%d" % rng.choice([0, 5, 31, 200])
        return "C seqas %s %s" % (tag, inner), "tci %s { %s }" % (tag, " ".join(decs)), trace, tag
    if r < 0.85:
        tag = "%s%d" % (rng.choice("cap"), rng.choice([0, 1, 30, 31, 127, 128, 16383, 16384, 0x1FFFFF]))
        e, d, t, _ = value(rng, mode, depth + 1, big)
        return "C %s %s %s" % (rng.choice(["explicit", "new"]), tag, e), "tci %s { %s }" % (tag, d), t, tag
    if r < 0.93:
        e, d, t, tag = value(rng, mode, depth + 1, big)
        ar = rng.choice([2, 3])
        return "H %d %d %s" % (ar, rng.randrange(ar), e), d, t, tag
    # SEQUENCE OF
    n = rng.randrange(0, 5)
    items = [leaf(rng, mode, False) for _ in range(n)]
    inner = "S vec %d %s" % (n, " ".join(i[0] for i in items)) if n else "S vec 0"
    return "C seq u16 %s" % inner, "seq { %s }" % " ".join(i[1] for i in items), sum((i[2] for i in items), []), "u16"
