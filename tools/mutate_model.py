#!/usr/bin/env python3
"""Mutation testing of the MODEL against the THEOREMS (the other direction of tools/mutate.py).

tools/mutate.py changes the Rust and asks whether a check notices.  This script changes the Lean model
(lean/Bcder/Model/*.lean) and asks whether the proofs notice: a first-order mutant of a model definition
that still lets every module under lean/Bcder/Props build is a place where the theorems do not constrain
the model (only the correspondence check ties it to the code there).  Survivors are listed for reading;
nothing here is part of a registered check.

  tools/mutate_model.py --scratch /tmp/mm --max 60 --seed 7 [--files Content.lean,Length.lean] [--list]

Works on an rsync copy of lean/ (with its .lake build directory, so builds are incremental) under --scratch.
"""
import argparse, json, os, random, re, shutil, subprocess, sys, time

ROOT = os.path.dirname(os.path.dirname(os.path.abspath(__file__)))

OPS = [
    (r"(?<![\w.])(\d+)(?![\w.])", "num"),          # decimal literal: +1
    (r"(?<![\w])0x([0-9a-fA-F]+)(?![\w])", "hex"),  # hex literal: +1
    (r" ≤ ", " < "), (r" < ", " ≤ "), (r" ≥ ", " > "), (r" > ", " ≥ "),
    (r" == ", " != "), (r" != ", " == "), (r" && ", " || "), (r" \|\| ", " && "),
    (r"\.definite\b", ".indefinite"), (r"\.indefinite\b", ".definite"),
    (r"\.ber\b", ".der"), (r"\.der\b", ".cer"), (r"\.cer\b", ".ber"),
    (r"\btrue\b", "false"), (r"\bfalse\b", "true"),
    (r" \+ 1\b", " + 2"), (r" - 1\b", " - 2"),
    (r"\bsome 0\b", "some 1"),
]

def code_lines(text):
    """indices of lines that are code: not inside /- -/ comments, not `--` comment lines, not string-only"""
    out, depth = [], 0
    for i, line in enumerate(text.split("\n")):
        j, in_code = 0, depth == 0
        # crude block comment tracking
        opens, closes = line.count("/-"), line.count("-/")
        if depth > 0 or opens:
            depth += opens - closes
            continue
        s = line.strip()
        if not s or s.startswith("--") or s.startswith("import") or s.startswith("namespace") or s.startswith("open ") or s.startswith("end "):
            continue
        out.append(i)
    return out

def sites(path):
    text = open(path).read()
    lines = text.split("\n")
    res = []
    for i in code_lines(text):
        line = lines[i]
        code = line.split("--")[0]
        # mask string literals
        masked = re.sub(r'"[^"]*"', lambda m: '"' + "_" * (len(m.group(0)) - 2) + '"', code)
        for pat, rep in OPS:
            for m in re.finditer(pat, masked):
                if rep == "num":
                    new = str(int(m.group(1)) + 1)
                elif rep == "hex":
                    new = "0x%x" % (int(m.group(1), 16) + 1)
                else:
                    new = rep
                mutated = code[:m.start()] + new + code[m.end():] + line[len(code):]
                res.append((i, pat, line, mutated))
    return res

def main():
    ap = argparse.ArgumentParser()
    ap.add_argument("--scratch", default="/tmp/mm")
    ap.add_argument("--max", type=int, default=40)
    ap.add_argument("--seed", type=int, default=7)
    ap.add_argument("--files", default="")
    ap.add_argument("--list", action="store_true")
    ap.add_argument("--out", default="")
    a = ap.parse_args()
    src = os.path.join(ROOT, "lean")
    files = [f for f in sorted(os.listdir(os.path.join(src, "Bcder", "Model"))) if f.endswith(".lean")]
    if a.files:
        files = [f for f in files if f in a.files.split(",")]
    allsites = []
    for f in files:
        if f in ("Hex.lean", "Parse.lean", "Script.lean", "Generic.lean"):   # driver-side helpers: tied by correspondence only, by design
            continue
        for s in sites(os.path.join(src, "Bcder", "Model", f)):
            allsites.append((f,) + s)
    rng = random.Random(a.seed)
    rng.shuffle(allsites)
    chosen = allsites[:a.max]
    if a.list:
        for f, i, pat, old, new in chosen:
            print("%s:%d  %s\n    - %s\n    + %s" % (f, i + 1, pat, old.strip(), new.strip()))
        print(len(allsites), "sites,", len(chosen), "chosen")
        return
    work = os.path.join(a.scratch, "lean")
    os.makedirs(a.scratch, exist_ok=True)
    subprocess.run(["rsync", "-a", "--delete", src + "/", work + "/"], check=True)
    out = a.out or os.path.join(a.scratch, "results.jsonl")
    env = dict(os.environ)
    for n, (f, i, pat, old, new) in enumerate(chosen):
        path = os.path.join(work, "Bcder", "Model", f)
        orig = open(path).read()
        lines = orig.split("\n")
        assert lines[i] == old
        lines[i] = new
        open(path, "w").write("\n".join(lines))
        t0 = time.time()
        p = subprocess.run(["lake", "build", "Bcder"], cwd=work, env=env, capture_output=True, text=True)
        log = p.stdout + p.stderr
        failed = sorted(set(re.findall(r"✖ \[\d+/\d+\] Building (\S+)", log)) | set(re.findall(r"^error: (Bcder/\S+\.lean)", log, re.M)))
        rec = {"id": "mm%03d" % n, "file": f, "line": i + 1, "op": pat, "before": old.strip(), "after": new.strip(),
               "build": "fails" if p.returncode != 0 else "passes", "first_failures": failed[:6], "secs": round(time.time() - t0)}
        open(out, "a").write(json.dumps(rec) + "\n")
        print(rec["id"], f, i + 1, rec["build"], failed[:3], flush=True)
        open(path, "w").write(orig)
    # leave the scratch copy consistent again
    subprocess.run(["lake", "build", "Bcder"], cwd=work, env=env, capture_output=True, text=True)

if __name__ == "__main__":
    main()
