#!/bin/bash
# Re-runs every seeded breaking change in /verif/seeded against its check (scratch worktree under /tmp,
# removed afterwards). Usage: tools/seeded_run.sh [ids…]   Output: one line per change.
ROOT=$(cd "$(dirname "$0")/.." && pwd)   # works from a frozen copy of /verif too
cd $ROOT
ids="$@"; [ -z "$ids" ] && ids=$(ls seeded)
for id in $ids; do
  prop=${id%%-*}
  wt=/tmp/seedwt-$id
  git -C /repo worktree remove --force $wt >/dev/null 2>&1
  git -C /repo worktree add --detach $wt HEAD >/dev/null 2>&1 || { echo "$id worktree-failed"; continue; }
  if ! git -C $wt apply $ROOT/seeded/$id/patch.diff 2>/dev/null; then echo "$id patch-does-not-apply"; git -C /repo worktree remove --force $wt; continue; fi
  out=$(VERIF_REPO=$wt VERIF_SCRATCH_OUT=${SEED_OUT:-/tmp/seed-out} ./check $prop --tier quick 2>&1 | grep -m1 VIOLATION)
  if [ -n "$out" ]; then echo "$id caught: ${out:0:90}"; else echo "$id MISSED"; fi
  h=$(python3 -c "import hashlib,sys;print(hashlib.sha1(sys.argv[1].encode()).hexdigest()[:8])" $wt)
  rm -rf $ROOT/harness/target-$h $ROOT/harness/m-$h
  git -C /repo worktree remove --force $wt >/dev/null 2>&1
done
