"""Generation of caller scripts (the language of lean/Bcder/Model/Script.lean) over generated inputs."""
from common import *

TAGTOK = {0: "u", 1: "a", 2: "c", 3: "p"}

def tagtok(cls, num):
    return "%s%d" % (TAGTOK[cls], num)

def rand_expected(rng, tree=None):
    """an expected tag: the next value's tag (often), a neighbour, or something else"""
    r = rng.random()
    if tree is not None and r < 0.55:
        return tagtok(tree.cls, tree.num)
    if tree is not None and r < 0.7:
        return tagtok(rng.randrange(4), tree.num)
    if tree is not None and r < 0.8:
        n = tree.num + rng.choice([-1, 1])
        return tagtok(tree.cls, max(0, min(0x1FFFFF, n)) or 1)
    cls, num = rand_tag(rng)
    return tagtok(cls, num)

PRIMOPS_SAFE = ["takeall", "skipall", "sliceall takeall", "wsa", "rem takeall"]

def rand_prim_ops(rng, n):
    """random primitive-level script for content length n (may under- or over-read)"""
    ops = []
    for _ in range(rng.randrange(0, 7)):
        r = rng.random()
        k = rng.choice([0, 1, 2, n - 1 if n > 0 else 0, n, n + 1, n + 2, 1 << 20, (1 << 64) - 1])
        if r < 0.18:
            ops.append("req %d" % k)
        elif r < 0.28:
            ops.append("tu8")
        elif r < 0.36:
            ops.append("tou8")
        elif r < 0.48:
            ops.append("adv %d" % rng.choice([0, 1, 2, n, n + 1]))
        elif r < 0.56:
            ops.append("skip %d" % k)
        elif r < 0.66:
            ops.append("slice")
        elif r < 0.72:
            a = rng.randrange(0, n + 2); b = rng.randrange(0, n + 3)
            ops.append("bytes %d %d" % (a, b))
        elif r < 0.78:
            ops.append("takeall")
        elif r < 0.83:
            ops.append("skipall")
        elif r < 0.88:
            ops.append("sliceall")
        elif r < 0.92:
            ops.append("wsa")
        else:
            ops.append("rem")
    if rng.random() < 0.7:
        ops.append(rng.choice(["takeall", "skipall", "wsa"]))
    return " ".join(ops)

def cont_for(rng, tree, depth=0):
    """a continuation suitable (mostly) for `tree`"""
    r = rng.random()
    if r < 0.35:
        return "G"
    if tree.is_cons():
        if r < 0.9:
            return "C { %s }" % steps_for(rng, tree.kids, depth + 1)
        return "P [ takeall ]"
    else:
        if r < 0.9:
            return "P [ %s ]" % (rand_prim_ops(rng, len(tree.content)) if rng.random() < 0.5 else rng.choice(PRIMOPS_SAFE))
        return "C { all }"

def step_for(rng, tree, depth=0):
    """one script step reading (or trying to read) the value `tree` (None = no value there)"""
    r = rng.random()
    present = tree is not None
    t = tree if present else Tree(0, 4, content=b"")
    exp = rand_expected(rng, tree)
    kinds = ["tv", "tov", "tvi", "tovi", "tp", "top", "tpi", "topi", "tc", "toc", "tci", "toci", "seq", "oseq", "set", "oset",
             "skipopt", "skip", "skipone", "capone", "typed"]
    if present and rng.random() < 0.75:
        # a step that fits the value
        exp = tagtok(tree.cls, tree.num) if rng.random() < 0.85 else exp
        if tree.is_cons():
            kinds = ["tv", "tov", "tvi", "tovi", "tc", "toc", "tci", "toci", "skipopt", "skip", "skipone", "capone"]
            if tree.cls == 0 and tree.num == 16: kinds += ["seq", "oseq"] * 3
            if tree.cls == 0 and tree.num == 17: kinds += ["set", "oset"] * 3
        else:
            kinds = ["tv", "tov", "tvi", "tovi", "tp", "top", "tpi", "topi", "skipopt", "skip", "skipone", "capone"]
    k = rng.choice(kinds)
    if k in ("tv", "tov"):
        return "%s %s" % (k, cont_for(rng, t, depth))
    if k in ("tvi", "tovi"):
        return "%s %s %s" % (k, exp, cont_for(rng, t, depth))
    if k in ("tp", "top"):
        body = rand_prim_ops(rng, len(t.content) if not t.is_cons() else 3) if rng.random() < 0.5 else rng.choice(PRIMOPS_SAFE)
        return "%s [ %s ]" % (k, body)
    if k in ("tpi", "topi"):
        body = rand_prim_ops(rng, len(t.content) if not t.is_cons() else 3) if rng.random() < 0.5 else rng.choice(PRIMOPS_SAFE)
        return "%s %s [ %s ]" % (k, exp, body)
    if k in ("tc", "toc"):
        return "%s { %s }" % (k, steps_for(rng, t.kids if t.is_cons() else [], depth + 1))
    if k in ("tci", "toci"):
        return "%s %s { %s }" % (k, exp, steps_for(rng, t.kids if t.is_cons() else [], depth + 1))
    if k in ("seq", "oseq", "set", "oset"):
        return "%s { %s }" % (k, steps_for(rng, t.kids if t.is_cons() else [], depth + 1))
    if k == "skipopt":
        return "skipopt %s" % rng.choice(["A", "A", "A", "R0", "R1", "R2", "O"])
    if k == "skip":
        return "skip %s" % rng.choice(["A", "A", "R1", "O"])
    if k == "skipone":
        return "skipone"
    if k == "capone":
        return "capone"
    return "T " + rng.choice(["bool", "obool", "null", "onull", "u8", "ou8", "u16", "ou16", "u32", "ou32", "u64", "ou64", "skipu8if 5", "oskipu8if 0",
                              "integer", "unsigned", "oid", "ooid", "oidskip", "ooidskip", "bits", "bitsskip", "os", "oos",
                              "rs utf8", "rs num", "rs print", "rs ia5"])

def steps_for(rng, kids, depth=0):
    """script for the content of a constructed value with children `kids`"""
    if depth > 5:
        return "all"
    r = rng.random()
    if r < 0.3:
        return "all"
    if r < 0.36:
        return "skipall"
    if r < 0.42:
        return "capall"
    out = []
    n = len(kids)
    take = n if rng.random() < 0.7 else rng.randrange(0, n + 2)
    i = 0
    while i < take:
        if i < n and rng.random() < 0.08:
            j = rng.randrange(i, n + 1)
            out.append("cap { %s }" % " ".join(step_for(rng, kids[x], depth + 1) for x in range(i, j)))
            if rng.random() < 0.5:
                out.append("dec { all }")
            i = j
            continue
        out.append(step_for(rng, kids[i] if i < n else None, depth))
        if out[-1].startswith(("tov", "top", "toc", "oseq", "oset", "skipopt", "T o")) and rng.random() < 0.3:
            # an optional read that may have been absent: read the same position again
            out.append(step_for(rng, kids[i] if i < n else None, depth))
        i += 1
    if rng.random() < 0.25:
        out.append("mode %s" % rng.choice(["ber", "cer", "der"]))
    if rng.random() < 0.5:
        out.append(rng.choice(["all", "skipall", "tov G", "skipone", "T onull", "toci u16 { }"]))
    return " ".join(out)

def typed_leaf(rng, mode):
    """a well-typed primitive/string value and the typed reader for it"""
    r = rng.randrange(12)
    if r == 0:
        return Tree(0, 1, content=bytes([rng.choice([0, 0xff, 1, 0x80])])), "T bool"
    if r == 1:
        return Tree(0, 5, content=b""), "T null"
    if r == 2:
        v = rng.choice([0, 1, 127, 128, 255, 256, 65535, 65536, (1 << 32) - 1, 1 << 32, (1 << 64) - 1])
        n = max(1, (v.bit_length() + 8) // 8)
        return Tree(0, 2, content=v.to_bytes(n, 'big')), rng.choice(["T u8", "T u16", "T u32", "T u64", "T integer", "T unsigned"])
    if r == 3:
        return Tree(0, 6, content=bytes([0x2a, 0x86, 0x48, 0x86, 0xf7, 0x0d][:rng.randrange(1, 7)])), rng.choice(["T oid", "T oidskip", "T ooid"])
    if r == 4:
        return Tree(0, 3, content=bytes([rng.randrange(0, 8)]) + bytes(rng.randrange(256) for _ in range(rng.randrange(1, 4)))), rng.choice(["T bits", "T bitsskip"])
    if r == 5:
        return Tree(0, 4, content=bytes(rng.randrange(256) for _ in range(rng.randrange(0, 6)))), rng.choice(["T os", "T oos"])
    if r == 6:
        return Tree(0, 12, content="héllo€"[:rng.randrange(0, 7)].encode()), "T rs utf8"
    if r == 7:
        return Tree(0, 18, content=b"0123 45"[:rng.randrange(0, 8)]), "T rs num"
    if r == 8:
        return Tree(0, 19, content=b"Abc (1)+?"[:rng.randrange(0, 10)]), "T rs print"
    if r == 9:
        return Tree(0, 22, content=b"a@b.c\x00~"[:rng.randrange(0, 8)]), "T rs ia5"
    if r == 10:
        v = rng.choice([-1, -128, -129, 5, -32768])
        n = max(1, ((v if v >= 0 else ~v).bit_length() + 8) // 8)
        return Tree(0, 2, content=(v % (1 << (8 * n))).to_bytes(n, 'big')), "T integer"
    return Tree(0, 2, content=bytes([5])), "T skipu8if 5"

def case(rng, mode=None, mutate_p=0.3):
    """one (mode, data, script) test case"""
    mode = mode or rng.choice(["ber", "cer", "der"])
    enc_mode = mode if rng.random() < 0.85 else rng.choice(["ber", "cer", "der"])
    n = rng.choice([0, 1, 1, 2, 2, 3, 4])
    trees = []
    for _ in range(n):
        if rng.random() < 0.25:
            trees.append(typed_leaf(rng, mode)[0])
        else:
            trees.append(rand_tree(rng, enc_mode))
    data = b"".join(t.encode() for t in trees)
    script = steps_for(rng, trees)
    if rng.random() < mutate_p:
        data = mutate(rng, data)
    return mode, data, script

def canon_rest(req, ans):
    """by-value sources cannot report the octets left: drop that field on both sides"""
    toks = req.split(" ")
    if toks and toks[0] == "meter":
        toks = toks[1:]
    if len(toks) > 2 and toks[0] == "run":
        src = toks[2]
        if src in ("slicev", "bytesv") or src.startswith("osrc"):
            if ans.startswith("ok"):
                import re
                return re.sub(r" \| rest=[0-9?]+", "", ans)
    return ans


HEADS = [0x00, 0x01, 0x7f, 0x80, 0x81, 0xfe, 0xff]
LEAF_READERS = {
    0x02: ["T u8", "T ou8", "T u16", "T u32", "T u64", "T integer", "T unsigned", "T skipu8if 127", "tv X u8", "tv X u16", "tv X u32", "tv X u64",
           "tpi u2 [ int i8 ]", "tpi u2 [ int i16 ]", "tpi u2 [ int i32 ]", "tpi u2 [ int i64 ]", "tpi u2 [ int i128 ]",
           "tpi u2 [ int u8 ]", "tpi u2 [ int u16 ]", "tpi u2 [ int u32 ]", "tpi u2 [ int u64 ]", "tpi u2 [ int u128 ]",
           "tpi u2 [ integer ]", "tpi u2 [ unsigned ]"],
    0x01: ["T bool", "T obool", "tpi u1 [ bool ]"],
    0x05: ["T null", "T onull", "tpi u5 [ null ]", "tv X null"],
    0x06: ["T oid", "T ooid", "T oidskip", "T oidskipif 2a03", "tpi u6 [ oid ]", "tpi u6 [ oidskip ]"],
    0x03: ["T bits", "T bitsskip", "tv X bits", "tv X bitsskip"],
    0x04: ["T os", "T oos", "tv X os"],
    0x0c: ["T rs utf8", "tv X rs utf8"],
    0x12: ["T rs num"], 0x13: ["T rs print"], 0x16: ["T rs ia5"],
}

def leaf_battery(rng, n):
    """(mode, data, script): typed readers on boundary / malformed leaf contents"""
    out = []
    tags = list(LEAF_READERS)
    for _ in range(n):
        t = rng.choice(tags) if rng.random() < 0.5 else 0x02
        k = rng.choice([0, 1, 2, 2, 3, 3, 4, 5, 9, 17])
        c = bytes(rng.choice(HEADS) if (i < 2 and rng.random() < 0.8) else rng.randrange(256) for i in range(k))
        enc = bytes([t]) + length(len(c)) + c
        if rng.random() < 0.15:
            enc = enc + bytes([rng.choice([0x05, 0x02, 0x00])]) + b"\x00"
        if rng.random() < 0.1:
            enc = enc[:-1]
        out.append((rng.choice(["ber", "cer", "der"]), enc, rng.choice(LEAF_READERS[t])))
    return out


def truncated_leaves(tags=None):
    """(mode, data, script), systematically: every typed reader of the given tags on encodings whose
    announced length reaches beyond the octets that are there - at top level, inside a parent that
    announces them as well, and inside an honest parent (the child then claims more than the parent has).
    Deterministic.  Added after seeded change C19-5 turned out to be caught by a cross-stream sample only:
    every property that has typed readers runs this family for its own tags."""
    out = []
    samples = {
        0x02: [b"\x05", b"\x00\x80", b"\x7f\xff", b"\xff\x7f\x00"],
        0x01: [b"\xff", b"\x00"],
        0x05: [b""],
        0x06: [b"\x2a", b"\x2a\x86\x48", b"\x51\x83\x00"],
        0x03: [b"\x00", b"\x00\xaa", b"\x03\xa8"],
        0x04: [b"", b"ab", b"\x00" * 9],
        0x0c: [b"ab", b"\xc3\xa9"], 0x12: [b"12"], 0x13: [b"Ab"], 0x16: [b"ab"],
    }
    for t in (tags or list(LEAF_READERS)):
        for c in samples[t]:
            for extra in (1, 3, 130):
                enc = bytes([t]) + length(len(c) + extra) + c
                lying = b"\x30" + length(len(enc) + extra) + enc
                honest = b"\x30" + length(len(enc)) + enc
                for m in ("ber", "cer", "der"):
                    for rd in LEAF_READERS[t]:
                        out.append((m, enc, rd))
                        out.append((m, lying, "tc { %s }" % rd))
                        out.append((m, honest, "tc { %s }" % rd))
    return out
