#!/bin/sh
# Build everything the checks need from files on disk (offline).
set -e
cd "$(dirname "$0")/.."
export CARGO_NET_OFFLINE=true
( cd lean && lake build )
python3 - <<'PY'
import sys, os
sys.path.insert(0, "tools")
import check
b, err = check.build_harness()
if b is None:
    print(err); sys.exit(1)
print("harness:", b)
PY
