/-
  bcder_model — line-protocol driver around the executable model (`Bcder.Model.*`) and the
  reference definitions (`Bcder.Spec.*`, requests prefixed `spec.`).
  One request per line on stdin, one answer per line on stdout.
-/
import Bcder.Model.Parse
import Bcder.Model.Generic
import Bcder.Model.OssSource
import Bcder.Spec.X690
import Bcder.Spec.Values
import Bcder.Spec.Tlv
import Bcder.Spec.Encode
open Bcder

def clsMask (c : Nat) : UInt8 := UInt8.ofNat (c * 64)

def resStr (r : Res String) : String :=
  match r with
  | .ok s => s
  | .error e => e.toStr

def b01 (b : Bool) : String := if b then "1" else "0"

def tagInfo (t : Tag) (c : Bool) : String :=
  let cls := t.classBits.toNat / 64
  let canon := match Tag.new t.classBits t.number with
    | .ok t' => decide (t' = t)
    | .error _ => false
  s!"id={toHex (t.write c)} c={b01 c} num={t.number} cls={cls} canon={b01 canon}"

def onSlice (p : Prog α) (data : Bytes) : Res (α × Nat) :=
  match runG p { data := data, limit := none } with
  | .ok (a, s) => .ok (a, s.data.length)
  | .error e => .error e

def identHex (i : Spec.Ident) : String := toHex (Spec.identOctets i.cls i.constructed i.num)

partial def treeTrace : Spec.Tree → List String
  | .prim id c => [s!"v{identHex id}={toHex c}"]
  | .cons id _ kids => [s!"v{identHex id}("] ++ kids.flatMap treeTrace ++ [")"]

/-- the named tags: universal class assignments of X.680 (8.4, table 1) and the context-specific
    tags 0-6; written from the standard -/
def namedTags : List (String × Nat × Nat) :=
  [("END_OF_VALUE", 0, 0), ("BOOLEAN", 0, 1), ("INTEGER", 0, 2), ("BIT_STRING", 0, 3), ("OCTET_STRING", 0, 4), ("NULL", 0, 5), ("OID", 0, 6), ("OBJECT_DESCRIPTOR", 0, 7), ("EXTERNAL", 0, 8), ("REAL", 0, 9), ("ENUMERATED", 0, 10), ("EMBEDDED_PDV", 0, 11), ("UTF8_STRING", 0, 12), ("RELATIVE_OID", 0, 13), ("TIME", 0, 14), ("SEQUENCE", 0, 16), ("SET", 0, 17), ("NUMERIC_STRING", 0, 18), ("PRINTABLE_STRING", 0, 19), ("TELETEX_STRING", 0, 20), ("VIDEOTEX_STRING", 0, 21), ("IA5_STRING", 0, 22), ("UTC_TIME", 0, 23), ("GENERALIZED_TIME", 0, 24), ("GRAPHIC_STRING", 0, 25), ("VISIBLE_STRING", 0, 26), ("GENERAL_STRING", 0, 27), ("UNIVERSAL_STRING", 0, 28), ("CHARACTER_STRING", 0, 29), ("BMP_STRING", 0, 30), ("DATE", 0, 31), ("TIME_OF_DAY", 0, 32), ("DATE_TIME", 0, 33), ("DURATION", 0, 34), ("OID_IRI", 0, 35), ("RELATIVE_OID_IRI", 0, 36), ("CTX_0", 2, 0), ("CTX_1", 2, 1), ("CTX_2", 2, 2), ("CTX_3", 2, 3), ("CTX_4", 2, 4), ("CTX_5", 2, 5), ("CTX_6", 2, 6)]

def handleModel (toks : List String) : String :=
  match toks with
  | ["tag.const", name] =>
    match namedTags.find? (fun x => x.1 == name) with
    | some (_, c, n) =>
      resStr do
        let t ← Tag.new (clsMask c) n
        pure s!"ok w0={toHex (t.write false)} w1={toHex (t.write true)} len={t.encodedLen} num={t.number} cls={t.classBits.toNat / 64} eq=1 m=1"
    | none => "bad-op"
  | ["tag.new", cls, num] =>
    match cls.toNat?, num.toNat? with
    | some c, some n =>
      resStr do
        let t ← Tag.new (clsMask c) n
        pure s!"ok w0={toHex (t.write false)} w1={toHex (t.write true)} len={t.encodedLen} num={t.number} cls={t.classBits.toNat / 64}"
    | _, _ => "bad-op"
  | ["tag.take", hex] =>
    match ofHex hex with
    | some bs => resStr do
        let ((t, c), rest) ← onSlice Tag.takeFrom bs
        pure s!"ok {tagInfo t c} rest={rest}"
    | none => "bad-op"
  | ["tag.takeopt", hex] =>
    match ofHex hex with
    | some bs => resStr do
        let (r, rest) ← onSlice Tag.takeOptFrom bs
        match r with
        | some (t, c) => pure s!"ok {tagInfo t c} rest={rest}"
        | none => pure s!"none rest={rest}"
    | none => "bad-op"
  | ["tag.takeif", cls, num, hex] =>
    match cls.toNat?, num.toNat?, ofHex hex with
    | some c, some n, some bs => resStr do
        let t ← Tag.new (clsMask c) n
        let (r, rest) ← onSlice t.takeFromIf bs
        match r with
        | some c => pure s!"some c={b01 c} rest={rest}"
        | none => pure s!"none rest={rest}"
    | _, _, _ => "bad-op"
  | ["len.write", n] =>
    match n.toNat? with
    | some n => resStr do
        let h ← writeHeader Tag.OCTET_STRING false n
        let t ← totalEncodedLen Tag.OCTET_STRING n
        pure s!"ok {toHex (h.drop 1)} total={t}"
    | none => "bad-op"
  | ["len.read", mode, hex] =>
    match Mode.ofString mode, ofHex hex with
    | some m, some bs =>
      match onSlice (Length.takeFrom m) bs with
      | .ok (.definite n, _) => s!"def {n}"
      | .ok (.indefinite, _) => if m == .der then "err content" else "indef"
      | .error e => e.toStr
    | _, _ => "bad-op"
  | "run" :: mode :: src :: hex :: script =>
    match Mode.ofString mode, ofHex hex, parseScript script with
    | some m, some bs, some sc =>
      let showG0 : String :=
        match runScript m bs sc with
        | .ok (tr, rest) => s!"ok {" ".intercalate tr.toList} | rest={rest}"
        | .error e => e.toStr
      -- a purely generic read is also answered by the tree reader the C02 theorems are about
      let showG : String :=
        match sc with
        | [.all] =>
          let viaTree : String :=
            match runG (decodeTop m (readAll (bs.length + 4))) { data := bs, limit := none } with
            | .ok (ts, g) => s!"ok {" ".intercalate (ts.flatMap treeTrace)} | rest={g.data.length}"
            | .error e => e.toStr
          if viaTree == showG0 then showG0 else s!"MODEL-INCONSISTENT tree-reader={viaTree} trace-reader={showG0}"
        | _ => showG0
      -- streaming source kinds are answered by the stream layer when the script is capture-free
      let polOf (s : String) : Option Policy :=
        if s == "stingy" then some (fun _ len avail => min len avail)
        else if s == "all" then some (fun _ _ avail => avail)
        else if s.startsWith "plus" then (s.drop 4).toString.toNat?.map fun k => fun _ len avail => min (len + k) avail
        else if s.startsWith "chunk" then (s.drop 5).toString.toNat?.map fun c =>
          let c := max c 1
          fun _ len avail => min ((min len avail + c - 1) / c * c) avail
        else none
      let (polName, failAt, withCount) : String × Option Nat × Bool :=
        if src.startsWith "fail" then
          match ((src.drop 4).toString.splitOn ":") with
          | [k, pn] => (pn, k.toNat?, true)
          | _ => (src, none, false)
        else if src.startsWith "count:" then ((src.drop 6).toString, none, true)
        else (src, none, false)
      match polOf polName with
      | none => if withCount then "nomodel" else showG
      | some pol =>
        match runScriptS pol failAt m bs sc with
        | none => if withCount then "nomodel" else showG
        | some (r, reqs) =>
          let base := match r with
            | .ok (tr, rest) => s!"ok {" ".intercalate tr.toList} | rest={rest}"
            | .error e => e.toStr
          if withCount then s!"{base} | requests={reqs}" else base
    | _, _, _ => "bad-op"
  | "prim" :: mode :: hex :: ops =>
    match Mode.ofString mode, ofHex hex, parsePrimOps (ops.length + 2) (ops ++ ["]"]) with
    | some m, some bs, some (ops, []) =>
      match decodeSlice bs (primBody ops {} m) with
      | .ok (x, _) => s!"ok {" ".intercalate x.trace.toList}"
      | .error e => e.toStr
    | _, _, _ => "bad-op"
  | ["int.enc", ty, v] =>
    match parseIntTy ty, v.toInt? with
    | some ty, some v => s!"ok {toHex (encInt ty v)} len={encIntLen ty v}"
    | _, _ => "bad-op"
  | "enc" :: mode :: tree =>
    match Mode.ofString mode, parseEnc (tree.length + 2) tree with
    | some m, some (e, []) => resStr do
        let l ← e.encodedLen m
        let w ← e.write m
        pure s!"ok len={l} {toHex w}"
    | _, _ => "bad-op"
  | "rt" :: mode :: rest =>
    let tree := rest.takeWhile (· != ";;")
    let script := (rest.dropWhile (· != ";;")).drop 1
    match Mode.ofString mode, parseEnc (tree.length + 2) tree, parseScript script with
    | some m, some (e, []), some sc => resStr do
        let l ← e.encodedLen m
        let w ← e.write m
        let show1 (mm : Mode) : String :=
          match runScript mm w sc with
          | .ok (tr, rest) => s!"ok {" ".intercalate tr.toList} | rest={rest}"
          | .error err => err.toStr
        let base := s!"ok len={l} enc={toHex w} dec=[{show1 m}]"
        pure (if m == .der then base ++ s!" ber=[{show1 .ber}]" else base)
    | _, _, _ => "bad-op"
  | _ => "bad-op:model"


/-! ### leaf value requests -/

def integerOf (c : Bytes) : Option Bytes :=
  match decodeSlice c integerFromPrimitive with | .ok v => some v | _ => none
def unsignedOf (c : Bytes) : Option Bytes :=
  match decodeSlice c unsignedFromPrimitive with | .ok v => some v | _ => none

def allTys : List (String × IntTy) :=
  [("i8", .i8), ("i16", .i16), ("i32", .i32), ("i64", .i64), ("i128", .i128),
   ("u8", .u8), ("u16", .u16), ("u32", .u32), ("u64", .u64), ("u128", .u128)]

def convModel (c : Bytes) : Res String := do
  let parts ← allTys.mapM fun (n, ty) => do
    if ty.signed then
      match ← sliceToSigned ty.width c with
      | some v => pure s!"{n}={v}"
      | none => pure s!"{n}=ovf"
    else
      match ← sliceToUnsigned ty.width c with
      | some v => pure s!"{n}={v}"
      | none => pure s!"{n}=ovf"
  pure (" ".intercalate parts)

def convSpec (c : Bytes) : String :=
  let v := Spec.tcValue c
  " ".intercalate (allTys.map fun (n, ty) =>
    if Spec.inRange ty.signed ty.width v then s!"{n}={v}" else s!"{n}=ovf")

/-- the value read through `OctetStringSource`: request 1, 2, 3, 5, 1, … octets at a time -/
def osDrain (os : OS) : Res Bytes :=
  let rec go : Nat → Nat → OSS → Bytes → Res Bytes
    | 0, _, _, acc => .ok acc
    | fuel + 1, i, s, acc =>
      let k := [1, 2, 3, 5][i % 4]!
      match s.request k with
      | .error e => .error e
      | .ok (n, s1) =>
        if n == 0 then .ok acc
        else
          let t := min n k
          match s1.advance t with
          | .error e => .error e
          | .ok s2 => go fuel (i + 1) s2 (acc ++ s1.current.take t)
  go (match os with | .prim b => b.length + 2 | .cons c => c.length + 2) 0 (OSS.new os) []


/-- `oss.calls`: the call tokens `rN` (request N) and `aK` (advance min(K, what is granted)) -/
def parseCallToks (toks : List String) : Option (List (Nat × Nat)) :=
  toks.mapM fun t =>
    match t.toList with
    | 'r' :: ds => (String.ofList ds).toNat?.map fun n => (0, n)
    | 'a' :: ds => (String.ofList ds).toNat?.map fun n => (1, n)
    | ['u'] => some (2, 0)                       -- the provided `take_opt_u8`
    | 'k' :: ds => (String.ofList ds).toNat?.map fun n => (3, n)   -- the provided `skip`
    | _ => none

def seenStr : Seen → String
  | .granted g sl => s!"g{g}:{toHex sl}"
  | .advanced sl => s!"a:{toHex sl}"
  | .refused => "refused"

/-- through the model of `OctetStringSource` (each step is `ossRun` on a single call; the provided
    methods `take_opt_u8` and `skip` are their default implementations over `request`/`slice`/`advance`) -/
def ossCallsModel (os : OS) (calls : List (Nat × Nat)) : String :=
  let rec go : List (Nat × Nat) → OSS → List String → List String
    | [], _, acc => acc.reverse
    | (0, n) :: cs, s, acc =>
      match OSS.request s n with
      | .ok (_, s') => go cs s' ((ossRun [.request n] s).map seenStr ++ acc)
      | .error _ => (("refused") :: acc).reverse
    | (1, k) :: cs, s, acc =>
      let t := min k s.current.length
      match OSS.advance s t with
      | .ok s' => go cs s' ((ossRun [.advance t] s).map seenStr ++ acc)
      | .error _ => (("refused") :: acc).reverse
    | (2, _) :: cs, s, acc =>
      match OSS.request s 1 with
      | .ok (g, s1) =>
        if g == 0 then go cs s1 (s!"unone:{toHex s1.current}" :: acc)
        else match s1.current.head?, OSS.advance s1 1 with
          | some b, .ok s2 => go cs s2 (s!"u{toHex [b]}:{toHex s2.current}" :: acc)
          | _, _ => (("refused") :: acc).reverse
      | .error _ => (("refused") :: acc).reverse
    | (_, n) :: cs, s, acc =>
      match OSS.request s n with
      | .ok (g, s1) =>
        let r := min g n
        match OSS.advance s1 r with
        | .ok s2 => go cs s2 (s!"k{r}:{toHex s2.current}" :: acc)
        | .error _ => (("refused") :: acc).reverse
      | .error _ => (("refused") :: acc).reverse
  " ".intercalate (go calls (OSS.new os) [])

/-- through the abstract conforming source of the stream layer with the policy `ossPol segs` -/
def ossCallsSpec (segs : List Bytes) (granted0 : Nat) (calls : List (Nat × Nat)) : String :=
  let pol := ossPol segs
  let rec go : List (Nat × Nat) → S → List String → List String
    | [], _, acc => acc.reverse
    | (0, n) :: cs, a, acc =>
      match a.baseRequest pol n with
      | .ok (_, a') => go cs a' ((absRun pol [.request n] a).map seenStr ++ acc)
      | .error _ => (("refused") :: acc).reverse
    | (1, k) :: cs, a, acc =>
      let t := min k a.granted
      match a.advance t with
      | .ok a' => go cs a' ((absRun pol [.advance t] a).map seenStr ++ acc)
      | .error _ => (("refused") :: acc).reverse
    | (2, _) :: cs, a, acc =>
      match a.baseRequest pol 1 with
      | .ok (g, a1) =>
        if g == 0 then go cs a1 (s!"unone:{toHex a1.slice}" :: acc)
        else match a1.slice.head?, a1.advance 1 with
          | some b, .ok a2 => go cs a2 (s!"u{toHex [b]}:{toHex a2.slice}" :: acc)
          | _, _ => (("refused") :: acc).reverse
      | .error _ => (("refused") :: acc).reverse
    | (_, n) :: cs, a, acc =>
      match a.baseRequest pol n with
      | .ok (g, a1) =>
        let r := min g n
        match a1.advance r with
        | .ok a2 => go cs a2 (s!"k{r}:{toHex a2.slice}" :: acc)
        | .error _ => (("refused") :: acc).reverse
      | .error _ => (("refused") :: acc).reverse
  " ".intercalate (go calls { data := segs.flatten, granted := granted0, reqs := 0, failAt := none, limit := none } [])

def osViews (os : OS) : Res String := do
  let segs ← os.segments
  let bytes ← os.octets
  let len ← os.len
  let empty ← os.isEmpty
  let segStr := if segs.isEmpty then "none" else ",".intercalate (segs.map toHex)
  let slice := match os.asSlice with | some s => toHex s | none => "none"
  let src ← osDrain os
  pure s!"segs={segStr} bytes={toHex bytes} into={toHex bytes} len={len} empty={b01 empty} octets={toHex bytes} slice={slice} src={toHex src}"

def charsStr (l : List Nat) : String := if l.isEmpty then "-" else ",".intercalate (l.map toString)

def utf8Of (c : Nat) : Bytes := Spec.utf8Encode c

def rsOf (cs : CharSet) (m : Mode) (enc : Bytes) : Res OS :=
  let fuel := enc.length + 4
  match runG (decodeTop m (fun c => do
      let (os, c') ← takeValueIf c cs.tag (RS.fromContent cs fuel)
      pure (os, c'))) { data := enc, limit := none } with
  | .ok (os, _) => .ok os
  | .error e => .error e

def bitStr (l : List Bool) : String := if l.isEmpty then "-" else String.ofList (l.map fun b => if b then '1' else '0')

def handleLeaf (toks : List String) : String :=
  match toks with
  | ["big.cmp", a, b] =>
    match (ofHex a).bind integerOf, (ofHex b).bind integerOf with
    | some x, some y => resStr do
        let o ← BigInt.cmp x y
        pure s!"cmp={ordStr o} pcmp={ordStr o} eq={b01 (BigInt.eq x y)} hasheq={b01 (x == y)}"
    | _, _ => if (ofHex a).isSome && (ofHex b).isSome then "invalid" else "bad-op"
  | ["big.pred", a] =>
    match ofHex a with
    | none => "bad-op"
    | some c =>
      match integerOf c with
      | some x => resStr do
          pure s!"z={b01 (BigInt.isZero x)} p={b01 (← BigInt.isPositive x)} n={b01 (← BigInt.isNegative x)}"
      | none => "invalid"
  | ["big.conv", a] =>
    match ofHex a with
    | none => "bad-op"
    | some c => match integerOf c with | some x => resStr (convModel x) | none => "invalid"
  | ["ubig.conv", a] =>
    match ofHex a with
    | none => "bad-op"
    | some c =>
      match unsignedOf c with
      | some x => resStr do pure s!"{← convModel x} z={b01 (BigInt.isZero x)}"
      | none => "invalid"
  | ["big.from", ty, v] =>
    match parseIntTy ty, v.toInt? with
    | some ty, some v => s!"ok {toHex (encInt ty v)}"
    | _, _ => "bad-op"
  | ["uns.frombytes", a] =>
    match ofHex a with
    | none => "bad-op"
    | some c => resStr do
        match ← unsignedFromBytes c with
        | some r => pure s!"ok {toHex r}"
        | none => pure "err"
  | ["os.views", mode, enc] =>
    match Mode.ofString mode, ofHex enc with
    | some m, some e => resStr do let os ← osOf m e; pure s!"ok {← osViews os}"
    | _, _ => "bad-op"
  | "oss.calls" :: mode :: enc :: calls =>
    match Mode.ofString mode, ofHex enc, parseCallToks calls with
    | some m, some e, some cs => resStr do let os ← osOf m e; pure s!"ok {ossCallsModel os cs}"
    | _, _, _ => "bad-op"
  | ["os.cmp", mode, ea, eb] =>
    match Mode.ofString mode, ofHex ea, ofHex eb with
    | some m, some a, some b =>
      match osOf m a, osOf m b with
      | .ok x, .ok y => resStr do
          let o ← OS.cmp x y
          let (la, fa) ← OS.hashFeed x
          let (lb, fb) ← OS.hashFeed y
          pure s!"ok cmp={ordStr o} pcmp={ordStr o} eq={b01 (← OS.eq x y)} hasheq={b01 (la == lb && fa == fb)}"
      | .error (.panic p), _ => "PANIC " ++ p
      | _, .error (.panic p) => "PANIC " ++ p
      | _, _ => "err content"
    | _, _, _ => "bad-op"
  | ["os.cmps", mode, ea, t] =>
    match Mode.ofString mode, ofHex ea, ofHex t with
    | some m, some a, some t => resStr do
        let x ← osOf m a
        pure s!"ok eq={b01 (← OS.eqSlice x t)} pcmp={ordStr (← OS.cmpSlice x t)}"
    | _, _, _ => "bad-op"
  | ["cs.chars", cs, mode, enc] =>
    match parseCharSet cs, Mode.ofString mode, ofHex enc with
    | some cs, some m, some e => resStr do
        let os ← rsOf cs m e
        let chars ← RS.chars cs os
        pure s!"ok chars={charsStr chars} disp={toHex (chars.flatMap utf8Of)}"
    | _, _, _ => "bad-op"
  | ["cs.fromstr", cs, text] =>
    match parseCharSet cs, ofHex text with
    | some cs, some t => resStr do
        match ← cs.fromStr t with
        | some bs => do
          let chars ← RS.chars cs (.prim bs)
          pure s!"ok {toHex bs} chars={charsStr chars}"
        | none => pure "err"
    | _, _ => "bad-op"
  | ["cs.new", cs, mode, enc] =>
    match parseCharSet cs, Mode.ofString mode, ofHex enc with
    | some cs, some m, some e =>
      match osOf m e with
      | .error (.panic p) => "PANIC " ++ p
      | .error _ => "err content"
      | .ok os => resStr do
        match ← RS.new cs os with
        | some os => do pure s!"ok chars={charsStr (← RS.chars cs os)}"
        | none => pure "err charset"
    | _, _, _ => "bad-op"
  | ["oid.show", c] =>
    match ofHex c with
    | some c => resStr do
        let txt ← Oid.display c
        let comps ← Oid.components c
        let arcs := comps.map fun (p, s) => match Oid.toU32 p s with | some v => toString v | none => "big"
        pure s!"ok txt={toHex txt} arcs={",".intercalate arcs}"
    | none => "bad-op"
  | ["oid.parse", t] =>
    match ofHex t with
    | some t => match Oid.fromStr t with | some c => s!"ok {toHex c}" | none => "err"
    | none => "bad-op"
  | ["oid.eq", a, b] =>
    match ofHex a, ofHex b with
    | some a, some b => s!"eq={b01 (Oid.eq a b)} hasheq={b01 (Oid.hashInput a == Oid.hashInput b)}"
    | _, _ => "bad-op"
  | ["bits.bit", unused, bits, lo, hi] =>
    match unused.toNat?, ofHex bits, lo.toNat?, hi.toNat? with
    | some u, some bs, some lo, some hi =>
      resStr do
        let b ← BitString.new (UInt8.ofNat u) bs
        let len ← b.bitLen
        let l := (List.range (hi - lo)).map fun i => b.bit (lo + i)
        let sl := match b.octetSlice with | some x => toHex x | none => "none"
        pure s!"len={len} unused={b.unusedBits.toNat} olen={b.octetLen} bits={bitStr l} octets={toHex b.octets} slice={sl} obytes={toHex b.octetBytes}"
    | _, _, _, _ => "bad-op"
  | _ => "bad-op"

def specCS : CharSet → Spec.CS
  | .utf8 => .utf8 | .numeric => .numeric | .printable => .printable | .ia5 => .ia5

def handleSpecLeaf (toks : List String) : String :=
  match toks with
  | ["big.cmp", a, b] =>
    match ofHex a, ofHex b with
    | some x, some y =>
      if !(Spec.isMinimalTC x && Spec.isMinimalTC y) then "invalid" else
      let o := compare (Spec.tcValue x) (Spec.tcValue y)
      let e := Spec.tcValue x == Spec.tcValue y
      s!"cmp={ordStr o} pcmp={ordStr o} eq={b01 e} hasheq={b01 e}"
    | _, _ => "bad-op"
  | ["big.pred", a] =>
    match ofHex a with
    | some x =>
      if !Spec.isMinimalTC x then "invalid" else
      let v := Spec.tcValue x
      s!"z={b01 (v == 0)} p={b01 (decide (0 < v))} n={b01 (decide (v < 0))}"
    | none => "bad-op"
  | ["big.conv", a] =>
    match ofHex a with
    | some x => if !Spec.isMinimalTC x then "invalid" else convSpec x
    | none => "bad-op"
  | ["ubig.conv", a] =>
    match ofHex a with
    | some x =>
      if !Spec.isMinimalTC x || Spec.tcValue x < 0 then "invalid"
      else s!"{convSpec x} z={b01 (Spec.tcValue x == 0)}"
    | none => "bad-op"
  | ["big.from", ty, v] =>
    match parseIntTy ty, v.toInt? with
    | some _, some v => s!"ok {toHex (Spec.minimalTC v)}"
    | _, _ => "bad-op"
  | ["uns.frombytes", a] =>
    match ofHex a with
    | some c => if c.isEmpty then "err" else s!"ok {toHex (Spec.minimalTC (beValue c))}"
    | none => "bad-op"
  | ["bits.bit", unused, bits, lo, hi] =>
    match unused.toNat?, ofHex bits, lo.toNat?, hi.toNat? with
    | some u, some bs, some lo, some hi =>
      if u > 7 || (bs.isEmpty && u != 0) then "nospec" else
      let sb := Spec.specBits u bs
      let l := (List.range (hi - lo)).map fun i => (sb[lo + i]?).getD false
      s!"len={8 * bs.length - u} unused={u} olen={bs.length} bits={bitStr l} octets={toHex bs} slice={toHex bs} obytes={toHex bs}"
    | _, _, _, _ => "bad-op"
  | ["oid.parse", t] =>
    match ofHex t with
    | some t => match Spec.parseOid t with | some c => s!"ok {toHex c}" | none => "err"
    | none => "bad-op"
  | ["oid.show", c] =>
    match ofHex c with
    | some c =>
      match Spec.contentToArcs c with
      | none => "nospec"
      | some arcs =>
        -- only defined by the property when every minimally encoded sub-identifier fits 32 bits
        match Spec.subIds c with
        | some subs =>
          if subs.all (fun s => s.head? != some 0x80 && Spec.subIdValue s < 2 ^ 32) then
            s!"ok txt={toHex (Spec.dotted arcs)} arcs={",".intercalate (arcs.map toString)}"
          else "nospec"
        | none => "nospec"
    | none => "bad-op"
  | ["oid.eq", a, b] =>
    match ofHex a, ofHex b with
    | some a, some b => s!"eq={b01 (Oid.eq a b)} hasheq={b01 (Oid.hashInput a == Oid.hashInput b)}"
    | _, _ => "bad-op"
  | ["cs.fromstr", cs, text] =>
    match parseCharSet cs, ofHex text with
    | some cs, some t =>
      match Spec.csDecode (specCS cs) t with
      | some chars => s!"ok {toHex t} chars={charsStr chars}"
      | none => "err"
    | _, _ => "bad-op"
  | _ => "nospec"

/-! ### reference answers from the TLV grammar -/

def specMode : Mode → Spec.M | .ber => .ber | .cer => .cer | .der => .der

/-- the first value of the input (top level: whatever follows is not looked at) -/
def specSingle (m : Mode) (enc : Bytes) : Option Spec.Tree :=
  match Spec.parseValue (specMode m) (enc.length + 2) enc with
  | some (t, _) => some t
  | none => none

/-- content of an accepted string value with the given universal tag number -/
def specString (m : Mode) (tagNum : UInt8) (enc : Bytes) : Option (Spec.Tree × Bytes) :=
  match specSingle m enc with
  | none => none
  | some t =>
    if !Spec.osAccept (specMode m) t then none
    else match Spec.osContent tagNum.toNat (enc.length + 2) t with
      | some c => some (t, c)
      | none => none

def specIdentStr (i : Spec.Ident) : String :=
  s!"id={toHex (Spec.identOctets i.cls i.constructed i.num)} c={b01 i.constructed} num={i.num} cls={i.cls} canon=1"

def handleSpecTlv (toks : List String) : String :=
  match toks with
  | ["tag.take", hex] =>
    match ofHex hex with
    | some bs =>
      match Spec.readIdent bs with
      | some (i, k) => s!"ok {specIdentStr i} rest={bs.length - k}"
      | none => "err content"
    | none => "bad-op"
  | ["tag.takeopt", hex] =>
    match ofHex hex with
    | some bs =>
      if bs.isEmpty then "none rest=0" else
      match Spec.readIdent bs with
      | some (i, k) => s!"ok {specIdentStr i} rest={bs.length - k}"
      | none => "err content"
    | none => "bad-op"
  | ["tag.takeif", cls, num, hex] =>
    match cls.toNat?, num.toNat?, ofHex hex with
    | some c, some n, some bs =>
      if bs.isEmpty then "none rest=0" else
      match Spec.readIdent bs with
      | some (i, k) =>
        if i.cls == c && i.num == n then s!"some c={b01 i.constructed} rest={bs.length - k}"
        else s!"none rest={bs.length}"
      | none => "err content"
    | _, _, _ => "bad-op"
  | ["run", mode, _src, hex, "all"] =>
    match Mode.ofString mode, ofHex hex with
    | some m, some bs =>
      match Spec.parseAll (specMode m) (bs.length + 2) bs with
      | some ts => s!"ok {" ".intercalate (ts.flatMap treeTrace)} | rest=0"
      | none => "err content"
    | _, _ => "bad-op"
  | ["os.views", mode, enc] =>
    match Mode.ofString mode, ofHex enc with
    | some m, some e =>
      match specString m 0x04 e with
      | none => "err content"
      | some (t, c) =>
        let segs : List Bytes := match t with
          | .prim _ c => if c.isEmpty then [] else [c]
          | t => Spec.osSegments (e.length + 2) t
        let segStr := if segs.isEmpty then "none" else ",".intercalate (segs.map toHex)
        let slice := match t with | .prim _ c => toHex c | _ => "none"
        s!"ok segs={segStr} bytes={toHex c} into={toHex c} len={c.length} empty={b01 c.isEmpty} octets={toHex c} slice={slice} src={toHex c}"
    | _, _ => "bad-op"
  | "oss.calls" :: mode :: enc :: calls =>
    match Mode.ofString mode, ofHex enc, parseCallToks calls with
    | some m, some e, some cs =>
      match specString m 0x04 e with
      | none => "err content"
      | some (t, _) =>
        -- the segments the grammar sees, and the abstract conforming source over them
        match t with
        | .prim _ c => s!"ok {ossCallsSpec [c] c.length cs}"
        | t => s!"ok {ossCallsSpec (Spec.osSegments (e.length + 2) t) 0 cs}"
    | _, _, _ => "bad-op"
  | ["os.cmp", mode, ea, eb] =>
    match Mode.ofString mode, ofHex ea, ofHex eb with
    | some m, some a, some b =>
      match specString m 0x04 a, specString m 0x04 b with
      | some (_, x), some (_, y) =>
        let o := Spec.lexCompare x y
        s!"ok cmp={ordStr o} pcmp={ordStr o} eq={b01 (x == y)} hasheq={b01 (x == y)}"
      | _, _ => "err content"
    | _, _, _ => "bad-op"
  | ["os.cmps", mode, ea, t] =>
    match Mode.ofString mode, ofHex ea, ofHex t with
    | some m, some a, some t =>
      match specString m 0x04 a with
      | some (_, x) => s!"ok eq={b01 (x == t)} pcmp={ordStr (Spec.lexCompare x t)}"
      | none => "err content"
    | _, _, _ => "bad-op"
  | ["cs.chars", cs, mode, enc] =>
    match parseCharSet cs, Mode.ofString mode, ofHex enc with
    | some cs, some m, some e =>
      match specString m cs.tag.d0 e with
      | none => "err content"
      | some (_, c) =>
        match Spec.csDecode (specCS cs) c with
        | some chars => s!"ok chars={charsStr chars} disp={toHex (chars.flatMap Spec.utf8Encode)}"
        | none => "err content"
    | _, _, _ => "bad-op"
  | ["cs.new", cs, mode, enc] =>
    match parseCharSet cs, Mode.ofString mode, ofHex enc with
    | some cs, some m, some e =>
      match specString m 0x04 e with
      | none => "err content"
      | some (_, c) =>
        match Spec.csDecode (specCS cs) c with
        | some chars => s!"ok chars={charsStr chars}"
        | none => "err charset"
    | _, _, _ => "bad-op"
  | _ => "nospec"

def handleSpec (toks : List String) : String :=
  match toks with
  | ["tag.const", name] =>
    match namedTags.find? (fun x => x.1 == name) with
    | some (_, c, n) =>
      let w0 := Spec.identOctets c false n
      s!"ok w0={toHex w0} w1={toHex (Spec.identOctets c true n)} len={w0.length} num={n} cls={c} eq=1 m=1"
    | none => "bad-op"
  | ["tag.new", cls, num] =>
    match cls.toNat?, num.toNat? with
    | some c, some n =>
      if n > 0x1fffff then "bad-op" else
      let w0 := Spec.identOctets c false n
      s!"ok w0={toHex w0} w1={toHex (Spec.identOctets c true n)} len={w0.length} num={n} cls={c}"
    | _, _ => "bad-op"
  | ["len.write", n] =>
    match n.toNat? with
    | some n =>
      let l := Spec.lenOctets n
      s!"ok {toHex l} total={1 + l.length + n}"
    | none => "bad-op"
  | ["int.enc", ty, v] =>
    match parseIntTy ty, v.toInt? with
    | some _, some v => let o := Spec.minimalTC v; s!"ok {toHex o} len={o.length}"
    | _, _ => "bad-op"
  | ["len.read", mode, hex] =>
    match Mode.ofString mode, ofHex hex with
    | some m, some bs =>
      match Spec.readLen m.isBer bs with
      | some (some n, _) => s!"def {n}"
      | some (none, _) => if m == .der then "err content" else "indef"
      | none => "err content"
    | _, _ => "bad-op"
  | ["prim", mode, hex, "int", ty] =>
    match Mode.ofString mode, ofHex hex, parseIntTy ty with
    | some _, some c, some ty =>
      match Spec.decodeInt ty.signed ty.width c with
      | some v => s!"ok i{v}"
      | none => "err content"
    | _, _, _ => "bad-op"
  | ["prim", mode, hex, "bool"] =>
    match Mode.ofString mode, ofHex hex with
    | some m, some c =>
      match Spec.decodeBool m.isBer c with
      | some b => s!"ok b{b01 b}"
      | none => "err content"
    | _, _ => "bad-op"
  | ["prim", mode, hex, "null"] =>
    match Mode.ofString mode, ofHex hex with
    | some _, some c => if c.isEmpty then "ok n" else "err content"
    | _, _ => "bad-op"
  | "enc" :: mode :: tree =>
    match Mode.ofString mode, parseEnc (tree.length + 2) tree with
    | some m, some (e, []) =>
      match Spec.encode m e with
      | some w => s!"ok len={w.length} {toHex w}"
      | none => "nospec"
    | _, _ => "bad-op"
  | _ =>
    let r := handleSpecLeaf toks
    if r == "nospec" then handleSpecTlv toks else r

def handle (line : String) : String :=
  let toks := (line.trimAscii.toString.splitOn " ").filter (· ≠ "")
  match toks with
  | [] => "bad-op"
  | op :: rest =>
    if op.startsWith "spec." then handleSpec ((op.drop 5).toString :: rest)
    else
      let r := handleModel toks
      if r == "bad-op:model" then handleLeaf toks else r

partial def loop (inp : IO.FS.Stream) (out : IO.FS.Stream) : IO Unit := do
  let line ← inp.getLine
  if line.isEmpty then return ()
  out.putStrLn (handle line)
  loop inp out

def main : IO Unit := do
  let inp ← IO.getStdin
  let out ← IO.getStdout
  loop inp out
  out.flush
