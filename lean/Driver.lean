/-
  bcder_model — line-protocol driver around the executable model (`Bcder.Model.*`) and the
  reference definitions (`Bcder.Spec.*`, requests prefixed `spec.`).
  One request per line on stdin, one answer per line on stdout.
-/
import Bcder.Model.Parse
import Bcder.Spec.X690
open Bcder

def clsMask (c : Nat) : UInt8 := UInt8.ofNat (c * 64)

def resStr (r : Res String) : String :=
  match r with
  | .ok s => s
  | .error e => e.toStr

def b01 (b : Bool) : String := if b then "1" else "0"

def tagInfo (t : Tag) (c : Bool) : String :=
  let cls := t.classBits.toNat / 64
  let canon := match Tag.new t.classBits t.number with
    | .ok t' => decide (t' = t)
    | .error _ => false
  s!"id={toHex (t.write c)} c={b01 c} num={t.number} cls={cls} canon={b01 canon}"

def onSlice (p : Prog α) (data : Bytes) : Res (α × Nat) :=
  match runG p { data := data, limit := none } with
  | .ok (a, s) => .ok (a, s.data.length)
  | .error e => .error e

def handleModel (toks : List String) : String :=
  match toks with
  | ["tag.new", cls, num] =>
    match cls.toNat?, num.toNat? with
    | some c, some n =>
      resStr do
        let t ← Tag.new (clsMask c) n
        pure s!"ok w0={toHex (t.write false)} w1={toHex (t.write true)} len={t.encodedLen} num={t.number} cls={t.classBits.toNat / 64}"
    | _, _ => "bad-op"
  | ["tag.take", hex] =>
    match ofHex hex with
    | some bs => resStr do
        let ((t, c), rest) ← onSlice Tag.takeFrom bs
        pure s!"ok {tagInfo t c} rest={rest}"
    | none => "bad-op"
  | ["tag.takeopt", hex] =>
    match ofHex hex with
    | some bs => resStr do
        let (r, rest) ← onSlice Tag.takeOptFrom bs
        match r with
        | some (t, c) => pure s!"ok {tagInfo t c} rest={rest}"
        | none => pure s!"none rest={rest}"
    | none => "bad-op"
  | ["tag.takeif", cls, num, hex] =>
    match cls.toNat?, num.toNat?, ofHex hex with
    | some c, some n, some bs => resStr do
        let t ← Tag.new (clsMask c) n
        let (r, rest) ← onSlice t.takeFromIf bs
        match r with
        | some c => pure s!"some c={b01 c} rest={rest}"
        | none => pure s!"none rest={rest}"
    | _, _, _ => "bad-op"
  | ["len.write", n] =>
    match n.toNat? with
    | some n => resStr do
        let h ← writeHeader Tag.OCTET_STRING false n
        let t ← totalEncodedLen Tag.OCTET_STRING n
        pure s!"ok {toHex (h.drop 1)} total={t}"
    | none => "bad-op"
  | ["len.read", mode, hex] =>
    match Mode.ofString mode, ofHex hex with
    | some m, some bs =>
      match onSlice (Length.takeFrom m) bs with
      | .ok (.definite n, _) => s!"def {n}"
      | .ok (.indefinite, _) => if m == .der then "err content" else "indef"
      | .error e => e.toStr
    | _, _ => "bad-op"
  | "run" :: mode :: _src :: hex :: script =>
    match Mode.ofString mode, ofHex hex, parseScript script with
    | some m, some bs, some sc =>
      match runScript m bs sc with
      | .ok (tr, rest) => s!"ok {" ".intercalate tr.toList} | rest={rest}"
      | .error e => e.toStr
    | _, _, _ => "bad-op"
  | "prim" :: mode :: hex :: ops =>
    match Mode.ofString mode, ofHex hex, parsePrimOps (ops.length + 2) (ops ++ ["]"]) with
    | some m, some bs, some (ops, []) =>
      match decodeSlice bs (primBody ops {} m) with
      | .ok (x, _) => s!"ok {" ".intercalate x.trace.toList}"
      | .error e => e.toStr
    | _, _, _ => "bad-op"
  | ["int.enc", ty, v] =>
    match parseIntTy ty, v.toInt? with
    | some ty, some v => s!"ok {toHex (encInt ty v)} len={encIntLen ty v}"
    | _, _ => "bad-op"
  | _ => "bad-op"

def handleSpec (toks : List String) : String :=
  match toks with
  | ["tag.new", cls, num] =>
    match cls.toNat?, num.toNat? with
    | some c, some n =>
      if n > 0x1fffff then "bad-op" else
      let w0 := Spec.identOctets c false n
      s!"ok w0={toHex w0} w1={toHex (Spec.identOctets c true n)} len={w0.length} num={n} cls={c}"
    | _, _ => "bad-op"
  | ["len.write", n] =>
    match n.toNat? with
    | some n =>
      let l := Spec.lenOctets n
      s!"ok {toHex l} total={1 + l.length + n}"
    | none => "bad-op"
  | ["int.enc", ty, v] =>
    match parseIntTy ty, v.toInt? with
    | some _, some v => let o := Spec.minimalTC v; s!"ok {toHex o} len={o.length}"
    | _, _ => "bad-op"
  | ["len.read", mode, hex] =>
    match Mode.ofString mode, ofHex hex with
    | some m, some bs =>
      match Spec.readLen m.isBer bs with
      | some (some n, _) => s!"def {n}"
      | some (none, _) => if m == .der then "err content" else "indef"
      | none => "err content"
    | _, _ => "bad-op"
  | _ => "nospec"

def handle (line : String) : String :=
  let toks := (line.trimAscii.toString.splitOn " ").filter (· ≠ "")
  match toks with
  | [] => "bad-op"
  | op :: rest =>
    if op.startsWith "spec." then handleSpec ((op.drop 5).toString :: rest)
    else handleModel toks

partial def loop (inp : IO.FS.Stream) (out : IO.FS.Stream) : IO Unit := do
  let line ← inp.getLine
  if line.isEmpty then return ()
  out.putStrLn (handle line)
  loop inp out

def main : IO Unit := do
  let inp ← IO.getStdin
  let out ← IO.getStdout
  loop inp out
  out.flush
