def hello := "world"
