/-
  Bcder.Model.Source — the way library code touches a `Source`
  (src/decode/source.rs: `Source`, `SliceSource`, `BytesSource`, `LimitedSource`, `CaptureSource`).

  All decoding code of the model is written in the free monad `Prog` over the access patterns `Op`.
  `runG` is the "generous" semantics: the base source holds all remaining octets
  (`SliceSource`/`BytesSource`: `request` returns everything), wrapped in a `LimitedSource`,
  possibly inside `CaptureSource` frames.

  Rust access pattern                                             Op
  ---------------------------------------------------------------------------------
  request(1)? < 1 → none ; slice()[0] ; advance(1)                takeOptU8      (Source::take_u8 / take_opt_u8)
  request(i+1)? <= i → none ; slice()[i]                          peekAt i       (Tag::take_from_if)
  n = request(2)? ; slice().first() ; slice().get(1)              peek2          (Integer::check_head; returns min(n,2) too)
  request(n)? >= n                                                need n         (skip_all, take_all, slice_all, skip_opt, exhausted)
  bytes(0,n) ; advance(n)        (after need n)                   takeN n        (LimitedSource::take_all)
  advance(n)                     (after need n)                   skipN n        (LimitedSource::skip_all, with_slice_all, skip_opt)
  &slice()[..n]                  (after need n)                   sliceN n       (slice_all, with_slice_all)
  limit()                                                         getLimit
  set_limit(l)                                                    setLimit l
  min(request(n)?, n)                                             reqCapped n    (Source::skip, caller scripts)
  CaptureSource::new / into_bytes                                 capBegin / capEnd
-/
import Bcder.Model.Basic
namespace Bcder

inductive Op
  | takeOptU8
  | peekAt (i : Nat)
  | peek2
  | need (n : Nat)
  | takeN (n : Nat)
  | skipN (n : Nat)
  | sliceN (n : Nat)
  | getLimit
  | setLimit (l : Option Nat)
  | reqCapped (n : Nat)
  | capBegin
  | capEnd
  | getPos
deriving Repr

inductive Resp
  | unit
  | byte (b : Option UInt8)
  | peek (n : Nat) (a b : Option UInt8)
  | bool (b : Bool)
  | bytes (bs : Bytes)
  | lim (l : Option Nat)
  | nat (n : Nat)
deriving Repr, Inhabited

inductive Prog (α : Type) : Type
  | ret (a : α)
  | fail (e : Err)
  | op (o : Op) (k : Resp → Prog α)

namespace Prog

def bind : Prog α → (α → Prog β) → Prog β
  | ret a, f => f a
  | fail e, _ => fail e
  | op o k, f => op o (fun r => (k r).bind f)

instance : Monad Prog where
  pure := Prog.ret
  bind := Prog.bind

/-! typed wrappers for the operations -/
def takeOptU8 : Prog (Option UInt8) :=
  .op .takeOptU8 fun | .byte b => .ret b | _ => .fail (.panic "resp")
def peekAt (i : Nat) : Prog (Option UInt8) :=
  .op (.peekAt i) fun | .byte b => .ret b | _ => .fail (.panic "resp")
def peek2 : Prog (Nat × Option UInt8 × Option UInt8) :=
  .op .peek2 fun | .peek n a b => .ret (n, a, b) | _ => .fail (.panic "resp")
def need (n : Nat) : Prog Bool :=
  .op (.need n) fun | .bool b => .ret b | _ => .fail (.panic "resp")
def takeN (n : Nat) : Prog Bytes :=
  .op (.takeN n) fun | .bytes b => .ret b | _ => .fail (.panic "resp")
def skipN (n : Nat) : Prog Unit :=
  .op (.skipN n) fun | .unit => .ret () | _ => .fail (.panic "resp")
def sliceN (n : Nat) : Prog Bytes :=
  .op (.sliceN n) fun | .bytes b => .ret b | _ => .fail (.panic "resp")
def getLimit : Prog (Option Nat) :=
  .op .getLimit fun | .lim l => .ret l | _ => .fail (.panic "resp")
def setLimit (l : Option Nat) : Prog Unit :=
  .op (.setLimit l) fun | .unit => .ret () | _ => .fail (.panic "resp")
def reqCapped (n : Nat) : Prog Nat :=
  .op (.reqCapped n) fun | .nat n => .ret n | _ => .fail (.panic "resp")
def capBegin : Prog Unit :=
  .op .capBegin fun | .unit => .ret () | _ => .fail (.panic "resp")
/-- `Source::pos` — only differences of positions are used, so the model answers with the
    number of octets the base source still holds (position = constant − that number) -/
def getPos : Prog Nat :=
  .op .getPos fun | .nat n => .ret n | _ => .fail (.panic "resp")
def capEnd : Prog Bytes :=
  .op .capEnd fun | .bytes b => .ret b | _ => .fail (.panic "resp")

def contentErr : Prog α := .fail .content
def panic (site : String) : Prog α := .fail (.panic site)

/-- `Source::take_u8` -/
def takeU8 : Prog UInt8 := do
  match ← takeOptU8 with
  | some b => pure b
  | none => contentErr

end Prog

/-! ## Generous layer -/

/-- A `CaptureSource` frame: octets advanced over since the frame was opened, and the limit
    of the enclosing `LimitedSource` when it was opened. -/
structure Frame where
  buf : Bytes
  outer : Option Nat
deriving Repr, DecidableEq

/-- State of `LimitedSource<…<SliceSource>>`: remaining octets of the base source, the current
    limit of the innermost `LimitedSource`, open capture frames (innermost first), and `seen`:
    how many of the next octets the *stingiest* source allowed by the `Source` contract (one that
    grants exactly `min(len, available)`) has granted so far.  Looking at, extracting or advancing
    over more than `seen` octets is a breach of the trait contract by the library and is a panic
    in the model, although `SliceSource` itself would not notice. -/
structure G where
  data : Bytes
  limit : Option Nat
  frames : List Frame := []
  seen : Nat := 0
deriving Repr, DecidableEq

/-- what `LimitedSource::slice` shows / `request` grants -/
def G.view (s : G) : Bytes :=
  match s.limit with
  | none => s.data
  | some l => s.data.take l

/-- `request(n)` on the limited source: the stingy watermark after it -/
def G.request (s : G) (n : Nat) : G := { s with seen := max s.seen (min n s.view.length) }

/-- `LimitedSource::advance` over `SliceSource::advance` (+ `CaptureSource::advance`) -/
def G.advance (s : G) (n : Nat) : Res G :=
  if s.seen < n then .error (.panic "CONTRACT advance beyond granted") else
  if s.data.length < n then .error (.panic "advance past end of data") else
  let frames := match s.frames with
    | [] => []
    | f :: fs => { f with buf := f.buf ++ s.data.take n } :: fs
  match s.limit with
  | none => .ok { s with data := s.data.drop n, frames := frames, seen := s.seen - n }
  | some l =>
    if l < n then .error (.panic "advanced past end of limit")
    else .ok { data := s.data.drop n, limit := some (l - n), frames := frames, seen := s.seen - n }

def stepG (s : G) : Op → Res (Resp × G)
  | .takeOptU8 =>
    let s := s.request 1
    match s.view with
    | [] => .ok (.byte none, s)
    | b :: _ =>
      match s.advance 1 with
      | .ok s' => .ok (.byte (some b), s')
      | .error e => .error e
  | .peekAt i => let s := s.request (i + 1); .ok (.byte s.view[i]?, s)
  | .peek2 => let s := s.request 2; .ok (.peek (min 2 s.view.length) s.view[0]? s.view[1]?, s)
  | .need n => let s := s.request n; .ok (.bool (decide (n ≤ s.view.length)), s)
  | .takeN n =>
    if s.view.length < n then .error (.panic "bytes past limit or data")
    else if s.seen < n then .error (.panic "CONTRACT bytes beyond granted") else
    match s.advance n with
    | .ok s' => .ok (.bytes (s.data.take n), s')
    | .error e => .error e
  | .skipN n =>
    if s.view.length < n then .error (.panic "advance past limit or data") else
    match s.advance n with
    | .ok s' => .ok (.unit, s')
    | .error e => .error e
  | .sliceN n =>
    if s.view.length < n then .error (.panic "slice index past limit or data")
    else if s.seen < n then .error (.panic "CONTRACT slice beyond granted") else
    .ok (.bytes (s.data.take n), s)
  | .getLimit => .ok (.lim s.limit, s)
  | .setLimit l => .ok (.unit, { s with limit := l })
  | .reqCapped n => let s := s.request n; .ok (.nat (min n s.view.length), s)
  | .capBegin => .ok (.unit, { s with frames := { buf := [], outer := s.limit } :: s.frames })
  | .capEnd =>
    match s.frames with
    | [] => .error (.panic "capEnd without frame")
    | f :: fs =>
      -- `into_bytes`: outer.bytes(0,pos); outer.advance(pos) on the enclosing LimitedSource
      let fs' := match fs with
        | [] => []
        | g :: gs => { g with buf := g.buf ++ f.buf } :: gs
      match f.outer with
      | some l =>
        if l < f.buf.length then .error (.panic "advanced past end of limit") else
        .ok (.bytes f.buf, { s with limit := some (l - f.buf.length), frames := fs' })
      | none => .ok (.bytes f.buf, { s with limit := none, frames := fs' })
  | .getPos => .ok (.nat s.data.length, s)

def runG : Prog α → G → Res (α × G)
  | .ret a, s => .ok (a, s)
  | .fail e, _ => .error e
  | .op o k, s =>
    match stepG s o with
    | .error e => .error e
    | .ok (r, s') => runG (k r) s'

end Bcder
