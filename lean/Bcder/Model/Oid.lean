/-
  Bcder.Model.Oid — follows src/oid.rs (after the `fix:` commits for to_u32 and FromStr).

  Oid::check_content            Oid.checkContent
  Oid::from_primitive           Oid.fromPrimitive
  Oid::skip_primitive           Oid.skipPrimitive
  Oid::skip_if (closure)        Oid.skipIfPrimitive
  Iter::next                    Oid.iterNext / Oid.components
  Component::to_u32             Oid.toU32
  impl Display                  Oid.display
  impl FromStr                  Oid.fromStr   (with `u32::from_str` = parseU32, `str::split('.')` = splitDot)
-/
import Bcder.Model.Content
namespace Bcder
open Prog
namespace Oid

def checkContent (c : Bytes) : Bool :=
  match c.getLast? with
  | none => false
  | some last => (last &&& 0x80) == 0

def fromPrimitive : Prog Bytes := do
  let content ← Prim.takeAll
  if checkContent content then pure content else contentErr

def skipPrimitive : Prog Unit :=
  Prim.withSliceAll (fun s => if checkContent s then some () else none)

def skipIfPrimitive (expected : Bytes) : Prog Unit :=
  Prim.withSliceAll (fun s => if s == expected then some () else none)

inductive Position | first | second | other
deriving DecidableEq, Repr

/-- index of the first octet with bit 8 clear (`for i in 0..len { if slice[i] & 0x80 == 0 …`) -/
def findEnd : Bytes → Nat → Option Nat
  | [], _ => none
  | b :: rest, i => if (b &&& 0x80) == 0 then some i else findEnd rest (i + 1)

/-- `Iter::next`: returns the component (position, slice) and the new iterator state -/
def iterNext (slice : Bytes) (pos : Position) :
    Res (Option ((Position × Bytes) × (Bytes × Position))) :=
  if slice.isEmpty then .ok none
  else match findEnd slice 0 with
    | none => .error (.panic "illegal object identifier (last octet has bit 8 set)")
    | some i =>
      let res := slice.take (i + 1)
      let tail := slice.drop (i + 1)
      let slice' := if pos != .first then tail else slice
      let pos' := match pos with | .first => Position.second | _ => Position.other
      .ok (some ((pos, res), (slice', pos')))

/-- all components (fuel = content length + 2) -/
def componentsAux : Nat → Bytes → Position → Res (List (Position × Bytes))
  | 0, _, _ => .error .fuel
  | fuel + 1, slice, pos => do
    match ← iterNext slice pos with
    | none => pure []
    | some (c, (slice', pos')) => do
      let rest ← componentsAux fuel slice' pos'
      pure (c :: rest)

def components (content : Bytes) : Res (List (Position × Bytes)) :=
  componentsAux (content.length + 2) content .first

/-- `Component::to_u32` (u32 arithmetic: `res << 7` drops bits beyond 32) -/
def toU32 (pos : Position) (slice : Bytes) : Option Nat :=
  match slice with
  | [] => some 0  -- not reachable from the iterator
  | s0 :: _ =>
    if slice.length > 5 || (slice.length == 5 && (s0 &&& 0x70) != 0) then none
    else
      let res := slice.foldl (fun res ch => ((res <<< 7) % 2 ^ 32) ||| (ch &&& 0x7F).toNat) 0
      match pos with
      | .first => if res < 40 then some 0 else if res < 80 then some 1 else some 2
      | .second => if res < 80 then some (res % 40) else some (res - 80)
      | .other => some res

/-- decimal text of a number, as octets -/
def decimal (n : Nat) : Bytes := (toString n).toUTF8.toList

def componentText (c : Position × Bytes) : Bytes :=
  match toU32 c.1 c.2 with
  | some v => decimal v
  | none => "(very large component)".toUTF8.toList

/-- `impl Display for Oid` -/
def display (content : Bytes) : Res Bytes := do
  let cs ← components content
  match cs with
  | [] => pure []
  | c :: rest => pure (rest.foldl (fun acc x => acc ++ [0x2E] ++ componentText x) (componentText c))

/-- `str::split('.')` on the UTF-8 octets -/
def splitDot : Bytes → List Bytes
  | [] => [[]]
  | b :: rest =>
    match splitDot rest with
    | [] => [[b]]      -- unreachable
    | cur :: more => if b == 0x2E then [] :: cur :: more else (b :: cur) :: more

/-- `u32::from_str` : optional `+`, at least one ASCII digit, no overflow -/
def parseU32 (s : Bytes) : Option Nat :=
  let digits : List UInt8 := match s with
    | b :: rest => if b == 0x2B then rest else s
    | [] => []
  if digits.isEmpty then none
  else digits.foldl (fun (acc : Option Nat) (d : UInt8) =>
      match acc with
      | none => none
      | some v =>
        if d ≥ 0x30 && d ≤ 0x39 then
          let v' := v * 10 + (d.toNat - 0x30)
          if v' ≥ 2 ^ 32 then none else some v'
        else none) (some 0)

/-- the sub-identifier octets written for one `u32` item -/
def encodeItem (item : Nat) : Bytes :=
  (if item > 0x0FFFFFFF then [UInt8.ofNat ((item >>> 28) ||| 0x80)] else []) ++
  (if item > 0x001FFFFF then [UInt8.ofNat (((item >>> 21) &&& 0x7F) ||| 0x80)] else []) ++
  (if item > 0x00003FFF then [UInt8.ofNat (((item >>> 14) &&& 0x7F) ||| 0x80)] else []) ++
  (if item > 0x0000007F then [UInt8.ofNat (((item >>> 7) &&& 0x7F) ||| 0x80)] else []) ++
  [UInt8.ofNat (item &&& 0x7F)]

def parseAll : List Bytes → Option (List Nat)
  | [] => some []
  | x :: xs => do
    let v ← parseU32 x
    let vs ← parseAll xs
    pure (v :: vs)

/-- `impl FromStr for Oid`; `none` is `Err(&'static str)` -/
def fromStr (s : Bytes) : Option Bytes :=
  match splitDot s with
  | first :: second :: rest => do
    let first ← parseU32 first
    if first > 2 then none else
    let second ← parseU32 second
    if first < 2 && second ≥ 40 then none else
    let head := 40 * first + second
    if head ≥ 2 ^ 32 then none else
    let others ← parseAll rest
    pure ((head :: others).flatMap encodeItem)
  | _ => none

/-- `impl PartialEq for Oid`: the content octets are compared -/
def eq (a b : Bytes) : Bool := a == b

/-- `impl Hash for Oid`: what is fed to the hasher (`self.0.as_ref().hash(state)`) -/
def hashInput (a : Bytes) : Bytes := a

end Oid
end Bcder
