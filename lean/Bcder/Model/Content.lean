/-
  Bcder.Model.Content — follows src/decode/content.rs (as of the `fix:` commits for
  skip_opt / skip_one / top-level end / skip_u8_if / to_u128).

  Rust item                                   Lean
  -----------------------------------------------------------------------
  enum State                                  CState
  struct Constructed {state, mode}            Cons          (the source is the implicit `Prog` state)
  enum Content                                Content
  LimitedSource::exhausted                    limitedExhausted
  LimitedSource::{skip_all,take_all}          Prim.skipAll, Prim.takeAll
  Primitive::{remaining,slice_all,with_slice_all}  Prim.remaining, Prim.sliceAll, Prim.withSliceAll
  Constructed::exhausted / is_exhausted       Cons.exhausted / Cons.isExhausted
  Constructed::take_opt_tag                   Cons.takeOptTag
  Constructed::process_next_value             processNextValue
  Constructed::mandatory                      mandatory
  Constructed::take_[opt_]{value,primitive,constructed}[_if]   takeValue … takeOptConstructedIf
  Constructed::capture                        capture
  Constructed::skip_opt                       skipOpt / skipLoop / popLoop
  Constructed::{skip,skip_one,skip_all}       skip, skipOne, skipAll
  Constructed::decode / Mode::decode          decodeTop
-/
import Bcder.Model.Length
namespace Bcder
open Prog

inductive CState | definite | indefinite | done | unbounded
deriving DecidableEq, Repr, Inhabited

structure Cons where
  state : CState
  mode : Mode
  /-- `eoc_len`: size of the end-of-contents marker once it has been read -/
  eoc : Nat := 0
deriving DecidableEq, Repr, Inhabited

inductive Content
  | prim (mode : Mode)
  | cons (c : Cons)
deriving DecidableEq, Repr, Inhabited

def Content.mode : Content → Mode
  | .prim m => m
  | .cons c => c.mode

/-- `LimitedSource::exhausted` -/
def limitedExhausted : Prog Unit := do
  match ← getLimit with
  | some 0 => pure ()
  | some _ => contentErr
  | none => if ← need 1 then contentErr else pure ()

namespace Prim

/-- `Primitive::remaining` (`limit().unwrap()`) -/
def remaining : Prog Nat := do
  match ← getLimit with
  | some l => pure l
  | none => Prog.panic "remaining: no limit"

/-- `LimitedSource::skip_all` -/
def skipAll : Prog Unit := do
  let l ← remaining
  if ← need l then skipN l else contentErr

/-- `LimitedSource::take_all` -/
def takeAll : Prog Bytes := do
  let l ← remaining
  if ← need l then takeN l else contentErr

/-- `Primitive::slice_all` -/
def sliceAll : Prog Bytes := do
  let l ← remaining
  if ← need l then sliceN l else contentErr

/-- `Primitive::with_slice_all`; `f` returning `none` is the closure's `Err` -/
def withSliceAll (f : Bytes → Option α) : Prog α := do
  let l ← remaining
  if ← need l then
    let s ← sliceN l
    match f s with
    | none => contentErr
    | some a => do skipN l; pure a
  else contentErr

end Prim

namespace Cons

/-- `Constructed::is_exhausted` -/
def isExhausted (c : Cons) : Prog Bool :=
  match c.state with
  | .definite => do
    match ← getLimit with
    | some l => pure (l == 0)
    | none => Prog.panic "is_exhausted: no limit"
  | .indefinite => pure false
  | .done => pure true
  | .unbounded => pure false

/-- `Constructed::exhausted` -/
def exhausted (c : Cons) : Prog Unit :=
  match c.state with
  | .done => pure ()
  | .definite => limitedExhausted
  | .indefinite => do
    let (tag, constructed) ← Tag.takeFrom
    if tag != Tag.END_OF_VALUE || constructed then contentErr
    else
      let l ← Length.takeFrom c.mode
      if l.isZero then pure () else contentErr
  | .unbounded => pure ()

/-- `Constructed::take_opt_tag` -/
def takeOptTag (c : Cons) : Prog (Option (Tag × Bool)) :=
  if c.state = .unbounded then Tag.takeOptFrom
  else do let r ← Tag.takeFrom; pure (some r)

end Cons

/-- `Content::exhausted` -/
def Content.exhausted : Content → Prog Unit
  | .prim _ => limitedExhausted
  | .cons c => c.exhausted

/-- the part of `Constructed::process_next_value` after the identifier and length octets have
    been read: end-of-contents handling, then the definite / indefinite arm that narrows the limit,
    runs the closure, checks exhaustion and restores the limit -/
def processValueBody (c : Cons) (op : Tag → Content → Prog (α × Content))
    (header : Nat) (tag : Tag) (constructed : Bool) (length : Length) : Prog (Option α × Cons) := do
  if tag = Tag.END_OF_VALUE then
    if c.state = .indefinite then
      if constructed then contentErr
      else if !length.isZero then contentErr
      else
        let here ← getPos
        return (none, { c with state := .done, eoc := header - here })
    else contentErr
  else
    match length with
    | .definite len =>
      let limit ← getLimit
      if (match limit with | some l => decide (len > l) | none => false) then contentErr
      else
        -- limit_further(Some(len)) : its assertion `len <= cur` is the check above
        setLimit (some len)
        if constructed && c.mode == .cer then contentErr
        else
          let content : Content :=
            if constructed then .cons ⟨.definite, c.mode, 0⟩ else .prim c.mode
          let (res, content') ← op tag content
          content'.exhausted
          setLimit (limit.map (· - len))
          return (some res, c)
    | .indefinite =>
      if !constructed || c.mode == .der then contentErr
      else
        let (res, content') ← op tag (.cons ⟨.indefinite, c.mode, 0⟩)
        content'.exhausted
        return (some res, c)

/-- `Constructed::process_next_value`.  The closure gets the tag and the content and returns its
    result together with the content as it left it (the state of a nested `Constructed` is what
    the exhaustion check afterwards looks at). -/
def processNextValue (c : Cons) (expected : Option Tag)
    (op : Tag → Content → Prog (α × Content)) : Prog (Option α × Cons) := do
  if ← c.isExhausted then return (none, c)
  let header ← getPos
  let hdr ← (match expected with
    | some e => do
      match ← e.takeFromIf with
      | some constructed => pure (some (e, constructed))
      | none => pure none
    | none => c.takeOptTag : Prog (Option (Tag × Bool)))
  match hdr with
  | none => return (none, c)
  | some (tag, constructed) =>
    let length ← Length.takeFrom c.mode
    processValueBody c op header tag constructed length

/-- `Constructed::mandatory` and the `None => Err(..)` arms of the mandatory readers -/
def mandatory (p : Prog (Option α × Cons)) : Prog (α × Cons) := do
  match ← p with
  | (some a, c) => pure (a, c)
  | (none, _) => contentErr

/-- `Content::as_primitive` -/
def asPrimitive (k : Mode → Prog (α × Mode)) : Content → Prog (α × Content)
  | .prim m => do let (a, m') ← k m; pure (a, .prim m')
  | .cons _ => contentErr

/-- `Content::as_constructed` -/
def asConstructed (k : Cons → Prog (α × Cons)) : Content → Prog (α × Content)
  | .cons c => do let (a, c') ← k c; pure (a, .cons c')
  | .prim _ => contentErr

def takeOptValue (c : Cons) (op : Tag → Content → Prog (α × Content)) :=
  processNextValue c none op
def takeValue (c : Cons) (op : Tag → Content → Prog (α × Content)) :=
  mandatory (processNextValue c none op)
def takeOptValueIf (c : Cons) (e : Tag) (op : Content → Prog (α × Content)) :=
  processNextValue c (some e) (fun _ => op)
def takeValueIf (c : Cons) (e : Tag) (op : Content → Prog (α × Content)) :=
  mandatory (processNextValue c (some e) (fun _ => op))
def takeOptConstructed (c : Cons) (op : Tag → Cons → Prog (α × Cons)) :=
  processNextValue c none (fun t => asConstructed (op t))
def takeConstructed (c : Cons) (op : Tag → Cons → Prog (α × Cons)) :=
  mandatory (takeOptConstructed c op)
def takeOptConstructedIf (c : Cons) (e : Tag) (op : Cons → Prog (α × Cons)) :=
  processNextValue c (some e) (fun _ => asConstructed op)
def takeConstructedIf (c : Cons) (e : Tag) (op : Cons → Prog (α × Cons)) :=
  mandatory (takeOptConstructedIf c e op)
def takeOptPrimitive (c : Cons) (op : Tag → Mode → Prog (α × Mode)) :=
  processNextValue c none (fun t => asPrimitive (op t))
def takePrimitive (c : Cons) (op : Tag → Mode → Prog (α × Mode)) :=
  mandatory (takeOptPrimitive c op)
def takeOptPrimitiveIf (c : Cons) (e : Tag) (op : Mode → Prog (α × Mode)) :=
  processNextValue c (some e) (fun _ => asPrimitive op)
def takePrimitiveIf (c : Cons) (e : Tag) (op : Mode → Prog (α × Mode)) :=
  mandatory (takeOptPrimitiveIf c e op)

/-- `Constructed::capture`: the closure works on a `Constructed` over a capture source with the
    same state and mode; only its final state is copied back. -/
def capture (c : Cons) (op : Cons → Prog Cons) : Prog (Bytes × Cons) := do
  capBegin
  let c' ← op c
  let bytes ← capEnd
  -- if the closure has read the end-of-contents marker of this value, it is cut off
  let bytes := if c'.state = c.state then bytes else bytes.take (bytes.length - c'.eoc)
  return (bytes, { c with state := c'.state, eoc := c'.eoc })

/-! ### skip_opt -/

/-- the inner `loop` of `skip_opt` that pops finished definite values.
    `none` = stack ran empty (`return Ok(Some(()))`), `some st` = `break` with the remaining stack -/
def popLoop : List (Option (Option Nat)) → Prog (Option (List (Option (Option Nat))))
  | [] => pure none
  | top :: rest => do
    if (← getLimit) == some 0 then
      match top with
      | some lim => do setLimit lim; popLoop rest
      | none => contentErr
    else pure (some (top :: rest))

/-- the outer `loop` of `skip_opt`.  `filter` is the caller's closure with its captured state:
    `none` is `Err`. -/
def skipLoop (c : Cons) (filter : σ → Tag → Bool → Nat → Option σ) :
    Nat → List (Option (Option Nat)) → σ → Prog (Option Unit × Cons × σ)
  | 0, _, _ => .fail .fuel
  | fuel + 1, stack, st => do
    let hdr ← (if stack.isEmpty then c.takeOptTag
               else do let r ← Tag.takeFrom; pure (some r) : Prog (Option (Tag × Bool)))
    match hdr with
    | none => return (none, c, st)
    | some (tag, constructed) =>
      let length ← Length.takeFrom c.mode
      let after (stack' : List (Option (Option Nat))) (st' : σ) :
          Prog (Option Unit × Cons × σ) := do
        match ← popLoop stack' with
        | none => return (some (), c, st')
        | some stack'' => skipLoop c filter fuel stack'' st'
      if !constructed then
        if tag = Tag.END_OF_VALUE then
          if length != .definite 0 then contentErr
          else match stack with
            | none :: rest => after rest st
            | [] =>
              if c.state = .indefinite then return (none, { c with state := .done }, st)
              else contentErr
            | some _ :: _ => contentErr
        else
          match length with
          | .definite len =>
            match filter st tag constructed stack.length with
            | none => contentErr
            | some st' =>
              if ← need len then do skipN len; after stack st'
              else contentErr
          | .indefinite => contentErr
      else if tag = Tag.END_OF_VALUE then contentErr
      else
        match length with
        | .definite len =>
          if c.mode == .cer then contentErr
          else match filter st tag constructed stack.length with
            | none => contentErr
            | some st' =>
              match ← getLimit with
              | some limit =>
                if limit < len then contentErr
                else do setLimit (some len); after (some (some (limit - len)) :: stack) st'
              | none => do setLimit (some len); after (some none :: stack) st'
        | .indefinite =>
          if c.mode == .der then contentErr
          else match filter st tag constructed stack.length with
            | none => contentErr
            | some st' => skipLoop c filter fuel (none :: stack) st'

/-- `Constructed::skip_opt` -/
def skipOpt (c : Cons) (filter : σ → Tag → Bool → Nat → Option σ) (st : σ) (fuel : Nat) :
    Prog (Option Unit × Cons × σ) := do
  if ← c.isExhausted then return (none, c, st)
  -- `header`: the position of the first header; only the first header can turn out to be the
  -- end-of-contents marker of this value (the stack is empty only then), and `eoc_len` is set right
  -- where the state changes, i.e. with the source where `skipLoop` leaves it
  let header ← getPos
  let (r, c', st') ← skipLoop c filter fuel [] st
  if c'.state = c.state then return (r, c', st')
  else
    let here ← getPos
    return (r, { c' with eoc := header - here }, st')

/-- `Constructed::skip` -/
def skip (c : Cons) (filter : σ → Tag → Bool → Nat → Option σ) (st : σ) (fuel : Nat) :
    Prog (Cons × σ) := do
  match ← skipOpt c filter st fuel with
  | (some (), c', st') => pure (c', st')
  | (none, _, _) => contentErr

def acceptAll : Unit → Tag → Bool → Nat → Option Unit := fun _ _ _ _ => some ()

/-- `Constructed::skip_one` -/
def skipOne (c : Cons) (fuel : Nat) : Prog (Option Unit × Cons) := do
  let (r, c', _) ← skipOpt c acceptAll () fuel
  pure (r, c')

/-- `Constructed::skip_all` (`while let Some(()) = self.skip_one()? {}`) -/
def skipAll (c : Cons) : Nat → Prog Cons
  | 0 => .fail .fuel
  | fuel + 1 => do
    match ← skipOne c fuel with
    | (some (), c') => skipAll c' fuel
    | (none, c') => pure c'

/-- `Constructed::capture_one` -/
def captureOne (c : Cons) (fuel : Nat) : Prog (Bytes × Cons) :=
  capture c (fun c => do let (_, c') ← mandatory (skipOne c fuel); pure c')

/-- `Constructed::capture_all` -/
def captureAll (c : Cons) (fuel : Nat) : Prog (Bytes × Cons) :=
  capture c (fun c => skipAll c fuel)

/-- `Constructed::decode` / `Mode::decode` on a fresh `LimitedSource` without limit -/
def decodeTop (mode : Mode) (op : Cons → Prog (α × Cons)) : Prog α := do
  let (a, c') ← op ⟨.unbounded, mode, 0⟩
  c'.exhausted
  pure a

end Bcder
