/-
  Bcder.Model.Tag — follows src/tag.rs

  Rust item                         Lean
  ---------------------------------------------------------
  struct Tag([u8;4])                Tag (d0 d1 d2 d3)
  Tag::new(class_mask, number)      Tag.new
  Tag::number                       Tag.number
  Tag::is_universal …               Tag.classBits
  Tag::encoded_len                  Tag.encodedLen
  Tag::write_encoded                Tag.write
  Tag::take_opt_from                Tag.takeOptFrom
  Tag::take_from                    Tag.takeFrom
  Tag::take_from_if                 Tag.takeFromIf
-/
import Bcder.Model.Source
namespace Bcder

structure Tag where
  d0 : UInt8
  d1 : UInt8
  d2 : UInt8
  d3 : UInt8
deriving DecidableEq, Repr, Inhabited

namespace Tag

def END_OF_VALUE : Tag := ⟨0, 0, 0, 0⟩
def BOOLEAN : Tag := ⟨1, 0, 0, 0⟩
def INTEGER : Tag := ⟨2, 0, 0, 0⟩
def BIT_STRING : Tag := ⟨3, 0, 0, 0⟩
def OCTET_STRING : Tag := ⟨4, 0, 0, 0⟩
def NULL : Tag := ⟨5, 0, 0, 0⟩
def OID : Tag := ⟨6, 0, 0, 0⟩
def UTF8_STRING : Tag := ⟨12, 0, 0, 0⟩
def SEQUENCE : Tag := ⟨16, 0, 0, 0⟩
def SET : Tag := ⟨17, 0, 0, 0⟩
def NUMERIC_STRING : Tag := ⟨18, 0, 0, 0⟩
def PRINTABLE_STRING : Tag := ⟨19, 0, 0, 0⟩
def IA5_STRING : Tag := ⟨22, 0, 0, 0⟩

/-- `Tag::new`; `classMask` ∈ {0x00,0x40,0x80,0xc0}; `number > 0x1fffff` is the documented assert. -/
def new (classMask : UInt8) (number : Nat) : Res Tag :=
  if number > 0x1fffff then .error (.panic "Tag::new: number too large")
  else if number ≤ 0x1e then .ok ⟨classMask ||| UInt8.ofNat number, 0, 0, 0⟩
  else if number ≤ 0x7f then .ok ⟨classMask ||| 0x1f, UInt8.ofNat number, 0, 0⟩
  else if number ≤ 0x3fff then
    .ok ⟨classMask ||| 0x1f,
         (UInt8.ofNat (number >>> 7) &&& 0x7f) ||| 0x80,
         UInt8.ofNat number &&& 0x7f, 0⟩
  else
    .ok ⟨classMask ||| 0x1f,
         (UInt8.ofNat (number >>> 14) &&& 0x7f) ||| 0x80,
         (UInt8.ofNat (number >>> 7) &&& 0x7f) ||| 0x80,
         UInt8.ofNat number &&& 0x7f⟩

def classBits (t : Tag) : UInt8 := t.d0 &&& 0xc0

def number (t : Tag) : Nat :=
  if (t.d0 &&& 0x1f) != 0x1f then (t.d0 &&& 0x1f).toNat
  else if (t.d1 &&& 0x80) == 0 then (t.d1 &&& 0x7f).toNat
  else if (t.d2 &&& 0x80) == 0 then
    ((t.d1 &&& 0x7f).toNat <<< 7) ||| (t.d2 &&& 0x7f).toNat
  else
    ((t.d1 &&& 0x7f).toNat <<< 14) ||| ((t.d2 &&& 0x7f).toNat <<< 7) ||| (t.d3 &&& 0x7f).toNat

def encodedLen (t : Tag) : Nat :=
  if (t.d0 &&& 0x1f) != 0x1f then 1
  else if (t.d1 &&& 0x80) == 0 then 2
  else if (t.d2 &&& 0x80) == 0 then 3
  else 4

/-- `Tag::write_encoded` -/
def write (t : Tag) (constructed : Bool) : Bytes :=
  let b0 := if constructed then t.d0 ||| 0x20 else t.d0
  [b0, t.d1, t.d2, t.d3].take t.encodedLen

/-- `Tag::is_minimal` (on the second stored octet) -/
def isMinimal (d1 : UInt8) : Bool := d1 > 0x1e && d1 != 0x80

/-- `Tag::take_opt_from` -/
def takeOptFrom : Prog (Option (Tag × Bool)) := do
  match ← Prog.takeOptU8 with
  | none => pure none
  | some byte =>
    let d0 := byte &&& (~~~ 0x20)
    let constructed := (byte &&& 0x20) != 0
    let fin (t : Tag) : Prog (Option (Tag × Bool)) :=
      if isMinimal t.d1 then pure (some (t, constructed)) else Prog.contentErr
    if (d0 &&& 0x1f) == 0x1f then
      let d1 ← Prog.takeU8
      if (d1 &&& 0x80) == 0 then fin ⟨d0, d1, 0, 0⟩ else
      let d2 ← Prog.takeU8
      if (d2 &&& 0x80) == 0 then fin ⟨d0, d1, d2, 0⟩ else
      let d3 ← Prog.takeU8
      if (d3 &&& 0x80) == 0 then fin ⟨d0, d1, d2, d3⟩ else
      Prog.contentErr
    else pure (some (⟨d0, 0, 0, 0⟩, constructed))

/-- `Tag::take_from` -/
def takeFrom : Prog (Tag × Bool) := do
  match ← takeOptFrom with
  | some r => pure r
  | none => Prog.contentErr

/-- `Tag::take_from_if` -/
def takeFromIf (self : Tag) : Prog (Option Bool) := do
  match ← Prog.peekAt 0 with
  | none => pure none
  | some byte =>
    let d0 := byte &&& (~~~ 0x20)
    let constructed := (byte &&& 0x20) != 0
    let fin (t : Tag) : Prog (Option Bool) :=
      if t = self then do Prog.skipN t.encodedLen; pure (some constructed) else pure none
    let finM (t : Tag) : Prog (Option Bool) :=
      if isMinimal t.d1 then fin t else Prog.contentErr
    if (d0 &&& 0x1f) == 0x1f then
      match ← Prog.peekAt 1 with
      | none => Prog.contentErr
      | some d1 =>
      if (d1 &&& 0x80) == 0 then finM ⟨d0, d1, 0, 0⟩ else
      match ← Prog.peekAt 2 with
      | none => Prog.contentErr
      | some d2 =>
      if (d2 &&& 0x80) == 0 then finM ⟨d0, d1, d2, 0⟩ else
      match ← Prog.peekAt 3 with
      | none => Prog.contentErr
      | some d3 =>
      if (d3 &&& 0x80) == 0 then finM ⟨d0, d1, d2, d3⟩ else
      Prog.contentErr
    else fin ⟨d0, 0, 0, 0⟩

end Tag
end Bcder
