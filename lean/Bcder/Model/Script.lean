/-
  Bcder.Model.Script — the language of caller code ("programs") that both drivers interpret:
  the Rust driver against the real API with real closures, this file against the model.
  A script is what a user's closures do with a `Constructed` / `Primitive` / `Content`.
  Scripts stop at the first error (callers propagate with `?`).
-/
import Bcder.Model.Encode
import Bcder.Model.Restricted
import Bcder.Model.Oid
import Bcder.Model.Hex
import Bcder.Model.Stream
namespace Bcder
open Prog

inductive PrimOp
  | req (n : Nat) | tu8 | tou8 | adv (k : Nat) | skip (n : Nat) | slice | bytes (a b : Nat)
  | takeAll | skipAll | sliceAll | wsa | rem | setMode (m : Mode)
  | toBool | toNull | toInt (ty : IntTy) | integer | unsigned | oid | oidSkip
deriving Repr, Inhabited

inductive Filter | accept | rejectAt (k : Nat) | octetOnly
deriving Repr, Inhabited

/-- typed readers on a `Constructed` -/
inductive Typed
  | bool | obool | null | onull
  | u8 | ou8 | u16 | ou16 | u32 | ou32 | u64 | ou64
  | skipU8If (n : Nat) | oskipU8If (n : Nat)
  | integer | unsigned
  | oid | ooid | oidSkip | ooidSkip | oidSkipIf (content : Bytes)
  | bits | bitsSkip | os | oos
  | rs (cs : CharSet)
deriving Repr, Inhabited

/-- typed readers on a `Content` (the closure of `take_value`) -/
inductive TypedC
  | u8 | u16 | u32 | u64 | null | skipU8If (n : Nat)
  | os | bits | bitsSkip | rs (cs : CharSet)
deriving Repr, Inhabited

mutual
inductive Step
  | tv (c : Cont) | tov (c : Cont) | tvi (t : Tag) (c : Cont) | tovi (t : Tag) (c : Cont)
  | tp (ops : List PrimOp) | top (ops : List PrimOp)
  | tpi (t : Tag) (ops : List PrimOp) | topi (t : Tag) (ops : List PrimOp)
  | tc (body : List Step) | toc (body : List Step)
  | tci (t : Tag) (body : List Step) | toci (t : Tag) (body : List Step)
  | skipOpt (f : Filter) | skip (f : Filter) | skipOne | skipAll
  | cap (body : List Step) | capOne | capAll
  | dec (body : List Step) | decp (body : List Step)
  | setMode (m : Mode)
  | typed (r : Typed)
  | all
inductive Cont
  | prim (ops : List PrimOp)
  | cons (body : List Step)
  | generic
  | typed (r : TypedC)
end

abbrev Trace := Array String

/-- interpreter state besides the `Constructed`: the trace and the "captured" register -/
structure Ctx where
  trace : Trace := #[]
  reg : Option (Bytes × Mode) := none
  /-- capped last grant seen by primitive-level scripts -/
  grant : Nat := 0

def Ctx.emit (x : Ctx) (s : String) : Ctx := { x with trace := x.trace.push s }

def liftRes : Res α → Prog α
  | .ok a => .ret a
  | .error e => .fail e

def intStr (i : Int) : String := toString i

/-! ### primitive-level scripts -/

def runPrimOp (o : PrimOp) (m : Mode) (x : Ctx) : Prog (Mode × Ctx) :=
  match o with
  | .req n => do
    let g ← reqCapped n
    pure (m, { x with grant := g }.emit s!"r{g}")
  | .tu8 => do
    let b ← takeU8
    pure (m, { x with grant := 0 }.emit ("y" ++ hexByte b))
  | .tou8 => do
    match ← takeOptU8 with
    | some b => pure (m, { x with grant := 0 }.emit ("y" ++ hexByte b))
    | none => pure (m, { x with grant := 0 }.emit "yn")
  | .adv k => do
    let a := min k x.grant
    skipN a
    pure (m, { x with grant := x.grant - a }.emit s!"a{a}")
  | .skip n => do
    let g ← reqCapped n
    skipN g
    pure (m, { x with grant := 0 }.emit s!"k{g}")
  | .slice => do
    let s ← sliceN x.grant
    pure (m, x.emit ("s" ++ toHex s))
  | .bytes a b => do
    let s ← sliceN x.grant
    let a' := min a x.grant
    let b' := max a' (min b x.grant)
    pure (m, x.emit ("B" ++ toHex ((s.take b').drop a')))
  | .takeAll => do
    let s ← Prim.takeAll
    pure (m, { x with grant := 0 }.emit ("t" ++ toHex s))
  | .skipAll => do
    Prim.skipAll
    pure (m, { x with grant := 0 }.emit "K")
  | .sliceAll => do
    let s ← Prim.sliceAll
    pure (m, x.emit ("S" ++ toHex s))
  | .wsa => do
    let s ← Prim.withSliceAll (fun s => some s)
    pure (m, { x with grant := 0 }.emit ("W" ++ toHex s))
  | .rem => do
    let r ← Prim.remaining
    pure (m, x.emit s!"m{r}")
  | .setMode m' => pure (m', x)
  | .toBool => do
    let b ← toBool m
    pure (m, { x with grant := 0 }.emit (if b then "b1" else "b0"))
  | .toNull => do
    toNull
    pure (m, x.emit "n")
  | .toInt ty => do
    let v ← toInt ty
    pure (m, { x with grant := 0 }.emit ("i" ++ intStr v))
  | .integer => do
    let c ← integerFromPrimitive
    pure (m, { x with grant := 0 }.emit ("I" ++ toHex c))
  | .unsigned => do
    let c ← unsignedFromPrimitive
    pure (m, { x with grant := 0 }.emit ("U" ++ toHex c))
  | .oid => do
    let c ← Oid.fromPrimitive
    pure (m, { x with grant := 0 }.emit ("O" ++ toHex c))
  | .oidSkip => do
    Oid.skipPrimitive
    pure (m, { x with grant := 0 }.emit "o")

def runPrimOps : List PrimOp → Mode → Ctx → Prog (Mode × Ctx)
  | [], m, x => pure (m, x)
  | o :: os, m, x => do
    let (m', x') ← runPrimOp o m x
    runPrimOps os m' x'

/-- closure body on a `Primitive`: the grant register starts at 0 -/
def primBody (ops : List PrimOp) (x : Ctx) (m : Mode) : Prog (Ctx × Mode) := do
  let (m', x') ← runPrimOps ops m { x with grant := 0 }
  pure (x', m')

/-! ### filters of `skip_opt` -/

def tagTrace (t : Tag) (constructed : Bool) : String := toHex (t.write constructed)

/-- filter state: number of calls so far and the trace -/
def scriptFilter (f : Filter) : (Nat × Trace) → Tag → Bool → Nat → Option (Nat × Trace) :=
  fun (n, tr) tag constructed depth =>
    let tr' := tr.push s!"f{tagTrace tag constructed}@{depth}"
    match f with
    | .accept => some (n + 1, tr')
    | .rejectAt k => if n == k then none else some (n + 1, tr')
    | .octetOnly => if tag = Tag.OCTET_STRING then some (n + 1, tr') else none

/-! ### generic reading: descend, take the content of primitives -/

mutual
def genericValue : Nat → Tag → Content → Ctx → Prog (Ctx × Content)
  | 0, _, _, _ => .fail .fuel
  | fuel + 1, tag, content, x =>
    match content with
    | .prim m => do
      let s ← Prim.takeAll
      pure (x.emit s!"v{tagTrace tag false}={toHex s}", .prim m)
    | .cons c => do
      let (c', x') ← genericAll fuel c (x.emit s!"v{tagTrace tag true}(")
      pure (x'.emit ")", .cons c')
def genericAll : Nat → Cons → Ctx → Prog (Cons × Ctx)
  | 0, _, _ => .fail .fuel
  | fuel + 1, c, x => do
    match ← takeOptValue c (fun tag content => genericValue fuel tag content x) with
    | (some x', c') => genericAll fuel c' x'
    | (none, c') => pure (c', x)
end

/-! ### typed readers -/

def osTrace (os : OS) : Res String :=
  match os with
  | .prim b => .ok ("p" ++ toHex b)
  | .cons _ => do pure ("c" ++ ",".intercalate ((← os.segments).map toHex))

def natsStr (l : List Nat) : String := ",".intercalate (l.map toString)

def runTypedC (fuel : Nat) (r : TypedC) (content : Content) (x : Ctx) : Prog (Ctx × Content) :=
  match r with
  | .u8 => asPrimitive (fun m => do let v ← toInt .u8; pure (x.emit ("i" ++ intStr v), m)) content
  | .u16 => asPrimitive (fun m => do let v ← toInt .u16; pure (x.emit ("i" ++ intStr v), m)) content
  | .u32 => asPrimitive (fun m => do let v ← toInt .u32; pure (x.emit ("i" ++ intStr v), m)) content
  | .u64 => asPrimitive (fun m => do let v ← toInt .u64; pure (x.emit ("i" ++ intStr v), m)) content
  | .null => asPrimitive (fun m => do toNull; pure (x.emit "n", m)) content
  | .skipU8If n => asPrimitive (fun m => do
      let v ← toInt .u8
      if v == (n : Int) then pure (x.emit "ok", m) else contentErr) content
  | .os => do
    let (os, content') ← OS.fromContent fuel content
    pure (x.emit ("os:" ++ (← liftRes (osTrace os))), content')
  | .bits => do
    let (b, content') ← BitString.fromContent content
    pure (x.emit s!"bits:{b.unused.toNat}:{toHex b.bits}", content')
  | .bitsSkip => do
    let (_, content') ← BitString.skipContent content
    pure (x.emit "bitsskip", content')
  | .rs cs => do
    let (os, content') ← RS.fromContent cs fuel content
    pure (x.emit ("rs:" ++ (← liftRes (osTrace os))), content')

def optEmit (x : Ctx) : Option Ctx × Cons → Cons × Ctx
  | (some x', c) => (c, x')
  | (none, c) => (c, x.emit "none")

def intReader (ty : IntTy) (x : Ctx) (m : Mode) : Prog (Ctx × Mode) := do
  let v ← toInt ty
  pure (x.emit ("i" ++ intStr v), m)

def runTyped (fuel : Nat) (r : Typed) (c : Cons) (x : Ctx) : Prog (Cons × Ctx) :=
  let swap {α β} (p : α × β) : β × α := (p.2, p.1)
  match r with
  | .bool => do
    pure (swap (← takePrimitiveIf c Tag.BOOLEAN (fun m => do
      let b ← toBool m; pure (x.emit (if b then "b1" else "b0"), m))))
  | .obool => do
    pure (optEmit x (← takeOptPrimitiveIf c Tag.BOOLEAN (fun m => do
      let b ← toBool m; pure (x.emit (if b then "b1" else "b0"), m))))
  | .null => do
    pure (swap (← takePrimitiveIf c Tag.NULL (fun m => pure (x.emit "n", m))))
  | .onull => do
    -- `take_opt_null` maps both outcomes to `()`
    let (_, c') ← takeOptPrimitiveIf c Tag.NULL (fun m => pure ((), m))
    pure (c', x.emit "n?")
  | .u8 => do pure (swap (← takePrimitiveIf c Tag.INTEGER (intReader .u8 x)))
  | .ou8 => do pure (optEmit x (← takeOptPrimitiveIf c Tag.INTEGER (intReader .u8 x)))
  | .u16 => do pure (swap (← takePrimitiveIf c Tag.INTEGER (intReader .u16 x)))
  | .ou16 => do pure (optEmit x (← takeOptPrimitiveIf c Tag.INTEGER (intReader .u16 x)))
  | .u32 => do pure (swap (← takePrimitiveIf c Tag.INTEGER (intReader .u32 x)))
  | .ou32 => do pure (optEmit x (← takeOptPrimitiveIf c Tag.INTEGER (intReader .u32 x)))
  | .u64 => do pure (swap (← takePrimitiveIf c Tag.INTEGER (intReader .u64 x)))
  | .ou64 => do pure (optEmit x (← takeOptPrimitiveIf c Tag.INTEGER (intReader .u64 x)))
  | .skipU8If n => do
    let (_, c') ← takePrimitiveIf c Tag.INTEGER (fun m => do
      let v ← toInt .u8
      if v == (n : Int) then pure ((), m) else contentErr)
    pure (c', x.emit "ok")
  | .oskipU8If n => do
    let (_, c') ← takeOptPrimitiveIf c Tag.INTEGER (fun m => do
      let v ← toInt .u8
      if v == (n : Int) then pure ((), m) else contentErr)
    pure (c', x.emit "ok?")
  | .integer => do
    pure (swap (← takePrimitiveIf c Tag.INTEGER (fun m => do
      let v ← integerFromPrimitive; pure (x.emit ("I" ++ toHex v), m))))
  | .unsigned => do
    pure (swap (← takePrimitiveIf c Tag.INTEGER (fun m => do
      let v ← unsignedFromPrimitive; pure (x.emit ("U" ++ toHex v), m))))
  | .oid => do
    pure (swap (← takePrimitiveIf c Tag.OID (fun m => do
      let v ← Oid.fromPrimitive; pure (x.emit ("O" ++ toHex v), m))))
  | .ooid => do
    pure (optEmit x (← takeOptPrimitiveIf c Tag.OID (fun m => do
      let v ← Oid.fromPrimitive; pure (x.emit ("O" ++ toHex v), m))))
  | .oidSkip => do
    pure (swap (← takePrimitiveIf c Tag.OID (fun m => do
      Oid.skipPrimitive; pure (x.emit "o", m))))
  | .ooidSkip => do
    pure (optEmit x (← takeOptPrimitiveIf c Tag.OID (fun m => do
      Oid.skipPrimitive; pure (x.emit "o", m))))
  | .oidSkipIf content => do
    pure (swap (← takePrimitiveIf c Tag.OID (fun m => do
      Oid.skipIfPrimitive content; pure (x.emit "o=", m))))
  | .bits => do
    pure (swap (← takeValueIf c Tag.BIT_STRING (runTypedC fuel .bits · x)))
  | .bitsSkip => do
    pure (swap (← takeValueIf c Tag.BIT_STRING (runTypedC fuel .bitsSkip · x)))
  | .os => do
    pure (swap (← takeValueIf c Tag.OCTET_STRING (runTypedC fuel .os · x)))
  | .oos => do
    pure (optEmit x (← takeOptValueIf c Tag.OCTET_STRING (runTypedC fuel .os · x)))
  | .rs cs => do
    pure (swap (← takeValueIf c cs.tag (runTypedC fuel (.rs cs) · x)))

/-! ### the interpreter -/

mutual
def runSteps (fuel : Nat) : List Step → Cons → Ctx → Prog (Cons × Ctx)
  | [], c, x => pure (c, x)
  | s :: rest, c, x => do
    let (c', x') ← runStep fuel s c x
    runSteps fuel rest c' x'

def runCont (fuel : Nat) : Cont → Tag → Content → Ctx → Prog (Ctx × Content)
  | .prim ops, _, content, x => asPrimitive (primBody ops x) content
  | .cons body, _, content, x =>
    asConstructed (fun c => do let (c', x') ← runSteps fuel body c x; pure (x', c')) content
  | .generic, tag, content, x => genericValue fuel tag content x
  | .typed r, _, content, x => runTypedC fuel r content x

def runStep (fuel : Nat) : Step → Cons → Ctx → Prog (Cons × Ctx)
  | .tv k, c, x => do
    let (x', c') ← takeValue c (fun tag content =>
      runCont fuel k tag content (x.emit ("t" ++ tagTrace tag (match content with | .cons _ => true | _ => false))))
    pure (c', x')
  | .tov k, c, x => do
    pure (optEmit x (← takeOptValue c (fun tag content =>
      runCont fuel k tag content (x.emit ("t" ++ tagTrace tag (match content with | .cons _ => true | _ => false))))))
  | .tvi t k, c, x => do
    let (x', c') ← takeValueIf c t (fun content => runCont fuel k t content x)
    pure (c', x')
  | .tovi t k, c, x => do
    pure (optEmit x (← takeOptValueIf c t (fun content => runCont fuel k t content (x.emit "some"))))
  | .tp ops, c, x => do
    let (x', c') ← takePrimitive c (fun tag m => primBody ops (x.emit ("t" ++ tagTrace tag false)) m)
    pure (c', x')
  | .top ops, c, x => do
    pure (optEmit x (← takeOptPrimitive c (fun tag m =>
      primBody ops (x.emit ("t" ++ tagTrace tag false)) m)))
  | .tpi t ops, c, x => do
    let (x', c') ← takePrimitiveIf c t (primBody ops x)
    pure (c', x')
  | .topi t ops, c, x => do
    pure (optEmit x (← takeOptPrimitiveIf c t (primBody ops (x.emit "some"))))
  | .tc body, c, x => do
    let (x', c') ← takeConstructed c (fun tag ic => do
      let (ic', x') ← runSteps fuel body ic (x.emit ("t" ++ tagTrace tag true)); pure (x', ic'))
    pure (c', x')
  | .toc body, c, x => do
    pure (optEmit x (← takeOptConstructed c (fun tag ic => do
      let (ic', x') ← runSteps fuel body ic (x.emit ("t" ++ tagTrace tag true)); pure (x', ic'))))
  | .tci t body, c, x => do
    let (x', c') ← takeConstructedIf c t (fun ic => do
      let (ic', x') ← runSteps fuel body ic x; pure (x', ic'))
    pure (c', x')
  | .toci t body, c, x => do
    pure (optEmit x (← takeOptConstructedIf c t (fun ic => do
      let (ic', x') ← runSteps fuel body ic (x.emit "some"); pure (x', ic'))))
  | .skipOpt f, c, x => do
    let (r, c', (_, tr)) ← skipOpt c (scriptFilter f) (0, x.trace) fuel
    let x' := { x with trace := tr }
    pure (c', x'.emit (if r.isSome then "skipped" else "none"))
  | .skip f, c, x => do
    let (c', (_, tr)) ← skip c (scriptFilter f) (0, x.trace) fuel
    pure (c', { x with trace := tr }.emit "skipped")
  | .skipOne, c, x => do
    let (r, c') ← skipOne c fuel
    pure (c', x.emit (if r.isSome then "skipped" else "none"))
  | .skipAll, c, x => do
    let c' ← skipAll c fuel
    pure (c', x.emit "skippedall")
  | .cap body, c, x => do
    -- the closure's trace is threaded through the Cons-returning continuation
    capBegin
    let (ic', x') ← runSteps fuel body c x
    let bytes ← capEnd
    -- as in `capture`: the end-of-contents marker of this value is cut off if the closure read it
    let bytes := if ic'.state = c.state then bytes else bytes.take (bytes.length - ic'.eoc)
    let c' := { c with state := ic'.state, eoc := ic'.eoc }
    pure (c', { x' with reg := some (bytes, c.mode) }.emit ("C" ++ toHex bytes))
  | .capOne, c, x => do
    let (bytes, c') ← captureOne c fuel
    pure (c', { x with reg := some (bytes, c.mode) }.emit ("C" ++ toHex bytes))
  | .capAll, c, x => do
    let (bytes, c') ← captureAll c fuel
    pure (c', { x with reg := some (bytes, c.mode) }.emit ("C" ++ toHex bytes))
  | .dec body, c, x =>
    match x.reg with
    | none => pure (c, x.emit "Dnone")
    | some (bytes, m) =>
      -- `Captured::decode`: a fresh top-level decode over a `BytesSource`
      match runG (decodeTop m (fun ic => do
              let (ic', x') ← runSteps fuel body ic (x.emit "D("); pure (x', ic')))
            { data := bytes, limit := none } with
      | .ok (x', _) => pure (c, x'.emit ")")
      | .error e => .fail e
  | .decp body, c, x =>
    match x.reg with
    | none => pure (c, x.emit "Pnone")
    | some (bytes, m) =>
      -- `Captured::decode_partial`: the remainder stays in the value even if decoding fails;
      -- a failing partial decode is reported in the trace, it does not stop the script
      match runG (decodeTop m (fun ic => do
              let (ic', x') ← runSteps fuel body ic (x.emit "P("); pure (x', ic')))
            { data := bytes, limit := none } with
      | .ok (x', s) => pure (c, { x' with reg := some (s.data, m) }.emit (")R" ++ toHex s.data))
      | .error (.panic p) => .fail (.panic p)
      | .error .fuel => .fail .fuel
      | .error _ => pure (c, { x with reg := none }.emit "Perr")
  | .setMode m, c, x => pure ({ c with mode := m }, x)
  | .typed r, c, x => runTyped fuel r c x
  | .all, c, x => genericAll fuel c x
end

/-- `Mode::decode(source, |cons| script)` on the generous layer; returns the trace and the number of
    octets left in the source -/
def runScript (mode : Mode) (data : Bytes) (script : List Step) : Res (Trace × Nat) :=
  let fuel := data.length + 4
  match runG (decodeTop mode (fun c => do
      let (c', x) ← runSteps fuel script c {}
      pure (x.trace, c'))) { data := data, limit := none } with
  | .ok (tr, s) => .ok (tr, s.data.length)
  | .error e => .error e

end Bcder

namespace Bcder
/-- the same, over the stream layer: a source with grant policy `pol` whose request number `failAt`
    fails; additionally returns the number of requests issued (capture frames are part of the
    stream layer; the `Option` is kept for the driver's sake and is always `some`). -/
def runScriptS (pol : Policy) (failAt : Option Nat) (mode : Mode) (data : Bytes) (script : List Step) :
    Option (Res (Trace × Nat) × Nat) :=
  let fuel := data.length + 4
  let p := decodeTop mode (fun c => do
      let (c', x) ← runSteps fuel script c {}
      pure (x.trace, c'))
  -- run step by step to keep the request counter even on errors
  let rec go : Nat → Prog Trace → S → (Res (Trace × Nat) × Nat)
    | 0, _, s => (.error .fuel, s.reqs)
    | _ + 1, .ret a, s => (.ok (a, s.data.length), s.reqs)
    | _ + 1, .fail e, s => (.error e, s.reqs)
    | n + 1, .op o k, s =>
      match stepS pol s o with
      | .error e => (.error e, if e == .source then s.reqs + 1 else s.reqs)
      | .ok (r, s') => go n (k r) s'
  let r := go (64 * (data.length + 64) * (script.length + 4)) p
    { data := data, granted := 0, reqs := 0, failAt := failAt, limit := none }
  some r
end Bcder
