/-
  Bcder.Model.Int — follows src/int.rs and the integer/bool/null parts of
  src/encode/primitive.rs and src/decode/content.rs.

  Rust item                                         Lean
  ------------------------------------------------------------------------------
  slice_to_builtin!(signed, …, iN)                  sliceToSigned w
  slice_to_builtin!(unsigned, …, uN)                sliceToUnsigned w
  Integer::check_head / Unsigned::check_head        checkHeadSigned / checkHeadUnsigned
  decode_builtin!                                   decodeSigned w / decodeUnsigned w
  Integer::i8_from_primitive                        i8FromPrimitive
  Unsigned::u8_from_primitive / u16_from_primitive  u8FromPrimitive / u16FromPrimitive
  Primitive::to_bool / to_null                      toBool / toNull
  Integer::from_primitive / Unsigned::from_primitive  integerFromPrimitive / unsignedFromPrimitive
  Integer::{is_zero,is_positive,is_negative,cmp,eq} BigInt.isZero …
  Unsigned::from_bytes / from_slice                 unsignedFromBytes
  impl PrimitiveContent for u8,u16..u128,i8,i16..i128,bool,()   encU8, encUnsigned w, encI8, encSigned w, encBool, encNull (+ …Len)
  Primitive::decode_slice                           decodeSlice
-/
import Bcder.Model.Content
namespace Bcder
open Prog

/-! ### fixed-width two's complement helpers (what `from_be_bytes` / `to_be_bytes` do) -/

/-- big-endian octets of `v` in exactly `w` octets (`v < 256^w`) -/
def toBE : Nat → Nat → Bytes
  | 0, _ => []
  | w + 1, v => toBE w (v / 256) ++ [UInt8.ofNat (v % 256)]

/-- `iN::from_be_bytes` for a list of `w` octets -/
def signedOfBE (bs : Bytes) : Int :=
  let u := beValue bs
  if u ≥ 2 ^ (8 * bs.length - 1) ∧ bs.length > 0 then (u : Int) - (2 : Int) ^ (8 * bs.length) else u

/-- `slice_to_builtin!(signed, slice, iN, err)`; `none` is `$err`.
    Indexing `slice[0]` on an empty slice panics. -/
def sliceToSigned (w : Nat) (s : Bytes) : Res (Option Int) :=
  if s.length > w then .ok none
  else match s with
    | [] => .error (.panic "slice_to_builtin: index 0 of empty slice")
    | b :: _ =>
      let fill : UInt8 := if (b &&& 0x80) == 0 then 0 else 0xFF
      .ok (some (signedOfBE (List.replicate (w - s.length) fill ++ s)))

/-- `slice_to_builtin!(unsigned, slice, uN, err)` -/
def sliceToUnsigned (w : Nat) (s : Bytes) : Res (Option Nat) :=
  match s with
  | [] => .error (.panic "slice_to_builtin: index 0 of empty slice")
  | b :: rest =>
    if (b &&& 0x80) != 0 then .ok none
    else
      let val := if b == 0 then rest else s
      if val.length == 0 then .ok (some 0)
      else if val.length > w then .ok none
      else .ok (some (beValue (List.replicate (w - val.length) 0 ++ val)))

/-- `Integer::check_head` -/
def checkHeadSigned : Prog Unit := do
  let (n, a, b) ← peek2
  if n == 0 then contentErr
  else
    match a, b.map (fun x => (x &&& 0x80) != 0) with
    | some 0, some false => contentErr
    | some 0xFF, some true => contentErr
    | _, _ => pure ()

/-- `Unsigned::check_head` -/
def checkHeadUnsigned : Prog Unit := do
  let (n, a, b) ← peek2
  if n == 0 then contentErr
  else
    match a, b.map (fun x => (x &&& 0x80) != 0) with
    | some 0, some false => contentErr
    | some 0xFF, some true => contentErr
    | _, _ =>
      match a with
      | none => Prog.panic "check_head: first().unwrap()"
      | some f => if (f &&& 0x80) != 0 then contentErr else pure ()

/-- lift a `Res (Option α)` computed inside a `with_slice_all` closure -/
def liftSlice (f : Bytes → Res (Option α)) : Prog α := do
  let l ← Prim.remaining
  if ← need l then
    let s ← sliceN l
    match f s with
    | .error e => .fail e
    | .ok none => contentErr
    | .ok (some a) => do skipN l; pure a
  else contentErr

/-- `decode_builtin!(signed, prim, iN)` -/
def decodeSigned (w : Nat) : Prog Int := do
  checkHeadSigned
  liftSlice (sliceToSigned w)

/-- `decode_builtin!(unsigned, prim, uN)` -/
def decodeUnsigned (w : Nat) : Prog Nat := do
  checkHeadUnsigned
  liftSlice (sliceToUnsigned w)

/-- `Integer::i8_from_primitive` (`x as i8`) -/
def i8FromPrimitive : Prog Int := do
  checkHeadSigned
  let x ← takeU8
  pure (if x.toNat ≥ 128 then (x.toNat : Int) - 256 else x.toNat)

/-- `Unsigned::u8_from_primitive` -/
def u8FromPrimitive : Prog Nat := do
  checkHeadUnsigned
  match ← Prim.remaining with
  | 1 => do let x ← takeU8; pure x.toNat
  | 2 => do
    if (← takeU8) != 0 then contentErr
    else do let x ← takeU8; pure x.toNat
  | _ => contentErr

/-- `Unsigned::u16_from_primitive` -/
def u16FromPrimitive : Prog Nat := do
  checkHeadUnsigned
  match ← Prim.remaining with
  | 1 => do let x ← takeU8; pure x.toNat
  | 2 => do
    let a ← takeU8; let b ← takeU8
    pure ((a.toNat <<< 8) ||| b.toNat)
  | 3 => do
    if (← takeU8) != 0 then contentErr
    else do
      let a ← takeU8; let b ← takeU8
      let res := (a.toNat <<< 8) ||| b.toNat
      if res < 0x8000 then contentErr else pure res
  | _ => contentErr

/-- the fixed-width accessors of `Primitive` -/
inductive IntTy | i8 | i16 | i32 | i64 | i128 | u8 | u16 | u32 | u64 | u128
deriving DecidableEq, Repr, Inhabited

def IntTy.width : IntTy → Nat
  | .i8 | .u8 => 1 | .i16 | .u16 => 2 | .i32 | .u32 => 4 | .i64 | .u64 => 8 | .i128 | .u128 => 16
def IntTy.signed : IntTy → Bool
  | .i8 | .i16 | .i32 | .i64 | .i128 => true
  | _ => false

/-- `Primitive::to_i8 … to_u128` -/
def toInt : IntTy → Prog Int
  | .i8 => i8FromPrimitive
  | .i16 => decodeSigned 2
  | .i32 => decodeSigned 4
  | .i64 => decodeSigned 8
  | .i128 => decodeSigned 16
  | .u8 => do let n ← u8FromPrimitive; pure n
  | .u16 => do let n ← u16FromPrimitive; pure n
  | .u32 => do let n ← decodeUnsigned 4; pure n
  | .u64 => do let n ← decodeUnsigned 8; pure n
  | .u128 => do let n ← decodeUnsigned 16; pure n

/-- `Primitive::to_bool` -/
def toBool (mode : Mode) : Prog Bool := do
  let res ← takeU8
  if !mode.isBer then
    if res == 0 then pure false
    else if res == 0xFF then pure true
    else contentErr
  else pure (res != 0)

/-- `Primitive::to_null` -/
def toNull : Prog Unit := do
  if (← Prim.remaining) > 0 then contentErr else pure ()

/-- `Primitive::decode_slice` -/
def decodeSlice (data : Bytes) (op : Prog α) : Res α :=
  let p : Prog α := do
    let a ← op
    limitedExhausted
    pure a
  match runG p { data := data, limit := some data.length } with
  | .ok (a, _) => .ok a
  | .error e => .error e

/-! ### arbitrary-size integers -/

/-- `Integer::from_primitive` -/
def integerFromPrimitive : Prog Bytes := do
  let res ← Prim.takeAll
  match res.head?, res.tail.head?.map (fun x => (x &&& 0x80) != 0) with
  | some 0, some false => contentErr
  | some 0xFF, some true => contentErr
  | none, _ => contentErr
  | _, _ => pure res

/-- `Unsigned::from_primitive` -/
def unsignedFromPrimitive : Prog Bytes := do
  checkHeadUnsigned
  integerFromPrimitive

namespace BigInt

/-- `Integer::is_zero` -/
def isZero (a : Bytes) : Bool := a.all (· == 0)

/-- `Integer::is_positive`; `self.0[0]` panics on an empty value -/
def isPositive (a : Bytes) : Res Bool :=
  match a with
  | [] => .error (.panic "index 0")
  | b :: rest => if b == 0 && rest.isEmpty then .ok false else .ok ((b &&& 0x80) == 0)

/-- `Integer::is_negative` -/
def isNegative (a : Bytes) : Res Bool :=
  match a with
  | [] => .error (.panic "index 0")
  | b :: _ => .ok ((b &&& 0x80) == 0x80)

/-- the `for (l, r) in zip` loop -/
def cmpZip : Bytes → Bytes → Ordering
  | a :: as, b :: bs => if a < b then .lt else if a > b then .gt else cmpZip as bs
  | _, _ => .eq

/-- `impl Ord for Integer` -/
def cmp (a b : Bytes) : Res Ordering := do
  let na ← isNegative a
  let nb ← isNegative b
  match na, nb with
  | false, false =>
    pure (match compare a.length b.length with
      | .eq => cmpZip a b
      | o => o)
  | true, true =>
    pure (match compare a.length b.length with
      | .eq => cmpZip a b
      | .lt => .gt
      | .gt => .lt)
  | true, false => pure .lt
  | false, true => pure .gt

/-- `impl PartialEq for Integer` (and the hash feed: the content octets) -/
def eq (a b : Bytes) : Bool := a == b

end BigInt

/-- `Unsigned::from_bytes` / `from_slice` / `TryFrom<Bytes>`; `none` is `Err(InvalidInteger)` -/
def unsignedFromBytes (bytes : Bytes) : Res (Option Bytes) :=
  if bytes.isEmpty then .ok none
  else
    let nz := (bytes.takeWhile (· == 0)).length
    if nz == bytes.length then .ok (some (bytes.take 1))
    else
      let value := bytes.drop nz
      match value with
      | [] => .error (.panic "value[0]")
      | v0 :: _ =>
        if (v0 &&& 0x80) == 0 then .ok (some value)
        else if nz > 0 then .ok (some (bytes.drop (nz - 1)))
        else .ok (some (0 :: value))

/-! ### encoders (src/encode/primitive.rs) -/

/-- `impl PrimitiveContent for u8` -/
def encU8Len (v : Nat) : Nat := if v > 0x7F then 2 else 1
def encU8 (v : Nat) : Bytes := (if v > 0x7F then [0] else []) ++ [UInt8.ofNat v]

/-- `uN::leading_zeros` for a `w`-octet type -/
def leadingZeros (w : Nat) (v : Nat) : Nat := if v == 0 then 8 * w else 8 * w - (Nat.log2 v + 1)

/-- `unsigned_content!`: `encoded_len` -/
def encUnsignedLen (w : Nat) (v : Nat) : Nat :=
  if v == 0 then 1
  else
    let zeros := leadingZeros w v
    if zeros % 8 == 0 then w - (zeros >>> 3) + 1 else w - (zeros >>> 3)

/-- `unsigned_content!`: `write_encoded` (the `swap_bytes` loop walks the big-endian octets) -/
def encUnsigned (w : Nat) (v : Nat) : Bytes :=
  if v == 0 then [0]
  else
    let rest := (toBE w v).dropWhile (· == 0)
    match rest with
    | [] => []
    | b :: _ => (if (b &&& 0x80) != 0 then [0] else []) ++ rest

/-- `impl PrimitiveContent for i8` -/
def encI8 (v : Int) : Bytes := [UInt8.ofNat (v % 256).toNat]

/-- `signed_content!`: `encoded_len` -/
def encSignedLen (w : Nat) (v : Int) : Nat :=
  if v == 0 || v == -1 then 1
  else
    let zeros := if v < 0 then leadingZeros w (-v - 1).toNat else leadingZeros w v.toNat
    if zeros &&& 7 == 0 then w + 1 - (zeros >>> 3) else w - (zeros >>> 3)

/-- `signed_content!`: `write_encoded` -/
def encSigned (w : Nat) (v : Int) : Bytes :=
  if v == 0 then [0]
  else if v == -1 then [0xFF]
  else
    let be := toBE w (v % (2 : Int) ^ (8 * w)).toNat
    if v < 0 then
      let rest := be.dropWhile (· == 0xFF)
      match rest with
      | [] => []
      | b :: _ => (if (b &&& 0x80) != 0x80 then [0xFF] else []) ++ rest
    else
      let rest := be.dropWhile (· == 0)
      match rest with
      | [] => []
      | b :: _ => (if (b &&& 0x80) == 0x80 then [0] else []) ++ rest

def encBool (b : Bool) : Bytes := if b then [0xff] else [0]
def encNull : Bytes := []

/-- `PrimitiveContent::{encoded_len, write_encoded}` of the builtin integer types -/
def encInt (ty : IntTy) (v : Int) : Bytes :=
  match ty with
  | .u8 => encU8 v.toNat
  | .i8 => encI8 v
  | t => if t.signed then encSigned t.width v else encUnsigned t.width v.toNat
def encIntLen (ty : IntTy) (v : Int) : Nat :=
  match ty with
  | .u8 => encU8Len v.toNat
  | .i8 => 1
  | t => if t.signed then encSignedLen t.width v else encUnsignedLen t.width v.toNat

end Bcder
