/-
  Bcder.Model.OssSource — an `OctetStringSource` seen as a base source: the grant policy it realises
  (`ossPol`), and the two ways of answering a sequence of `request` / `advance` calls that C07b proves
  equal: through the model of `OctetStringSource` (`ossRun`) and through the abstract conforming source
  of the stream layer with that policy (`absRun`).  The driver executes both.
-/
import Bcder.Model.Octet
import Bcder.Model.Stream
namespace Bcder

/-- the octets granted when `x` more octets are wanted and the segments `segs` are still to come:
    the smallest prefix sum of the segment lengths that reaches `x` — all of them if none does -/
def grantFrom : List Bytes → Nat → Nat
  | [], _ => 0
  | s :: ss, x => if x = 0 then 0 else s.length + grantFrom ss (x - s.length)

/-- the grant policy of an `OctetStringSource` over the segments `segs`: the smallest segment boundary
    that covers the request (counted from the current position `total - avail`) -/
def ossPol (segs : List Bytes) : Policy := fun _ len avail =>
  if avail ≤ segs.flatten.length then
    grantFrom segs (segs.flatten.length - avail + min len avail) - (segs.flatten.length - avail)
  else min len avail

/-- what a caller can do with a base source -/
inductive Call | request (len : Nat) | advance (n : Nat)

/-- what it sees: the grant and the slice after a request, the slice after an advance -/
inductive Seen | granted (g : Nat) (slice : Bytes) | advanced (slice : Bytes) | refused
deriving DecidableEq

def ossRun : List Call → OSS → List Seen
  | [], _ => []
  | .request len :: cs, s =>
    match OSS.request s len with
    | .ok (g, s') => .granted g s'.current :: ossRun cs s'
    | .error _ => [.refused]
  | .advance n :: cs, s =>
    match OSS.advance s n with
    | .ok s' => .advanced s'.current :: ossRun cs s'
    | .error _ => [.refused]

def absRun (pol : Policy) : List Call → S → List Seen
  | [], _ => []
  | .request len :: cs, a =>
    match a.baseRequest pol len with
    | .ok (g, a') => .granted g a'.slice :: absRun pol cs a'
    | .error _ => [.refused]
  | .advance n :: cs, a =>
    match a.advance n with
    | .ok a' => .advanced a'.slice :: absRun pol cs a'
    | .error _ => [.refused]

end Bcder
