/-
  Bcder.Model.Restricted — follows src/string/restricted.rs (after the `fix:` commits for UTF-8
  validation and `from_str`).

  CharSet::next_char ×4         CharSet.nextChar
  CharSet::check                CharSet.check
  CharSet::from_str ×4          CharSet.fromStr
  RestrictedString::new         RS.new
  RestrictedString::from_content RS.fromContent
  RestrictedString::chars / Display   RS.chars
-/
import Bcder.Model.Octet
namespace Bcder
open Prog

inductive CharSet | utf8 | numeric | printable | ia5
deriving DecidableEq, Repr, Inhabited

namespace CharSet

def tag : CharSet → Tag
  | .utf8 => Tag.UTF8_STRING
  | .numeric => Tag.NUMERIC_STRING
  | .printable => Tag.PRINTABLE_STRING
  | .ia5 => Tag.IA5_STRING

def isContinuation (ch : UInt8) : Bool := (ch &&& 0xC0) == 0x80

/-- `char::from_u32`: a Unicode scalar value -/
def isScalar (code : Nat) : Bool := code < 0xD800 || (code ≥ 0xE000 && code ≤ 0x10FFFF)

/-- local `to_char(code, min)` -/
def toChar (code min : Nat) : Option Nat :=
  if code < min then none else if isScalar code then some code else none

def isAsciiDigit (b : UInt8) : Bool := b ≥ 0x30 && b ≤ 0x39
def isAsciiAlnum (b : UInt8) : Bool :=
  isAsciiDigit b || (b ≥ 0x41 && b ≤ 0x5A) || (b ≥ 0x61 && b ≤ 0x7A)
def isPrintable (x : UInt8) : Bool :=
  isAsciiAlnum x || x == 0x20 || x == 0x27 || x == 0x28 || x == 0x29 || x == 0x2B || x == 0x2C ||
  x == 0x2D || x == 0x2E || x == 0x2F || x == 0x3A || x == 0x3D || x == 0x3F

/-- `CharSet::next_char` on an octet iterator: `.ok none` end, `.ok (some (code, rest))`,
    `.error ()` = `Err(CharSetError)` -/
def nextChar (cs : CharSet) (it : Bytes) : Except Unit (Option (Nat × Bytes)) :=
  match cs with
  | .utf8 =>
    match it with
    | [] => .ok none
    | first :: it1 =>
      if first < 0x80 then .ok (some (first.toNat, it1))
      else match it1 with
      | [] => .error ()
      | second :: it2 =>
        if first < 0xC0 || !isContinuation second then .error ()
        else if first < 0xE0 then
          match toChar (((first &&& 0x1F).toNat <<< 6) ||| (second &&& 0x3F).toNat) 0x80 with
          | some c => .ok (some (c, it2))
          | none => .error ()
        else match it2 with
        | [] => .error ()
        | third :: it3 =>
          if !isContinuation third then .error ()
          else if first < 0xF0 then
            match toChar (((first &&& 0x0F).toNat <<< 12) ||| ((second &&& 0x3F).toNat <<< 6)
                          ||| (third &&& 0x3F).toNat) 0x800 with
            | some c => .ok (some (c, it3))
            | none => .error ()
          else match it3 with
          | [] => .error ()
          | fourth :: it4 =>
            if first > 0xF7 || !isContinuation fourth then .error ()
            else
              match toChar (((first &&& 0x07).toNat <<< 18) ||| ((second &&& 0x3F).toNat <<< 12)
                            ||| ((third &&& 0x3F).toNat <<< 6) ||| (fourth &&& 0x3F).toNat)
                           0x10000 with
              | some c => .ok (some (c, it4))
              | none => .error ()
  | .numeric =>
    match it with
    | [] => .ok none
    | ch :: rest => if ch == 0x20 || isAsciiDigit ch then .ok (some (ch.toNat, rest)) else .error ()
  | .printable =>
    match it with
    | [] => .ok none
    | ch :: rest => if isPrintable ch then .ok (some (ch.toNat, rest)) else .error ()
  | .ia5 =>
    match it with
    | [] => .ok none
    | ch :: rest => if ch < 0x80 then .ok (some (ch.toNat, rest)) else .error ()

/-- all characters; `none` = `Err(CharSetError)` somewhere (fuel = length + 1) -/
def charsAux (cs : CharSet) : Nat → Bytes → Res (Option (List Nat))
  | 0, _ => .error .fuel
  | fuel + 1, it =>
    match nextChar cs it with
    | .error () => .ok none
    | .ok none => .ok (some [])
    | .ok (some (c, rest)) => do
      match ← charsAux cs fuel rest with
      | none => pure none
      | some l => pure (some (c :: l))

def chars (cs : CharSet) (bs : Bytes) : Res (Option (List Nat)) := charsAux cs (bs.length + 1) bs

/-- `CharSet::check` -/
def check (cs : CharSet) (bs : Bytes) : Res Bool := do
  pure (← chars cs bs).isSome

/-- `CharSet::from_str` on the UTF-8 octets of a Rust `str` (which are well-formed by construction) -/
def fromStr (cs : CharSet) (s : Bytes) : Res (Option Bytes) :=
  match cs with
  | .utf8 => .ok (some s)
  | _ => do if ← check cs s then pure (some s) else pure none

end CharSet

namespace RS

/-- `RestrictedString::new` -/
def new (cs : CharSet) (os : OS) : Res (Option OS) := do
  if ← cs.check (← os.octets) then pure (some os) else pure none

/-- `RestrictedString::from_content` -/
def fromContent (cs : CharSet) (fuel : Nat) (content : Content) : Prog (OS × Content) := do
  let (os, content') ← OS.fromContent fuel content
  match new cs os with
  | .error e => .fail e
  | .ok none => contentErr
  | .ok (some os) => pure (os, content')

/-- `RestrictedString::chars` / `Display`: `next_char(..).unwrap()` panics on an invalid string -/
def chars (cs : CharSet) (os : OS) : Res (List Nat) := do
  match ← cs.chars (← os.octets) with
  | some l => pure l
  | none => .error (.panic "next_char unwrap")

end RS
end Bcder
