/-
  Bcder.Model.Octet — follows src/string/octet.rs (after the `fix:` commits for CER segments and
  for comparison/hashing).

  OctetString(Inner)                     OS
  OctetString::from_content              OS.fromContent  (take_constructed_ber / take_constructed_cer)
  OctetStringIter::next                  OS.iterNext / OS.segments
  OctetString::{octets,to_bytes,into_bytes,len,is_empty,as_slice}   OS.octets …
  PartialEq / PartialEq<T> / PartialOrd<T> / Ord / Hash   OS.eq, OS.eqSlice, OS.cmpSlice, OS.cmp, OS.hashFeed
  OctetStringSource::{next_current,request,advance}       OSS.…
-/
import Bcder.Model.Content
namespace Bcder
open Prog

inductive OS
  | prim (bytes : Bytes)
  | cons (captured : Bytes)
deriving DecidableEq, Repr, Inhabited

namespace OS

/-- the filter closure of `take_constructed_ber` -/
def berFilter : Unit → Tag → Bool → Nat → Option Unit :=
  fun _ tag _ _ => if tag = Tag.OCTET_STRING then some () else none

/-- `while cons.skip_opt(filter)?.is_some() { }` -/
def berLoop (c : Cons) (inner : Nat) : Nat → Prog Cons
  | 0 => .fail .fuel
  | fuel + 1 => do
    match ← skipOpt c berFilter () inner with
    | (some (), c', _) => berLoop c' inner fuel
    | (none, c', _) => pure c'

/-- `OctetString::take_constructed_ber` -/
def takeConstructedBer (c : Cons) (fuel : Nat) : Prog (OS × Cons) := do
  let (bytes, c') ← capture c (fun c => berLoop c fuel fuel)
  pure (.cons bytes, c')

/-- the loop of `take_constructed_cer`; `short` is the captured flag -/
def cerLoop (c : Cons) : Nat → Bool → Prog Cons
  | 0, _ => .fail .fuel
  | fuel + 1, short => do
    let (r, c') ← takeOptPrimitiveIf c Tag.OCTET_STRING (fun m => do
      let rem ← Prim.remaining
      if rem > 1000 then contentErr
      else if short then contentErr
      else
        Prim.skipAll
        pure (decide (rem < 1000), m))
    match r with
    | some short' => cerLoop c' fuel short'
    | none => pure c'

/-- `OctetString::take_constructed_cer` -/
def takeConstructedCer (c : Cons) (fuel : Nat) : Prog (OS × Cons) := do
  let (bytes, c') ← capture c (fun c => cerLoop c fuel false)
  pure (.cons bytes, c')

/-- `OctetString::from_content` -/
def fromContent (fuel : Nat) : Content → Prog (OS × Content)
  | .prim mode => do
    if mode == .cer && (← Prim.remaining) > 1000 then contentErr
    else
      let bytes ← Prim.takeAll
      pure (.prim bytes, .prim mode)
  | .cons c =>
    match c.mode with
    | .ber => do let (os, c') ← takeConstructedBer c fuel; pure (os, .cons c')
    | .cer => do let (os, c') ← takeConstructedCer c fuel; pure (os, .cons c')
    | .der => contentErr

/-- run a header reader on a plain `SliceSource` (no limit); `.unwrap()` turns errors into panics -/
def unwrapOn (p : Prog α) (data : Bytes) : Res (α × Bytes) :=
  match runG p { data := data, limit := none } with
  | .ok (a, s) => .ok (a, s.data)
  | .error (.panic s) => .error (.panic s)
  | .error _ => .error (.panic "unwrap on Err")

/-- `OctetStringIter::next` for the constructed form -/
def iterNextCons : Nat → Bytes → Res (Option (Bytes × Bytes))
  | 0, _ => .error .fuel
  | fuel + 1, inner =>
    if inner.isEmpty then .ok none
    else do
      let ((tag, isCons), inner1) ← unwrapOn Tag.takeFrom inner
      let (length, inner2) ← unwrapOn (Length.takeFrom .ber) inner1
      if tag = Tag.OCTET_STRING then
        if isCons then iterNextCons fuel inner2
        else match length with
          | .definite len =>
            if len > inner2.length then .error (.panic "split_to out of range")
            else .ok (some (inner2.take len, inner2.drop len))
          | .indefinite => .error (.panic "unreachable")
      else if tag = Tag.END_OF_VALUE then iterNextCons fuel inner2
      else .error (.panic "unreachable")

def segmentsCons : Nat → Bytes → Res (List Bytes)
  | 0, _ => .error .fuel
  | fuel + 1, inner => do
    match ← iterNextCons (inner.length + 2) inner with
    | none => pure []
    | some (seg, rest) => do
      let more ← segmentsCons fuel rest
      pure (seg :: more)

/-- everything `OctetString::iter()` yields -/
def segments : OS → Res (List Bytes)
  | .prim b => .ok (if b.isEmpty then [] else [b])
  | .cons c => segmentsCons (c.length + 2) c

/-- `OctetString::octets()` collected; also `to_bytes` / `into_bytes` -/
def octets (s : OS) : Res Bytes := do
  match s with
  | .prim b => pure b
  | .cons _ => pure (← segments s).flatten

def len (s : OS) : Res Nat := do
  match s with
  | .prim b => pure b.length
  | .cons _ => pure ((← segments s).foldl (fun l x => l + x.length) 0)

def isEmpty (s : OS) : Res Bool := do
  match s with
  | .prim b => pure b.isEmpty
  | .cons _ => pure (!(← segments s).any (fun x => !x.isEmpty))

def asSlice : OS → Option Bytes
  | .prim b => some b
  | .cons _ => none

/-- `Iterator::cmp` on octets -/
def lexCmp : Bytes → Bytes → Ordering
  | [], [] => .eq
  | [], _ :: _ => .lt
  | _ :: _, [] => .gt
  | a :: as, b :: bs => if a < b then .lt else if a > b then .gt else lexCmp as bs

/-- `impl PartialEq for OctetString` -/
def eq (a b : OS) : Res Bool := do
  match a.asSlice, b.asSlice with
  | some l, some r => pure (l == r)
  | _, _ => pure ((← a.octets) == (← b.octets))

/-- `impl PartialEq<T: AsRef<[u8]>>` -/
def eqSlice (a : OS) (t : Bytes) : Res Bool := do
  match a.asSlice with
  | some l => pure (l == t)
  | none => pure ((← a.octets) == t)

/-- `impl Ord` -/
def cmp (a b : OS) : Res Ordering := do
  match a.asSlice, b.asSlice with
  | some l, some r => pure (lexCmp l r)
  | _, _ => pure (lexCmp (← a.octets) (← b.octets))

/-- `impl PartialOrd<T>` -/
def cmpSlice (a : OS) (t : Bytes) : Res Ordering := do
  match a.asSlice with
  | some l => pure (lexCmp l t)
  | none => pure (lexCmp (← a.octets) t)

/-- what `impl Hash` feeds to the hasher: the length, then the octets one by one -/
def hashFeed (a : OS) : Res (Nat × Bytes) := do
  pure (← a.len, ← a.octets)

end OS

/-- `OctetStringSource` -/
structure OSS where
  current : Bytes
  remainder : Bytes
deriving Repr, DecidableEq

namespace OSS

def new : OS → OSS
  | .prim b => ⟨b, []⟩
  | .cons c => ⟨[], c⟩

/-- `OctetStringSource::next_current` (same loop as the iterator, over the `BytesSource`) -/
def nextCurrent (s : OSS) : Res (Option (Bytes × OSS)) := do
  match ← OS.iterNextCons (s.remainder.length + 2) s.remainder with
  | some (seg, rest) => pure (some (seg, { s with remainder := rest }))
  | none => pure none

/-- the `while current.len() < len` loop of `request` -/
def fill (len : Nat) : Nat → OSS → Res OSS
  | 0, _ => .error .fuel
  | fuel + 1, s =>
    if s.current.length < len then do
      match ← nextCurrent s with
      | some (seg, s') => fill len fuel { s' with current := s'.current ++ seg }
      | none => pure { s with remainder := [] }
    else pure s

/-- `OctetStringSource::request` -/
def request (s : OSS) (len : Nat) : Res (Nat × OSS) := do
  if s.current.length < len && !s.remainder.isEmpty then
    let s' ← fill len (s.remainder.length + 2) s
    pure (s'.current.length, s')
  else pure (s.current.length, s)

/-- `OctetStringSource::advance` -/
def advance (s : OSS) (len : Nat) : Res OSS :=
  if len ≤ s.current.length then .ok { s with current := s.current.drop len }
  else .error (.panic "advance past current")

end OSS
end Bcder
