/-
  Bcder.Model.Basic — common vocabulary of the executable model.
  Core Lean only (no Mathlib / Batteries): this file is linked into the `bcder_model` driver.
-/
namespace Bcder

abbrev Bytes := List UInt8

/-- `Mode` of src/mode.rs. -/
inductive Mode | ber | cer | der
deriving DecidableEq, Repr, Inhabited

def Mode.isBer : Mode → Bool | .ber => true | _ => false

/-- Outcome classes of a decoding call.  Error messages and positions are not modelled.
  `panic site` is every place where the Rust would panic (index, unwrap, assert, overflow);
  `fuel` is a model loop running out of its fuel argument. -/
inductive Err
  | content
  | source
  | panic (site : String)
  | fuel
deriving DecidableEq, Repr, Inhabited

abbrev Res (α : Type) := Except Err α

def Err.isPanic : Err → Bool | .panic _ => true | _ => false

/-! ### small byte helpers used everywhere -/

@[inline] def b2n (b : UInt8) : Nat := b.toNat
@[inline] def n2b (n : Nat) : UInt8 := UInt8.ofNat n

/-- big-endian value of an octet list -/
def beValue : Bytes → Nat
  | [] => 0
  | bs => bs.foldl (fun acc b => acc * 256 + b.toNat) 0

end Bcder
