/- parser for the script / encoder-tree request syntax (driver glue; nothing is proved about it) -/
import Bcder.Model.Script
namespace Bcder

def parseTag (s : String) : Option Tag :=
  match s.toList with
  | c :: ds =>
    match (String.ofList ds).toNat? with
    | none => none
    | some n =>
      let cls : Option UInt8 := match c with
        | 'u' => some 0x00 | 'a' => some 0x40 | 'c' => some 0x80 | 'p' => some 0xc0 | _ => none
      match cls with
      | none => none
      | some m => match Tag.new m n with | .ok t => some t | _ => none
  | [] => none

def parseIntTy : String → Option IntTy
  | "i8" => some .i8 | "i16" => some .i16 | "i32" => some .i32 | "i64" => some .i64 | "i128" => some .i128
  | "u8" => some .u8 | "u16" => some .u16 | "u32" => some .u32 | "u64" => some .u64 | "u128" => some .u128
  | _ => none

def parseCharSet : String → Option CharSet
  | "utf8" => some .utf8 | "num" => some .numeric | "print" => some .printable | "ia5" => some .ia5
  | _ => none

abbrev Toks := List String

def parsePrimOps : Nat → Toks → Option (List PrimOp × Toks)
  | 0, _ => none
  | fuel + 1, toks =>
    match toks with
    | "]" :: rest => some ([], rest)
    | "req" :: n :: rest => do let (l, r) ← parsePrimOps fuel rest; pure (.req (← n.toNat?) :: l, r)
    | "tu8" :: rest => do let (l, r) ← parsePrimOps fuel rest; pure (.tu8 :: l, r)
    | "tou8" :: rest => do let (l, r) ← parsePrimOps fuel rest; pure (.tou8 :: l, r)
    | "adv" :: n :: rest => do let (l, r) ← parsePrimOps fuel rest; pure (.adv (← n.toNat?) :: l, r)
    | "skip" :: n :: rest => do let (l, r) ← parsePrimOps fuel rest; pure (.skip (← n.toNat?) :: l, r)
    | "slice" :: rest => do let (l, r) ← parsePrimOps fuel rest; pure (.slice :: l, r)
    | "bytes" :: a :: b :: rest => do
      let (l, r) ← parsePrimOps fuel rest; pure (.bytes (← a.toNat?) (← b.toNat?) :: l, r)
    | "takeall" :: rest => do let (l, r) ← parsePrimOps fuel rest; pure (.takeAll :: l, r)
    | "skipall" :: rest => do let (l, r) ← parsePrimOps fuel rest; pure (.skipAll :: l, r)
    | "sliceall" :: rest => do let (l, r) ← parsePrimOps fuel rest; pure (.sliceAll :: l, r)
    | "wsa" :: rest => do let (l, r) ← parsePrimOps fuel rest; pure (.wsa :: l, r)
    | "rem" :: rest => do let (l, r) ← parsePrimOps fuel rest; pure (.rem :: l, r)
    | "mode" :: m :: rest => do
      let (l, r) ← parsePrimOps fuel rest; pure (.setMode (← Mode.ofString m) :: l, r)
    | "bool" :: rest => do let (l, r) ← parsePrimOps fuel rest; pure (.toBool :: l, r)
    | "null" :: rest => do let (l, r) ← parsePrimOps fuel rest; pure (.toNull :: l, r)
    | "int" :: ty :: rest => do
      let (l, r) ← parsePrimOps fuel rest; pure (.toInt (← parseIntTy ty) :: l, r)
    | "integer" :: rest => do let (l, r) ← parsePrimOps fuel rest; pure (.integer :: l, r)
    | "unsigned" :: rest => do let (l, r) ← parsePrimOps fuel rest; pure (.unsigned :: l, r)
    | "oid" :: rest => do let (l, r) ← parsePrimOps fuel rest; pure (.oid :: l, r)
    | "oidskip" :: rest => do let (l, r) ← parsePrimOps fuel rest; pure (.oidSkip :: l, r)
    | _ => none

def parseFilter (s : String) : Option Filter :=
  match s.toList with
  | ['A'] => some .accept
  | ['O'] => some .octetOnly
  | 'R' :: ds => (String.ofList ds).toNat?.map Filter.rejectAt
  | _ => none

def parseTyped : Toks → Option (Typed × Toks)
  | "bool" :: r => some (.bool, r) | "obool" :: r => some (.obool, r)
  | "null" :: r => some (.null, r) | "onull" :: r => some (.onull, r)
  | "u8" :: r => some (.u8, r) | "ou8" :: r => some (.ou8, r)
  | "u16" :: r => some (.u16, r) | "ou16" :: r => some (.ou16, r)
  | "u32" :: r => some (.u32, r) | "ou32" :: r => some (.ou32, r)
  | "u64" :: r => some (.u64, r) | "ou64" :: r => some (.ou64, r)
  | "skipu8if" :: n :: r => n.toNat?.map (fun n => (.skipU8If n, r))
  | "oskipu8if" :: n :: r => n.toNat?.map (fun n => (.oskipU8If n, r))
  | "integer" :: r => some (.integer, r) | "unsigned" :: r => some (.unsigned, r)
  | "oid" :: r => some (.oid, r) | "ooid" :: r => some (.ooid, r)
  | "oidskip" :: r => some (.oidSkip, r) | "ooidskip" :: r => some (.ooidSkip, r)
  | "oidskipif" :: h :: r => (ofHex h).map (fun b => (.oidSkipIf b, r))
  | "bits" :: r => some (.bits, r) | "bitsskip" :: r => some (.bitsSkip, r)
  | "os" :: r => some (.os, r) | "oos" :: r => some (.oos, r)
  | "rs" :: cs :: r => (parseCharSet cs).map (fun cs => (.rs cs, r))
  | _ => none

def parseTypedC : Toks → Option (TypedC × Toks)
  | "u8" :: r => some (.u8, r) | "u16" :: r => some (.u16, r)
  | "u32" :: r => some (.u32, r) | "u64" :: r => some (.u64, r)
  | "null" :: r => some (.null, r)
  | "skipu8if" :: n :: r => n.toNat?.map (fun n => (.skipU8If n, r))
  | "os" :: r => some (.os, r) | "bits" :: r => some (.bits, r) | "bitsskip" :: r => some (.bitsSkip, r)
  | "rs" :: cs :: r => (parseCharSet cs).map (fun cs => (.rs cs, r))
  | _ => none

mutual
/-- parses steps up to the closing `}` (or the end of input at top level) -/
def parseSteps : Nat → Toks → Option (List Step × Toks)
  | 0, _ => none
  | fuel + 1, toks =>
    match toks with
    | [] => some ([], [])
    | "}" :: rest => some ([], rest)
    | _ => do
      let (s, r) ← parseStep fuel toks
      let (l, r') ← parseSteps fuel r
      pure (s :: l, r')

def parseBody : Nat → Toks → Option (List Step × Toks)
  | 0, _ => none
  | fuel + 1, toks =>
    match toks with
    | "{" :: rest => parseSteps fuel rest
    | _ => none

def parseCont : Nat → Toks → Option (Cont × Toks)
  | 0, _ => none
  | fuel + 1, toks =>
    match toks with
    | "P" :: "[" :: rest => do let (ops, r) ← parsePrimOps (rest.length + 1) rest; pure (.prim ops, r)
    | "C" :: rest => do let (b, r) ← parseBody fuel rest; pure (.cons b, r)
    | "G" :: rest => some (.generic, rest)
    | "X" :: rest => do let (t, r) ← parseTypedC rest; pure (.typed t, r)
    | _ => none

def parseStep : Nat → Toks → Option (Step × Toks)
  | 0, _ => none
  | fuel + 1, toks =>
    match toks with
    | "tv" :: r => do let (k, r) ← parseCont fuel r; pure (.tv k, r)
    | "tov" :: r => do let (k, r) ← parseCont fuel r; pure (.tov k, r)
    | "tvi" :: t :: r => do let (k, r) ← parseCont fuel r; pure (.tvi (← parseTag t) k, r)
    | "tovi" :: t :: r => do let (k, r) ← parseCont fuel r; pure (.tovi (← parseTag t) k, r)
    | "tp" :: "[" :: r => do let (o, r) ← parsePrimOps (r.length + 1) r; pure (.tp o, r)
    | "top" :: "[" :: r => do let (o, r) ← parsePrimOps (r.length + 1) r; pure (.top o, r)
    | "tpi" :: t :: "[" :: r => do
      let (o, r) ← parsePrimOps (r.length + 1) r; pure (.tpi (← parseTag t) o, r)
    | "topi" :: t :: "[" :: r => do
      let (o, r) ← parsePrimOps (r.length + 1) r; pure (.topi (← parseTag t) o, r)
    | "tc" :: r => do let (b, r) ← parseBody fuel r; pure (.tc b, r)
    | "toc" :: r => do let (b, r) ← parseBody fuel r; pure (.toc b, r)
    | "tci" :: t :: r => do let (b, r) ← parseBody fuel r; pure (.tci (← parseTag t) b, r)
    | "toci" :: t :: r => do let (b, r) ← parseBody fuel r; pure (.toci (← parseTag t) b, r)
    | "seq" :: r => do let (b, r) ← parseBody fuel r; pure (.tci Tag.SEQUENCE b, r)
    | "oseq" :: r => do let (b, r) ← parseBody fuel r; pure (.toci Tag.SEQUENCE b, r)
    | "set" :: r => do let (b, r) ← parseBody fuel r; pure (.tci Tag.SET b, r)
    | "oset" :: r => do let (b, r) ← parseBody fuel r; pure (.toci Tag.SET b, r)
    | "skipopt" :: f :: r => do pure (.skipOpt (← parseFilter f), r)
    | "skip" :: f :: r => do pure (.skip (← parseFilter f), r)
    | "skipone" :: r => some (.skipOne, r)
    | "skipall" :: r => some (.skipAll, r)
    | "cap" :: r => do let (b, r) ← parseBody fuel r; pure (.cap b, r)
    | "capone" :: r => some (.capOne, r)
    | "capall" :: r => some (.capAll, r)
    | "dec" :: r => do let (b, r) ← parseBody fuel r; pure (.dec b, r)
    | "decp" :: r => do let (b, r) ← parseBody fuel r; pure (.decp b, r)
    | "mode" :: m :: r => do pure (.setMode (← Mode.ofString m), r)
    | "all" :: r => some (.all, r)
    | "T" :: r => do let (t, r) ← parseTyped r; pure (.typed t, r)
    | _ => none
end

/-- decode one OCTET STRING from a complete encoding (`OctetString::take_from` at top level) -/
def osOf (m : Mode) (enc : Bytes) : Res OS :=
  let fuel := enc.length + 4
  match runG (decodeTop m (fun c => do
      let (os, c') ← takeValueIf c Tag.OCTET_STRING (OS.fromContent fuel)
      pure (os, c'))) { data := enc, limit := none } with
  | .ok (os, _) => .ok os
  | .error e => .error e

mutual
/-- encoder trees (`enc`, `rt` requests) -/
def parseEnc : Nat → Toks → Option (Enc × Toks)
  | 0, _ => none
  | fuel + 1, toks =>
    match toks with
    | "P" :: t :: "i" :: ty :: v :: r => do pure (.prim (← parseTag t) (.int (← parseIntTy ty) (← v.toInt?)), r)
    | "P" :: t :: "b" :: b :: r => do pure (.prim (← parseTag t) (.bool (b == "1")), r)
    | "P" :: t :: "n" :: r => do pure (.prim (← parseTag t) .null, r)
    | "P" :: t :: "o" :: h :: r => do pure (.prim (← parseTag t) (.octets (← ofHex h)), r)
    | "P" :: t :: "I" :: h :: r => do pure (.prim (← parseTag t) (.integer (← ofHex h)), r)
    | "P" :: t :: "U" :: h :: r => do pure (.prim (← parseTag t) (.integer (← ofHex h)), r)
    | "P" :: t :: "O" :: h :: r => do pure (.prim (← parseTag t) (.oid (← ofHex h)), r)
    | "P" :: t :: "B" :: u :: h :: r => do
      pure (.prim (← parseTag t) (.bits (UInt8.ofNat (← u.toNat?)) (← ofHex h)), r)
    | "C" :: kind :: t :: r => do
      let tag ← parseTag t
      let tag' := if kind == "seq" then Tag.SEQUENCE else if kind == "set" then Tag.SET else tag
      let (e, r') ← parseEnc fuel r
      pure (.cons tag' e, r')
    | "S" :: kind :: n :: r => do
      let k ← (match kind with
        | "tuple" => some SeqKind.tuple | "vec" => some .vec | "slice" => some .slice
        | "iter" => some .iter | "slicefn" => some .sliceFn | _ => none)
      let (es, r') ← parseEncMany fuel (← n.toNat?) r
      pure (.seq k es, r')
    | "N" :: r => some (.optNone, r)
    | "J" :: r => do let (e, r') ← parseEnc fuel r; pure (.optSome e, r')
    | "H" :: a :: i :: r => do let (e, r') ← parseEnc fuel r; pure (.choice (← a.toNat?) (← i.toNat?) e, r')
    | "Z" :: r => some (.nothing, r)
    | "K" :: m :: h :: r => do pure (.captured (← ofHex h) (← Mode.ofString m), r)
    | "OS" :: t :: m :: h :: r => do
      match osOf (← Mode.ofString m) (← ofHex h) with
      | .ok os => pure (.octetString (← parseTag t) os, r)
      | .error _ => none
    | "OL" :: t :: h :: r => do pure (.octetSlice (← parseTag t) (← ofHex h), r)
    | "W" :: m :: r => do let (e, r') ← parseEnc fuel r; pure (.wrapped (← Mode.ofString m) e, r')
    | "BL" :: t :: u :: h :: r => do
      pure (.bitSlice (← parseTag t) (UInt8.ofNat (← u.toNat?)) (← ofHex h), r)
    | _ => none
def parseEncMany : Nat → Nat → Toks → Option (List Enc × Toks)
  | 0, _, _ => none
  | _ + 1, 0, r => some ([], r)
  | fuel + 1, k + 1, r => do
    let (e, r') ← parseEnc fuel r
    let (es, r'') ← parseEncMany fuel k r'
    pure (e :: es, r'')
end

def parseScript (toks : Toks) : Option (List Step) :=
  match parseSteps (toks.length + 2) toks with
  | some (s, []) => some s
  | _ => none

end Bcder
