/-
  Bcder.Model.Stream — the stream layer: the same access patterns `Op`, interpreted literally as the
  `Source` calls the Rust makes (`LimitedSource::{request, slice, bytes, advance}` of
  src/decode/source.rs) on top of an ARBITRARY base source that is only constrained by the trait
  contract:

    request(len) grants g with  min(len, available) ≤ g ≤ available      (`Conforming`)
    slice() shows exactly what has been granted so far
    bytes / advance beyond the grant panic ("CONTRACT")
    the k-th request may fail (`failAt`)

  `CaptureSource` frames are part of this layer: while a capture is open the base source is not
  advanced, every request reaches it with the captured offset added, and `into_bytes` advances it at
  the end (`S.request`, `S.advance`, `S.capEnd`).
-/
import Bcder.Model.Source
namespace Bcder

/-- grant policy: request index, requested length, available octets ↦ octets granted by this call -/
abbrev Policy := Nat → Nat → Nat → Nat

/-- the `Source::request` contract -/
def Conforming (pol : Policy) : Prop :=
  ∀ i len avail, min len avail ≤ pol i len avail ∧ pol i len avail ≤ avail

structure S where
  data : Bytes           -- what the base source still holds
  granted : Nat          -- how much of it the base source has made available
  reqs : Nat             -- requests issued so far
  failAt : Option Nat    -- the request (by index) that fails
  limit : Option Nat     -- `LimitedSource::limit` of the innermost `LimitedSource`
  frames : List Frame := []   -- open `CaptureSource`s (innermost first): what each has advanced over
                              -- (`pos` = its length; the base source is NOT advanced meanwhile) and
                              -- the limit of the `LimitedSource` it wraps
deriving Repr

namespace S

/-- the octets advanced over inside open captures and not yet consumed from the base source: the sum
    of the `pos` fields of the open `CaptureSource`s -/
def off (s : S) : Nat := (s.frames.map (·.buf.length)).sum

/-- base `Source::request` -/
def baseRequest (pol : Policy) (s : S) (len : Nat) : Res (Nat × S) :=
  if s.failAt = some s.reqs then .error .source
  else
    let g := max s.granted (pol s.reqs len s.data.length)
    .ok (g, { s with reqs := s.reqs + 1, granted := g })

/-- `LimitedSource::request` over the open `CaptureSource`s over the base: each `CaptureSource`
    asks the source below for `pos + len` and answers `len' - pos` (`self.len - self.pos`, an
    unsigned subtraction).  The limits of the enclosing `LimitedSource`s are not applied again
    here: the library keeps `inner limit + pos ≤ outer limit` (`capture` copies the limit, readers
    only narrow and restore it), under which they never cut anything off. -/
def request (pol : Policy) (s : S) (len : Nat) : Res (Nat × S) :=
  let m := match s.limit with | some l => min l len | none => len
  match s.baseRequest pol (s.off + m) with
  | .error e => .error e
  | .ok (r, s') =>
    if r < s.off then .error (.panic "attempt to subtract with overflow (CaptureSource::request)")
    else match s.limit with
      | some l => .ok (min l (r - s.off), s')
      | none => .ok (r - s.off, s')

/-- `LimitedSource::slice` over `CaptureSource::slice` (`&source.slice()[pos..]`) over the base -/
def slice (s : S) : Bytes :=
  let b := (s.data.take s.granted).drop s.off
  match s.limit with
  | some l => if b.length > l then b.take l else b
  | none => b

/-- `LimitedSource::advance`; over the base's `advance`, or, inside a capture, over
    `CaptureSource::advance` (`assert!(self.len >= self.pos + len); self.pos += len`) -/
def advance (s : S) (n : Nat) : Res S :=
  if (match s.limit with | some l => decide (l < n) | none => false) then
    .error (.panic "advanced past end of limit")
  else if s.granted < s.off + n then .error (.panic "CONTRACT advance beyond granted")
  else
    let limit' := s.limit.map (· - n)
    match s.frames with
    | [] => .ok { s with data := s.data.drop n, granted := s.granted - n, limit := limit' }
    | f :: fs => .ok { s with frames := { f with buf := f.buf ++ (s.data.drop s.off).take n } :: fs, limit := limit' }

/-- `LimitedSource::bytes(0, n)` -/
def bytes0 (s : S) (n : Nat) : Res Bytes :=
  if (match s.limit with | some l => decide (l < n) | none => false) then
    .error (.panic "assertion end <= limit")
  else if s.granted < s.off + n then .error (.panic "CONTRACT bytes beyond granted")
  else .ok ((s.data.drop s.off).take n)

/-- `CaptureSource::into_bytes` of the innermost capture: `source.bytes(0, pos)` and
    `source.advance(pos)` on the `LimitedSource` it wraps (whose limit was `f.outer`) -/
def capEnd (s : S) : Res (Bytes × S) :=
  match s.frames with
  | [] => .error (.panic "capEnd without frame")
  | f :: fs =>
    if (match f.outer with | some l => decide (l < f.buf.length) | none => false) then
      .error (.panic "advanced past end of limit")
    else
      let limit' := f.outer.map (· - f.buf.length)
      match fs with
      | [] =>
        -- the base source is advanced now
        if s.granted < f.buf.length then .error (.panic "CONTRACT advance beyond granted")
        else .ok (f.buf, { s with data := s.data.drop f.buf.length, granted := s.granted - f.buf.length,
                                  limit := limit', frames := [] })
      | g :: gs => .ok (f.buf, { s with limit := limit', frames := { g with buf := g.buf ++ f.buf } :: gs })

end S

def stepS (pol : Policy) (s : S) : Op → Res (Resp × S)
  | .takeOptU8 =>
    match s.request pol 1 with
    | .error e => .error e
    | .ok (r, s1) =>
      if r < 1 then .ok (.byte none, s1)
      else match s1.slice with
        | [] => .error (.panic "index 0 out of range")
        | b :: _ =>
          match s1.advance 1 with
          | .ok s2 => .ok (.byte (some b), s2)
          | .error e => .error e
  | .peekAt i =>
    match s.request pol (i + 1) with
    | .error e => .error e
    | .ok (r, s1) =>
      if r ≤ i then .ok (.byte none, s1)
      else match s1.slice[i]? with
        | none => .error (.panic "index out of range")
        | some b => .ok (.byte (some b), s1)
  | .peek2 =>
    match s.request pol 2 with
    | .error e => .error e
    | .ok (r, s1) => .ok (.peek (min 2 r) s1.slice[0]? s1.slice[1]?, s1)
  | .need n =>
    match s.request pol n with
    | .error e => .error e
    | .ok (r, s1) => .ok (.bool (decide (n ≤ r)), s1)
  | .takeN n =>
    match s.bytes0 n with
    | .error e => .error e
    | .ok bs =>
      match s.advance n with
      | .ok s' => .ok (.bytes bs, s')
      | .error e => .error e
  | .skipN n =>
    match s.advance n with
    | .ok s' => .ok (.unit, s')
    | .error e => .error e
  | .sliceN n =>
    if s.slice.length < n then .error (.panic "slice index out of range")
    else .ok (.bytes (s.slice.take n), s)
  | .getLimit => .ok (.lim s.limit, s)
  | .setLimit l => .ok (.unit, { s with limit := l })
  | .reqCapped n =>
    match s.request pol n with
    | .error e => .error e
    | .ok (r, s1) => .ok (.nat (min n r), s1)
  | .capBegin => .ok (.unit, { s with frames := { buf := [], outer := s.limit } :: s.frames })
  | .capEnd =>
    match s.capEnd with
    | .ok (bs, s') => .ok (.bytes bs, s')
    | .error e => .error e
  | .getPos => .ok (.nat (s.data.length - s.off), s)

def runS (pol : Policy) : Prog α → S → Res (α × S)
  | .ret a, s => .ok (a, s)
  | .fail e, _ => .error e
  | .op o k, s =>
    match stepS pol s o with
    | .error e => .error e
    | .ok (r, s') => runS pol (k r) s'

/-- programs that do not capture -/
inductive NoCap : Prog α → Prop
  | ret (a : α) : NoCap (.ret a)
  | fail (e : Err) : NoCap (.fail e)
  | op (o : Op) (k : Resp → Prog α) (h1 : o ≠ .capBegin) (h2 : o ≠ .capEnd) (hk : ∀ r, NoCap (k r)) :
      NoCap (.op o k)

end Bcder
