/-
  Bcder.Model.Encode — follows src/encode/values.rs, src/encode/primitive.rs (`Primitive<P>`),
  the encoders of src/string/{octet,bit}.rs and `impl Values for Captured` (src/captured.rs).

  Every `Values` impl has two methods, `encoded_len` and `write_encoded`; they are modelled by the
  two *independently written* functions `Enc.encodedLen` and `Enc.write`.
-/
import Bcder.Model.Int
import Bcder.Model.BitString
import Bcder.Model.Octet
namespace Bcder

/-- `PrimitiveContent` impls -/
inductive PC
  | int (ty : IntTy) (v : Int)
  | bool (b : Bool)
  | null
  | octets (bs : Bytes)        -- `&[u8]`
  | integer (content : Bytes)  -- `&Integer`, `&Unsigned`
  | oid (content : Bytes)
  | bits (unused : UInt8) (bs : Bytes)   -- `BitString`
deriving Repr, Inhabited

def PC.encodedLen : PC → Nat
  | .int ty v => encIntLen ty v
  | .bool _ => 1
  | .null => 0
  | .octets bs => bs.length
  | .integer c => c.length
  | .oid c => c.length
  | .bits _ bs => bs.length + 1

def PC.write : PC → Bytes
  | .int ty v => encInt ty v
  | .bool b => encBool b
  | .null => encNull
  | .octets bs => bs
  | .integer c => c
  | .oid c => c
  | .bits u bs => u :: bs

/-- which Rust combinator a concatenation stands for (all of them write their items in order) -/
inductive SeqKind | tuple | vec | slice | iter | sliceFn
deriving Repr, DecidableEq, Inhabited

inductive Enc
  | prim (tag : Tag) (pc : PC)                 -- `Primitive<P>`
  | cons (tag : Tag) (inner : Enc)             -- `Constructed<V>`, `explicit`, `sequence[_as]`, `set[_as]`
  | seq (k : SeqKind) (es : List Enc)          -- tuples (1–12), `Vec`, `[V]`, `Iter`, `Slice`
  | optNone
  | optSome (e : Enc)                          -- `Option<V>`
  | choice (arity idx : Nat) (e : Enc)         -- `Choice2`, `Choice3`
  | nothing                                    -- `Nothing`
  | captured (bytes : Bytes) (mode : Mode)     -- `Captured`
  | octetString (tag : Tag) (os : OS)          -- `OctetStringEncoder`
  | octetSlice (tag : Tag) (bs : Bytes)        -- `OctetSliceEncoder`
  | wrapped (mode : Mode) (inner : Enc)        -- `WrappingOctetStringEncoder`
  | bitSlice (tag : Tag) (unused : UInt8) (bs : Bytes)   -- `BitSliceEncoder`
deriving Repr, Inhabited

def capturedGuard (own mode : Mode) : Res Unit :=
  if own != mode && mode != .ber then
    .error (.panic "Trying to encode a captured value with incompatible mode")
  else .ok ()

def lenOfLen (n : Nat) : Res Nat := (Length.definite n).encodedLen

mutual
/-- `Values::encoded_len` -/
def Enc.encodedLen (mode : Mode) : Enc → Res Nat
  | .prim tag pc => do
    let len := pc.encodedLen
    pure (tag.encodedLen + (← lenOfLen len) + len)
  | .cons tag inner => do
    let len ← inner.encodedLen mode
    let len' ← (match mode with
      | .ber | .der => do pure (len + (← lenOfLen len))
      | .cer => pure (len + (1 + 2)) : Res Nat)
    pure (tag.encodedLen + len')
  | .seq _ es => Enc.encodedLenList mode es
  | .optNone => pure 0
  | .optSome e => e.encodedLen mode
  | .choice _ _ e => e.encodedLen mode
  | .nothing => pure 0
  | .captured bytes own => do capturedGuard own mode; pure bytes.length
  | .octetString tag os =>
    match mode with
    | .ber =>
      let len := match os with | .prim b => b.length | .cons c => c.length
      do pure (tag.encodedLen + (← lenOfLen len) + len)
    | .cer => .error (.panic "unimplemented")
    | .der => do
      let len ← os.len
      pure (tag.encodedLen + (← lenOfLen len) + len)
  | .octetSlice tag bs =>
    if mode == .cer then .error (.panic "unimplemented") else do
    let len := bs.length
    pure (tag.encodedLen + (← lenOfLen len) + len)
  | .wrapped own inner =>
    if mode == .cer then .error (.panic "unimplemented") else do
    totalEncodedLen Tag.OCTET_STRING (← inner.encodedLen own)
  | .bitSlice tag _ bs =>
    if mode == .cer then .error (.panic "unimplemented") else do
    let len := bs.length + 1
    pure (tag.encodedLen + (← lenOfLen len) + len)

def Enc.encodedLenList (mode : Mode) : List Enc → Res Nat
  | [] => pure 0
  | e :: es => do pure ((← e.encodedLen mode) + (← Enc.encodedLenList mode es))
end

mutual
/-- `Values::write_encoded` -/
def Enc.write (mode : Mode) : Enc → Res Bytes
  | .prim tag pc => do
    pure (tag.write false ++ (← (Length.definite pc.encodedLen).write) ++ pc.write)
  | .cons tag inner =>
    match mode with
    | .ber | .der => do
      let l ← (Length.definite (← inner.encodedLen mode)).write
      pure (tag.write true ++ l ++ (← inner.write mode))
    | .cer => do
      pure (tag.write true ++ [0x80] ++ (← inner.write mode) ++ [0, 0])
  | .seq _ es => Enc.writeList mode es
  | .optNone => pure []
  | .optSome e => e.write mode
  | .choice _ _ e => e.write mode
  | .nothing => pure []
  | .captured bytes own => do capturedGuard own mode; pure bytes
  | .octetString tag os =>
    match mode with
    | .ber =>
      match os with
      | .prim b => do pure (tag.write false ++ (← (Length.definite b.length).write) ++ b)
      | .cons c => do pure (tag.write true ++ (← (Length.definite c.length).write) ++ c)
    | .cer => .error (.panic "unimplemented")
    | .der => do
      let l ← (Length.definite (← os.len)).write
      pure (tag.write false ++ l ++ (← os.segments).flatten)
  | .octetSlice tag bs =>
    if mode == .cer then .error (.panic "unimplemented") else do
    pure (tag.write false ++ (← (Length.definite bs.length).write) ++ bs)
  | .wrapped own inner =>
    if mode == .cer then .error (.panic "unimplemented") else do
    let h ← writeHeader Tag.OCTET_STRING false (← inner.encodedLen own)
    pure (h ++ (← inner.write own))
  | .bitSlice tag unused bs =>
    if mode == .cer then .error (.panic "unimplemented") else do
    pure (tag.write false ++ (← (Length.definite (bs.length + 1)).write) ++ [unused] ++ bs)

def Enc.writeList (mode : Mode) : List Enc → Res Bytes
  | [] => pure []
  | e :: es => do pure ((← e.write mode) ++ (← Enc.writeList mode es))
end

end Bcder
