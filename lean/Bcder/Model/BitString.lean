/-
  Bcder.Model.BitString — follows src/string/bit.rs (after the `fix:` commit for `bit`).
-/
import Bcder.Model.Content
namespace Bcder
open Prog

structure BitString where
  unused : UInt8
  bits : Bytes
deriving DecidableEq, Repr

namespace BitString

/-- `BitString::from_content` -/
def fromContent : Content → Prog (BitString × Content)
  | .prim mode => do
    if mode == .cer && (← Prim.remaining) > 1000 then contentErr
    else
      let unused ← takeU8
      if unused > 7 then contentErr
      else if (← Prim.remaining) == 0 && unused > 0 then contentErr
      else
        let bits ← Prim.takeAll
        pure (⟨unused, bits⟩, .prim mode)
  | .cons _ => contentErr

/-- `BitString::skip_content` -/
def skipContent : Content → Prog (Unit × Content)
  | .prim mode => do
    if mode == .cer && (← Prim.remaining) > 1000 then contentErr
    else
      let unused ← takeU8
      if unused > 7 then contentErr
      else if (← Prim.remaining) == 0 && unused > 0 then contentErr
      else
        Prim.skipAll
        pure ((), .prim mode)
  | .cons _ => contentErr

/-- `BitString::bit` -/
def bit (s : BitString) (bit : Nat) : Bool :=
  let idx := bit >>> 3
  if s.bits.length ≤ idx then false
  else
    let b : Nat := 7 - (bit % 256 &&& 7)
    if s.bits.length == idx + 1 && s.unused.toNat > b then false
    else match s.bits[idx]? with
      | some o => (o.toNat &&& (1 <<< b)) != 0
      | none => false

/-- `BitString::bit_len` (usize subtraction: underflow would panic) -/
def bitLen (s : BitString) : Res Nat :=
  if (s.bits.length <<< 3) < s.unused.toNat then .error (.panic "bit_len underflow")
  else .ok ((s.bits.length <<< 3) - s.unused.toNat)

/-- `BitString::new` (asserts `unused <= 7` and, for empty bits, `unused == 0`) -/
def new (unused : UInt8) (bits : Bytes) : Res BitString :=
  if unused > 7 || (bits.isEmpty && unused != 0) then .error (.panic "BitString::new assertion")
  else .ok ⟨unused, bits⟩

/-- `BitString::unused` -/
def unusedBits (s : BitString) : UInt8 := s.unused
/-- `BitString::octet_len` -/
def octetLen (s : BitString) : Nat := s.bits.length
/-- `BitString::octets()` collected -/
def octets (s : BitString) : Bytes := s.bits.foldr (fun b acc => b :: acc) []
/-- `BitString::octet_slice` (always `Some`: the bits are one `Bytes`) -/
def octetSlice (s : BitString) : Option Bytes := some s.bits
/-- `BitString::octet_bytes` -/
def octetBytes (s : BitString) : Bytes := s.bits

/-- `impl PrimitiveContent for BitString` -/
def encLen (s : BitString) : Nat := s.bits.length + 1
def enc (s : BitString) : Bytes := s.unused :: s.bits

end BitString
end Bcder
