/-
  Bcder.Model.Length — follows src/length.rs (64-bit `target_pointer_width` variants)
  and `total_encoded_len` / `write_header` of src/encode/values.rs.
-/
import Bcder.Model.Tag
namespace Bcder

inductive Length
  | definite (n : Nat)
  | indefinite
deriving DecidableEq, Repr, Inhabited

namespace Length

/-- `Length::take_from` -/
def takeFrom (mode : Mode) : Prog Length := do
  let n ← Prog.takeU8
  if (n &&& 0x80) == 0 then pure (.definite n.toNat)
  else if n == 0x80 then pure .indefinite
  else if n == 0x81 then
    let len := (← Prog.takeU8).toNat
    if mode.isBer || len > 127 then pure (.definite len) else Prog.contentErr
  else if n == 0x82 then
    let a ← Prog.takeU8; let b ← Prog.takeU8
    let len := (a.toNat <<< 8) ||| b.toNat
    if mode.isBer || len > 255 then pure (.definite len) else Prog.contentErr
  else if n == 0x83 then
    let a ← Prog.takeU8; let b ← Prog.takeU8; let c ← Prog.takeU8
    let len := (a.toNat <<< 16) ||| (b.toNat <<< 8) ||| c.toNat
    if mode.isBer || len > 0xFFFF then pure (.definite len) else Prog.contentErr
  else if n == 0x84 then
    let a ← Prog.takeU8; let b ← Prog.takeU8; let c ← Prog.takeU8; let d ← Prog.takeU8
    let len := (a.toNat <<< 24) ||| (b.toNat <<< 16) ||| (c.toNat <<< 8) ||| d.toNat
    if mode.isBer || len > 0x00FFFFFF then pure (.definite len) else Prog.contentErr
  else Prog.contentErr

def isZero : Length → Bool
  | .definite 0 => true
  | _ => false

/-- `Length::encoded_len` (64-bit) -/
def encodedLen : Length → Res Nat
  | .indefinite => .ok 1
  | .definite len =>
    if len < 0x80 then .ok 1
    else if len < 0x100 then .ok 2
    else if len < 0x10000 then .ok 3
    else if len < 0x1000000 then .ok 4
    else if len < 0x100000000 then .ok 5
    else .error (.panic "excessive length")

/-- `Length::write_encoded` (64-bit) -/
def write : Length → Res Bytes
  | .indefinite => .ok [0x80]
  | .definite len =>
    if len < 0x80 then .ok [UInt8.ofNat len]
    else if len < 0x100 then .ok [0x81, UInt8.ofNat len]
    else if len < 0x10000 then .ok [0x82, UInt8.ofNat (len >>> 8), UInt8.ofNat len]
    else if len < 0x1000000 then
      .ok [0x83, UInt8.ofNat (len >>> 16), UInt8.ofNat (len >>> 8), UInt8.ofNat len]
    else if len < 0x100000000 then
      .ok [0x84, UInt8.ofNat (len >>> 24), UInt8.ofNat (len >>> 16), UInt8.ofNat (len >>> 8),
           UInt8.ofNat len]
    else .error (.panic "excessive length")

end Length

/-- `encode::total_encoded_len` -/
def totalEncodedLen (tag : Tag) (contentLen : Nat) : Res Nat := do
  let l ← (Length.definite contentLen).encodedLen
  pure (tag.encodedLen + l + contentLen)

/-- `encode::write_header` -/
def writeHeader (tag : Tag) (constructed : Bool) (contentLen : Nat) : Res Bytes := do
  let l ← (Length.definite contentLen).write
  pure (tag.write constructed ++ l)

end Bcder
