/- hex / text helpers for the driver and the script traces (no proofs about these) -/
import Bcder.Model.Basic
namespace Bcder

def hexDigit (n : Nat) : Char :=
  if n < 10 then Char.ofNat (48 + n) else Char.ofNat (87 + n)

def hexByte (b : UInt8) : String :=
  String.ofList [hexDigit (b.toNat / 16), hexDigit (b.toNat % 16)]

/-- lower-case hex, `-` for the empty string -/
def toHex (bs : Bytes) : String :=
  if bs.isEmpty then "-" else String.join (bs.map hexByte)

def hexVal (c : Char) : Option Nat :=
  if '0' ≤ c ∧ c ≤ '9' then some (c.toNat - 48)
  else if 'a' ≤ c ∧ c ≤ 'f' then some (c.toNat - 87)
  else if 'A' ≤ c ∧ c ≤ 'F' then some (c.toNat - 55)
  else none

def ofHexAux : List Char → Option Bytes
  | [] => some []
  | a :: b :: rest => do
    let x ← hexVal a
    let y ← hexVal b
    let r ← ofHexAux rest
    pure (UInt8.ofNat (x * 16 + y) :: r)
  | _ => none

def ofHex (s : String) : Option Bytes :=
  if s == "-" then some [] else ofHexAux s.toList

def Mode.ofString : String → Option Mode
  | "ber" => some .ber | "cer" => some .cer | "der" => some .der | _ => none
def Mode.toStr : Mode → String
  | .ber => "ber" | .cer => "cer" | .der => "der"

def Err.toStr : Err → String
  | .content => "err content"
  | .source => "err source"
  | .panic s => "PANIC " ++ s
  | .fuel => "FUEL"

def ordStr : Ordering → String
  | .lt => "lt" | .eq => "eq" | .gt => "gt"

end Bcder
