/-
  The generic reader as a function to trees: read a source value by value through
  `Constructed::take_opt_value`, descending into constructed values and taking the content of
  primitive ones.  This is the reader property C02 talks about; `Script.genericAll` is the same loop
  emitting a trace (the driver answers `all` scripts with both and checks that they agree).
-/
import Bcder.Model.Content
import Bcder.Spec.Tlv
namespace Bcder
open Bcder.Spec Prog

def toM : Mode → M | .ber => .ber | .cer => .cer | .der => .der

/-- class, constructed flag and number of what was read -/
def identOf (t : Tag) (c : Bool) : Ident := ⟨t.classBits.toNat / 64, c, t.number⟩

mutual
/-- the closure of a generic read: take the content of a primitive, descend into a constructed value -/
def readValue : Nat → Tag → Content → Prog (Tree × Content)
  | 0, _, _ => .fail .fuel
  | _ + 1, tag, .prim m => do
    let c ← Prim.takeAll
    pure (.prim (identOf tag false) c, .prim m)
  | fuel + 1, tag, .cons c => do
    let (kids, c') ← readAll fuel c
    pure (.cons (identOf tag true) (c.state == .indefinite) kids, .cons c')
/-- `while let Some(t) = cons.take_opt_value(readValue)? { … }` -/
def readAll : Nat → Cons → Prog (List Tree × Cons)
  | 0, _ => .fail .fuel
  | fuel + 1, c => do
    match ← takeOptValue c (readValue fuel) with
    | (some t, c') => do
      let (ts, c'') ← readAll fuel c'
      pure (t :: ts, c'')
    | (none, c') => pure ([], c')
end


end Bcder
