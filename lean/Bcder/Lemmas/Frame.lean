/-
  Window lemmas for the generous layer:
   * `run_ext`  — a closure working under a limit that lies inside the data sees and consumes only
                  the window; whatever follows the window is irrelevant and stays untouched   (C03)
   * `run_cap`  — what a capture frame accumulates is exactly the octets advanced over        (C11)
-/
import Bcder.Lemmas.Uses
import Bcder.Lemmas.RunG
namespace Bcder
open Prog

/-- the same source with `rest` appended behind the data -/
def G.ext (rest : Bytes) (g : G) : G := { g with data := g.data ++ rest }

/-- the limit lies inside the data -/
def G.Bounded (g : G) : Prop := ∃ l, g.limit = some l ∧ l ≤ g.data.length

def liftExt (rest : Bytes) : Res (α × G) → Res (α × G)
  | .ok (a, g) => .ok (a, g.ext rest)
  | .error e => .error e

theorem view_ext (rest : Bytes) (g : G) (hb : g.Bounded) : (g.ext rest).view = g.view := by
  obtain ⟨l, hl, hle⟩ := hb
  simp [G.view, G.ext, hl, List.take_append_of_le_length hle]

theorem request_ext (rest : Bytes) (g : G) (hb : g.Bounded) (n : Nat) :
    (g.ext rest).request n = (g.request n).ext rest := by
  have hv := view_ext rest g hb
  simp only [G.request, G.ext] at hv ⊢
  simp [G.view] at hv ⊢
  obtain ⟨l, hl, hle⟩ := hb
  simp [hl, List.length_take, List.length_append]
  omega

theorem bounded_request (g : G) (hb : g.Bounded) (n : Nat) : (g.request n).Bounded := hb

theorem advance_ext (rest : Bytes) (g : G) (n : Nat) (hn : n ≤ g.view.length) (hb : g.Bounded) :
    (g.ext rest).advance n = match g.advance n with
      | .ok g' => .ok (g'.ext rest)
      | .error e => .error e := by
  obtain ⟨l, hl, hle⟩ := hb
  have hvl : g.view.length = l := by simp [G.view, hl, List.length_take]; omega
  have hnl : n ≤ g.data.length := by omega
  unfold G.advance
  simp only [G.ext, hl, List.length_append]
  by_cases h1 : g.seen < n
  · simp [h1]
  · have h2 : ¬ g.data.length + rest.length < n := by omega
    have h3 : ¬ g.data.length < n := by omega
    have h4 : ¬ l < n := by omega
    simp only [h1, h2, h3, h4, if_false]
    have t1 : (g.data ++ rest).take n = g.data.take n := List.take_append_of_le_length hnl
    have t2 : (g.data ++ rest).drop n = g.data.drop n ++ rest := List.drop_append_of_le_length hnl
    simp [t1, t2]

theorem bounded_advance (g g' : G) (n : Nat) (hb : g.Bounded) (h : g.advance n = .ok g') : g'.Bounded := by
  obtain ⟨l, hl, hle⟩ := hb
  unfold G.advance at h
  by_cases h1 : g.seen < n
  · simp [h1] at h
  · by_cases h2 : g.data.length < n
    · simp [h1, h2] at h
    · simp only [h1, h2, if_false, hl] at h
      by_cases h3 : l < n
      · simp [h3] at h
      · simp only [h3, if_false, Except.ok.injEq] at h
        subst h
        exact ⟨l - n, rfl, by simp [List.length_drop]; omega⟩

/-- one operation of a closure on a window: the result does not depend on what follows the window -/
theorem step_ext (rest : Bytes) (g : G) (hb : g.Bounded) (o : Op) (ho : o.isWindow) :
    stepG (g.ext rest) o = liftExt rest (stepG g o) ∧
    ∀ r g', stepG g o = .ok (r, g') → g'.Bounded := by
  have hv := view_ext rest g hb
  cases o with
  | takeOptU8 =>
    simp only [stepG, request_ext rest g hb, view_ext rest _ (bounded_request g hb 1)]
    cases hview : (g.request 1).view with
    | nil => exact ⟨by simp [liftExt], fun r g' h => by simp at h; rw [← h.2]; exact hb⟩
    | cons b t =>
      have hn : 1 ≤ (g.request 1).view.length := by simp [hview]
      simp only [advance_ext rest (g.request 1) 1 hn (bounded_request g hb 1)]
      cases ha : (g.request 1).advance 1 with
      | error e => exact ⟨by simp [liftExt], fun r g' h => by simp at h⟩
      | ok g1 =>
        refine ⟨by simp [liftExt], fun r g' h => ?_⟩
        simp at h; rw [← h.2]; exact bounded_advance _ _ 1 (bounded_request g hb 1) ha
  | peekAt i =>
    simp only [stepG, request_ext rest g hb, view_ext rest _ (bounded_request g hb (i + 1))]
    exact ⟨by simp [liftExt], fun r g' h => by simp at h; rw [← h.2]; exact hb⟩
  | peek2 =>
    simp only [stepG, request_ext rest g hb, view_ext rest _ (bounded_request g hb 2)]
    exact ⟨by simp [liftExt], fun r g' h => by simp at h; rw [← h.2]; exact hb⟩
  | need n =>
    simp only [stepG, request_ext rest g hb, view_ext rest _ (bounded_request g hb n)]
    exact ⟨by simp [liftExt], fun r g' h => by simp at h; rw [← h.2]; exact hb⟩
  | takeN n =>
    simp only [stepG, hv]
    by_cases h1 : g.view.length < n
    · exact ⟨by simp [h1, liftExt], fun r g' h => by simp [h1] at h⟩
    · have hseen : (g.ext rest).seen = g.seen := rfl
      simp only [h1, if_false, hseen]
      by_cases h2 : g.seen < n
      · exact ⟨by simp [h2, liftExt], fun r g' h => by simp [h2] at h⟩
      · simp only [h2, if_false, advance_ext rest g n (by omega) hb]
        obtain ⟨l, hl, hle⟩ := hb
        have hvl : g.view.length = l := by simp [G.view, hl, List.length_take]; omega
        have t1 : (g.ext rest).data.take n = g.data.take n := by
          simp [G.ext]; exact List.take_append_of_le_length (by omega)
        cases ha : g.advance n with
        | error e => exact ⟨by simp [liftExt], fun r g' h => by simp at h⟩
        | ok g1 =>
          refine ⟨by simp [liftExt, t1], fun r g' h => ?_⟩
          simp at h; rw [← h.2]; exact bounded_advance _ _ n ⟨l, hl, hle⟩ ha
  | skipN n =>
    simp only [stepG, hv]
    by_cases h1 : g.view.length < n
    · exact ⟨by simp [h1, liftExt], fun r g' h => by simp [h1] at h⟩
    · simp only [h1, if_false, advance_ext rest g n (by omega) hb]
      cases ha : g.advance n with
      | error e => exact ⟨by simp [liftExt], fun r g' h => by simp at h⟩
      | ok g1 =>
        refine ⟨by simp [liftExt], fun r g' h => ?_⟩
        simp at h; rw [← h.2]; exact bounded_advance _ _ n hb ha
  | sliceN n =>
    simp only [stepG, hv]
    by_cases h1 : g.view.length < n
    · exact ⟨by simp [h1, liftExt], fun r g' h => by simp [h1] at h⟩
    · have hseen : (g.ext rest).seen = g.seen := rfl
      simp only [h1, if_false, hseen]
      by_cases h2 : g.seen < n
      · exact ⟨by simp [h2, liftExt], fun r g' h => by simp [h2] at h⟩
      · obtain ⟨l, hl, hle⟩ := hb
        have hvl : g.view.length = l := by simp [G.view, hl, List.length_take]; omega
        have t1 : (g.ext rest).data.take n = g.data.take n := by
          simp [G.ext]; exact List.take_append_of_le_length (by omega)
        exact ⟨by simp [h2, liftExt, t1], fun r g' h => by simp [h2] at h; rw [← h.2]; exact ⟨l, hl, hle⟩⟩
  | getLimit => exact ⟨by simp [stepG, liftExt, G.ext], fun r g' h => by simp [stepG] at h; rw [← h.2]; exact hb⟩
  | setLimit l => exact absurd ho (by simp [Op.isWindow])
  | reqCapped n =>
    simp only [stepG, request_ext rest g hb, view_ext rest _ (bounded_request g hb n)]
    exact ⟨by simp [liftExt], fun r g' h => by simp at h; rw [← h.2]; exact hb⟩
  | capBegin => exact absurd ho (by simp [Op.isWindow])
  | capEnd => exact absurd ho (by simp [Op.isWindow])
  | getPos => exact absurd ho (by simp [Op.isWindow])

/-- **Isolation**: any closure made of window operations, run under a limit inside the data,
    behaves identically whatever follows the window, and leaves it untouched. -/
theorem run_ext (rest : Bytes) (p : Prog α) (hp : Uses Op.isWindow p) :
    ∀ g : G, g.Bounded → runG p (g.ext rest) = liftExt rest (runG p g) := by
  induction hp with
  | ret a => intro g _; rfl
  | fail e => intro g _; rfl
  | op o k h _ ih =>
    intro g hb
    obtain ⟨h1, h2⟩ := step_ext rest g hb o h
    simp only [runG, h1]
    cases hs : stepG g o with
    | error e => simp [liftExt]
    | ok rg =>
      obtain ⟨r, g1⟩ := rg
      simp only [liftExt]
      exact ih r g1 (h2 r g1 hs)


/-! ### capture frames record exactly what is advanced over -/

def Op.notCap : Op → Prop
  | .capBegin | .capEnd => False
  | _ => True

/-- `g'` is `g` after `k` octets were advanced over (frames updated accordingly) -/
def Consumed (g g' : G) (k : Nat) : Prop :=
  k ≤ g.data.length ∧ g'.data = g.data.drop k ∧
  g'.frames = match g.frames with
    | [] => []
    | f :: fs => { f with buf := f.buf ++ g.data.take k } :: fs

theorem Consumed.refl (g : G) : Consumed g g 0 := by
  refine ⟨Nat.zero_le _, by simp, ?_⟩
  cases g.frames <;> simp

theorem Consumed.trans {g g1 g2 : G} {k1 k2 : Nat} (h1 : Consumed g g1 k1) (h2 : Consumed g1 g2 k2) :
    Consumed g g2 (k1 + k2) := by
  obtain ⟨a1, b1, c1⟩ := h1
  obtain ⟨a2, b2, c2⟩ := h2
  rw [b1] at a2 b2
  simp [List.length_drop] at a2
  refine ⟨by omega, by rw [b2, List.drop_drop], ?_⟩
  rw [c2, c1, b1]
  cases g.frames with
  | nil => rfl
  | cons f fs =>
    simp only [List.append_assoc]
    congr 2
    rw [List.take_add]

theorem consumed_of_same (g g' : G) (hd : g'.data = g.data) (hf : g'.frames = g.frames) : Consumed g g' 0 := by
  refine ⟨Nat.zero_le _, by simp [hd], ?_⟩
  rw [hf]; cases g.frames <;> simp

theorem advance_consumed (g g' : G) (n : Nat) (h : g.advance n = .ok g') : Consumed g g' n := by
  unfold G.advance at h
  by_cases h1 : g.seen < n
  · simp [h1] at h
  · by_cases h2 : g.data.length < n
    · simp [h1, h2] at h
    · simp only [h1, h2, if_false] at h
      cases hl : g.limit with
      | none => simp [hl] at h; subst h; exact ⟨by omega, rfl, by cases g.frames <;> rfl⟩
      | some l =>
        simp only [hl] at h
        by_cases h3 : l < n
        · simp [h3] at h
        · simp [h3] at h; subst h; exact ⟨by omega, rfl, by cases g.frames <;> rfl⟩

theorem step_consumed (g : G) (o : Op) (ho : o.notCap) (r : Resp) (g' : G) (h : stepG g o = .ok (r, g')) :
    ∃ k, Consumed g g' k := by
  have same : ∀ n, Consumed g (g.request n) 0 := fun n => consumed_of_same _ _ rfl rfl
  cases o with
  | takeOptU8 =>
    simp only [stepG] at h
    split at h
    · simp at h; rw [← h.2]; exact ⟨0, same 1⟩
    · split at h
      · rename_i g1 ha
        simp at h; rw [← h.2]
        have := advance_consumed _ _ 1 ha
        exact ⟨0 + 1, (same 1).trans this⟩
      · simp at h
  | peekAt i => simp [stepG] at h; rw [← h.2]; exact ⟨0, same _⟩
  | peek2 => simp [stepG] at h; rw [← h.2]; exact ⟨0, same _⟩
  | need n => simp [stepG] at h; rw [← h.2]; exact ⟨0, same _⟩
  | takeN n =>
    simp only [stepG] at h
    split at h
    · simp at h
    · split at h
      · simp at h
      · split at h
        · rename_i g1 ha; simp at h; rw [← h.2]; exact ⟨n, advance_consumed _ _ n ha⟩
        · simp at h
  | skipN n =>
    simp only [stepG] at h
    split at h
    · simp at h
    · split at h
      · rename_i g1 ha; simp at h; rw [← h.2]; exact ⟨n, advance_consumed _ _ n ha⟩
      · simp at h
  | sliceN n =>
    simp only [stepG] at h
    split at h
    · simp at h
    · split at h
      · simp at h
      · simp at h; rw [← h.2]; exact ⟨0, Consumed.refl g⟩
  | getLimit => simp [stepG] at h; rw [← h.2]; exact ⟨0, Consumed.refl g⟩
  | setLimit l => simp [stepG] at h; rw [← h.2]; exact ⟨0, consumed_of_same _ _ rfl rfl⟩
  | reqCapped n => simp [stepG] at h; rw [← h.2]; exact ⟨0, same _⟩
  | capBegin => exact absurd ho (by simp [Op.notCap])
  | capEnd => exact absurd ho (by simp [Op.notCap])
  | getPos => simp [stepG] at h; rw [← h.2]; exact ⟨0, Consumed.refl g⟩

/-- a capture-free program only ever moves forward, and an open capture frame accumulates exactly
    the octets it moved over -/
theorem run_consumed (p : Prog α) (hp : Uses Op.notCap p) :
    ∀ (g : G) (a : α) (g' : G), runG p g = .ok (a, g') → ∃ k, Consumed g g' k := by
  induction hp with
  | ret a => intro g a' g' h; simp [runG] at h; rw [← h.2]; exact ⟨0, Consumed.refl g⟩
  | fail e => intro g a g' h; simp [runG] at h
  | op o k ho _ ih =>
    intro g a g' h
    simp only [runG] at h
    cases hs : stepG g o with
    | error e => simp [hs] at h
    | ok rg =>
      obtain ⟨r, g1⟩ := rg
      simp only [hs] at h
      obtain ⟨k1, c1⟩ := step_consumed g o ho r g1 hs
      obtain ⟨k2, c2⟩ := ih r g1 a g' h
      exact ⟨k1 + k2, c1.trans c2⟩


/-! ### under a limit, window operations decrease the limit by exactly what they advance over -/

theorem advance_limit (g g' : G) (n l : Nat) (hl : g.limit = some l) (h : g.advance n = .ok g') :
    n ≤ l ∧ g'.limit = some (l - n) := by
  unfold G.advance at h
  by_cases h1 : g.seen < n
  · simp [h1] at h
  · by_cases h2 : g.data.length < n
    · simp [h1, h2] at h
    · simp only [h1, h2, if_false, hl] at h
      by_cases h3 : l < n
      · simp [h3] at h
      · simp [h3] at h; subst h; exact ⟨by omega, rfl⟩

theorem step_window_limit (g : G) (o : Op) (ho : o.isWindow) (l : Nat) (hl : g.limit = some l)
    (r : Resp) (g' : G) (h : stepG g o = .ok (r, g')) :
    ∃ k, Consumed g g' k ∧ k ≤ l ∧ g'.limit = some (l - k) := by
  have same : ∀ n, Consumed g (g.request n) 0 := fun n => consumed_of_same _ _ rfl rfl
  cases o with
  | takeOptU8 =>
    simp only [stepG] at h
    split at h
    · simp at h; rw [← h.2]; exact ⟨0, same 1, by omega, by simp [G.request, hl]⟩
    · split at h
      · rename_i g1 ha
        simp at h; rw [← h.2]
        have c := advance_consumed _ _ 1 ha
        obtain ⟨h1, h2⟩ := advance_limit (g.request 1) g1 1 l (by simp [G.request, hl]) ha
        exact ⟨0 + 1, (same 1).trans c, by omega, by simpa using h2⟩
      · simp at h
  | peekAt i => simp [stepG] at h; rw [← h.2]; exact ⟨0, same _, by omega, by simp [G.request, hl]⟩
  | peek2 => simp [stepG] at h; rw [← h.2]; exact ⟨0, same _, by omega, by simp [G.request, hl]⟩
  | need n => simp [stepG] at h; rw [← h.2]; exact ⟨0, same _, by omega, by simp [G.request, hl]⟩
  | takeN n =>
    simp only [stepG] at h
    split at h
    · simp at h
    · split at h
      · simp at h
      · split at h
        · rename_i g1 ha; simp at h; rw [← h.2]
          obtain ⟨h1, h2⟩ := advance_limit g g1 n l hl ha
          exact ⟨n, advance_consumed _ _ n ha, h1, h2⟩
        · simp at h
  | skipN n =>
    simp only [stepG] at h
    split at h
    · simp at h
    · split at h
      · rename_i g1 ha; simp at h; rw [← h.2]
        obtain ⟨h1, h2⟩ := advance_limit g g1 n l hl ha
        exact ⟨n, advance_consumed _ _ n ha, h1, h2⟩
      · simp at h
  | sliceN n =>
    simp only [stepG] at h
    split at h
    · simp at h
    · split at h
      · simp at h
      · simp at h; rw [← h.2]; exact ⟨0, Consumed.refl g, by omega, by simp [hl]⟩
  | getLimit => simp [stepG] at h; rw [← h.2]; exact ⟨0, Consumed.refl g, by omega, by simp [hl]⟩
  | setLimit l' => exact absurd ho (by simp [Op.isWindow])
  | reqCapped n => simp [stepG] at h; rw [← h.2]; exact ⟨0, same _, by omega, by simp [G.request, hl]⟩
  | capBegin => exact absurd ho (by simp [Op.isWindow])
  | capEnd => exact absurd ho (by simp [Op.isWindow])
  | getPos => exact absurd ho (by simp [Op.isWindow])

/-- a closure on a window moves forward by some `k ≤ limit` octets and leaves the limit at
    `limit - k` -/
theorem run_window_limit (p : Prog α) (hp : Uses Op.isWindow p) :
    ∀ (g : G) (l : Nat), g.limit = some l → ∀ (a : α) (g' : G), runG p g = .ok (a, g') →
      ∃ k, Consumed g g' k ∧ k ≤ l ∧ g'.limit = some (l - k) := by
  induction hp with
  | ret a => intro g l hl a' g' h; simp [runG] at h; rw [← h.2]; exact ⟨0, Consumed.refl g, by omega, by simp [hl]⟩
  | fail e => intro g l hl a g' h; simp [runG] at h
  | op o k ho _ ih =>
    intro g l hl a g' h
    simp only [runG] at h
    cases hs : stepG g o with
    | error e => simp [hs] at h
    | ok rg =>
      obtain ⟨r, g1⟩ := rg
      simp only [hs] at h
      obtain ⟨k1, c1, hk1, hl1⟩ := step_window_limit g o ho l hl r g1 hs
      obtain ⟨k2, c2, hk2, hl2⟩ := ih r g1 (l - k1) hl1 a g' h
      exact ⟨k1 + k2, c1.trans c2, by omega, by rw [hl2]; congr 1; omega⟩

end Bcder
