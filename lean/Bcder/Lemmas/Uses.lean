/- programs restricted to a class of operations -/
import Bcder.Model.Int
import Bcder.Model.Oid
import Bcder.Model.BitString
namespace Bcder
open Prog

/-- every operation the program may issue satisfies `P` -/
inductive Uses (P : Op → Prop) : Prog α → Prop
  | ret (a : α) : Uses P (.ret a)
  | fail (e : Err) : Uses P (.fail e)
  | op (o : Op) (k : Resp → Prog α) (h : P o) (hk : ∀ r, Uses P (k r)) : Uses P (.op o k)

theorem Uses.pure' {P : Op → Prop} (a : α) : Uses P (pure a : Prog α) := Uses.ret a
theorem Uses.contentErr' {P : Op → Prop} : Uses P (Prog.contentErr : Prog α) := Uses.fail _
theorem Uses.panic' {P : Op → Prop} (s : String) : Uses P (Prog.panic s : Prog α) := Uses.fail _

theorem Uses.bind {P : Op → Prop} {p : Prog α} {f : α → Prog β} (hp : Uses P p) (hf : ∀ a, Uses P (f a)) :
    Uses P (p >>= f) := by
  induction hp with
  | ret a => exact hf a
  | fail e => exact Uses.fail e
  | op o k h _ ih => exact Uses.op o _ h ih

theorem Uses.mono {P Q : Op → Prop} (hPQ : ∀ o, P o → Q o) {p : Prog α} (hp : Uses P p) : Uses Q p := by
  induction hp with
  | ret a => exact Uses.ret a
  | fail e => exact Uses.fail e
  | op o k h _ ih => exact Uses.op o k (hPQ o h) ih

section
variable {P : Op → Prop}
theorem uses_takeOptU8 (h : P .takeOptU8) : Uses P takeOptU8 :=
  Uses.op _ _ h (fun r => by cases r <;> first | exact Uses.ret _ | exact Uses.fail _)
theorem uses_peekAt (i : Nat) (h : P (.peekAt i)) : Uses P (peekAt i) :=
  Uses.op _ _ h (fun r => by cases r <;> first | exact Uses.ret _ | exact Uses.fail _)
theorem uses_peek2 (h : P .peek2) : Uses P peek2 :=
  Uses.op _ _ h (fun r => by cases r <;> first | exact Uses.ret _ | exact Uses.fail _)
theorem uses_need (n : Nat) (h : P (.need n)) : Uses P (need n) :=
  Uses.op _ _ h (fun r => by cases r <;> first | exact Uses.ret _ | exact Uses.fail _)
theorem uses_takeN (n : Nat) (h : P (.takeN n)) : Uses P (takeN n) :=
  Uses.op _ _ h (fun r => by cases r <;> first | exact Uses.ret _ | exact Uses.fail _)
theorem uses_skipN (n : Nat) (h : P (.skipN n)) : Uses P (skipN n) :=
  Uses.op _ _ h (fun r => by cases r <;> first | exact Uses.ret _ | exact Uses.fail _)
theorem uses_sliceN (n : Nat) (h : P (.sliceN n)) : Uses P (sliceN n) :=
  Uses.op _ _ h (fun r => by cases r <;> first | exact Uses.ret _ | exact Uses.fail _)
theorem uses_getLimit (h : P .getLimit) : Uses P getLimit :=
  Uses.op _ _ h (fun r => by cases r <;> first | exact Uses.ret _ | exact Uses.fail _)
theorem uses_setLimit (l : Option Nat) (h : P (.setLimit l)) : Uses P (setLimit l) :=
  Uses.op _ _ h (fun r => by cases r <;> first | exact Uses.ret _ | exact Uses.fail _)
theorem uses_reqCapped (n : Nat) (h : P (.reqCapped n)) : Uses P (reqCapped n) :=
  Uses.op _ _ h (fun r => by cases r <;> first | exact Uses.ret _ | exact Uses.fail _)
end

/-- operations that touch the source but neither the limit nor the capture frames -/
def Op.isAccess : Op → Prop
  | .getLimit | .setLimit _ | .capBegin | .capEnd | .getPos => False
  | _ => True
/-- operations a closure working on a primitive's content issues: no limit changes, no capture -/
def Op.isWindow : Op → Prop
  | .setLimit _ | .capBegin | .capEnd | .getPos => False
  | _ => True

theorem Op.isAccess_isWindow (o : Op) (h : o.isAccess) : o.isWindow := by cases o <;> simp_all [Op.isAccess, Op.isWindow]


/-- closes `Uses P` goals about `do` blocks; side conditions `P op` are tried with `simp`/`decide` -/
macro "uses" : tactic => `(tactic|
  repeat' (first
    | exact Uses.pure' _ | exact Uses.ret _ | exact Uses.fail _ | exact Uses.contentErr' | exact Uses.panic' _
    | assumption
    | (apply uses_takeOptU8; simp [Op.isAccess, Op.isWindow]) | (apply uses_peekAt; simp [Op.isAccess, Op.isWindow]) | (apply uses_peek2; simp [Op.isAccess, Op.isWindow]) | (apply uses_need; simp [Op.isAccess, Op.isWindow])
    | (apply uses_takeN; simp [Op.isAccess, Op.isWindow]) | (apply uses_skipN; simp [Op.isAccess, Op.isWindow]) | (apply uses_sliceN; simp [Op.isAccess, Op.isWindow]) | (apply uses_getLimit; simp [Op.isAccess, Op.isWindow])
    | (apply uses_setLimit; simp [Op.isAccess, Op.isWindow]) | (apply uses_reqCapped; simp [Op.isAccess, Op.isWindow])
    | apply Uses.bind
    | intro _
    | (dsimp only)
    | split))

theorem access_takeU8 : Uses Op.isAccess takeU8 := by unfold takeU8; uses

end Bcder
