/- capture-freeness of the model routines: which programs the stream-layer theorems cover -/
import Bcder.Model.Stream
import Bcder.Model.Int
import Bcder.Model.Oid
import Bcder.Model.BitString
namespace Bcder
open Prog

theorem NoCap.pure' (a : α) : NoCap (pure a : Prog α) := NoCap.ret a
theorem NoCap.contentErr' : NoCap (Prog.contentErr : Prog α) := NoCap.fail _
theorem NoCap.panic' (s : String) : NoCap (Prog.panic s : Prog α) := NoCap.fail _

theorem NoCap.bind {p : Prog α} {f : α → Prog β} (hp : NoCap p) (hf : ∀ a, NoCap (f a)) :
    NoCap (p >>= f) := by
  induction hp with
  | ret a => exact hf a
  | fail e => exact NoCap.fail e
  | op o k h1 h2 _ ih => exact NoCap.op o _ h1 h2 ih

theorem nocap_takeOptU8 : NoCap takeOptU8 :=
  NoCap.op _ _ (by simp) (by simp) (fun r => by cases r <;> first | exact NoCap.ret _ | exact NoCap.fail _)
theorem nocap_peekAt (i : Nat) : NoCap (peekAt i) :=
  NoCap.op _ _ (by simp) (by simp) (fun r => by cases r <;> first | exact NoCap.ret _ | exact NoCap.fail _)
theorem nocap_peek2 : NoCap peek2 :=
  NoCap.op _ _ (by simp) (by simp) (fun r => by cases r <;> first | exact NoCap.ret _ | exact NoCap.fail _)
theorem nocap_need (n : Nat) : NoCap (need n) :=
  NoCap.op _ _ (by simp) (by simp) (fun r => by cases r <;> first | exact NoCap.ret _ | exact NoCap.fail _)
theorem nocap_takeN (n : Nat) : NoCap (takeN n) :=
  NoCap.op _ _ (by simp) (by simp) (fun r => by cases r <;> first | exact NoCap.ret _ | exact NoCap.fail _)
theorem nocap_skipN (n : Nat) : NoCap (skipN n) :=
  NoCap.op _ _ (by simp) (by simp) (fun r => by cases r <;> first | exact NoCap.ret _ | exact NoCap.fail _)
theorem nocap_sliceN (n : Nat) : NoCap (sliceN n) :=
  NoCap.op _ _ (by simp) (by simp) (fun r => by cases r <;> first | exact NoCap.ret _ | exact NoCap.fail _)
theorem nocap_getLimit : NoCap getLimit :=
  NoCap.op _ _ (by simp) (by simp) (fun r => by cases r <;> first | exact NoCap.ret _ | exact NoCap.fail _)
theorem nocap_setLimit (l : Option Nat) : NoCap (setLimit l) :=
  NoCap.op _ _ (by simp) (by simp) (fun r => by cases r <;> first | exact NoCap.ret _ | exact NoCap.fail _)
theorem nocap_reqCapped (n : Nat) : NoCap (reqCapped n) :=
  NoCap.op _ _ (by simp) (by simp) (fun r => by cases r <;> first | exact NoCap.ret _ | exact NoCap.fail _)
theorem nocap_getPos : NoCap getPos :=
  NoCap.op _ _ (by simp) (by simp) (fun r => by cases r <;> first | exact NoCap.ret _ | exact NoCap.fail _)

/-- closes `NoCap` goals about `do` blocks built from the operations above -/
macro "nocap" : tactic => `(tactic|
  repeat' (first
    | exact NoCap.pure' _ | exact NoCap.ret _ | exact NoCap.fail _ | exact NoCap.contentErr' | exact NoCap.panic' _
    | exact nocap_takeOptU8 | exact nocap_peekAt _ | exact nocap_peek2 | exact nocap_need _
    | exact nocap_takeN _ | exact nocap_skipN _ | exact nocap_sliceN _ | exact nocap_getLimit
    | exact nocap_setLimit _ | exact nocap_reqCapped _ | exact nocap_getPos
    | assumption
    | apply NoCap.bind
    | intro _
    | (dsimp only)
    | split))

theorem nocap_takeU8 : NoCap takeU8 := by unfold takeU8; nocap

theorem nocap_tag_takeOptFrom : NoCap Tag.takeOptFrom := by
  unfold Tag.takeOptFrom
  have := nocap_takeU8
  nocap
theorem nocap_tag_takeFrom : NoCap Tag.takeFrom := by
  unfold Tag.takeFrom; have := nocap_tag_takeOptFrom; nocap
theorem nocap_tag_takeFromIf (t : Tag) : NoCap t.takeFromIf := by
  unfold Tag.takeFromIf; nocap
theorem nocap_length_takeFrom (m : Mode) : NoCap (Length.takeFrom m) := by
  unfold Length.takeFrom; have := nocap_takeU8; nocap


theorem nocap_limitedExhausted : NoCap limitedExhausted := by unfold limitedExhausted; nocap
theorem nocap_prim_remaining : NoCap Prim.remaining := by unfold Prim.remaining; nocap
theorem nocap_prim_skipAll : NoCap Prim.skipAll := by
  unfold Prim.skipAll; have := nocap_prim_remaining; nocap
theorem nocap_prim_takeAll : NoCap Prim.takeAll := by
  unfold Prim.takeAll; have := nocap_prim_remaining; nocap
theorem nocap_prim_sliceAll : NoCap Prim.sliceAll := by
  unfold Prim.sliceAll; have := nocap_prim_remaining; nocap
theorem nocap_prim_withSliceAll (f : Bytes → Option α) : NoCap (Prim.withSliceAll f) := by
  unfold Prim.withSliceAll; have := nocap_prim_remaining; nocap

theorem nocap_isExhausted (c : Cons) : NoCap c.isExhausted := by unfold Cons.isExhausted; nocap
theorem nocap_cons_exhausted (c : Cons) : NoCap c.exhausted := by
  unfold Cons.exhausted
  have := nocap_limitedExhausted; have := nocap_tag_takeFrom; have := nocap_length_takeFrom c.mode
  nocap
theorem nocap_takeOptTag (c : Cons) : NoCap c.takeOptTag := by
  unfold Cons.takeOptTag; have := nocap_tag_takeOptFrom; have := nocap_tag_takeFrom; nocap
theorem nocap_content_exhausted (c : Content) : NoCap c.exhausted := by
  cases c with
  | prim m => exact nocap_limitedExhausted
  | cons c => exact nocap_cons_exhausted c

/-- `process_next_value` captures nothing itself: it is capture-free if the closure is -/
theorem nocap_processNextValue (c : Cons) (expected : Option Tag)
    (op : Tag → Content → Prog (α × Content)) (hop : ∀ t k, NoCap (op t k)) :
    NoCap (processNextValue c expected op) := by
  unfold processNextValue processValueBody
  have := nocap_isExhausted c
  have := nocap_takeOptTag c
  have h3 := nocap_length_takeFrom c.mode
  have h4 : ∀ t : Tag, NoCap t.takeFromIf := nocap_tag_takeFromIf
  have h5 := nocap_content_exhausted
  nocap
  all_goals first | exact h4 _ | exact hop _ _ | exact h5 _ | skip

theorem nocap_mandatory (p : Prog (Option α × Cons)) (hp : NoCap p) : NoCap (mandatory p) := by
  unfold mandatory; nocap
theorem nocap_asPrimitive (k : Mode → Prog (α × Mode)) (hk : ∀ m, NoCap (k m)) (c : Content) :
    NoCap (asPrimitive k c) := by
  cases c with
  | prim m => simp only [asPrimitive]; have := hk m; nocap
  | cons c => exact NoCap.fail _
theorem nocap_asConstructed (k : Cons → Prog (α × Cons)) (hk : ∀ c, NoCap (k c)) (c : Content) :
    NoCap (asConstructed k c) := by
  cases c with
  | cons c => simp only [asConstructed]; have := hk c; nocap
  | prim m => exact NoCap.fail _

theorem nocap_popLoop (st : List (Option (Option Nat))) : NoCap (popLoop st) := by
  induction st with
  | nil => exact NoCap.ret _
  | cons top rest ih => unfold popLoop; nocap

theorem nocap_skipLoop (c : Cons) (filter : σ → Tag → Bool → Nat → Option σ) :
    ∀ (fuel : Nat) (stack : List (Option (Option Nat))) (st : σ), NoCap (skipLoop c filter fuel stack st) := by
  intro fuel
  induction fuel with
  | zero => intro stack st; exact NoCap.fail _
  | succ fuel ih =>
    intro stack st
    unfold skipLoop
    have := nocap_takeOptTag c
    have := nocap_tag_takeFrom
    have := nocap_length_takeFrom c.mode
    have h4 := nocap_popLoop
    nocap
    all_goals first | exact ih _ _ | exact h4 _ | skip

theorem nocap_skipOpt (c : Cons) (filter : σ → Tag → Bool → Nat → Option σ) (st : σ) (fuel : Nat) :
    NoCap (skipOpt c filter st fuel) := by
  unfold skipOpt; have := nocap_isExhausted c; have := nocap_skipLoop c filter fuel [] st; nocap

theorem nocap_skip (c : Cons) (filter : σ → Tag → Bool → Nat → Option σ) (st : σ) (fuel : Nat) :
    NoCap (skip c filter st fuel) := by
  unfold skip; have := nocap_skipOpt c filter st fuel; nocap

theorem nocap_skipOne (c : Cons) (fuel : Nat) : NoCap (skipOne c fuel) := by
  unfold skipOne; have := nocap_skipOpt c acceptAll () fuel; nocap

theorem nocap_skipAll : ∀ (fuel : Nat) (c : Cons), NoCap (skipAll c fuel) := by
  intro fuel
  induction fuel with
  | zero => intro c; exact NoCap.fail _
  | succ fuel ih =>
    intro c; unfold skipAll; have := nocap_skipOne c fuel; nocap
    exact ih _

theorem nocap_decodeTop (m : Mode) (op : Cons → Prog (α × Cons)) (hop : ∀ c, NoCap (op c)) :
    NoCap (decodeTop m op) := by
  unfold decodeTop
  have := hop ⟨.unbounded, m, 0⟩
  have h := nocap_cons_exhausted
  nocap
  exact h _

/-! typed readers -/
theorem nocap_checkHeadSigned : NoCap checkHeadSigned := by unfold checkHeadSigned; nocap
theorem nocap_checkHeadUnsigned : NoCap checkHeadUnsigned := by unfold checkHeadUnsigned; nocap
theorem nocap_liftSlice (f : Bytes → Res (Option α)) : NoCap (liftSlice f) := by
  unfold liftSlice; have := nocap_prim_remaining; nocap
theorem nocap_toInt (ty : IntTy) : NoCap (toInt ty) := by
  have := nocap_checkHeadSigned; have := nocap_checkHeadUnsigned; have := nocap_takeU8
  have h := @nocap_liftSlice
  have := nocap_prim_remaining
  cases ty <;> simp only [toInt, i8FromPrimitive, decodeSigned, decodeUnsigned, u8FromPrimitive, u16FromPrimitive] <;> nocap
  all_goals exact h _
theorem nocap_toBool (m : Mode) : NoCap (toBool m) := by unfold toBool; have := nocap_takeU8; nocap
theorem nocap_toNull : NoCap toNull := by unfold toNull; have := nocap_prim_remaining; nocap
theorem nocap_integerFromPrimitive : NoCap integerFromPrimitive := by
  unfold integerFromPrimitive; have := nocap_prim_takeAll; nocap
theorem nocap_unsignedFromPrimitive : NoCap unsignedFromPrimitive := by
  unfold unsignedFromPrimitive; have := nocap_checkHeadUnsigned; have := nocap_integerFromPrimitive; nocap
theorem nocap_oid_fromPrimitive : NoCap Oid.fromPrimitive := by
  unfold Oid.fromPrimitive; have := nocap_prim_takeAll; nocap
theorem nocap_oid_skipPrimitive : NoCap Oid.skipPrimitive := nocap_prim_withSliceAll _
theorem nocap_bits_fromContent (c : Content) : NoCap (BitString.fromContent c) := by
  cases c with
  | cons c => exact NoCap.fail _
  | prim m =>
    simp only [BitString.fromContent]
    have := nocap_prim_remaining; have := nocap_takeU8; have := nocap_prim_takeAll
    nocap
theorem nocap_bits_skipContent (c : Content) : NoCap (BitString.skipContent c) := by
  cases c with
  | cons c => exact NoCap.fail _
  | prim m =>
    simp only [BitString.skipContent]
    have := nocap_prim_remaining; have := nocap_takeU8; have := nocap_prim_skipAll
    nocap

end Bcder
