/- simulation of the generous layer by the stream layer, operation by operation -/
import Bcder.Model.Stream
namespace Bcder

/-- the stream state `s` is represented by the generous state `g` -/
structure Rel (s : S) (g : G) : Prop where
  data : g.data = s.data
  limit : g.limit = s.limit
  frames : g.frames = []
  seen : g.seen ≤ s.granted
  granted : s.granted ≤ s.data.length

theorem view_length (g : G) :
    g.view.length = match g.limit with | some l => min l g.data.length | none => g.data.length := by
  unfold G.view; cases g.limit <;> simp

/-- what a request does, arithmetically -/
theorem request_spec (pol : Policy) (hp : Conforming pol) (s : S) (n : Nat) (hg : s.granted ≤ s.data.length) :
    (s.failAt = some s.reqs ∧ s.request pol n = .error .source) ∨
    (s.failAt ≠ some s.reqs ∧ ∃ g', s.request pol n =
        .ok ((match s.limit with | some l => min l g' | none => g'),
             { s with reqs := s.reqs + 1, granted := g' }) ∧
      s.granted ≤ g' ∧ g' ≤ s.data.length ∧
      min (match s.limit with | some l => min l n | none => n) s.data.length ≤ g') := by
  by_cases hf : s.failAt = some s.reqs
  · left; refine ⟨hf, ?_⟩
    unfold S.request S.baseRequest; cases s.limit <;> simp [hf]
  · right; refine ⟨hf, ?_⟩
    cases hl : s.limit with
    | none =>
      have := hp s.reqs n s.data.length
      refine ⟨max s.granted (pol s.reqs n s.data.length), ?_, ?_, ?_, ?_⟩
      · simp [S.request, S.baseRequest, hf, hl]
      · omega
      · omega
      · simp only; omega
    | some l =>
      have := hp s.reqs (min l n) s.data.length
      refine ⟨max s.granted (pol s.reqs (min l n) s.data.length), ?_, ?_, ?_, ?_⟩
      · simp [S.request, S.baseRequest, hf, hl]
      · omega
      · omega
      · simp only; omega

end Bcder

namespace Bcder

/-- outcome of one stream-layer step relative to the generous step `(r, g')` -/
def StepOK (pol : Policy) (s : S) (o : Op) (r : Resp) (g' : G) : Prop :=
  (s.failAt = some s.reqs ∧ stepS pol s o = .error .source) ∨
  ∃ s', stepS pol s o = .ok (r, s') ∧ Rel s' g' ∧ s'.failAt = s.failAt

theorem take_take_min (d : Bytes) (a b : Nat) : (d.take a).take b = d.take (min b a) := by
  rw [List.take_take]

/-- after a request the stream slice restricted to the limit shows at least the stingy grant -/
theorem slice_getElem (s : S) (i : Nat) (hi : i < s.granted)
    (hl : match s.limit with | some l => i < l | none => True) (hd : s.granted ≤ s.data.length) :
    s.slice[i]? = s.data[i]? := by
  unfold S.slice
  cases h : s.limit with
  | none => simp [List.getElem?_take, hi]
  | some l =>
    rw [h] at hl
    simp only
    split
    · rw [List.take_take]
      simp [List.getElem?_take]
      omega
    · simp [List.getElem?_take, hi]

theorem view_getElem (g : G) (i : Nat) (hi : i < g.view.length) : g.view[i]? = g.data[i]? := by
  unfold G.view at *
  cases h : g.limit with
  | none => rfl
  | some l => simp [h] at hi; simp [List.getElem?_take]; omega

theorem view_request (g : G) (n : Nat) : (g.request n).view = g.view := rfl

/-- the length of the generous view, in terms of the stream state -/
theorem vlen (s : S) (g : G) (R : Rel s g) :
    g.view.length = match s.limit with | some l => min l s.data.length | none => s.data.length := by
  rw [view_length, R.limit, R.data]

theorem rel_request (s : S) (g : G) (R : Rel s g) (n g' : Nat)
    (h1 : s.granted ≤ g') (h2 : g' ≤ s.data.length)
    (h3 : min (match s.limit with | some l => min l n | none => n) s.data.length ≤ g') :
    Rel { s with reqs := s.reqs + 1, granted := g' } (g.request n) := by
  have v := vlen s g R
  constructor
  · exact R.data
  · exact R.limit
  · exact R.frames
  · have := R.seen
    simp only [G.request]
    rw [v]
    cases hl : s.limit <;> simp [hl] at h3 ⊢ <;> omega
  · exact h2

theorem sim_need (pol : Policy) (hp : Conforming pol) (s : S) (g : G) (R : Rel s g) (n : Nat) :
    StepOK pol s (.need n) (.bool (decide (n ≤ (g.request n).view.length))) (g.request n) := by
  rcases request_spec pol hp s n R.granted with ⟨hf, he⟩ | ⟨hf, g', he, h1, h2, h3⟩
  · left; exact ⟨hf, by simp [stepS, he]⟩
  · right
    have v := vlen s g R
    refine ⟨{ s with reqs := s.reqs + 1, granted := g' }, ?_, rel_request s g R n g' h1 h2 h3, rfl⟩
    have key : (n ≤ (match s.limit with | some l => min l g' | none => g')) ↔ n ≤ (g.request n).view.length := by
      rw [view_request, v]
      cases hl : s.limit <;> simp [hl] at h3 ⊢ <;> omega
    simp [stepS, he, key]

theorem sim_reqCapped (pol : Policy) (hp : Conforming pol) (s : S) (g : G) (R : Rel s g) (n : Nat) :
    StepOK pol s (.reqCapped n) (.nat (min n (g.request n).view.length)) (g.request n) := by
  rcases request_spec pol hp s n R.granted with ⟨hf, he⟩ | ⟨hf, g', he, h1, h2, h3⟩
  · left; exact ⟨hf, by simp [stepS, he]⟩
  · right
    have v := vlen s g R
    refine ⟨{ s with reqs := s.reqs + 1, granted := g' }, ?_, rel_request s g R n g' h1 h2 h3, rfl⟩
    have key : min n (match s.limit with | some l => min l g' | none => g') = min n (g.request n).view.length := by
      rw [view_request, v]
      cases hl : s.limit <;> simp [hl] at h3 ⊢ <;> omega
    simp [stepS, he, key]

end Bcder
