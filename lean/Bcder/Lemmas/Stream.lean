/- simulation of the generous layer by the stream layer, operation by operation -/
import Bcder.Model.Stream
namespace Bcder

/-- the stream state `s` is represented by the generous state `g` -/
structure Rel (s : S) (g : G) : Prop where
  data : g.data = s.data
  limit : g.limit = s.limit
  frames : g.frames = []
  seen : g.seen ≤ s.granted
  granted : s.granted ≤ s.data.length

theorem view_length (g : G) :
    g.view.length = match g.limit with | some l => min l g.data.length | none => g.data.length := by
  unfold G.view; cases g.limit <;> simp

/-- what a request does, arithmetically -/
theorem request_spec (pol : Policy) (hp : Conforming pol) (s : S) (n : Nat) (hg : s.granted ≤ s.data.length) :
    (s.failAt = some s.reqs ∧ s.request pol n = .error .source) ∨
    (s.failAt ≠ some s.reqs ∧ ∃ g', s.request pol n =
        .ok ((match s.limit with | some l => min l g' | none => g'),
             { s with reqs := s.reqs + 1, granted := g' }) ∧
      s.granted ≤ g' ∧ g' ≤ s.data.length ∧
      min (match s.limit with | some l => min l n | none => n) s.data.length ≤ g') := by
  by_cases hf : s.failAt = some s.reqs
  · left; refine ⟨hf, ?_⟩
    unfold S.request S.baseRequest; cases s.limit <;> simp [hf]
  · right; refine ⟨hf, ?_⟩
    cases hl : s.limit with
    | none =>
      have := hp s.reqs n s.data.length
      refine ⟨max s.granted (pol s.reqs n s.data.length), ?_, ?_, ?_, ?_⟩
      · simp [S.request, S.baseRequest, hf, hl]
      · omega
      · omega
      · simp only; omega
    | some l =>
      have := hp s.reqs (min l n) s.data.length
      refine ⟨max s.granted (pol s.reqs (min l n) s.data.length), ?_, ?_, ?_, ?_⟩
      · simp [S.request, S.baseRequest, hf, hl]
      · omega
      · omega
      · simp only; omega

end Bcder

namespace Bcder

/-- outcome of one stream-layer step relative to the generous step `(r, g')` -/
def StepOK (pol : Policy) (s : S) (o : Op) (r : Resp) (g' : G) : Prop :=
  (s.failAt = some s.reqs ∧ stepS pol s o = .error .source) ∨
  ∃ s', stepS pol s o = .ok (r, s') ∧ Rel s' g' ∧ s'.failAt = s.failAt

theorem take_take_min (d : Bytes) (a b : Nat) : (d.take a).take b = d.take (min b a) := by
  rw [List.take_take]

/-- after a request the stream slice restricted to the limit shows at least the stingy grant -/
theorem slice_getElem (s : S) (i : Nat) (hi : i < s.granted)
    (hl : match s.limit with | some l => i < l | none => True) (hd : s.granted ≤ s.data.length) :
    s.slice[i]? = s.data[i]? := by
  unfold S.slice
  cases h : s.limit with
  | none => simp [List.getElem?_take, hi]
  | some l =>
    rw [h] at hl
    simp only
    split
    · rw [List.take_take]
      simp [List.getElem?_take]
      omega
    · simp [List.getElem?_take, hi]

theorem view_getElem (g : G) (i : Nat) (hi : i < g.view.length) : g.view[i]? = g.data[i]? := by
  unfold G.view at *
  cases h : g.limit with
  | none => rfl
  | some l => simp [h] at hi; simp [List.getElem?_take]; omega

theorem view_request (g : G) (n : Nat) : (g.request n).view = g.view := rfl

/-- the length of the generous view, in terms of the stream state -/
theorem vlen (s : S) (g : G) (R : Rel s g) :
    g.view.length = match s.limit with | some l => min l s.data.length | none => s.data.length := by
  rw [view_length, R.limit, R.data]

theorem rel_request (s : S) (g : G) (R : Rel s g) (n g' : Nat)
    (h1 : s.granted ≤ g') (h2 : g' ≤ s.data.length)
    (h3 : min (match s.limit with | some l => min l n | none => n) s.data.length ≤ g') :
    Rel { s with reqs := s.reqs + 1, granted := g' } (g.request n) := by
  have v := vlen s g R
  constructor
  · exact R.data
  · exact R.limit
  · exact R.frames
  · have := R.seen
    simp only [G.request]
    rw [v]
    cases hl : s.limit <;> simp [hl] at h3 ⊢ <;> omega
  · exact h2

theorem sim_need (pol : Policy) (hp : Conforming pol) (s : S) (g : G) (R : Rel s g) (n : Nat) :
    StepOK pol s (.need n) (.bool (decide (n ≤ (g.request n).view.length))) (g.request n) := by
  rcases request_spec pol hp s n R.granted with ⟨hf, he⟩ | ⟨hf, g', he, h1, h2, h3⟩
  · left; exact ⟨hf, by simp [stepS, he]⟩
  · right
    have v := vlen s g R
    refine ⟨{ s with reqs := s.reqs + 1, granted := g' }, ?_, rel_request s g R n g' h1 h2 h3, rfl⟩
    have key : (n ≤ (match s.limit with | some l => min l g' | none => g')) ↔ n ≤ (g.request n).view.length := by
      rw [view_request, v]
      cases hl : s.limit <;> simp [hl] at h3 ⊢ <;> omega
    simp [stepS, he, key]

theorem sim_reqCapped (pol : Policy) (hp : Conforming pol) (s : S) (g : G) (R : Rel s g) (n : Nat) :
    StepOK pol s (.reqCapped n) (.nat (min n (g.request n).view.length)) (g.request n) := by
  rcases request_spec pol hp s n R.granted with ⟨hf, he⟩ | ⟨hf, g', he, h1, h2, h3⟩
  · left; exact ⟨hf, by simp [stepS, he]⟩
  · right
    have v := vlen s g R
    refine ⟨{ s with reqs := s.reqs + 1, granted := g' }, ?_, rel_request s g R n g' h1 h2 h3, rfl⟩
    have key : min n (match s.limit with | some l => min l g' | none => g') = min n (g.request n).view.length := by
      rw [view_request, v]
      cases hl : s.limit <;> simp [hl] at h3 ⊢ <;> omega
    simp [stepS, he, key]


theorem sim_peekAt (pol : Policy) (hp : Conforming pol) (s : S) (g : G) (R : Rel s g) (i : Nat) :
    StepOK pol s (.peekAt i) (.byte (g.request (i + 1)).view[i]?) (g.request (i + 1)) := by
  rcases request_spec pol hp s (i + 1) R.granted with ⟨hf, he⟩ | ⟨hf, g', he, h1, h2, h3⟩
  · left; exact ⟨hf, by simp [stepS, he]⟩
  · right
    have v := vlen s g R
    let s1 : S := { s with reqs := s.reqs + 1, granted := g' }
    refine ⟨s1, ?_, rel_request s g R (i + 1) g' h1 h2 h3, rfl⟩
    rw [view_request]
    by_cases hv : i < g.view.length
    · -- the octet is there: the stream source has granted it
      have hr : ¬ (match s.limit with | some l => min l g' | none => g') ≤ i := by
        rw [v] at hv
        cases hl : s.limit <;> simp [hl] at h3 hv ⊢ <;> omega
      have hsl : s1.slice[i]? = s1.data[i]? := by
        apply slice_getElem
        · show i < g'
          rw [v] at hv
          cases hl : s.limit <;> simp [hl] at h3 hv ⊢ <;> omega
        · show match s.limit with | some l => i < l | none => True
          rw [v] at hv
          cases hl : s.limit <;> simp [hl] at hv ⊢; omega
        · exact h2
      have hd : s1.data[i]? = g.view[i]? := by
        rw [view_getElem g i hv, R.data]
      have hsome : ∃ b, g.view[i]? = some b := ⟨g.view[i], by simp [hv]⟩
      obtain ⟨b, hb⟩ := hsome
      simp only [stepS, he, hr, if_false]
      rw [show s1.slice[i]? = some b from by rw [hsl, hd, hb]]
      simp [hb]
      rfl
    · have hr : (match s.limit with | some l => min l g' | none => g') ≤ i := by
        rw [v] at hv
        cases hl : s.limit <;> simp [hl] at hv ⊢ <;> omega
      have : g.view[i]? = none := by simp; omega
      simp [stepS, he, hr, this]
      rfl

theorem sim_peek2 (pol : Policy) (hp : Conforming pol) (s : S) (g : G) (R : Rel s g) :
    StepOK pol s .peek2
      (.peek (min 2 (g.request 2).view.length) (g.request 2).view[0]? (g.request 2).view[1]?) (g.request 2) := by
  rcases request_spec pol hp s 2 R.granted with ⟨hf, he⟩ | ⟨hf, g', he, h1, h2, h3⟩
  · left; exact ⟨hf, by simp [stepS, he]⟩
  · right
    have v := vlen s g R
    let s1 : S := { s with reqs := s.reqs + 1, granted := g' }
    refine ⟨s1, ?_, rel_request s g R 2 g' h1 h2 h3, rfl⟩
    rw [view_request]
    have hn : min 2 (match s.limit with | some l => min l g' | none => g') = min 2 g.view.length := by
      rw [v]; cases hl : s.limit <;> simp [hl] at h3 ⊢ <;> omega
    -- element i of the slice agrees with element i of the view, for i < 2
    have elem : ∀ i, i < 2 → s1.slice[i]? = g.view[i]? := by
      intro i hi
      by_cases hv : i < g.view.length
      · rw [view_getElem g i hv, R.data]
        apply slice_getElem
        · show i < g'
          rw [v] at hv; cases hl : s.limit <;> simp [hl] at h3 hv ⊢ <;> omega
        · show match s.limit with | some l => i < l | none => True
          rw [v] at hv; cases hl : s.limit <;> simp [hl] at hv ⊢; omega
        · exact h2
      · have h1' : g.view[i]? = none := by simp; omega
        rw [h1']
        -- the slice is no longer than the view
        have hlen : (s.data.take g').length = g' := by simp [List.length_take]; omega
        have : s1.slice.length ≤ g.view.length := by
          rw [v]
          show (S.slice s1).length ≤ _
          unfold S.slice
          cases hl : s.limit with
          | none => simp only [s1, hl]; rw [hlen]; omega
          | some l =>
            simp only [s1, hl]
            split
            · rename_i hgt; rw [hlen] at hgt; rw [List.length_take, hlen]; omega
            · rename_i hgt; rw [hlen] at hgt ⊢; omega
        simp; omega
    have e0 := elem 0 (by omega)
    have e1 := elem 1 (by omega)
    simp only [stepS, he, hn]
    refine congrArg Except.ok (Prod.ext ?_ rfl)
    show Resp.peek _ _ _ = Resp.peek _ _ _
    rw [e0, e1]


theorem adv_sim (s : S) (g : G) (R : Rel s g) (n : Nat) (g' : G) (h : g.advance n = .ok g') :
    ∃ s', s.advance n = .ok s' ∧ Rel s' g' ∧ s'.failAt = s.failAt := by
  have hs := R.seen; have hg := R.granted
  unfold G.advance at h
  split at h
  · simp at h
  · split at h
    · simp at h
    · rename_i h1 h2
      rw [R.frames, R.limit] at h
      cases hl : s.limit with
      | none =>
        rw [hl] at h
        simp only [Except.ok.injEq] at h
        subst h
        refine ⟨{ s with data := s.data.drop n, granted := s.granted - n }, ?_, ?_, rfl⟩
        · have : ¬ s.granted < n := by omega
          simp [S.advance, hl, this]
        · constructor
          · simp [R.data]
          · simp [hl]
          · rfl
          · simp; omega
          · simp [List.length_drop]; rw [R.data] at h2; omega
      | some l =>
        rw [hl] at h
        simp only at h
        split at h
        · simp at h
        · rename_i h3
          simp only [Except.ok.injEq] at h
          subst h
          refine ⟨{ s with data := s.data.drop n, granted := s.granted - n, limit := some (l - n) }, ?_, ?_, rfl⟩
          · have : ¬ s.granted < n := by omega
            simp [S.advance, hl, this, h3]
          · constructor
            · simp [R.data]
            · rfl
            · rfl
            · simp; omega
            · simp [List.length_drop]; rw [R.data] at h2; omega

theorem sim_skipN (pol : Policy) (s : S) (g : G) (R : Rel s g) (n : Nat) (r : Resp) (g' : G)
    (h : stepG g (.skipN n) = .ok (r, g')) : StepOK pol s (.skipN n) r g' := by
  right
  simp only [stepG] at h
  split at h
  · simp at h
  · cases ha : g.advance n with
    | error e => simp [ha] at h
    | ok g1 =>
      simp [ha] at h
      obtain ⟨hr, hg⟩ := h
      subst hr; subst hg
      obtain ⟨s', hs, R', hf⟩ := adv_sim s g R n g1 ha
      exact ⟨s', by simp [stepS, hs], R', hf⟩

theorem sim_takeN (pol : Policy) (s : S) (g : G) (R : Rel s g) (n : Nat) (r : Resp) (g' : G)
    (h : stepG g (.takeN n) = .ok (r, g')) : StepOK pol s (.takeN n) r g' := by
  right
  simp only [stepG] at h
  split at h
  · simp at h
  · rename_i hv
    split at h
    · simp at h
    · rename_i hseen
      cases ha : g.advance n with
      | error e => simp [ha] at h
      | ok g1 =>
        simp [ha] at h
        obtain ⟨hr, hg⟩ := h
        subst hr; subst hg
        obtain ⟨s', hs, R', hf⟩ := adv_sim s g R n g1 ha
        have v := vlen s g R
        have hb : s.bytes0 n = .ok (s.data.take n) := by
          have hs' := R.seen
          have : ¬ s.granted < n := by omega
          unfold S.bytes0
          cases hl : s.limit with
          | none => simp [this]
          | some l =>
            rw [v, hl] at hv
            have : ¬ l < n := by simp at hv; omega
            simp [this, *]
        exact ⟨s', by simp [stepS, hb, hs, R.data], R', hf⟩

theorem sim_sliceN (pol : Policy) (s : S) (g : G) (R : Rel s g) (n : Nat) (r : Resp) (g' : G)
    (h : stepG g (.sliceN n) = .ok (r, g')) : StepOK pol s (.sliceN n) r g' := by
  right
  simp only [stepG] at h
  split at h
  · simp at h
  · rename_i hv
    split at h
    · simp at h
    · rename_i hseen
      simp at h
      obtain ⟨hr, hg⟩ := h
      subst hr; subst hg
      have v := vlen s g R
      have hs' := R.seen; have hg' := R.granted
      have hlen : (s.data.take s.granted).length = s.granted := by simp [List.length_take]; omega
      -- the slice has at least n octets and its first n are those of the data
      have key : n ≤ s.slice.length ∧ s.slice.take n = s.data.take n := by
        unfold S.slice
        cases hl : s.limit with
        | none =>
          simp only
          refine ⟨by rw [hlen]; omega, ?_⟩
          rw [List.take_take]; congr 1; omega
        | some l =>
          rw [v, hl] at hv
          simp only
          split
          · refine ⟨by rw [List.length_take, hlen]; simp at hv; omega, ?_⟩
            rw [List.take_take, List.take_take]; congr 1; simp at hv; omega
          · refine ⟨by rw [hlen]; omega, ?_⟩
            rw [List.take_take]; congr 1; omega
      refine ⟨s, ?_, R, rfl⟩
      have : ¬ s.slice.length < n := by omega
      simp [stepS, this, key.2, R.data]

theorem sim_getLimit (pol : Policy) (s : S) (g : G) (R : Rel s g) :
    StepOK pol s .getLimit (.lim g.limit) g := by
  right; exact ⟨s, by simp [stepS, R.limit], R, rfl⟩

theorem sim_setLimit (pol : Policy) (s : S) (g : G) (R : Rel s g) (l : Option Nat) :
    StepOK pol s (.setLimit l) .unit { g with limit := l } := by
  right
  refine ⟨{ s with limit := l }, by simp [stepS], ?_, rfl⟩
  exact ⟨R.data, rfl, R.frames, R.seen, R.granted⟩


theorem sim_takeOptU8 (pol : Policy) (hp : Conforming pol) (s : S) (g : G) (R : Rel s g) (r : Resp) (g' : G)
    (h : stepG g .takeOptU8 = .ok (r, g')) : StepOK pol s .takeOptU8 r g' := by
  rcases request_spec pol hp s 1 R.granted with ⟨hf, he⟩ | ⟨hf, g1, he, h1, h2, h3⟩
  · left; exact ⟨hf, by simp [stepS, he]⟩
  · right
    have v := vlen s g R
    have R1 := rel_request s g R 1 g1 h1 h2 h3
    simp only [stepG] at h
    rw [view_request] at h
    cases hv : g.view with
    | nil =>
      rw [hv] at h
      simp at h
      obtain ⟨hr, hg⟩ := h
      subst hr; subst hg
      have hz : (match s.limit with | some l => min l g1 | none => g1) < 1 := by
        have : g.view.length = 0 := by simp [hv]
        rw [v] at this
        cases hl : s.limit with
        | none => rw [hl] at this; simp only at this ⊢; omega
        | some l => rw [hl] at this; simp only at this ⊢; omega
      exact ⟨_, by simp [stepS, he, hz], R1, rfl⟩
    | cons b rest =>
      rw [hv] at h
      simp only at h
      cases ha : (g.request 1).advance 1 with
      | error e => simp [ha] at h
      | ok g2 =>
        simp [ha] at h
        obtain ⟨hr, hg⟩ := h
        subst hr; subst hg
        obtain ⟨s2, hs2, R2, hf2⟩ := adv_sim _ _ R1 1 g2 ha
        have hpos : 0 < g.view.length := by simp [hv]
        have hz : ¬ (match s.limit with | some l => min l g1 | none => g1) < 1 := by
          rw [v] at hpos
          cases hl : s.limit <;> simp [hl] at hpos h3 ⊢ <;> omega
        let s1 : S := { s with reqs := s.reqs + 1, granted := g1 }
        have hsl : s1.slice[0]? = some b := by
          have : s1.slice[0]? = s1.data[0]? := by
            apply slice_getElem
            · show 0 < g1
              rw [v] at hpos; cases hl : s.limit <;> simp [hl] at hpos h3 ⊢ <;> omega
            · show match s.limit with | some l => 0 < l | none => True
              rw [v] at hpos; cases hl : s.limit <;> simp [hl] at hpos ⊢; omega
            · exact h2
          rw [this]
          show s.data[0]? = some b
          rw [← R.data, ← view_getElem g 0 hpos, hv]; rfl
        have hcons : ∃ t, s1.slice = b :: t := by
          cases hh : s1.slice with
          | nil => rw [hh] at hsl; simp at hsl
          | cons x t => rw [hh] at hsl; simp at hsl; exact ⟨t, by rw [hsl]⟩
        obtain ⟨t, ht⟩ := hcons
        refine ⟨s2, ?_, R2, hf2⟩
        simp only [stepS, he, hz, if_false]
        show (match s1.slice with
          | [] => Except.error (Err.panic "index 0 out of range")
          | b :: _ => match s1.advance 1 with
            | .ok s2 => .ok (Resp.byte (some b), s2)
            | .error e => .error e) = _
        rw [ht]
        simp only
        rw [show s1.advance 1 = .ok s2 from hs2]

/-- every operation except the capture frame operations is simulated -/
theorem step_sim (pol : Policy) (hp : Conforming pol) (s : S) (g : G) (R : Rel s g) (o : Op)
    (h1 : o ≠ .capBegin) (h2 : o ≠ .capEnd) (r : Resp) (g' : G) (h : stepG g o = .ok (r, g')) :
    StepOK pol s o r g' := by
  cases o with
  | takeOptU8 => exact sim_takeOptU8 pol hp s g R r g' h
  | peekAt i =>
    simp only [stepG, Except.ok.injEq, Prod.mk.injEq] at h
    obtain ⟨hr, hg⟩ := h; subst hr; subst hg
    exact sim_peekAt pol hp s g R i
  | peek2 =>
    simp only [stepG, Except.ok.injEq, Prod.mk.injEq] at h
    obtain ⟨hr, hg⟩ := h; subst hr; subst hg
    exact sim_peek2 pol hp s g R
  | need n =>
    simp only [stepG, Except.ok.injEq, Prod.mk.injEq] at h
    obtain ⟨hr, hg⟩ := h; subst hr; subst hg
    exact sim_need pol hp s g R n
  | takeN n => exact sim_takeN pol s g R n r g' h
  | skipN n => exact sim_skipN pol s g R n r g' h
  | sliceN n => exact sim_sliceN pol s g R n r g' h
  | getLimit =>
    simp only [stepG, Except.ok.injEq, Prod.mk.injEq] at h
    obtain ⟨hr, hg⟩ := h; subst hr; subst hg
    exact sim_getLimit pol s g R
  | setLimit l =>
    simp only [stepG, Except.ok.injEq, Prod.mk.injEq] at h
    obtain ⟨hr, hg⟩ := h; subst hr; subst hg
    exact sim_setLimit pol s g R l
  | reqCapped n =>
    simp only [stepG, Except.ok.injEq, Prod.mk.injEq] at h
    obtain ⟨hr, hg⟩ := h; subst hr; subst hg
    exact sim_reqCapped pol hp s g R n
  | capBegin => exact absurd rfl h1
  | capEnd => exact absurd rfl h2
  | getPos =>
    simp only [stepG, Except.ok.injEq, Prod.mk.injEq] at h
    obtain ⟨hr, hg⟩ := h; subst hr; subst hg
    right; exact ⟨s, by simp [stepS, R.data], R, rfl⟩


theorem advance_err_panic (g : G) (n : Nat) (e : Err) (h : g.advance n = .error e) : e.isPanic = true := by
  unfold G.advance at h
  by_cases h1 : g.seen < n
  · simp [h1] at h; subst h; rfl
  · by_cases h2 : g.data.length < n
    · simp [h1, h2] at h; subst h; rfl
    · simp only [h1, h2, if_false] at h
      cases hl : g.limit with
      | none => simp [hl] at h
      | some l =>
        simp only [hl] at h
        by_cases h3 : l < n
        · simp [h3] at h; subst h; rfl
        · simp [h3] at h

/-- the generous layer itself only ever fails with a panic (contract breach, index, assertion) -/
theorem stepG_err_panic (g : G) (o : Op) (e : Err) (h : stepG g o = .error e) : e.isPanic = true := by
  cases o with
  | takeOptU8 =>
    simp only [stepG] at h
    split at h
    · cases h
    · split at h
      · cases h
      · rename_i e' ha; cases h; exact advance_err_panic _ _ _ ha
  | peekAt i => simp [stepG] at h
  | peek2 => simp [stepG] at h
  | need n => simp [stepG] at h
  | takeN n =>
    simp only [stepG] at h
    split at h
    · cases h; rfl
    · split at h
      · cases h; rfl
      · split at h
        · cases h
        · rename_i e' ha; cases h; exact advance_err_panic _ _ _ ha
  | skipN n =>
    simp only [stepG] at h
    split at h
    · cases h; rfl
    · split at h
      · cases h
      · rename_i e' ha; cases h; exact advance_err_panic _ _ _ ha
  | sliceN n =>
    simp only [stepG] at h
    split at h
    · cases h; rfl
    · split at h
      · cases h; rfl
      · cases h
  | getLimit => simp [stepG] at h
  | setLimit l => simp [stepG] at h
  | reqCapped n => simp [stepG] at h
  | capBegin => simp [stepG] at h
  | capEnd =>
    simp only [stepG] at h
    split at h
    · cases h; rfl
    · split at h
      · split at h
        · cases h; rfl
        · cases h
      · cases h
  | getPos => simp [stepG] at h

/-- **Simulation**: a capture-free program that the generous layer runs without a panic is run by
    the stream layer, over ANY conforming grant policy and with ANY request failing, to the same
    value and the same remaining input - or, only if a fault is armed, to the injected source error. -/
theorem run_sim (pol : Policy) (hp : Conforming pol) (p : Prog α) (hn : NoCap p) :
    ∀ (s : S) (g : G), Rel s g →
      (∀ a g', runG p g = .ok (a, g') →
        (s.failAt ≠ none ∧ runS pol p s = .error .source) ∨
        ∃ s', runS pol p s = .ok (a, s') ∧ Rel s' g' ∧ s'.failAt = s.failAt) ∧
      (∀ e, runG p g = .error e → e.isPanic = false →
        (s.failAt ≠ none ∧ runS pol p s = .error .source) ∨ runS pol p s = .error e) := by
  induction hn with
  | ret a =>
    intro s g R
    exact ⟨fun a' g' h => by simp [runG] at h; obtain ⟨h1, h2⟩ := h; subst h1; subst h2
                             exact Or.inr ⟨s, rfl, R, rfl⟩,
           fun e h => by simp [runG] at h⟩
  | fail e0 =>
    intro s g R
    exact ⟨fun a g' h => by simp [runG] at h,
           fun e h _ => by simp [runG] at h; subst h; exact Or.inr rfl⟩
  | op o k h1 h2 hk ih =>
    intro s g R
    cases hs : stepG g o with
    | error e0 =>
      constructor
      · intro a g' h; simp [runG, hs] at h
      · intro e h hp'
        simp [runG, hs] at h; subst h
        rw [stepG_err_panic g o e0 hs] at hp'; cases hp'
    | ok rg =>
      obtain ⟨r, g1⟩ := rg
      rcases step_sim pol hp s g R o h1 h2 r g1 hs with ⟨hfa, hsrc⟩ | ⟨s1, hs1, R1, hf1⟩
      · have hne : s.failAt ≠ none := by rw [hfa]; simp
        constructor
        · intro a g' _; left; exact ⟨hne, by simp [runS, hsrc]⟩
        · intro e _ _; left; exact ⟨hne, by simp [runS, hsrc]⟩
      · have := ih r s1 g1 R1
        constructor
        · intro a g' h
          simp only [runG, hs] at h
          rcases this.1 a g' h with ⟨hne, hsrc⟩ | ⟨s', hs', R', hf'⟩
          · left; exact ⟨by rw [← hf1]; exact hne, by simp [runS, hs1, hsrc]⟩
          · right; exact ⟨s', by simp [runS, hs1, hs'], R', by rw [hf', hf1]⟩
        · intro e h hp'
          simp only [runG, hs] at h
          rcases this.2 e h hp' with ⟨hne, hsrc⟩ | he
          · left; exact ⟨by rw [← hf1]; exact hne, by simp [runS, hs1, hsrc]⟩
          · right; simp [runS, hs1, he]

end Bcder
