/- simulation of the generous layer by the stream layer, operation by operation, INCLUDING the
   capture operations: while a `CaptureSource` is open the base source is not advanced; the
   generous layer advances its data eagerly.  The two are related through the octets captured so
   far (`S.off`). -/
import Bcder.Model.Stream
namespace Bcder

/-- what the innermost source still has in front of it: the base data behind the captured offset -/
def S.vd (s : S) : Bytes := s.data.drop s.off
/-- how much of that the base source has granted -/
def S.vg (s : S) : Nat := s.granted - s.off

/-- the stream state `s` is represented by the generous state `g` -/
structure Rel (s : S) (g : G) : Prop where
  data : g.data = s.vd
  limit : g.limit = s.limit
  frames : g.frames = s.frames
  seen : g.seen ≤ s.vg
  off : s.off ≤ s.granted
  granted : s.granted ≤ s.data.length

theorem S.vd_length (s : S) : s.vd.length = s.data.length - s.off := by
  simp [S.vd, List.length_drop]

theorem view_length (g : G) :
    g.view.length = match g.limit with | some l => min l g.data.length | none => g.data.length := by
  unfold G.view; cases g.limit <;> simp

/-- what a request does, arithmetically -/
theorem request_spec (pol : Policy) (hp : Conforming pol) (s : S) (n : Nat)
    (ho : s.off ≤ s.granted) (hg : s.granted ≤ s.data.length) :
    (s.failAt = some s.reqs ∧ s.request pol n = .error .source) ∨
    (s.failAt ≠ some s.reqs ∧ ∃ g', s.request pol n =
        .ok ((match s.limit with | some l => min l (g' - s.off) | none => g' - s.off),
             { s with reqs := s.reqs + 1, granted := g' }) ∧
      s.granted ≤ g' ∧ g' ≤ s.data.length ∧
      min (match s.limit with | some l => min l n | none => n) s.vd.length ≤ g' - s.off) := by
  by_cases hf : s.failAt = some s.reqs
  · left; refine ⟨hf, ?_⟩
    unfold S.request S.baseRequest; cases s.limit <;> simp [hf]
  · right; refine ⟨hf, ?_⟩
    rw [S.vd_length]
    cases hl : s.limit with
    | none =>
      have := hp s.reqs (s.off + n) s.data.length
      refine ⟨max s.granted (pol s.reqs (s.off + n) s.data.length), ?_, ?_, ?_, ?_⟩
      · have hlt : ¬ max s.granted (pol s.reqs (s.off + n) s.data.length) < s.off := by omega
        simp [S.request, S.baseRequest, hf, hl, hlt]
      · omega
      · omega
      · simp only; omega
    | some l =>
      have := hp s.reqs (s.off + min l n) s.data.length
      refine ⟨max s.granted (pol s.reqs (s.off + min l n) s.data.length), ?_, ?_, ?_, ?_⟩
      · have hlt : ¬ max s.granted (pol s.reqs (s.off + min l n) s.data.length) < s.off := by omega
        simp [S.request, S.baseRequest, hf, hl, hlt]
      · omega
      · omega
      · simp only; omega


/-- outcome of one stream-layer step relative to the generous step `(r, g')` -/
def StepOK (pol : Policy) (s : S) (o : Op) (r : Resp) (g' : G) : Prop :=
  (s.failAt = some s.reqs ∧ stepS pol s o = .error .source) ∨
  ∃ s', stepS pol s o = .ok (r, s') ∧ Rel s' g' ∧ s'.failAt = s.failAt

/-- after a request the stream slice restricted to the limit shows at least the stingy grant -/
theorem slice_getElem (s : S) (i : Nat) (hi : i < s.vg)
    (hl : match s.limit with | some l => i < l | none => True) (ho : s.off ≤ s.granted)
    (hd : s.granted ≤ s.data.length) :
    s.slice[i]? = s.vd[i]? := by
  have hi' : s.off + i < s.granted := by unfold S.vg at hi; omega
  have hb : ((s.data.take s.granted).drop s.off)[i]? = s.vd[i]? := by
    simp only [S.vd, List.getElem?_drop, List.getElem?_take, hi', if_true]
  unfold S.slice
  cases h : s.limit with
  | none => simpa using hb
  | some l =>
    rw [h] at hl
    simp only
    split
    · rw [List.getElem?_take, if_pos hl]; exact hb
    · exact hb

theorem view_getElem (g : G) (i : Nat) (hi : i < g.view.length) : g.view[i]? = g.data[i]? := by
  unfold G.view at *
  cases h : g.limit with
  | none => rfl
  | some l => simp [h] at hi; simp [List.getElem?_take]; omega

theorem view_request (g : G) (n : Nat) : (g.request n).view = g.view := rfl

/-- the length of the generous view, in terms of the stream state -/
theorem vlen (s : S) (g : G) (R : Rel s g) :
    g.view.length = match s.limit with | some l => min l s.vd.length | none => s.vd.length := by
  rw [view_length, R.limit, R.data]

theorem rel_request (s : S) (g : G) (R : Rel s g) (n g' : Nat)
    (h1 : s.granted ≤ g') (h2 : g' ≤ s.data.length)
    (h3 : min (match s.limit with | some l => min l n | none => n) s.vd.length ≤ g' - s.off) :
    Rel { s with reqs := s.reqs + 1, granted := g' } (g.request n) := by
  have v := vlen s g R
  have ho := R.off
  constructor
  · exact R.data
  · exact R.limit
  · exact R.frames
  · have := R.seen
    show max g.seen (min n g.view.length) ≤ g' - s.off
    unfold S.vg at this
    rw [v]
    cases hl : s.limit <;> simp [hl] at h3 ⊢ <;> omega
  · show s.off ≤ g'; omega
  · exact h2

theorem sim_need (pol : Policy) (hp : Conforming pol) (s : S) (g : G) (R : Rel s g) (n : Nat) :
    StepOK pol s (.need n) (.bool (decide (n ≤ (g.request n).view.length))) (g.request n) := by
  rcases request_spec pol hp s n R.off R.granted with ⟨hf, he⟩ | ⟨hf, g', he, h1, h2, h3⟩
  · left; exact ⟨hf, by simp [stepS, he]⟩
  · right
    have v := vlen s g R
    refine ⟨{ s with reqs := s.reqs + 1, granted := g' }, ?_, rel_request s g R n g' h1 h2 h3, rfl⟩
    have key : (n ≤ (match s.limit with | some l => min l (g' - s.off) | none => g' - s.off)) ↔
        n ≤ (g.request n).view.length := by
      rw [view_request, v]
      have hvl := S.vd_length s
      have ho := R.off
      cases hl : s.limit <;> simp [hl] at h3 ⊢ <;> omega
    simp [stepS, he, key]

theorem sim_reqCapped (pol : Policy) (hp : Conforming pol) (s : S) (g : G) (R : Rel s g) (n : Nat) :
    StepOK pol s (.reqCapped n) (.nat (min n (g.request n).view.length)) (g.request n) := by
  rcases request_spec pol hp s n R.off R.granted with ⟨hf, he⟩ | ⟨hf, g', he, h1, h2, h3⟩
  · left; exact ⟨hf, by simp [stepS, he]⟩
  · right
    have v := vlen s g R
    refine ⟨{ s with reqs := s.reqs + 1, granted := g' }, ?_, rel_request s g R n g' h1 h2 h3, rfl⟩
    have key : min n (match s.limit with | some l => min l (g' - s.off) | none => g' - s.off) =
        min n (g.request n).view.length := by
      rw [view_request, v]
      have hvl := S.vd_length s
      have ho := R.off
      cases hl : s.limit <;> simp [hl] at h3 ⊢ <;> omega
    simp [stepS, he, key]


theorem sim_peekAt (pol : Policy) (hp : Conforming pol) (s : S) (g : G) (R : Rel s g) (i : Nat) :
    StepOK pol s (.peekAt i) (.byte (g.request (i + 1)).view[i]?) (g.request (i + 1)) := by
  rcases request_spec pol hp s (i + 1) R.off R.granted with ⟨hf, he⟩ | ⟨hf, g', he, h1, h2, h3⟩
  · left; exact ⟨hf, by simp [stepS, he]⟩
  · right
    have v := vlen s g R
    have hvl := S.vd_length s
    have ho := R.off
    let s1 : S := { s with reqs := s.reqs + 1, granted := g' }
    refine ⟨s1, ?_, rel_request s g R (i + 1) g' h1 h2 h3, rfl⟩
    rw [view_request]
    by_cases hv : i < g.view.length
    · -- the octet is there: the stream source has granted it
      have hr : ¬ (match s.limit with | some l => min l (g' - s.off) | none => g' - s.off) ≤ i := by
        rw [v] at hv
        cases hl : s.limit <;> simp [hl] at h3 hv ⊢ <;> omega
      have hsl : s1.slice[i]? = s1.vd[i]? := by
        apply slice_getElem
        · show i < g' - s.off
          rw [v] at hv
          cases hl : s.limit <;> simp [hl] at h3 hv ⊢ <;> omega
        · show match s.limit with | some l => i < l | none => True
          rw [v] at hv
          cases hl : s.limit <;> simp [hl] at hv ⊢; omega
        · show s.off ≤ g'; omega
        · exact h2
      have hd : s1.vd[i]? = g.view[i]? := by
        rw [view_getElem g i hv, R.data]; rfl
      have hsome : ∃ b, g.view[i]? = some b := ⟨g.view[i], by simp [hv]⟩
      obtain ⟨b, hb⟩ := hsome
      simp only [stepS, he, hr, if_false]
      rw [show s1.slice[i]? = some b from by rw [hsl, hd, hb]]
      simp [hb]
      rfl
    · have hr : (match s.limit with | some l => min l (g' - s.off) | none => g' - s.off) ≤ i := by
        rw [v] at hv
        cases hl : s.limit <;> simp [hl] at hv ⊢ <;> omega
      have : g.view[i]? = none := by simp; omega
      simp [stepS, he, hr, this]
      rfl

theorem sim_peek2 (pol : Policy) (hp : Conforming pol) (s : S) (g : G) (R : Rel s g) :
    StepOK pol s .peek2
      (.peek (min 2 (g.request 2).view.length) (g.request 2).view[0]? (g.request 2).view[1]?) (g.request 2) := by
  rcases request_spec pol hp s 2 R.off R.granted with ⟨hf, he⟩ | ⟨hf, g', he, h1, h2, h3⟩
  · left; exact ⟨hf, by simp [stepS, he]⟩
  · right
    have v := vlen s g R
    have hvl := S.vd_length s
    have ho := R.off
    let s1 : S := { s with reqs := s.reqs + 1, granted := g' }
    refine ⟨s1, ?_, rel_request s g R 2 g' h1 h2 h3, rfl⟩
    rw [view_request]
    have hn : min 2 (match s.limit with | some l => min l (g' - s.off) | none => g' - s.off) = min 2 g.view.length := by
      rw [v]; cases hl : s.limit <;> simp [hl] at h3 ⊢ <;> omega
    -- element i of the slice agrees with element i of the view, for i < 2
    have elem : ∀ i, i < 2 → s1.slice[i]? = g.view[i]? := by
      intro i hi
      by_cases hv : i < g.view.length
      · rw [view_getElem g i hv, R.data]
        show s1.slice[i]? = s1.vd[i]?
        apply slice_getElem
        · show i < g' - s.off
          rw [v] at hv; cases hl : s.limit <;> simp [hl] at h3 hv ⊢ <;> omega
        · show match s.limit with | some l => i < l | none => True
          rw [v] at hv; cases hl : s.limit <;> simp [hl] at hv ⊢; omega
        · show s.off ≤ g'; omega
        · exact h2
      · have h1' : g.view[i]? = none := by simp; omega
        rw [h1']
        -- the slice is no longer than the view
        have hlen : ((s.data.take g').drop s.off).length = g' - s.off := by
          simp [List.length_drop, List.length_take]; omega
        have : s1.slice.length ≤ g.view.length := by
          rw [v]
          show (S.slice s1).length ≤ _
          unfold S.slice
          show (match s.limit with
            | some l => if ((s.data.take g').drop s.off).length > l then ((s.data.take g').drop s.off).take l
                        else (s.data.take g').drop s.off
            | none => (s.data.take g').drop s.off).length ≤ _
          cases hl : s.limit with
          | none => simp only; rw [hlen]; omega
          | some l =>
            simp only
            split
            · rename_i hgt; rw [hlen] at hgt; rw [List.length_take, hlen]; omega
            · rename_i hgt; rw [hlen] at hgt ⊢; omega
        simp; omega
    have e0 := elem 0 (by omega)
    have e1 := elem 1 (by omega)
    simp only [stepS, he, hn]
    refine congrArg Except.ok (Prod.ext ?_ rfl)
    show Resp.peek _ _ _ = Resp.peek _ _ _
    rw [e0, e1]


theorem S.off_nil (s : S) (h : s.frames = []) : s.off = 0 := by simp [S.off, h]
theorem S.off_cons (s : S) (f : Frame) (fs : List Frame) (h : s.frames = f :: fs) :
    s.off = f.buf.length + (fs.map (·.buf.length)).sum := by simp [S.off, h]

theorem S.advance_ok (s : S) (n : Nat) (hl : ∀ l, s.limit = some l → ¬ l < n) (hc : ¬ s.granted < s.off + n) :
    s.advance n = .ok (match s.frames with
      | [] => { s with data := s.data.drop n, granted := s.granted - n, limit := s.limit.map (· - n) }
      | f :: fs => { s with frames := { f with buf := f.buf ++ (s.data.drop s.off).take n } :: fs,
                            limit := s.limit.map (· - n) }) := by
  unfold S.advance
  cases hlim : s.limit with
  | none => simp only [Bool.false_eq_true, if_false, hc]; cases s.frames <;> rfl
  | some l =>
    have := hl l hlim
    simp only [this, decide_false, Bool.false_eq_true, if_false, hc]; cases s.frames <;> rfl

theorem adv_sim (s : S) (g : G) (R : Rel s g) (n : Nat) (g' : G) (h : g.advance n = .ok g') :
    ∃ s', s.advance n = .ok s' ∧ Rel s' g' ∧ s'.failAt = s.failAt := by
  have hs := R.seen; have hg := R.granted; have ho := R.off
  have hvl := S.vd_length s
  unfold S.vg at hs
  unfold G.advance at h
  split at h
  · simp at h
  · split at h
    · simp at h
    · rename_i h1 h2
      rw [R.data] at h2
      have hc : ¬ s.granted < s.off + n := by omega
      -- the limit check and the new limit
      have hlim : ¬ (match s.limit with | some l => decide (l < n) | none => false) = true ∧
          g'.limit = s.limit.map (· - n) ∧ g'.data = g.data.drop n ∧ g'.seen = g.seen - n ∧
          g'.frames = (match g.frames with
            | [] => []
            | f :: fs => { f with buf := f.buf ++ g.data.take n } :: fs) := by
        rw [R.limit] at h
        cases hl : s.limit with
        | none =>
          rw [hl] at h
          simp only [Except.ok.injEq] at h
          subst h
          exact ⟨by simp, by simp [R.limit, hl], rfl, rfl, rfl⟩
        | some l =>
          rw [hl] at h
          simp only at h
          split at h
          · simp at h
          · rename_i h3
            simp only [Except.ok.injEq] at h
            subst h
            exact ⟨by simp [h3], rfl, rfl, rfl, rfl⟩
      obtain ⟨hl1, hl2, hd, hseen, hfr⟩ := hlim
      have hl1' : ∀ l, s.limit = some l → ¬ l < n := by
        intro l hl hlt; apply hl1; rw [hl]; simp [hlt]
      cases hF : s.frames with
      | nil =>
        have h0 := S.off_nil s hF
        refine ⟨{ s with data := s.data.drop n, granted := s.granted - n, limit := s.limit.map (· - n) }, ?_, ?_, rfl⟩
        · rw [S.advance_ok s n hl1' hc]; simp only [hF]
        · have h0' : ({ s with data := s.data.drop n, granted := s.granted - n, limit := s.limit.map (· - n) } : S).off = 0 := by
            simp [S.off, hF]
          constructor
          · rw [hd, R.data]; simp [S.vd, h0, h0']
          · exact hl2
          · rw [hfr, R.frames, hF]
          · rw [hseen]; simp only [S.vg, h0']; rw [h0] at hs; omega
          · rw [h0']; omega
          · show s.granted - n ≤ (s.data.drop n).length
            rw [List.length_drop]; rw [h0] at hc; omega
      | cons f fs =>
        have hof := S.off_cons s f fs hF
        let s' : S := { s with frames := { f with buf := f.buf ++ (s.data.drop s.off).take n } :: fs,
                               limit := s.limit.map (· - n) }
        have hlen : ((s.data.drop s.off).take n).length = n := by
          rw [List.length_take, List.length_drop]; omega
        have hsum : ∀ X : Bytes, X.length = n →
            (({ f with buf := f.buf ++ X } :: fs : List Frame).map (·.buf.length)).sum = s.off + n := by
          intro X hX; rw [hof]; simp only [List.map_cons, List.sum_cons, List.length_append, hX]; omega
        have hoff' : s'.off = s.off + n := hsum _ hlen
        refine ⟨s', ?_, ?_, rfl⟩
        · rw [S.advance_ok s n hl1' hc]; simp only [hF]; rfl
        · constructor
          · rw [hd, R.data]; simp only [S.vd, hoff', List.drop_drop]; rfl
          · exact hl2
          · rw [hfr, R.frames, hF, R.data]; rfl
          · rw [hseen]; simp only [S.vg, hoff']; show g.seen - n ≤ s.granted - (s.off + n); omega
          · rw [hoff']; show s.off + n ≤ s.granted; omega
          · exact hg

theorem sim_skipN (pol : Policy) (s : S) (g : G) (R : Rel s g) (n : Nat) (r : Resp) (g' : G)
    (h : stepG g (.skipN n) = .ok (r, g')) : StepOK pol s (.skipN n) r g' := by
  right
  simp only [stepG] at h
  split at h
  · simp at h
  · cases ha : g.advance n with
    | error e => simp [ha] at h
    | ok g1 =>
      simp [ha] at h
      obtain ⟨hr, hg⟩ := h
      subst hr; subst hg
      obtain ⟨s', hs, R', hf⟩ := adv_sim s g R n g1 ha
      exact ⟨s', by simp [stepS, hs], R', hf⟩

theorem sim_takeN (pol : Policy) (s : S) (g : G) (R : Rel s g) (n : Nat) (r : Resp) (g' : G)
    (h : stepG g (.takeN n) = .ok (r, g')) : StepOK pol s (.takeN n) r g' := by
  right
  simp only [stepG] at h
  split at h
  · simp at h
  · rename_i hv
    split at h
    · simp at h
    · rename_i hseen
      cases ha : g.advance n with
      | error e => simp [ha] at h
      | ok g1 =>
        simp [ha] at h
        obtain ⟨hr, hg⟩ := h
        subst hr; subst hg
        obtain ⟨s', hs, R', hf⟩ := adv_sim s g R n g1 ha
        have v := vlen s g R
        have hb : s.bytes0 n = .ok (s.vd.take n) := by
          have hs' := R.seen
          have ho := R.off
          unfold S.vg at hs'
          have : ¬ s.granted < s.off + n := by omega
          unfold S.bytes0
          cases hl : s.limit with
          | none => simp [this, S.vd]
          | some l =>
            rw [v, hl] at hv
            have : ¬ l < n := by simp at hv; omega
            simp [this, S.vd, *]
        exact ⟨s', by simp [stepS, hb, hs, R.data], R', hf⟩

theorem sim_sliceN (pol : Policy) (s : S) (g : G) (R : Rel s g) (n : Nat) (r : Resp) (g' : G)
    (h : stepG g (.sliceN n) = .ok (r, g')) : StepOK pol s (.sliceN n) r g' := by
  right
  simp only [stepG] at h
  split at h
  · simp at h
  · rename_i hv
    split at h
    · simp at h
    · rename_i hseen
      simp at h
      obtain ⟨hr, hg⟩ := h
      subst hr; subst hg
      have v := vlen s g R
      have hs' := R.seen; have hg' := R.granted; have ho := R.off
      have hvl := S.vd_length s
      unfold S.vg at hs'
      have hlen : ((s.data.take s.granted).drop s.off).length = s.granted - s.off := by
        simp [List.length_drop, List.length_take]; omega
      have hpre : ((s.data.take s.granted).drop s.off).take n = s.vd.take n := by
        apply List.ext_getElem?
        intro i
        simp only [List.getElem?_take, S.vd, List.getElem?_drop]
        by_cases hi : i < n
        · have : s.off + i < s.granted := by omega
          simp [hi, this]
        · simp [hi]
      -- the slice has at least n octets and its first n are those of the data
      have key : n ≤ s.slice.length ∧ s.slice.take n = s.vd.take n := by
        unfold S.slice
        cases hl : s.limit with
        | none =>
          simp only
          exact ⟨by rw [hlen]; omega, hpre⟩
        | some l =>
          rw [v, hl] at hv
          simp only
          split
          · refine ⟨by rw [List.length_take, hlen]; simp at hv; omega, ?_⟩
            rw [List.take_take]
            have : min n l = n := by simp at hv; omega
            rw [this]; exact hpre
          · exact ⟨by rw [hlen]; omega, hpre⟩
      refine ⟨s, ?_, R, rfl⟩
      have : ¬ s.slice.length < n := by omega
      simp [stepS, this, key.2, R.data]

theorem sim_getLimit (pol : Policy) (s : S) (g : G) (R : Rel s g) :
    StepOK pol s .getLimit (.lim g.limit) g := by
  right; exact ⟨s, by simp [stepS, R.limit], R, rfl⟩

theorem sim_setLimit (pol : Policy) (s : S) (g : G) (R : Rel s g) (l : Option Nat) :
    StepOK pol s (.setLimit l) .unit { g with limit := l } := by
  right
  refine ⟨{ s with limit := l }, by simp [stepS], ?_, rfl⟩
  exact ⟨R.data, rfl, R.frames, R.seen, R.off, R.granted⟩


theorem sim_takeOptU8 (pol : Policy) (hp : Conforming pol) (s : S) (g : G) (R : Rel s g) (r : Resp) (g' : G)
    (h : stepG g .takeOptU8 = .ok (r, g')) : StepOK pol s .takeOptU8 r g' := by
  rcases request_spec pol hp s 1 R.off R.granted with ⟨hf, he⟩ | ⟨hf, g1, he, h1, h2, h3⟩
  · left; exact ⟨hf, by simp [stepS, he]⟩
  · right
    have v := vlen s g R
    have hvl := S.vd_length s
    have ho := R.off
    have R1 := rel_request s g R 1 g1 h1 h2 h3
    simp only [stepG] at h
    rw [view_request] at h
    cases hv : g.view with
    | nil =>
      rw [hv] at h
      simp at h
      obtain ⟨hr, hg⟩ := h
      subst hr; subst hg
      have hz : (match s.limit with | some l => min l (g1 - s.off) | none => g1 - s.off) < 1 := by
        have : g.view.length = 0 := by simp [hv]
        rw [v] at this
        cases hl : s.limit with
        | none => rw [hl] at this; simp only at this ⊢; omega
        | some l => rw [hl] at this; simp only at this ⊢; omega
      exact ⟨_, by simp [stepS, he, hz], R1, rfl⟩
    | cons b rest =>
      rw [hv] at h
      simp only at h
      cases ha : (g.request 1).advance 1 with
      | error e => simp [ha] at h
      | ok g2 =>
        simp [ha] at h
        obtain ⟨hr, hg⟩ := h
        subst hr; subst hg
        obtain ⟨s2, hs2, R2, hf2⟩ := adv_sim _ _ R1 1 g2 ha
        have hpos : 0 < g.view.length := by simp [hv]
        have hz : ¬ (match s.limit with | some l => min l (g1 - s.off) | none => g1 - s.off) < 1 := by
          rw [v] at hpos
          cases hl : s.limit <;> simp [hl] at hpos h3 ⊢ <;> omega
        let s1 : S := { s with reqs := s.reqs + 1, granted := g1 }
        have hsl : s1.slice[0]? = some b := by
          have : s1.slice[0]? = s1.vd[0]? := by
            apply slice_getElem
            · show 0 < g1 - s.off
              rw [v] at hpos; cases hl : s.limit <;> simp [hl] at hpos h3 ⊢ <;> omega
            · show match s.limit with | some l => 0 < l | none => True
              rw [v] at hpos; cases hl : s.limit <;> simp [hl] at hpos ⊢; omega
            · show s.off ≤ g1; omega
            · exact h2
          rw [this]
          show s.vd[0]? = some b
          rw [← R.data, ← view_getElem g 0 hpos, hv]; rfl
        have hcons : ∃ t, s1.slice = b :: t := by
          cases hh : s1.slice with
          | nil => rw [hh] at hsl; simp at hsl
          | cons x t => rw [hh] at hsl; simp at hsl; exact ⟨t, by rw [hsl]⟩
        obtain ⟨t, ht⟩ := hcons
        refine ⟨s2, ?_, R2, hf2⟩
        simp only [stepS, he, hz, if_false]
        show (match s1.slice with
          | [] => Except.error (Err.panic "index 0 out of range")
          | b :: _ => match s1.advance 1 with
            | .ok s2 => .ok (Resp.byte (some b), s2)
            | .error e => .error e) = _
        rw [ht]
        simp only
        rw [show s1.advance 1 = .ok s2 from hs2]

/-- opening a capture: nothing moves -/
theorem sim_capBegin (pol : Policy) (s : S) (g : G) (R : Rel s g) :
    StepOK pol s .capBegin .unit { g with frames := { buf := [], outer := g.limit } :: g.frames } := by
  right
  refine ⟨{ s with frames := { buf := [], outer := s.limit } :: s.frames }, by simp [stepS], ?_, rfl⟩
  have hoff : ({ s with frames := { buf := [], outer := s.limit } :: s.frames } : S).off = s.off := by
    simp [S.off]
  constructor
  · show g.data = _; rw [R.data]; simp only [S.vd, hoff]
  · exact R.limit
  · show _ :: g.frames = _ :: s.frames; rw [R.frames, R.limit]
  · have := R.seen; simp only [S.vg, hoff] at this ⊢; exact this
  · rw [hoff]; exact R.off
  · exact R.granted

/-- closing the innermost capture: the captured octets are handed out; the source below is advanced
    over them (the base source only when the outermost capture ends) -/
theorem sim_capEnd (pol : Policy) (s : S) (g : G) (R : Rel s g) (r : Resp) (g' : G)
    (h : stepG g .capEnd = .ok (r, g')) : StepOK pol s .capEnd r g' := by
  right
  have ho := R.off; have hg := R.granted; have hs := R.seen
  simp only [stepG] at h
  rw [R.frames] at h
  cases hF : s.frames with
  | nil => rw [hF] at h; simp at h
  | cons f fs =>
    rw [hF] at h
    simp only at h
    have hof := S.off_cons s f fs hF
    cases hout : f.outer with
    | none =>
      rw [hout] at h
      simp only [Except.ok.injEq, Prod.mk.injEq] at h
      obtain ⟨hr, hg'⟩ := h
      subst hr; subst hg'
      cases fs with
      | nil =>
        refine ⟨{ s with data := s.data.drop f.buf.length, granted := s.granted - f.buf.length, limit := none, frames := [] }, ?_, ?_, rfl⟩
        · have : ¬ s.granted < f.buf.length := by simp at hof; omega
          simp [stepS, S.capEnd, hF, hout, this]
        · simp at hof
          constructor
          · rw [R.data]; unfold S.vd; rw [hof]; simp [S.off]
          · rfl
          · rfl
          · unfold S.vg at hs ⊢; rw [hof] at hs; simp [S.off]; exact hs
          · simp [S.off]
          · show s.granted - f.buf.length ≤ (s.data.drop f.buf.length).length
            rw [List.length_drop]; omega
      | cons f2 fs2 =>
        refine ⟨{ s with limit := none, frames := { f2 with buf := f2.buf ++ f.buf } :: fs2 }, ?_, ?_, rfl⟩
        · simp [stepS, S.capEnd, hF, hout]
        · have hoff : ({ s with limit := none, frames := { f2 with buf := f2.buf ++ f.buf } :: fs2 } : S).off = s.off := by
            rw [hof]; simp [S.off]; omega
          constructor
          · show g.data = _; rw [R.data]; simp only [S.vd, hoff]
          · rfl
          · rfl
          · show g.seen ≤ _; simp only [S.vg, hoff] at hs ⊢; exact hs
          · rw [hoff]; exact ho
          · exact hg
    | some l =>
      rw [hout] at h
      simp only at h
      split at h
      · simp at h
      · rename_i hl
        simp only [Except.ok.injEq, Prod.mk.injEq] at h
        obtain ⟨hr, hg'⟩ := h
        subst hr; subst hg'
        cases fs with
        | nil =>
          refine ⟨{ s with data := s.data.drop f.buf.length, granted := s.granted - f.buf.length,
                           limit := some (l - f.buf.length), frames := [] }, ?_, ?_, rfl⟩
          · have : ¬ s.granted < f.buf.length := by simp at hof; omega
            simp [stepS, S.capEnd, hF, hout, this, hl]
          · simp at hof
            constructor
            · rw [R.data]; unfold S.vd; rw [hof]; simp [S.off]
            · rfl
            · rfl
            · unfold S.vg at hs ⊢; rw [hof] at hs; simp [S.off]; exact hs
            · simp [S.off]
            · show s.granted - f.buf.length ≤ (s.data.drop f.buf.length).length
              rw [List.length_drop]; omega
        | cons f2 fs2 =>
          refine ⟨{ s with limit := some (l - f.buf.length), frames := { f2 with buf := f2.buf ++ f.buf } :: fs2 }, ?_, ?_, rfl⟩
          · simp [stepS, S.capEnd, hF, hout, hl]
          · have hoff : ({ s with limit := some (l - f.buf.length), frames := { f2 with buf := f2.buf ++ f.buf } :: fs2 } : S).off = s.off := by
              rw [hof]; simp [S.off]; omega
            constructor
            · show g.data = _; rw [R.data]; simp only [S.vd, hoff]
            · rfl
            · rfl
            · show g.seen ≤ _; simp only [S.vg, hoff] at hs ⊢; exact hs
            · rw [hoff]; exact ho
            · exact hg

/-- every operation is simulated -/
theorem step_sim (pol : Policy) (hp : Conforming pol) (s : S) (g : G) (R : Rel s g) (o : Op)
    (r : Resp) (g' : G) (h : stepG g o = .ok (r, g')) :
    StepOK pol s o r g' := by
  cases o with
  | takeOptU8 => exact sim_takeOptU8 pol hp s g R r g' h
  | peekAt i =>
    simp only [stepG, Except.ok.injEq, Prod.mk.injEq] at h
    obtain ⟨hr, hg⟩ := h; subst hr; subst hg
    exact sim_peekAt pol hp s g R i
  | peek2 =>
    simp only [stepG, Except.ok.injEq, Prod.mk.injEq] at h
    obtain ⟨hr, hg⟩ := h; subst hr; subst hg
    exact sim_peek2 pol hp s g R
  | need n =>
    simp only [stepG, Except.ok.injEq, Prod.mk.injEq] at h
    obtain ⟨hr, hg⟩ := h; subst hr; subst hg
    exact sim_need pol hp s g R n
  | takeN n => exact sim_takeN pol s g R n r g' h
  | skipN n => exact sim_skipN pol s g R n r g' h
  | sliceN n => exact sim_sliceN pol s g R n r g' h
  | getLimit =>
    simp only [stepG, Except.ok.injEq, Prod.mk.injEq] at h
    obtain ⟨hr, hg⟩ := h; subst hr; subst hg
    exact sim_getLimit pol s g R
  | setLimit l =>
    simp only [stepG, Except.ok.injEq, Prod.mk.injEq] at h
    obtain ⟨hr, hg⟩ := h; subst hr; subst hg
    exact sim_setLimit pol s g R l
  | reqCapped n =>
    simp only [stepG, Except.ok.injEq, Prod.mk.injEq] at h
    obtain ⟨hr, hg⟩ := h; subst hr; subst hg
    exact sim_reqCapped pol hp s g R n
  | capBegin =>
    simp only [stepG, Except.ok.injEq, Prod.mk.injEq] at h
    obtain ⟨hr, hg⟩ := h; subst hr; subst hg
    exact sim_capBegin pol s g R
  | capEnd => exact sim_capEnd pol s g R r g' h
  | getPos =>
    simp only [stepG, Except.ok.injEq, Prod.mk.injEq] at h
    obtain ⟨hr, hg⟩ := h; subst hr; subst hg
    right; exact ⟨s, by simp [stepS, R.data, S.vd_length], R, rfl⟩


theorem advance_err_panic (g : G) (n : Nat) (e : Err) (h : g.advance n = .error e) : e.isPanic = true := by
  unfold G.advance at h
  by_cases h1 : g.seen < n
  · simp [h1] at h; subst h; rfl
  · by_cases h2 : g.data.length < n
    · simp [h1, h2] at h; subst h; rfl
    · simp only [h1, h2, if_false] at h
      cases hl : g.limit with
      | none => simp [hl] at h
      | some l =>
        simp only [hl] at h
        by_cases h3 : l < n
        · simp [h3] at h; subst h; rfl
        · simp [h3] at h

/-- the generous layer itself only ever fails with a panic (contract breach, index, assertion) -/
theorem stepG_err_panic (g : G) (o : Op) (e : Err) (h : stepG g o = .error e) : e.isPanic = true := by
  cases o with
  | takeOptU8 =>
    simp only [stepG] at h
    split at h
    · cases h
    · split at h
      · cases h
      · rename_i e' ha; cases h; exact advance_err_panic _ _ _ ha
  | peekAt i => simp [stepG] at h
  | peek2 => simp [stepG] at h
  | need n => simp [stepG] at h
  | takeN n =>
    simp only [stepG] at h
    split at h
    · cases h; rfl
    · split at h
      · cases h; rfl
      · split at h
        · cases h
        · rename_i e' ha; cases h; exact advance_err_panic _ _ _ ha
  | skipN n =>
    simp only [stepG] at h
    split at h
    · cases h; rfl
    · split at h
      · cases h
      · rename_i e' ha; cases h; exact advance_err_panic _ _ _ ha
  | sliceN n =>
    simp only [stepG] at h
    split at h
    · cases h; rfl
    · split at h
      · cases h; rfl
      · cases h
  | getLimit => simp [stepG] at h
  | setLimit l => simp [stepG] at h
  | reqCapped n => simp [stepG] at h
  | capBegin => simp [stepG] at h
  | capEnd =>
    simp only [stepG] at h
    split at h
    · cases h; rfl
    · split at h
      · split at h
        · cases h; rfl
        · cases h
      · cases h
  | getPos => simp [stepG] at h

/-- **Simulation**: ANY program (captures included) that the generous layer runs without a panic is run by
    the stream layer, over ANY conforming grant policy and with ANY request failing, to the same
    value and the same remaining input - or, only if a fault is armed, to the injected source error. -/
theorem run_sim (pol : Policy) (hp : Conforming pol) (p : Prog α) :
    ∀ (s : S) (g : G), Rel s g →
      (∀ a g', runG p g = .ok (a, g') →
        (s.failAt ≠ none ∧ runS pol p s = .error .source) ∨
        ∃ s', runS pol p s = .ok (a, s') ∧ Rel s' g' ∧ s'.failAt = s.failAt) ∧
      (∀ e, runG p g = .error e → e.isPanic = false →
        (s.failAt ≠ none ∧ runS pol p s = .error .source) ∨ runS pol p s = .error e) := by
  induction p with
  | ret a =>
    intro s g R
    exact ⟨fun a' g' h => by simp [runG] at h; obtain ⟨h1, h2⟩ := h; subst h1; subst h2
                             exact Or.inr ⟨s, rfl, R, rfl⟩,
           fun e h => by simp [runG] at h⟩
  | fail e0 =>
    intro s g R
    exact ⟨fun a g' h => by simp [runG] at h,
           fun e h _ => by simp [runG] at h; subst h; exact Or.inr rfl⟩
  | op o k ih =>
    intro s g R
    cases hs : stepG g o with
    | error e0 =>
      constructor
      · intro a g' h; simp [runG, hs] at h
      · intro e h hp'
        simp [runG, hs] at h; subst h
        rw [stepG_err_panic g o e0 hs] at hp'; cases hp'
    | ok rg =>
      obtain ⟨r, g1⟩ := rg
      rcases step_sim pol hp s g R o r g1 hs with ⟨hfa, hsrc⟩ | ⟨s1, hs1, R1, hf1⟩
      · have hne : s.failAt ≠ none := by rw [hfa]; simp
        constructor
        · intro a g' _; left; exact ⟨hne, by simp [runS, hsrc]⟩
        · intro e _ _; left; exact ⟨hne, by simp [runS, hsrc]⟩
      · have := ih r s1 g1 R1
        constructor
        · intro a g' h
          simp only [runG, hs] at h
          rcases this.1 a g' h with ⟨hne, hsrc⟩ | ⟨s', hs', R', hf'⟩
          · left; exact ⟨by rw [← hf1]; exact hne, by simp [runS, hs1, hsrc]⟩
          · right; exact ⟨s', by simp [runS, hs1, hs'], R', by rw [hf', hf1]⟩
        · intro e h hp'
          simp only [runG, hs] at h
          rcases this.2 e h hp' with ⟨hne, hsrc⟩ | he
          · left; exact ⟨by rw [← hf1]; exact hne, by simp [runS, hs1, hsrc]⟩
          · right; simp [runS, hs1, he]

end Bcder
