/-
  Panic-freedom of content-level code, once and for all.

  Library code that works on the content of a value touches the source only
    * through accesses that cannot fail (`take_u8`/`take_opt_u8`, the peeks of `Tag::take_from_if`
      and `Integer::check_head`, `request` comparisons, `limit()`, `pos()`), and
    * through the four helpers of `LimitedSource` (`take_all`, `skip_all`, `slice_all`,
      `with_slice_all`), each of which extracts / advances only after its own `request(limit) >= limit`.
  `LeafSafe p` says that `p` is built that way and that its explicit failure leaves are not panics
  (the `limit().unwrap()` of `Primitive::remaining` is taken only on a limited source).
  `leafSafe_run`: on EVERY limited source - whatever the limit, however much data is really there,
  inside or outside a capture - such a program ends in a value or a non-panic error, leaves the
  source limited and opens or closes no capture.
-/
import Bcder.Lemmas.G0
import Bcder.Lemmas.NoCap
namespace Bcder
open Prog

theorem Prog.bind_assoc' {α β γ : Type} (p : Prog α) (f : α → Prog β) (g : β → Prog γ) :
    (p.bind f).bind g = p.bind (fun a => (f a).bind g) := by
  induction p with
  | ret a => rfl
  | fail e => rfl
  | op o k ih => simp only [Prog.bind]; congr 1; funext r; exact ih r

theorem Prog.bind_pure' {α : Type} (p : Prog α) : p.bind Prog.ret = p := by
  induction p with
  | ret a => rfl
  | fail e => rfl
  | op o k ih => simp only [Prog.bind]; congr 1; funext r; exact ih r

theorem Prog.bind_pure {α : Type} (p : Prog α) : p >>= pure = p := Prog.bind_pure' p

theorem Prog.bind_assoc {α β γ : Type} (p : Prog α) (f : α → Prog β) (g : β → Prog γ) :
    (p >>= f) >>= g = p >>= (fun a => f a >>= g) := Prog.bind_assoc' p f g

/-! ### what the source operations leave behind -/

/-- the state keeps being a limited source, and no capture appears out of nothing -/
def G0.Keeps (g g' : G0) : Prop :=
  (∃ l', g'.limit = some l') ∧ (g.frames = [] → g'.frames = []) ∧
  -- it has only moved forward, and the limit accounts for exactly that
  ∃ k, k ≤ g.data.length ∧ g'.data = g.data.drop k ∧ ∀ l, g.limit = some l → k ≤ l ∧ g'.limit = some (l - k)

theorem G0.Keeps.refl (g : G0) (l : Nat) (h : g.limit = some l) : G0.Keeps g g :=
  ⟨⟨l, h⟩, id, 0, Nat.zero_le _, by simp, fun l' hl' => ⟨Nat.zero_le _, by simpa using hl'⟩⟩
theorem G0.Keeps.trans {g g1 g2 : G0} (h1 : G0.Keeps g g1) (h2 : G0.Keeps g1 g2) : G0.Keeps g g2 := by
  obtain ⟨_, f1, k1, hk1, hd1, ha1⟩ := h1
  obtain ⟨l2, f2, k2, hk2, hd2, ha2⟩ := h2
  refine ⟨l2, fun hf => f2 (f1 hf), k1 + k2, ?_, ?_, ?_⟩
  · rw [hd1, List.length_drop] at hk2; omega
  · rw [hd2, hd1, List.drop_drop]
  · intro l hl
    obtain ⟨hle1, hl1⟩ := ha1 l hl
    obtain ⟨hle2, hl2⟩ := ha2 (l - k1) hl1
    refine ⟨by omega, ?_⟩
    rw [hl2]; congr 1; omega

theorem G0.advance_keeps (g g' : G0) (n l : Nat) (hl : g.limit = some l) (h : g.advance n = .ok g') :
    G0.Keeps g g' := by
  unfold G0.advance at h
  split at h
  · cases h
  · rw [hl] at h
    simp only at h
    split at h
    · cases h
    · rename_i h1 h2
      simp only [Except.ok.injEq] at h
      subst h
      refine ⟨⟨l - n, rfl⟩, fun hf => by simp [hf], n, by omega, rfl, fun l' hl' => ?_⟩
      rw [hl] at hl'; cases hl'
      exact ⟨by omega, rfl⟩

theorem G0.advance_ok_of_view (g : G0) (n : Nat) (hn : n ≤ g.view.length) : ∃ g', g.advance n = .ok g' := by
  have hv := G0.view_length_le g
  unfold G0.advance
  have h1 : ¬ g.data.length < n := by omega
  simp only [h1, if_false]
  cases hl : g.limit with
  | none => exact ⟨_, rfl⟩
  | some l =>
    have : g.view.length ≤ l := by simp [G0.view, hl, List.length_take]; omega
    have h2 : ¬ l < n := by omega
    simp only [h2, if_false]
    exact ⟨_, rfl⟩

theorem run0_getLimit (g : G0) : runG0 getLimit g = .ok (g.limit, g) := by simp [getLimit, runG0, stepG0]
theorem run0_need (g : G0) (n : Nat) : runG0 (Prog.need n) g = .ok (decide (n ≤ g.view.length), g) := by
  simp [Prog.need, runG0, stepG0]
theorem run0_remaining (g : G0) (l : Nat) (hl : g.limit = some l) : runG0 Prim.remaining g = .ok (l, g) := by
  simp [Prim.remaining, runG0_bind, run0_getLimit, hl]

/-- outcome of a `LimitedSource` helper on a limited source: a content error, or a value with the
    source still limited -/
def HelperOK {α : Type} (r : Res (α × G0)) (g : G0) : Prop :=
  r = .error .content ∨ ∃ a g', r = .ok (a, g') ∧ G0.Keeps g g'

theorem takeAll_ok (g : G0) (l : Nat) (hl : g.limit = some l) : HelperOK (runG0 Prim.takeAll g) g := by
  unfold Prim.takeAll
  simp only [runG0_bind, run0_remaining g l hl, run0_need]
  by_cases hn : l ≤ g.view.length
  · obtain ⟨g', hg'⟩ := G0.advance_ok_of_view g l hn
    right
    refine ⟨g.data.take l, g', ?_, G0.advance_keeps g g' l l hl hg'⟩
    have : ¬ g.view.length < l := by omega
    simp [hn, takeN, runG0, stepG0, this, hg']
  · left; simp [hn, contentErr]

theorem skipAll_ok (g : G0) (l : Nat) (hl : g.limit = some l) : HelperOK (runG0 Prim.skipAll g) g := by
  unfold Prim.skipAll
  simp only [runG0_bind, run0_remaining g l hl, run0_need]
  by_cases hn : l ≤ g.view.length
  · obtain ⟨g', hg'⟩ := G0.advance_ok_of_view g l hn
    right
    refine ⟨(), g', ?_, G0.advance_keeps g g' l l hl hg'⟩
    have : ¬ g.view.length < l := by omega
    simp [hn, skipN, runG0, stepG0, this, hg']
  · left; simp [hn, contentErr]

theorem sliceAll_ok (g : G0) (l : Nat) (hl : g.limit = some l) : HelperOK (runG0 Prim.sliceAll g) g := by
  unfold Prim.sliceAll
  simp only [runG0_bind, run0_remaining g l hl, run0_need]
  by_cases hn : l ≤ g.view.length
  · right
    refine ⟨g.data.take l, g, ?_, G0.Keeps.refl g l hl⟩
    have : ¬ g.view.length < l := by omega
    simp [hn, sliceN, runG0, stepG0, this]
  · left; simp [hn, contentErr]

theorem withSliceAll_ok {β : Type} (t : Bytes → Option β) (g : G0) (l : Nat) (hl : g.limit = some l) :
    HelperOK (runG0 (Prim.withSliceAll t) g) g := by
  unfold Prim.withSliceAll
  simp only [runG0_bind, run0_remaining g l hl, run0_need]
  by_cases hn : l ≤ g.view.length
  · have hlt : ¬ g.view.length < l := by omega
    have hs : runG0 (sliceN l) g = .ok (g.data.take l, g) := by simp [sliceN, runG0, stepG0, hlt]
    simp only [hn, decide_true, if_true, runG0_bind, hs]
    cases ht : t (g.data.take l) with
    | none => left; simp [contentErr]
    | some b =>
      obtain ⟨g', hg'⟩ := G0.advance_ok_of_view g l hn
      right
      refine ⟨b, g', ?_, G0.advance_keeps g g' l l hl hg'⟩
      simp [runG0_bind, skipN, runG0, stepG0, hlt, hg']
  · left; simp [hn, contentErr]


theorem liftSlice_ok {β : Type} (t : Bytes → Res (Option β)) (g : G0) (l : Nat) (hl : g.limit = some l)
    (ht : ∀ e, l ≤ g.view.length → t (g.data.take l) = .error e → e.isPanic = false) :
    (∃ e, runG0 (Bcder.liftSlice t) g = .error e ∧ e.isPanic = false) ∨
      ∃ a g', runG0 (Bcder.liftSlice t) g = .ok (a, g') ∧ G0.Keeps g g' := by
  unfold Bcder.liftSlice
  simp only [runG0_bind, run0_remaining g l hl, run0_need]
  by_cases hn : l ≤ g.view.length
  · have hlt : ¬ g.view.length < l := by omega
    have hs : runG0 (sliceN l) g = .ok (g.data.take l, g) := by simp [sliceN, runG0, stepG0, hlt]
    simp only [hn, decide_true, if_true, runG0_bind, hs]
    cases hts : t (g.data.take l) with
    | error e => left; exact ⟨e, by simp [runG0], ht _ hn hts⟩
    | ok o =>
      cases o with
      | none => left; exact ⟨.content, by simp [contentErr], rfl⟩
      | some b =>
        obtain ⟨g', hg'⟩ := G0.advance_ok_of_view g l hn
        right
        refine ⟨b, g', ?_, G0.advance_keeps g g' l l hl hg'⟩
        simp [runG0_bind, skipN, runG0, stepG0, hlt, hg']
  · left; exact ⟨.content, by simp [hn, contentErr], rfl⟩

/-- outcome of a content-level routine on a limited source -/
def LeafOK {α : Type} (r : Res (α × G0)) (g : G0) : Prop :=
  (∃ e, r = .error e ∧ e.isPanic = false) ∨ ∃ a g', r = .ok (a, g') ∧ G0.Keeps g g'

theorem LeafOK.of_keeps {α : Type} {r : Res (α × G0)} {g g1 : G0} (hk : G0.Keeps g g1) (h : LeafOK r g1) : LeafOK r g := by
  rcases h with h | ⟨a, g', h, hk'⟩
  · exact .inl h
  · exact .inr ⟨a, g', h, hk.trans hk'⟩

/-- content-level programs: accesses that cannot fail, explicit failures that are not panics, and
    pieces whose outcome on every limited source has been established separately (`sem`: the four
    helpers of `LimitedSource`, `slice_to_builtin!` behind `check_head`, …) -/
inductive LeafSafe : {α : Type} → Prog α → Prop
  | ret {α : Type} (a : α) : LeafSafe (.ret a)
  | fail {α : Type} (e : Err) (h : e.isPanic = false) : LeafSafe (.fail e : Prog α)
  | takeOptU8 {α : Type} (k : Resp → Prog α) (h : ∀ b, LeafSafe (k (.byte b))) : LeafSafe (.op .takeOptU8 k)
  | peekAt {α : Type} (i : Nat) (k : Resp → Prog α) (h : ∀ b, LeafSafe (k (.byte b))) : LeafSafe (.op (.peekAt i) k)
  | peek2 {α : Type} (k : Resp → Prog α) (h : ∀ n a b, (a = none → n = 0) → LeafSafe (k (.peek n a b))) : LeafSafe (.op .peek2 k)
  | need {α : Type} (n : Nat) (k : Resp → Prog α) (h : ∀ b, LeafSafe (k (.bool b))) : LeafSafe (.op (.need n) k)
  | reqCapped {α : Type} (n : Nat) (k : Resp → Prog α) (h : ∀ m, LeafSafe (k (.nat m))) : LeafSafe (.op (.reqCapped n) k)
  | getPos {α : Type} (k : Resp → Prog α) (h : ∀ m, LeafSafe (k (.nat m))) : LeafSafe (.op .getPos k)
  | getLimit {α : Type} (k : Resp → Prog α) (h : ∀ l, LeafSafe (k (.lim (some l)))) : LeafSafe (.op .getLimit k)
  | sem {α β : Type} (p : Prog β) (hp : ∀ (g : G0) (l : Nat), g.limit = some l → LeafOK (runG0 p g) g)
      (f : β → Prog α) (h : ∀ b, LeafSafe (f b)) : LeafSafe (p >>= f)

theorem LeafSafe.bind {α β : Type} {p : Prog α} {f : α → Prog β} (hp : LeafSafe p) (hf : ∀ a, LeafSafe (f a)) :
    LeafSafe (p >>= f) := by
  induction hp with
  | ret a => exact hf a
  | fail e h => exact LeafSafe.fail e h
  | takeOptU8 k _ ih => exact LeafSafe.takeOptU8 _ (fun b => ih b)
  | peekAt i k _ ih => exact LeafSafe.peekAt i _ (fun b => ih b)
  | peek2 k _ ih => exact LeafSafe.peek2 _ (fun n a b hn => ih n a b hn)
  | need n k _ ih => exact LeafSafe.need n _ (fun b => ih b)
  | reqCapped n k _ ih => exact LeafSafe.reqCapped n _ (fun m => ih m)
  | getPos k _ ih => exact LeafSafe.getPos _ (fun m => ih m)
  | getLimit k _ ih => exact LeafSafe.getLimit _ (fun l => ih l)
  | sem p hp g _ ih => rw [Prog.bind_assoc]; exact LeafSafe.sem p hp _ (fun b => ih b)

theorem helper_bind {α β : Type} (p : Prog α) (f : α → Prog β) (g : G0) (hp : HelperOK (runG0 p g) g)
    (hf : ∀ a g', G0.Keeps g g' → LeafOK (runG0 (f a) g') g') : LeafOK (runG0 (p >>= f) g) g := by
  rw [runG0_bind]
  rcases hp with hp | ⟨a, g', hp, hk⟩
  · rw [hp]; exact .inl ⟨_, rfl, rfl⟩
  · rw [hp]; exact LeafOK.of_keeps hk (hf a g' hk)

/-- **content-level code never panics on a limited source** -/
theorem leafSafe_run {α : Type} {p : Prog α} (h : LeafSafe p) :
    ∀ (g : G0) (l : Nat), g.limit = some l → LeafOK (runG0 p g) g := by
  induction h with
  | ret a => intro g l hl; exact .inr ⟨a, g, rfl, G0.Keeps.refl g l hl⟩
  | fail e he => intro g l hl; exact .inl ⟨e, rfl, he⟩
  | takeOptU8 k _ ih =>
    intro g l hl
    simp only [runG0, stepG0]
    cases hv : g.view with
    | nil => simp only; exact ih none g l hl
    | cons b t =>
      obtain ⟨g1, hg1⟩ := G0.advance_ok_of_view g 1 (by simp [hv])
      have hk := G0.advance_keeps g g1 1 l hl hg1
      simp only [hg1]
      obtain ⟨l1, hl1⟩ := hk.1
      exact LeafOK.of_keeps hk (ih (some b) g1 l1 hl1)
  | peekAt i k _ ih => intro g l hl; simp only [runG0, stepG0]; exact ih _ g l hl
  | peek2 k _ ih =>
    intro g l hl; simp only [runG0, stepG0]
    refine ih _ _ _ ?_ g l hl
    intro h0
    cases hv : g.view with
    | nil => simp
    | cons b t => rw [hv] at h0; simp at h0
  | need n k _ ih => intro g l hl; simp only [runG0, stepG0]; exact ih _ g l hl
  | reqCapped n k _ ih => intro g l hl; simp only [runG0, stepG0]; exact ih _ g l hl
  | getPos k _ ih => intro g l hl; simp only [runG0, stepG0]; exact ih _ g l hl
  | getLimit k _ ih => intro g l hl; simp only [runG0, stepG0, hl]; exact ih l g l hl
  | sem p hp f _ ih =>
    intro g l hl
    rw [runG0_bind]
    rcases hp g l hl with ⟨e, he, hpn⟩ | ⟨a, g', hr, hk⟩
    · rw [he]; exact .inl ⟨e, rfl, hpn⟩
    · rw [hr]; obtain ⟨l', hl'⟩ := hk.1; exact LeafOK.of_keeps hk (ih a g' l' hl')

end Bcder

namespace Bcder
open Prog

/-! ### the routines of the library model that work on a value's content are `LeafSafe` -/

theorem ls_pure {α : Type} (a : α) : LeafSafe (pure a : Prog α) := LeafSafe.ret a
theorem ls_contentErr {α : Type} : LeafSafe (Prog.contentErr : Prog α) := LeafSafe.fail _ rfl
theorem ls_fuel {α : Type} : LeafSafe (Prog.fail .fuel : Prog α) := LeafSafe.fail _ rfl
theorem ls_takeOptU8 : LeafSafe takeOptU8 := LeafSafe.takeOptU8 _ (fun b => LeafSafe.ret b)
theorem ls_peekAt (i : Nat) : LeafSafe (peekAt i) := LeafSafe.peekAt i _ (fun b => LeafSafe.ret b)
theorem ls_peek2 : LeafSafe peek2 := LeafSafe.peek2 _ (fun n a b _ => LeafSafe.ret (n, a, b))
theorem ls_need (n : Nat) : LeafSafe (Prog.need n) := LeafSafe.need n _ (fun b => LeafSafe.ret b)
theorem ls_reqCapped (n : Nat) : LeafSafe (reqCapped n) := LeafSafe.reqCapped n _ (fun m => LeafSafe.ret m)
theorem ls_getPos : LeafSafe getPos := LeafSafe.getPos _ (fun m => LeafSafe.ret m)
theorem ls_remaining : LeafSafe Prim.remaining := LeafSafe.getLimit _ (fun l => LeafSafe.ret l)
theorem LeafOK.of_helper {α : Type} {r : Res (α × G0)} {g : G0} (h : HelperOK r g) : LeafOK r g := by
  rcases h with h | h
  · exact .inl ⟨_, h, rfl⟩
  · exact .inr h

/-- a piece with an established outcome is `LeafSafe` -/
theorem ls_sem {β : Type} (p : Prog β) (hp : ∀ (g : G0) (l : Nat), g.limit = some l → LeafOK (runG0 p g) g) : LeafSafe p := by
  have := LeafSafe.sem p hp (fun b => (pure b : Prog β)) (fun b => LeafSafe.ret b)
  rwa [Prog.bind_pure] at this
theorem ls_takeAll : LeafSafe Prim.takeAll := ls_sem _ (fun g l hl => LeafOK.of_helper (takeAll_ok g l hl))
theorem ls_skipAll : LeafSafe Prim.skipAll := ls_sem _ (fun g l hl => LeafOK.of_helper (skipAll_ok g l hl))
theorem ls_sliceAll : LeafSafe Prim.sliceAll := ls_sem _ (fun g l hl => LeafOK.of_helper (sliceAll_ok g l hl))
theorem ls_withSliceAll {β : Type} (t : Bytes → Option β) : LeafSafe (Prim.withSliceAll t) :=
  ls_sem _ (fun g l hl => LeafOK.of_helper (withSliceAll_ok t g l hl))

/-- closes `LeafSafe` goals about `do` blocks built from the operations above -/
macro "leafsafe" : tactic => `(tactic|
  repeat' (first
    | exact LeafSafe.ret _ | exact ls_pure _ | exact ls_contentErr | exact ls_fuel | exact LeafSafe.fail _ rfl
    | exact ls_takeOptU8 | exact ls_peekAt _ | exact ls_peek2 | exact ls_need _ | exact ls_reqCapped _ | exact ls_getPos
    | exact ls_remaining | exact ls_takeAll | exact ls_skipAll | exact ls_sliceAll | exact ls_withSliceAll _
    | assumption
    | apply LeafSafe.bind
    | intro _
    | (dsimp only)
    | split))

theorem ls_takeU8 : LeafSafe takeU8 := by unfold takeU8; leafsafe
theorem ls_limitedExhausted : LeafSafe limitedExhausted := by
  -- `limit()` is `Some(_)` on a limited source; the `None` arm is never taken
  unfold limitedExhausted
  refine LeafSafe.getLimit _ (fun l => ?_)
  show LeafSafe (match (some l : Option Nat) with
    | some 0 => pure ()
    | some _ => Prog.contentErr
    | none => do if ← Prog.need 1 then Prog.contentErr else pure ())
  cases l <;> leafsafe

theorem ls_checkHeadSigned : LeafSafe checkHeadSigned := by unfold checkHeadSigned; leafsafe
theorem ls_checkHeadUnsigned : LeafSafe checkHeadUnsigned := by
  -- `slice().first().unwrap()` comes after `request(2)? == 0` has been excluded
  unfold checkHeadUnsigned
  refine LeafSafe.peek2 _ (fun n a b hn => ?_)
  show LeafSafe (if n == 0 then Prog.contentErr else
    match a, b.map (fun x => (x &&& 0x80) != 0) with
    | some 0, some false => Prog.contentErr
    | some 0xFF, some true => Prog.contentErr
    | _, _ =>
      match a with
      | none => Prog.panic "check_head: first().unwrap()"
      | some f => if (f &&& 0x80) != 0 then Prog.contentErr else pure ())
  by_cases h0 : (n == 0) = true
  · simp only [h0, if_true]; exact ls_contentErr
  · simp only [h0, Bool.false_eq_true, if_false]
    cases a with
    | none => exact absurd (by simp [hn rfl]) h0
    | some f => leafsafe
theorem ls_toBool (m : Mode) : LeafSafe (toBool m) := by unfold toBool; have := ls_takeU8; leafsafe
theorem ls_toNull : LeafSafe toNull := by unfold toNull; have := ls_remaining; leafsafe
theorem ls_integerFromPrimitive : LeafSafe integerFromPrimitive := by
  unfold integerFromPrimitive; have := ls_takeAll; leafsafe
theorem ls_unsignedFromPrimitive : LeafSafe unsignedFromPrimitive := by
  unfold unsignedFromPrimitive; have := ls_checkHeadUnsigned; have := ls_integerFromPrimitive; leafsafe
theorem ls_oid_fromPrimitive : LeafSafe Oid.fromPrimitive := by
  unfold Oid.fromPrimitive; have := ls_takeAll; leafsafe
theorem ls_oid_skipPrimitive : LeafSafe Oid.skipPrimitive := ls_withSliceAll _


/-! ### `slice_to_builtin!` behind `check_head`: the index into the slice is safe because `check_head`
    has seen an octet -/

theorem run0_peek2 (g : G0) : runG0 peek2 g = .ok ((min 2 g.view.length, g.view[0]?, g.view[1]?), g) := by
  simp [peek2, runG0, stepG0]

theorem checkHeadSigned_run (g : G0) :
    runG0 checkHeadSigned g = .error .content ∨ (runG0 checkHeadSigned g = .ok ((), g) ∧ g.view ≠ []) := by
  unfold checkHeadSigned
  simp only [runG0_bind, run0_peek2]
  cases hv : g.view with
  | nil => left; simp [contentErr]
  | cons b t =>
    have h0 : ¬ ((min 2 (b :: t).length == 0) = true) := by simp
    simp only [h0, Bool.false_eq_true, if_false]
    split
    · left; rfl
    · left; rfl
    · right; exact ⟨rfl, by simp⟩

theorem checkHeadUnsigned_run (g : G0) :
    runG0 checkHeadUnsigned g = .error .content ∨ (runG0 checkHeadUnsigned g = .ok ((), g) ∧ g.view ≠ []) := by
  unfold checkHeadUnsigned
  simp only [runG0_bind, run0_peek2]
  cases hv : g.view with
  | nil => left; simp [contentErr]
  | cons b t =>
    have h0 : ¬ ((min 2 (b :: t).length == 0) = true) := by simp
    simp only [h0, Bool.false_eq_true, if_false]
    split
    · left; rfl
    · left; rfl
    · simp only [List.getElem?_cons_zero]
      split
      · left; rfl
      · right; exact ⟨rfl, by simp⟩

theorem take_ne_nil (g : G0) (l : Nat) (hv : g.view ≠ []) (hl : g.limit = some l) (hn : l ≤ g.view.length) :
    g.data.take l ≠ [] := by
  have h1 : g.view = g.data.take l := by simp [G0.view, hl]
  rw [← h1]; exact hv

theorem decodeSigned_ok (w : Nat) (g : G0) (l : Nat) (hl : g.limit = some l) :
    LeafOK (runG0 (decodeSigned w) g) g := by
  unfold decodeSigned
  rw [runG0_bind]
  rcases checkHeadSigned_run g with h | ⟨h, hv⟩
  · rw [h]; exact .inl ⟨_, rfl, rfl⟩
  · rw [h]
    simp only
    refine liftSlice_ok _ g l hl (fun e hn he => ?_)
    have hne := take_ne_nil g l hv hl hn
    unfold sliceToSigned at he
    split at he
    · cases he
    · cases hs : g.data.take l with
      | nil => exact absurd hs hne
      | cons b t => rw [hs] at he; cases he

theorem decodeUnsigned_ok (w : Nat) (g : G0) (l : Nat) (hl : g.limit = some l) :
    LeafOK (runG0 (decodeUnsigned w) g) g := by
  unfold decodeUnsigned
  rw [runG0_bind]
  rcases checkHeadUnsigned_run g with h | ⟨h, hv⟩
  · rw [h]; exact .inl ⟨_, rfl, rfl⟩
  · rw [h]
    simp only
    refine liftSlice_ok _ g l hl (fun e hn he => ?_)
    have hne := take_ne_nil g l hv hl hn
    unfold sliceToUnsigned at he
    cases hs : g.data.take l with
    | nil => exact absurd hs hne
    | cons b t =>
      rw [hs] at he
      simp only at he
      repeat' (first | contradiction | (split at he))
      all_goals cases he

theorem ls_decodeSigned (w : Nat) : LeafSafe (decodeSigned w) := ls_sem _ (decodeSigned_ok w)
theorem ls_decodeUnsigned (w : Nat) : LeafSafe (decodeUnsigned w) := ls_sem _ (decodeUnsigned_ok w)

theorem ls_toInt (ty : IntTy) : LeafSafe (toInt ty) := by
  have := ls_checkHeadSigned; have := ls_checkHeadUnsigned; have := ls_takeU8; have := ls_remaining
  have := ls_decodeSigned 2; have := ls_decodeSigned 4; have := ls_decodeSigned 8; have := ls_decodeSigned 16
  have := ls_decodeUnsigned 4; have := ls_decodeUnsigned 8; have := ls_decodeUnsigned 16
  cases ty <;> simp only [toInt, i8FromPrimitive, u8FromPrimitive, u16FromPrimitive] <;> leafsafe

theorem ls_bits_fromContent (c : Content) : LeafSafe (BitString.fromContent c) := by
  cases c with
  | cons c => exact ls_contentErr
  | prim m =>
    simp only [BitString.fromContent]
    have := ls_remaining; have := ls_takeU8; have := ls_takeAll
    leafsafe
theorem ls_bits_skipContent (c : Content) : LeafSafe (BitString.skipContent c) := by
  cases c with
  | cons c => exact ls_contentErr
  | prim m =>
    simp only [BitString.skipContent]
    have := ls_remaining; have := ls_takeU8; have := ls_skipAll
    leafsafe


/-! ### programs made of accesses that cannot fail: no panic on ANY source (limited or not) -/

inductive Harmless : {α : Type} → Prog α → Prop
  | ret {α : Type} (a : α) : Harmless (.ret a)
  | fail {α : Type} (e : Err) (h : e.isPanic = false) : Harmless (.fail e : Prog α)
  | takeOptU8 {α : Type} (k : Resp → Prog α) (h : ∀ b, Harmless (k (.byte b))) : Harmless (.op .takeOptU8 k)
  | peekAt {α : Type} (i : Nat) (k : Resp → Prog α) (h : ∀ b, Harmless (k (.byte b))) : Harmless (.op (.peekAt i) k)
  | need {α : Type} (n : Nat) (k : Resp → Prog α) (h : ∀ b, Harmless (k (.bool b))) : Harmless (.op (.need n) k)
  | getLimit {α : Type} (k : Resp → Prog α) (h : ∀ l, Harmless (k (.lim l))) : Harmless (.op .getLimit k)

theorem Harmless.bind {α β : Type} {p : Prog α} {f : α → Prog β} (hp : Harmless p) (hf : ∀ a, Harmless (f a)) :
    Harmless (p >>= f) := by
  induction hp with
  | ret a => exact hf a
  | fail e h => exact Harmless.fail e h
  | takeOptU8 k _ ih => exact Harmless.takeOptU8 _ (fun b => ih b)
  | peekAt i k _ ih => exact Harmless.peekAt i _ (fun b => ih b)
  | need n k _ ih => exact Harmless.need n _ (fun b => ih b)
  | getLimit k _ ih => exact Harmless.getLimit _ (fun l => ih l)

/-- the source has only moved forward: `k` octets consumed, the limit (if any) reduced by exactly `k`,
    no capture opened -/
def G0.Moved (g g' : G0) : Prop :=
  (g.frames = [] → g'.frames = []) ∧
  ∃ k, k ≤ g.data.length ∧ g'.data = g.data.drop k ∧
    (∀ l, g.limit = some l → k ≤ l ∧ g'.limit = some (l - k)) ∧ (g.limit = none → g'.limit = none)

theorem G0.Moved.refl (g : G0) : G0.Moved g g :=
  ⟨id, 0, Nat.zero_le _, by simp, fun l hl => ⟨Nat.zero_le _, by simpa using hl⟩, id⟩

theorem G0.Moved.trans {g g1 g2 : G0} (h1 : G0.Moved g g1) (h2 : G0.Moved g1 g2) : G0.Moved g g2 := by
  obtain ⟨f1, k1, hk1, hd1, ha1, hn1⟩ := h1
  obtain ⟨f2, k2, hk2, hd2, ha2, hn2⟩ := h2
  refine ⟨fun hf => f2 (f1 hf), k1 + k2, ?_, ?_, ?_, fun h => hn2 (hn1 h)⟩
  · rw [hd1, List.length_drop] at hk2; omega
  · rw [hd2, hd1, List.drop_drop]
  · intro l hl
    obtain ⟨hle1, hl1⟩ := ha1 l hl
    obtain ⟨hle2, hl2⟩ := ha2 (l - k1) hl1
    refine ⟨by omega, ?_⟩
    rw [hl2]; congr 1; omega

theorem G0.advance_moved (g g' : G0) (n : Nat) (h : g.advance n = .ok g') : G0.Moved g g' := by
  unfold G0.advance at h
  split at h
  · cases h
  · rename_i h1
    cases hl : g.limit with
    | none =>
      rw [hl] at h; simp only [Except.ok.injEq] at h; subst h
      refine ⟨fun hf => by simp [hf], n, by omega, rfl, ?_, fun _ => rfl⟩
      intro l hl'; rw [hl] at hl'; cases hl'
    | some l =>
      rw [hl] at h; simp only at h
      split at h
      · cases h
      · rename_i h2
        simp only [Except.ok.injEq] at h; subst h
        refine ⟨fun hf => by simp [hf], n, by omega, rfl, ?_, ?_⟩
        · intro l' hl'
          rw [hl] at hl'
          simp only [Option.some.injEq] at hl'
          subst hl'
          exact ⟨by omega, rfl⟩
        · intro h; rw [hl] at h; cases h

theorem G0.Moved.of_keeps {g g' : G0} (l : Nat) (hl : g.limit = some l) (h : G0.Keeps g g') : G0.Moved g g' := by
  obtain ⟨_, f, k, hk, hd, ha⟩ := h
  exact ⟨f, k, hk, hd, ha, fun h => by rw [hl] at h; cases h⟩

/-- such a program ends in a value or a non-panic error on every source, having only moved forward -/
theorem harmless_run {α : Type} {p : Prog α} (h : Harmless p) : ∀ (g : G0),
    (∃ e, runG0 p g = .error e ∧ e.isPanic = false) ∨
    ∃ a g', runG0 p g = .ok (a, g') ∧ G0.Moved g g' := by
  induction h with
  | ret a => intro g; exact .inr ⟨a, g, rfl, G0.Moved.refl g⟩
  | fail e he => intro g; exact .inl ⟨e, rfl, he⟩
  | takeOptU8 k _ ih =>
    intro g
    simp only [runG0, stepG0]
    cases hv : g.view with
    | nil => simp only; exact ih none g
    | cons b t =>
      obtain ⟨g1, hg1⟩ := G0.advance_ok_of_view g 1 (by simp [hv])
      simp only [hg1]
      have hm := G0.advance_moved g g1 1 hg1
      rcases ih (some b) g1 with h | ⟨a, g', hr, hm2⟩
      · exact .inl h
      · exact .inr ⟨a, g', hr, hm.trans hm2⟩
  | peekAt i k _ ih => intro g; simp only [runG0, stepG0]; exact ih _ g
  | need n k _ ih => intro g; simp only [runG0, stepG0]; exact ih _ g
  | getLimit k _ ih => intro g; simp only [runG0, stepG0]; exact ih _ g

theorem hl_pure {α : Type} (a : α) : Harmless (pure a : Prog α) := Harmless.ret a
theorem hl_contentErr {α : Type} : Harmless (Prog.contentErr : Prog α) := Harmless.fail _ rfl
theorem hl_takeOptU8 : Harmless takeOptU8 := Harmless.takeOptU8 _ (fun b => Harmless.ret b)
theorem hl_peekAt (i : Nat) : Harmless (peekAt i) := Harmless.peekAt i _ (fun b => Harmless.ret b)
theorem hl_need (n : Nat) : Harmless (Prog.need n) := Harmless.need n _ (fun b => Harmless.ret b)
theorem hl_getLimit : Harmless getLimit := Harmless.getLimit _ (fun l => Harmless.ret l)

macro "harmless" : tactic => `(tactic|
  repeat' (first
    | exact Harmless.ret _ | exact hl_pure _ | exact hl_contentErr | exact Harmless.fail _ rfl
    | exact hl_takeOptU8 | exact hl_peekAt _ | exact hl_need _ | exact hl_getLimit
    | assumption
    | apply Harmless.bind
    | intro _
    | (dsimp only)
    | split))

theorem hl_takeU8 : Harmless takeU8 := by unfold takeU8; harmless
theorem hl_tag_takeOptFrom : Harmless Tag.takeOptFrom := by
  unfold Tag.takeOptFrom; have := hl_takeU8; harmless
theorem hl_tag_takeFrom : Harmless Tag.takeFrom := by
  unfold Tag.takeFrom; have := hl_tag_takeOptFrom; harmless
theorem hl_length_takeFrom (m : Mode) : Harmless (Length.takeFrom m) := by
  unfold Length.takeFrom; have := hl_takeU8; harmless
theorem hl_limitedExhausted : Harmless limitedExhausted := by unfold limitedExhausted; harmless
theorem hl_cons_exhausted (c : Cons) : Harmless c.exhausted := by
  unfold Cons.exhausted
  have := hl_limitedExhausted; have := hl_tag_takeFrom; have := hl_length_takeFrom c.mode
  harmless
theorem hl_content_exhausted (c : Content) : Harmless c.exhausted := by
  cases c with
  | prim m => exact hl_limitedExhausted
  | cons c => exact hl_cons_exhausted c

end Bcder
