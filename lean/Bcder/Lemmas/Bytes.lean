/- octet-level facts: masks as ranges, `ofNat`/`toNat`, shifts as arithmetic -/
import Bcder.Model.Basic
namespace Bcder

theorem UInt8.forall_bv {p : UInt8 → Prop} (h : ∀ v : BitVec 8, p ⟨v⟩) : ∀ b, p b := by
  intro b; cases b with | ofBitVec v => exact h v

theorem byte_and80_eq0 (b : UInt8) : ((b &&& 0x80) == 0) = decide (b.toNat < 128) := by
  revert b; apply UInt8.forall_bv; decide
theorem byte_and80_ne0 (b : UInt8) : ((b &&& 0x80) != 0) = decide (128 ≤ b.toNat) := by
  revert b; apply UInt8.forall_bv; decide
theorem byte_and80_eq80 (b : UInt8) : ((b &&& 0x80) == 0x80) = decide (128 ≤ b.toNat) := by
  revert b; apply UInt8.forall_bv; decide
theorem byte_and80_ne80 (b : UInt8) : ((b &&& 0x80) != 0x80) = decide (b.toNat < 128) := by
  revert b; apply UInt8.forall_bv; decide
theorem byte_and7f (b : UInt8) : (b &&& 0x7f).toNat = b.toNat % 128 := by
  revert b; apply UInt8.forall_bv; decide
theorem byte_and1f (b : UInt8) : (b &&& 0x1f).toNat = b.toNat % 32 := by
  revert b; apply UInt8.forall_bv; decide
theorem byte_andc0 (b : UInt8) : (b &&& 0xc0).toNat = b.toNat / 64 * 64 := by
  revert b; apply UInt8.forall_bv; decide
theorem byte_beq_iff (a b : UInt8) : (a == b) = decide (a.toNat = b.toNat) := by
  by_cases h : a = b
  · subst h; simp
  · have : a.toNat ≠ b.toNat := fun e => h (UInt8.toNat_inj.mp e)
    simp [h, this]
theorem byte_lt_256 (b : UInt8) : b.toNat < 256 := UInt8.toNat_lt b

theorem ofNat_toNat (b : UInt8) : UInt8.ofNat b.toNat = b := UInt8.ofNat_toNat
theorem toNat_ofNat (n : Nat) : (UInt8.ofNat n).toNat = n % 256 := by
  simp [UInt8.toNat_ofNat']
theorem ofNat_mod256 (n : Nat) : UInt8.ofNat (n % 256) = UInt8.ofNat n := by
  apply UInt8.toNat_inj.mp; simp [toNat_ofNat]
theorem ofNat_eq_iff (m n : Nat) : UInt8.ofNat m = UInt8.ofNat n ↔ m % 256 = n % 256 := by
  constructor
  · intro h; have := congrArg UInt8.toNat h; simpa [toNat_ofNat] using this
  · intro h; apply UInt8.toNat_inj.mp; simpa [toNat_ofNat] using h

theorem byte_of_toNat (b : UInt8) (n : Nat) (h : b.toNat = n) : b = UInt8.ofNat n := by
  rw [← h, ofNat_toNat]

theorem shl_or (a b k : Nat) (h : b < 2 ^ k) : (a <<< k) ||| b = a * 2 ^ k + b := by
  rw [Nat.shiftLeft_eq, Nat.mul_comm, ← Nat.two_pow_add_eq_or_of_lt h, Nat.mul_comm]

end Bcder
