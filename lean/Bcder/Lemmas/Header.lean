/-
  The header readers on an arbitrary (limited) source, in terms of the reference readers applied
  to the view: consequences of the all-input characterisations of C12 / C13 and the view lemma.
-/
import Bcder.Lemmas.G0
import Bcder.Lemmas.Stream
import Bcder.Props.C12
import Bcder.Props.C13
namespace Bcder
open Prog Bcder.Spec

theorem sim0_err (p : Prog α) : ∀ (g : G) (e : Err), runG p g = .error e → e.isPanic = false →
    runG0 p g.erase = .error e := by
  induction p with
  | ret a => intro g e h; simp [runG] at h
  | fail e0 => intro g e h _; simp [runG] at h; subst h; rfl
  | op o k ih =>
    intro g e h hp
    simp only [runG] at h
    cases hs : stepG g o with
    | error e0 =>
      simp [hs] at h; subst h
      rw [stepG_err_panic g o e0 hs] at hp; cases hp
    | ok rg =>
      obtain ⟨r, g1⟩ := rg
      simp only [hs] at h
      simp only [runG0, step_sim0 g o r g1 hs]
      exact ih r g1 e h hp

theorem access_tag_takeOptFrom : Uses Op.isAccess Tag.takeOptFrom := by
  unfold Tag.takeOptFrom; have := access_takeU8; uses
theorem access_tag_takeFrom : Uses Op.isAccess Tag.takeFrom := by
  unfold Tag.takeFrom; have := access_tag_takeOptFrom; uses
theorem access_tag_takeFromIf (t : Tag) : Uses Op.isAccess t.takeFromIf := by
  unfold Tag.takeFromIf; uses
theorem access_length_takeFrom (m : Mode) : Uses Op.isAccess (Length.takeFrom m) := by
  unfold Length.takeFrom; have := access_takeU8; uses

theorem erase_plain (bs : Bytes) : (G.plain bs).erase = G0.P bs := rfl
theorem erase_plainSeen (bs : Bytes) (s : Nat) : (Props.C12.plainSeen bs s).erase = G0.P bs := rfl

theorem readLen_bound (ber : Bool) (v : Bytes) (x : Option Nat) (k : Nat)
    (hr : readLen ber v = some (x, k)) : 1 ≤ k ∧ k ≤ v.length := by
  cases v with
  | nil => simp [readLen] at hr
  | cons b rest =>
    simp only [readLen] at hr
    by_cases h1 : b.toNat < 128
    · simp [h1] at hr; obtain ⟨_, rfl⟩ := hr; simp
    · by_cases h2 : b.toNat = 128
      · simp [h2] at hr; obtain ⟨_, rfl⟩ := hr; simp
      · simp only [h1, h2, if_false] at hr
        by_cases h3 : b.toNat - 128 > 4
        · simp [h3] at hr
        · by_cases h4 : rest.length < b.toNat - 128
          · simp [h3, h4] at hr
          · simp only [h3, h4, if_false] at hr
            split at hr
            · simp at hr; obtain ⟨_, rfl⟩ := hr; simp; omega
            · split at hr
              · simp at hr; obtain ⟨_, rfl⟩ := hr; simp; omega
              · simp at hr

/-- `Tag::take_from` on any source -/
theorem tag_takeFrom0 (g : G0) (hf : g.frames = []) :
    runG0 Tag.takeFrom g = match readIdent g.view with
      | none => .error .content
      | some (id, k) => .ok ((Props.C12.tagOf id.cls id.num, id.constructed), g.adv k) := by
  rw [run_view0 _ access_tag_takeFrom g hf]
  have h := Props.C12.takeFrom_eq_spec g.view
  cases hr : readIdent g.view with
  | none =>
    rw [hr] at h
    simp only [Props.C12.specResult] at h
    have := sim0_err _ _ _ h rfl
    rw [erase_plain] at this
    rw [this]; rfl
  | some r =>
    obtain ⟨id, k⟩ := r
    rw [hr] at h
    simp only [Props.C12.specResult] at h
    have := sim0_ok _ _ _ _ h
    rw [erase_plain, erase_plain] at this
    obtain ⟨_, _, h1, hk, _⟩ := Props.C12.readIdent_bounds g.view id k hr
    rw [this]
    simp only [liftView]
    have e : g.view.length - (G0.P (g.view.drop k)).data.length = k := by simp [G0.P]; omega
    rw [e]

/-- `Tag::take_opt_from` on any source -/
theorem tag_takeOptFrom0 (g : G0) (hf : g.frames = []) :
    runG0 Tag.takeOptFrom g =
      if g.view = [] then .ok (none, g)
      else match readIdent g.view with
        | none => .error .content
        | some (id, k) => .ok (some (Props.C12.tagOf id.cls id.num, id.constructed), g.adv k) := by
  rw [run_view0 _ access_tag_takeOptFrom g hf]
  cases hv : g.view with
  | nil =>
    have := sim0_ok _ _ _ _ Props.C12.takeOptFrom_nil
    rw [erase_plain] at this
    rw [this]
    simp only [liftView, G0.P]
    rw [hv]
    simp [g.adv_zero hf]
  | cons b rest =>
    have h := Props.C12.takeOptFrom_eq_spec b rest
    simp only [List.cons_ne_nil, if_false]
    cases hr : readIdent (b :: rest) with
    | none =>
      rw [hr] at h
      have := sim0_err _ _ _ h rfl
      rw [erase_plain] at this
      rw [this]; rfl
    | some r =>
      obtain ⟨id, k⟩ := r
      rw [hr] at h
      simp only at h
      have := sim0_ok _ _ _ _ h
      rw [erase_plain, erase_plain] at this
      obtain ⟨_, _, h1, hk, _⟩ := Props.C12.readIdent_bounds (b :: rest) id k hr
      rw [this]
      simp only [liftView]
      have e : g.view.length - (G0.P ((b :: rest).drop k)).data.length = k := by
        rw [hv]; simp only [G0.P, List.length_drop]; omega
      rw [e]

/-- `Length::take_from` on any source -/
theorem length_takeFrom0 (m : Mode) (g : G0) (hf : g.frames = []) :
    runG0 (Length.takeFrom m) g = match readLen m.isBer g.view with
      | none => .error .content
      | some (some n, k) => .ok (.definite n, g.adv k)
      | some (none, k) => .ok (.indefinite, g.adv k) := by
  rw [run_view0 _ (access_length_takeFrom m) g hf]
  have h := Props.C13.read_eq_spec m g.view
  cases hr : readLen m.isBer g.view with
  | none =>
    rw [hr] at h
    simp only [Props.C13.specResult] at h
    have := sim0_err _ _ _ h rfl
    rw [erase_plain] at this
    rw [this]; rfl
  | some r =>
    obtain ⟨x, k⟩ := r
    obtain ⟨_, hkl⟩ := readLen_bound _ _ x k hr
    rw [hr] at h
    have e : g.view.length - (G0.P (g.view.drop k)).data.length = k := by simp [G0.P]; omega
    cases x with
    | none =>
      simp only [Props.C13.specResult] at h
      have := sim0_ok _ _ _ _ h
      rw [erase_plain, erase_plain] at this
      rw [this]; simp only [liftView]; rw [e]
    | some n =>
      simp only [Props.C13.specResult] at h
      have := sim0_ok _ _ _ _ h
      rw [erase_plain, erase_plain] at this
      rw [this]; simp only [liftView]; rw [e]

end Bcder
