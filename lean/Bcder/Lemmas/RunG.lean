/- simp lemmas for the generous interpreter `runG` -/
import Bcder.Model.Content
namespace Bcder
open Prog

@[simp] theorem runG_ret (a : α) (s : G) : runG (Prog.ret a) s = .ok (a, s) := rfl
@[simp] theorem runG_pure (a : α) (s : G) : runG (pure a : Prog α) s = .ok (a, s) := rfl
@[simp] theorem runG_fail (e : Err) (s : G) : runG (Prog.fail e : Prog α) s = .error e := rfl
@[simp] theorem runG_contentErr (s : G) : runG (Prog.contentErr : Prog α) s = .error .content := rfl

theorem runG_bind (p : Prog α) (f : α → Prog β) (s : G) :
    runG (p >>= f) s = match runG p s with
      | .ok (a, s') => runG (f a) s'
      | .error e => .error e := by
  induction p generalizing s with
  | ret a => rfl
  | fail e => rfl
  | op o k ih =>
    show runG (Prog.op o fun r => (k r).bind f) s = _
    simp only [runG]
    cases stepG s o with
    | error e => rfl
    | ok p => obtain ⟨r, s'⟩ := p; exact ih r s'

theorem runG_ite (c : Prop) [Decidable c] (p q : Prog α) (s : G) :
    runG (if c then p else q) s = if c then runG p s else runG q s := by
  split <;> rfl

/-- a plain slice source: no limit, no capture frame -/
abbrev G.plain (d : Bytes) : G := { data := d, limit := none, frames := [] }

@[simp] theorem runG_takeOptU8_plain_cons (b : UInt8) (rest : Bytes) :
    runG takeOptU8 (G.plain (b :: rest)) = .ok (some b, G.plain rest) := by
  simp [takeOptU8, runG, stepG, G.view, G.advance, G.plain, G.request]
@[simp] theorem runG_takeOptU8_plain_nil :
    runG takeOptU8 (G.plain []) = .ok (none, G.plain []) := by
  simp [takeOptU8, runG, stepG, G.view, G.plain, G.request]
@[simp] theorem runG_takeU8_plain_cons (b : UInt8) (rest : Bytes) :
    runG takeU8 (G.plain (b :: rest)) = .ok (b, G.plain rest) := by
  simp [takeU8, runG_bind]
@[simp] theorem runG_takeU8_plain_nil :
    runG takeU8 (G.plain []) = .error .content := by
  simp [takeU8, runG_bind]

end Bcder
