/- the closures a caller runs on a `Primitive` only issue window operations -/
import Bcder.Lemmas.Uses
import Bcder.Model.Script
namespace Bcder
open Prog

abbrev W (p : Prog α) : Prop := Uses Op.isWindow p

theorem w_takeU8 : W takeU8 := by unfold takeU8; uses
theorem w_remaining : W Prim.remaining := by unfold Prim.remaining; uses
theorem w_skipAll : W Prim.skipAll := by unfold Prim.skipAll; have := w_remaining; uses
theorem w_takeAll : W Prim.takeAll := by unfold Prim.takeAll; have := w_remaining; uses
theorem w_sliceAll : W Prim.sliceAll := by unfold Prim.sliceAll; have := w_remaining; uses
theorem w_withSliceAll (f : Bytes → Option α) : W (Prim.withSliceAll f) := by
  unfold Prim.withSliceAll; have := w_remaining; uses
theorem w_checkHeadSigned : W checkHeadSigned := by unfold checkHeadSigned; uses
theorem w_checkHeadUnsigned : W checkHeadUnsigned := by unfold checkHeadUnsigned; uses
theorem w_liftSlice (f : Bytes → Res (Option α)) : W (liftSlice f) := by
  unfold liftSlice; have := w_remaining; uses
theorem w_toInt (ty : IntTy) : W (toInt ty) := by
  have := w_checkHeadSigned; have := w_checkHeadUnsigned; have := w_takeU8
  have h := @w_liftSlice
  have := w_remaining
  cases ty <;> simp only [toInt, i8FromPrimitive, decodeSigned, decodeUnsigned, u8FromPrimitive, u16FromPrimitive] <;> uses
  all_goals exact h _
theorem w_toBool (m : Mode) : W (toBool m) := by unfold toBool; have := w_takeU8; uses
theorem w_toNull : W toNull := by unfold toNull; have := w_remaining; uses
theorem w_integer : W integerFromPrimitive := by unfold integerFromPrimitive; have := w_takeAll; uses
theorem w_unsigned : W unsignedFromPrimitive := by
  unfold unsignedFromPrimitive; have := w_checkHeadUnsigned; have := w_integer; uses
theorem w_oid : W Oid.fromPrimitive := by unfold Oid.fromPrimitive; have := w_takeAll; uses
theorem w_oidSkip : W Oid.skipPrimitive := w_withSliceAll _

/-- every primitive-level script step (the whole `Source` API of a `Primitive` plus its helpers) -/
theorem w_runPrimOp (o : PrimOp) (m : Mode) (x : Ctx) : W (runPrimOp o m x) := by
  have := w_takeU8; have := w_takeAll; have := w_skipAll; have := w_sliceAll
  have h1 := @w_withSliceAll; have := w_remaining; have h2 := w_toBool; have := w_toNull
  have h3 := w_toInt; have := w_integer; have := w_unsigned; have := w_oid; have := w_oidSkip
  cases o <;> simp only [runPrimOp] <;> uses
  all_goals first | exact h1 _ | exact h2 _ | exact h3 _

theorem w_runPrimOps : ∀ (ops : List PrimOp) (m : Mode) (x : Ctx), W (runPrimOps ops m x) := by
  intro ops
  induction ops with
  | nil => intro m x; exact Uses.ret _
  | cons o os ih =>
    intro m x
    simp only [runPrimOps]
    have := w_runPrimOp o m x
    uses
    exact ih _ _

theorem w_primBody (ops : List PrimOp) (x : Ctx) (m : Mode) : W (primBody ops x m) := by
  unfold primBody; have := w_runPrimOps ops m { x with grant := 0 }; uses

end Bcder
