/-
  `runG0` — the generous layer WITHOUT the contract ghost `seen`: literally what `SliceSource`
  under `LimitedSource`/`CaptureSource` does (it has all its data and checks no grants).
  `runG` refines it (`sim0`): whenever `runG` does not fail with a panic, `runG0` gives the same
  result.  Functional theorems (C02, C09, C10, …) are proved about `runG0`.
-/
import Bcder.Lemmas.Uses
import Bcder.Lemmas.RunG
namespace Bcder
open Prog

structure G0 where
  data : Bytes
  limit : Option Nat
  frames : List Frame := []
deriving Repr, DecidableEq

def G.erase (g : G) : G0 := ⟨g.data, g.limit, g.frames⟩

namespace G0

def view (s : G0) : Bytes :=
  match s.limit with
  | none => s.data
  | some l => s.data.take l

def advance (s : G0) (n : Nat) : Res G0 :=
  if s.data.length < n then .error (.panic "advance past end of data") else
  let frames := match s.frames with
    | [] => []
    | f :: fs => { f with buf := f.buf ++ s.data.take n } :: fs
  match s.limit with
  | none => .ok { s with data := s.data.drop n, frames := frames }
  | some l =>
    if l < n then .error (.panic "advanced past end of limit")
    else .ok { data := s.data.drop n, limit := some (l - n), frames := frames }

end G0

def stepG0 (s : G0) : Op → Res (Resp × G0)
  | .takeOptU8 =>
    match s.view with
    | [] => .ok (.byte none, s)
    | b :: _ =>
      match s.advance 1 with
      | .ok s' => .ok (.byte (some b), s')
      | .error e => .error e
  | .peekAt i => .ok (.byte s.view[i]?, s)
  | .peek2 => .ok (.peek (min 2 s.view.length) s.view[0]? s.view[1]?, s)
  | .need n => .ok (.bool (decide (n ≤ s.view.length)), s)
  | .takeN n =>
    if s.view.length < n then .error (.panic "bytes past limit or data") else
    match s.advance n with
    | .ok s' => .ok (.bytes (s.data.take n), s')
    | .error e => .error e
  | .skipN n =>
    if s.view.length < n then .error (.panic "advance past limit or data") else
    match s.advance n with
    | .ok s' => .ok (.unit, s')
    | .error e => .error e
  | .sliceN n =>
    if s.view.length < n then .error (.panic "slice index past limit or data")
    else .ok (.bytes (s.data.take n), s)
  | .getLimit => .ok (.lim s.limit, s)
  | .setLimit l => .ok (.unit, { s with limit := l })
  | .reqCapped n => .ok (.nat (min n s.view.length), s)
  | .capBegin => .ok (.unit, { s with frames := { buf := [], outer := s.limit } :: s.frames })
  | .capEnd =>
    match s.frames with
    | [] => .error (.panic "capEnd without frame")
    | f :: fs =>
      let fs' := match fs with
        | [] => []
        | g :: gs => { g with buf := g.buf ++ f.buf } :: gs
      match f.outer with
      | some l =>
        if l < f.buf.length then .error (.panic "advanced past end of limit") else
        .ok (.bytes f.buf, { s with limit := some (l - f.buf.length), frames := fs' })
      | none => .ok (.bytes f.buf, { s with limit := none, frames := fs' })
  | .getPos => .ok (.nat s.data.length, s)

def runG0 : Prog α → G0 → Res (α × G0)
  | .ret a, s => .ok (a, s)
  | .fail e, _ => .error e
  | .op o k, s =>
    match stepG0 s o with
    | .error e => .error e
    | .ok (r, s') => runG0 (k r) s'

@[simp] theorem runG0_ret (a : α) (s : G0) : runG0 (Prog.ret a) s = .ok (a, s) := rfl
@[simp] theorem runG0_pure (a : α) (s : G0) : runG0 (pure a : Prog α) s = .ok (a, s) := rfl
@[simp] theorem runG0_fail (e : Err) (s : G0) : runG0 (Prog.fail e : Prog α) s = .error e := rfl
@[simp] theorem runG0_contentErr (s : G0) : runG0 (Prog.contentErr : Prog α) s = .error .content := rfl

theorem runG0_bind (p : Prog α) (f : α → Prog β) (s : G0) :
    runG0 (p >>= f) s = match runG0 p s with
      | .ok (a, s') => runG0 (f a) s'
      | .error e => .error e := by
  induction p generalizing s with
  | ret a => rfl
  | fail e => rfl
  | op o k ih =>
    show runG0 (Prog.op o fun r => (k r).bind f) s = _
    simp only [runG0]
    cases stepG0 s o with
    | error e => rfl
    | ok p => obtain ⟨r, s'⟩ := p; exact ih r s'

theorem runG0_ite (c : Prop) [Decidable c] (p q : Prog α) (s : G0) :
    runG0 (if c then p else q) s = if c then runG0 p s else runG0 q s := by
  split <;> rfl

/-! ### `runG` refines `runG0` -/

theorem erase_view (g : G) : g.erase.view = g.view := by
  unfold G.erase G0.view G.view; rfl

theorem erase_request (g : G) (n : Nat) : (g.request n).erase = g.erase := rfl

theorem advance_sim0 (g g' : G) (n : Nat) (h : g.advance n = .ok g') : g.erase.advance n = .ok g'.erase := by
  unfold G.advance at h
  unfold G0.advance
  by_cases h1 : g.seen < n
  · simp [h1] at h
  · by_cases h2 : g.data.length < n
    · simp [h1, h2] at h
    · simp only [h1, h2, if_false] at h
      simp only [G.erase, h2, if_false]
      cases hl : g.limit with
      | none => simp [hl] at h ⊢; subst h; exact ⟨rfl, rfl, rfl⟩
      | some l =>
        simp only [hl] at h ⊢
        by_cases h3 : l < n
        · simp [h3] at h
        · simp [h3] at h ⊢; subst h; exact ⟨rfl, rfl, rfl⟩

theorem step_sim0 (g : G) (o : Op) (r : Resp) (g' : G) (h : stepG g o = .ok (r, g')) :
    stepG0 g.erase o = .ok (r, g'.erase) := by
  cases o with
  | takeOptU8 =>
    simp only [stepG] at h
    simp only [stepG0, erase_view]
    have hv : (g.request 1).view = g.view := rfl
    rw [hv] at h
    cases hview : g.view with
    | nil => rw [hview] at h; simp at h; obtain ⟨h1, h2⟩ := h; subst h1; subst h2; rfl
    | cons b t =>
      rw [hview] at h
      simp only at h ⊢
      cases ha : (g.request 1).advance 1 with
      | error e => simp [ha] at h
      | ok g1 =>
        simp [ha] at h
        obtain ⟨h1, h2⟩ := h; subst h1; subst h2
        have := advance_sim0 _ _ 1 ha
        rw [erase_request] at this
        simp [this]
  | peekAt i =>
    have hv : (g.request (i + 1)).view = g.view := rfl
    simp only [stepG, hv, Except.ok.injEq, Prod.mk.injEq] at h
    obtain ⟨h1, h2⟩ := h; subst h1; subst h2
    simp only [stepG0, erase_view, erase_request]
  | peek2 =>
    have hv : (g.request 2).view = g.view := rfl
    simp only [stepG, hv, Except.ok.injEq, Prod.mk.injEq] at h
    obtain ⟨h1, h2⟩ := h; subst h1; subst h2
    simp only [stepG0, erase_view, erase_request]
  | need n =>
    have hv : (g.request n).view = g.view := rfl
    simp only [stepG, hv, Except.ok.injEq, Prod.mk.injEq] at h
    obtain ⟨h1, h2⟩ := h; subst h1; subst h2
    simp only [stepG0, erase_view, erase_request]
  | takeN n =>
    simp only [stepG] at h
    simp only [stepG0, erase_view]
    by_cases h1 : g.view.length < n
    · simp [h1] at h
    · simp only [h1, if_false] at h ⊢
      by_cases h2 : g.seen < n
      · simp [h2] at h
      · simp only [h2, if_false] at h
        cases ha : g.advance n with
        | error e => simp [ha] at h
        | ok g1 =>
          simp [ha] at h
          obtain ⟨h3, h4⟩ := h; subst h3; subst h4
          have := advance_sim0 _ _ n ha
          simp only [G.erase] at this
          simp only [G.erase, this]
  | skipN n =>
    simp only [stepG] at h
    simp only [stepG0, erase_view]
    by_cases h1 : g.view.length < n
    · simp [h1] at h
    · simp only [h1, if_false] at h ⊢
      cases ha : g.advance n with
      | error e => simp [ha] at h
      | ok g1 =>
        simp [ha] at h
        obtain ⟨h3, h4⟩ := h; subst h3; subst h4
        simp [advance_sim0 _ _ n ha]
  | sliceN n =>
    simp only [stepG] at h
    simp only [stepG0, erase_view]
    by_cases h1 : g.view.length < n
    · simp [h1] at h
    · simp only [h1, if_false] at h ⊢
      by_cases h2 : g.seen < n
      · simp [h2] at h
      · simp [h2] at h; obtain ⟨h3, h4⟩ := h; subst h3; subst h4; simp [G.erase]
  | getLimit => simp [stepG] at h; obtain ⟨h1, h2⟩ := h; subst h1; subst h2; simp [stepG0, G.erase]
  | setLimit l => simp [stepG] at h; obtain ⟨h1, h2⟩ := h; subst h1; subst h2; simp [stepG0, G.erase]
  | reqCapped n =>
    have hv : (g.request n).view = g.view := rfl
    simp only [stepG, hv, Except.ok.injEq, Prod.mk.injEq] at h
    obtain ⟨h1, h2⟩ := h; subst h1; subst h2
    simp only [stepG0, erase_view, erase_request]
  | capBegin => simp [stepG] at h; obtain ⟨h1, h2⟩ := h; subst h1; subst h2; simp [stepG0, G.erase]
  | capEnd =>
    simp only [stepG] at h
    simp only [stepG0, G.erase]
    cases hf : g.frames with
    | nil => simp [hf] at h
    | cons f fs =>
      simp only [hf] at h ⊢
      cases ho : f.outer with
      | none => simp [ho] at h ⊢; obtain ⟨h1, h2⟩ := h; subst h1; subst h2; cases fs <;> simp
      | some l =>
        simp only [ho] at h ⊢
        by_cases hl : l < f.buf.length
        · simp [hl] at h
        · simp [hl] at h ⊢; obtain ⟨h1, h2⟩ := h; subst h1; subst h2; cases fs <;> simp
  | getPos => simp [stepG] at h; obtain ⟨h1, h2⟩ := h; subst h1; subst h2; simp [stepG0, G.erase]

/-- whenever the contract-checking layer succeeds, so does the plain one, identically -/
theorem sim0_ok (p : Prog α) : ∀ (g : G) (a : α) (g' : G), runG p g = .ok (a, g') →
    runG0 p g.erase = .ok (a, g'.erase) := by
  induction p with
  | ret a => intro g a' g' h; simp [runG] at h; obtain ⟨h1, h2⟩ := h; subst h1; subst h2; rfl
  | fail e => intro g a g' h; simp [runG] at h
  | op o k ih =>
    intro g a g' h
    simp only [runG] at h
    cases hs : stepG g o with
    | error e => simp [hs] at h
    | ok rg =>
      obtain ⟨r, g1⟩ := rg
      simp only [hs] at h
      simp only [runG0, step_sim0 g o r g1 hs]
      exact ih r g1 a g' h


/-! ### access programs only depend on the view -/

/-- the state after advancing `n` octets (no capture frame open) -/
def G0.adv (g : G0) (n : Nat) : G0 := ⟨g.data.drop n, g.limit.map (· - n), []⟩

/-- a plain source holding exactly `v` -/
def G0.P (v : Bytes) : G0 := ⟨v, none, []⟩

def liftView (g : G0) : Res (α × G0) → Res (α × G0)
  | .ok (a, r) => .ok (a, g.adv (g.view.length - r.data.length))
  | .error e => .error e

theorem G0.view_P (v : Bytes) : (G0.P v).view = v := rfl

theorem G0.view_length_le (g : G0) : g.view.length ≤ g.data.length := by
  unfold G0.view; cases g.limit <;> simp [List.length_take]; omega

theorem G0.adv_view (g : G0) (n : Nat) (hn : n ≤ g.view.length) : (g.adv n).view = g.view.drop n := by
  unfold G0.adv G0.view at *
  cases hl : g.limit with
  | none => simp
  | some l =>
    simp [hl] at hn ⊢
    rw [List.drop_take]

theorem G0.adv_adv (g : G0) (a b : Nat) : (g.adv a).adv b = g.adv (a + b) := by
  unfold G0.adv
  simp only [List.drop_drop]
  cases g.limit <;> simp [Nat.sub_sub]

theorem G0.adv_zero (g : G0) (hf : g.frames = []) : g.adv 0 = g := by
  cases g with
  | mk d l f => simp at hf; subst hf; cases l <;> simp [G0.adv]

theorem G0.advance_eq (g : G0) (hf : g.frames = []) (n : Nat) (hn : n ≤ g.view.length) :
    g.advance n = .ok (g.adv n) := by
  have hle := g.view_length_le
  unfold G0.advance G0.adv
  have h1 : ¬ g.data.length < n := by omega
  simp only [h1, if_false, hf]
  cases hl : g.limit with
  | none => rfl
  | some l =>
    have : ¬ l < n := by
      unfold G0.view at hn; simp [hl, List.length_take] at hn; omega
    simp [this]

/-- one access operation: same response as on the plain view, state advanced by the same amount -/
theorem step_view0 (g : G0) (hf : g.frames = []) (o : Op) (ho : o.isAccess) :
    (∀ r p', stepG0 (G0.P g.view) o = .ok (r, p') →
      ∃ k, k ≤ g.view.length ∧ p' = G0.P (g.view.drop k) ∧ stepG0 g o = .ok (r, g.adv k)) ∧
    (∀ e, stepG0 (G0.P g.view) o = .error e → stepG0 g o = .error e) := by
  have hP : (G0.P g.view).frames = [] := rfl
  have hPv : (G0.P g.view).view = g.view := rfl
  have adv0 : g.adv 0 = g := g.adv_zero hf
  have stay : ∀ r, stepG0 g o = .ok (r, g) → ∃ k, k ≤ g.view.length ∧ G0.P g.view = G0.P (g.view.drop k) ∧
      stepG0 g o = .ok (r, g.adv k) := fun r h => ⟨0, Nat.zero_le _, by simp, by rw [adv0]; exact h⟩
  cases o with
  | takeOptU8 =>
    simp only [stepG0, hPv]
    cases hv : g.view with
    | nil =>
      constructor
      · intro r p' h; simp at h; obtain ⟨h1, h2⟩ := h; subst h1; subst h2
        exact ⟨0, Nat.zero_le _, by simp [hv], by rw [adv0]⟩
      · intro e h; simp at h
    | cons b t =>
      have h1 : 1 ≤ g.view.length := by simp [hv]
      have hPa : (G0.P (b :: t)).advance 1 = .ok ((G0.P (b :: t)).adv 1) :=
        G0.advance_eq _ rfl 1 (by simp [G0.view_P])
      simp only [hPa, g.advance_eq hf 1 h1]
      constructor
      · intro r p' h; simp at h; obtain ⟨h2, h3⟩ := h; subst h2; subst h3
        exact ⟨1, by simp, by simp [G0.adv, G0.P], rfl⟩
      · intro e h; simp at h
  | peekAt i =>
    simp only [stepG0, hPv]
    exact ⟨fun r p' h => by simp at h; obtain ⟨h1, h2⟩ := h; subst h1; subst h2; exact stay _ rfl,
           fun e h => by simp at h⟩
  | peek2 =>
    simp only [stepG0, hPv]
    exact ⟨fun r p' h => by simp at h; obtain ⟨h1, h2⟩ := h; subst h1; subst h2; exact stay _ rfl,
           fun e h => by simp at h⟩
  | need n =>
    simp only [stepG0, hPv]
    exact ⟨fun r p' h => by simp at h; obtain ⟨h1, h2⟩ := h; subst h1; subst h2; exact stay _ rfl,
           fun e h => by simp at h⟩
  | takeN n =>
    simp only [stepG0, hPv]
    by_cases hn : g.view.length < n
    · simp only [hn, if_true]
      exact ⟨fun r p' h => by simp at h, fun e h => h⟩
    · have hn' : n ≤ g.view.length := by omega
      have hPa : (G0.P g.view).advance n = .ok ((G0.P g.view).adv n) := G0.advance_eq _ rfl n (by rw [G0.view_P]; exact hn')
      have hd : g.data.take n = g.view.take n := by
        unfold G0.view at hn' ⊢
        cases hl : g.limit with
        | none => rfl
        | some l => simp [hl, List.length_take] at hn' ⊢; rw [List.take_take]; congr 1; omega
      simp only [hn, if_false, hPa, g.advance_eq hf n hn']
      constructor
      · intro r p' h; simp at h; obtain ⟨h2, h3⟩ := h; subst h2; subst h3
        exact ⟨n, hn', by simp [G0.adv, G0.P], by simp [G0.P, hd]⟩
      · intro e h; simp at h
  | skipN n =>
    simp only [stepG0, hPv]
    by_cases hn : g.view.length < n
    · simp only [hn, if_true]
      exact ⟨fun r p' h => by simp at h, fun e h => h⟩
    · have hn' : n ≤ g.view.length := by omega
      have hPa : (G0.P g.view).advance n = .ok ((G0.P g.view).adv n) := G0.advance_eq _ rfl n (by rw [G0.view_P]; exact hn')
      simp only [hn, if_false, hPa, g.advance_eq hf n hn']
      constructor
      · intro r p' h; simp at h; obtain ⟨h2, h3⟩ := h; subst h2; subst h3
        exact ⟨n, hn', by simp [G0.adv, G0.P], rfl⟩
      · intro e h; simp at h
  | sliceN n =>
    simp only [stepG0, hPv]
    by_cases hn : g.view.length < n
    · simp only [hn, if_true]
      exact ⟨fun r p' h => by simp at h, fun e h => h⟩
    · have hn' : n ≤ g.view.length := by omega
      have hd : g.data.take n = g.view.take n := by
        unfold G0.view at hn' ⊢
        cases hl : g.limit with
        | none => rfl
        | some l => simp [hl, List.length_take] at hn' ⊢; rw [List.take_take]; congr 1; omega
      simp only [hn, if_false]
      constructor
      · intro r p' h; simp at h; obtain ⟨h2, h3⟩ := h; subst h2; subst h3
        exact ⟨0, Nat.zero_le _, by simp, by rw [adv0]; simp [G0.P, hd]⟩
      · intro e h; simp at h
  | getLimit => exact absurd ho (by simp [Op.isAccess])
  | setLimit l => exact absurd ho (by simp [Op.isAccess])
  | reqCapped n =>
    simp only [stepG0, hPv]
    exact ⟨fun r p' h => by simp at h; obtain ⟨h1, h2⟩ := h; subst h1; subst h2; exact stay _ rfl,
           fun e h => by simp at h⟩
  | capBegin => exact absurd ho (by simp [Op.isAccess])
  | capEnd => exact absurd ho (by simp [Op.isAccess])
  | getPos => exact absurd ho (by simp [Op.isAccess])

theorem G0.advance_len (g g' : G0) (n : Nat) (h : g.advance n = .ok g') : g'.data.length ≤ g.data.length := by
  unfold G0.advance at h
  by_cases h1 : g.data.length < n
  · simp [h1] at h
  · simp only [h1, if_false] at h
    cases hl : g.limit with
    | none => simp [hl] at h; subst h; simp
    | some l =>
      simp only [hl] at h
      by_cases h2 : l < n
      · simp [h2] at h
      · simp [h2] at h; subst h; simp

theorem stepG0_data_le (g : G0) (o : Op) (r : Resp) (g' : G0) (h : stepG0 g o = .ok (r, g')) :
    g'.data.length ≤ g.data.length := by
  cases o with
  | takeOptU8 =>
    simp only [stepG0] at h
    split at h
    · simp at h; rw [← h.2]; exact Nat.le_refl _
    · split at h
      · rename_i g1 ha; simp at h; rw [← h.2]; exact G0.advance_len _ _ 1 ha
      · simp at h
  | takeN n =>
    simp only [stepG0] at h
    split at h
    · simp at h
    · split at h
      · rename_i g1 ha; simp at h; rw [← h.2]; exact G0.advance_len _ _ n ha
      · simp at h
  | skipN n =>
    simp only [stepG0] at h
    split at h
    · simp at h
    · split at h
      · rename_i g1 ha; simp at h; rw [← h.2]; exact G0.advance_len _ _ n ha
      · simp at h
  | sliceN n =>
    simp only [stepG0] at h
    split at h
    · simp at h
    · simp at h; rw [← h.2]; exact Nat.le_refl _
  | capEnd =>
    simp only [stepG0] at h
    split at h
    · simp at h
    · split at h
      · split at h
        · simp at h
        · simp at h; rw [← h.2]; exact Nat.le_refl _
      · simp at h; rw [← h.2]; exact Nat.le_refl _
  | peekAt i => simp [stepG0] at h; rw [← h.2]; exact Nat.le_refl _
  | peek2 => simp [stepG0] at h; rw [← h.2]; exact Nat.le_refl _
  | need n => simp [stepG0] at h; rw [← h.2]; exact Nat.le_refl _
  | getLimit => simp [stepG0] at h; rw [← h.2]; exact Nat.le_refl _
  | setLimit l => simp [stepG0] at h; rw [← h.2]; exact Nat.le_refl _
  | reqCapped n => simp [stepG0] at h; rw [← h.2]; exact Nat.le_refl _
  | capBegin => simp [stepG0] at h; rw [← h.2]; exact Nat.le_refl _
  | getPos => simp [stepG0] at h; rw [← h.2]; exact Nat.le_refl _

/-- the data of a source never grows -/
theorem runG0_data_le (p : Prog α) : ∀ (g : G0) (a : α) (g' : G0), runG0 p g = .ok (a, g') →
    g'.data.length ≤ g.data.length := by
  induction p with
  | ret a => intro g a' g' h; simp [runG0] at h; rw [← h.2]; exact Nat.le_refl _
  | fail e => intro g a g' h; simp [runG0] at h
  | op o kont ih =>
    intro g a g' h
    simp only [runG0] at h
    cases hs : stepG0 g o with
    | error e => simp [hs] at h
    | ok rg =>
      obtain ⟨r, g1⟩ := rg
      simp only [hs] at h
      exact Nat.le_trans (ih r g1 a g' h) (stepG0_data_le g o r g1 hs)

/-- **View lemma**: a program made of access operations behaves on any (limited) source exactly as on
    a plain source holding the view, and advances the real source by what it consumed of the view. -/
theorem run_view0 (p : Prog α) (hp : Uses Op.isAccess p) :
    ∀ g : G0, g.frames = [] → runG0 p g = liftView g (runG0 p (G0.P g.view)) := by
  induction hp with
  | ret a =>
    intro g hf
    simp [runG0, liftView, G0.P, g.adv_zero hf]
  | fail e => intro g hf; rfl
  | op o kont ho _ ih =>
    intro g hf
    obtain ⟨h1, h2⟩ := step_view0 g hf o ho
    simp only [runG0]
    cases hs : stepG0 (G0.P g.view) o with
    | error e => simp [h2 e hs, liftView]
    | ok rp =>
      obtain ⟨r, p'⟩ := rp
      obtain ⟨k, hk, hp', hg⟩ := h1 r p' hs
      simp only [hg]
      have hfa : (g.adv k).frames = [] := rfl
      rw [ih r (g.adv k) hfa, g.adv_view k hk, hp']
      cases hr : runG0 (kont r) (G0.P (g.view.drop k)) with
      | error e => simp [liftView]
      | ok ar =>
        obtain ⟨a, rr⟩ := ar
        have hle := runG0_data_le (kont r) _ a rr hr
        simp only [G0.P, List.length_drop] at hle
        simp only [liftView, G0.adv_adv]
        have ev : (g.adv k).view.length = g.view.length - k := by rw [g.adv_view k hk]; simp
        have e : k + ((g.adv k).view.length - rr.data.length) = g.view.length - rr.data.length := by
          rw [ev]; omega
        rw [e]

end Bcder
