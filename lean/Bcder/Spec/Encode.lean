/-
  Bcder.Spec.Encode — what an encoder tree must produce, written from X.690 and property C06:
  identifier octets, minimal definite length octets, the parts in order; constructed values in CER
  use the indefinite form closed by end-of-contents.  (The tree type is the model's `Enc`.)
-/
import Bcder.Model.Encode
import Bcder.Spec.Values
namespace Bcder.Spec
open Bcder

def tagIdent (t : Tag) (constructed : Bool) : Bytes :=
  identOctets (t.classBits.toNat / 64) constructed t.number

def pcContent : PC → Bytes
  | .int _ v => minimalTC v
  | .bool b => if b then [0xff] else [0x00]
  | .null => []
  | .octets bs => bs
  | .integer c => c
  | .oid c => c
  | .bits u bs => u :: bs

def tlv (t : Tag) (constructed : Bool) (content : Bytes) : Bytes :=
  tagIdent t constructed ++ lenOctets content.length ++ content

mutual
/-- reference encoding; `none` where the encoder is documented as unimplemented / a caller error -/
def encode (mode : Mode) : Enc → Option Bytes
  | .prim tag pc => some (tlv tag false (pcContent pc))
  | .cons tag inner =>
    match encode mode inner with
    | none => none
    | some body =>
      if mode == .cer then some (tagIdent tag true ++ [0x80] ++ body ++ [0, 0])
      else some (tlv tag true body)
  | .seq _ es => encodeList mode es
  | .optNone => some []
  | .optSome e => encode mode e
  | .choice _ _ e => encode mode e
  | .nothing => some []
  | .captured bytes own => if own != mode && mode != .ber then none else some bytes
  | .octetString tag os =>
    match mode with
    | .cer => none
    | .der => match os.octets with | .ok c => some (tlv tag false c) | .error _ => none
    | .ber =>
      match os with
      | .prim b => some (tlv tag false b)
      | .cons c => some (tlv tag true c)
  | .octetSlice tag bs => if mode == .cer then none else some (tlv tag false bs)
  | .wrapped own inner =>
    if mode == .cer then none else (encode own inner).map (tlv Tag.OCTET_STRING false)
  | .bitSlice tag u bs => if mode == .cer then none else some (tlv tag false (u :: bs))
def encodeList (mode : Mode) : List Enc → Option Bytes
  | [] => some []
  | e :: es =>
    match encode mode e, encodeList mode es with
    | some a, some b => some (a ++ b)
    | _, _ => none
end

end Bcder.Spec
