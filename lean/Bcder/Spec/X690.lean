/-
  Bcder.Spec.X690 — reference definitions written from X.690 and the property texts,
  not from the code.  Short enough to be read in a few minutes.  Core Lean only.
-/
import Bcder.Model.Basic
namespace Bcder.Spec
open Bcder

/-! ## identifier octets (X.690 8.1.2) -/

/-- base-128 digits of `n`, most significant first (`n = 0 ↦ [0]`) -/
def digits128 : Nat → Nat → List Nat
  | 0, _ => []
  | fuel + 1, n => if n < 128 then [n] else digits128 fuel (n / 128) ++ [n % 128]

/-- sub-identifier / long-form tag number octets: continuation bit on all but the last -/
def base128 (n : Nat) : Bytes :=
  let ds := digits128 (n + 1) n
  (ds.dropLast.map fun d => UInt8.ofNat (d + 128)) ++ (ds.getLast?.map (UInt8.ofNat ·)).toList

/-- identifier octets of class `cls ∈ {0,1,2,3}`, constructed flag, tag number -/
def identOctets (cls : Nat) (constructed : Bool) (num : Nat) : Bytes :=
  let lead := cls * 64 + (if constructed then 32 else 0)
  if num ≤ 30 then [UInt8.ofNat (lead + num)]
  else UInt8.ofNat (lead + 31) :: base128 num

/-! ## length octets (X.690 8.1.3) -/

/-- big-endian digits base 256, minimal, `n ≥ 1` (0 ↦ []) -/
def be256 : Nat → Nat → Bytes
  | 0, _ => []
  | fuel + 1, n => if n = 0 then [] else be256 fuel (n / 256) ++ [UInt8.ofNat (n % 256)]

/-- the shortest definite form -/
def lenOctets (n : Nat) : Bytes :=
  if n < 128 then [UInt8.ofNat n]
  else
    let ds := be256 (n + 1) n
    UInt8.ofNat (128 + ds.length) :: ds

/-- reading length octets, per the property text: `none` = rejected;
    `some (none, k)` = indefinite; `some (some n, k)` = definite `n`; `k` octets consumed.
    At most four subsequent octets are supported. -/
def readLen (ber : Bool) (bs : Bytes) : Option (Option Nat × Nat) :=
  match bs with
  | [] => none
  | b :: rest =>
    if b.toNat < 128 then some (some b.toNat, 1)
    else if b.toNat = 128 then some (none, 1)
    else
      let k := b.toNat - 128
      if k > 4 then none
      else if rest.length < k then none
      else
        let v := beValue (rest.take k)
        if ber then some (some v, 1 + k)
        else if lenOctets v = b :: rest.take k then some (some v, 1 + k) else none

/-! ## integers (X.690 8.3) -/

/-- value of big-endian two's complement octets (empty ↦ 0) -/
def tcValue (bs : Bytes) : Int :=
  match bs with
  | [] => 0
  | b :: _ =>
    if b.toNat ≥ 128 then (beValue bs : Int) - (256 : Int) ^ bs.length else (beValue bs : Int)

/-- `w` big-endian octets of `v mod 256^w` -/
def tcOctets : Nat → Int → Bytes
  | 0, _ => []
  | w + 1, v => tcOctets w (v / 256) ++ [UInt8.ofNat (v % 256).toNat]

/-- number of octets of the minimal two's complement form -/
def tcLen : Nat → Int → Nat
  | 0, _ => 1
  | fuel + 1, v => if -128 ≤ v ∧ v ≤ 127 then 1 else 1 + tcLen fuel (v / 256)

/-- the minimal two's complement octets of `v` -/
def minimalTC (v : Int) : Bytes := tcOctets (tcLen (v.natAbs + 1) v) v

/-- content is in minimal form (X.690 8.3.2) -/
def isMinimalTC (bs : Bytes) : Bool :=
  match bs with
  | [] => false
  | [_] => true
  | a :: b :: _ => !((a == 0 && b.toNat < 128) || (a == 0xFF && b.toNat ≥ 128))

end Bcder.Spec
