/-
  Bcder.Spec.Tlv — the X.690 tag-length-value grammar as a sub-list parser, per mode.
  Written from the standard and the text of property C02: no limit arithmetic, no state machine.

    values(top)        ::= value*                      -- until the input ends
    values(definite n) ::= value*                      -- exactly the n content octets
    values(indefinite) ::= value* eoc
    value       ::= ident len content
    ident       ::= 1 octet (low 5 bits ≠ 11111) | 1f-form with 1–3 following octets, minimal
                    universal 0 is never a value
    len         ::= short | 81 xx | 82 xx xx | 83 … | 84 …   (CER, DER: only the shortest)
    primitive   :   constructed bit 0, definite length, content = n arbitrary octets
    constructed :   BER: definite or indefinite;  CER: only indefinite;  DER: only definite
    eoc         ::= 00 len(0)
-/
import Bcder.Spec.X690
namespace Bcder.Spec
open Bcder

structure Ident where
  cls : Nat
  constructed : Bool
  num : Nat
deriving DecidableEq, Repr

/-- read identifier octets: class, constructed flag, number and the number of octets consumed.
    The long form must be minimal (number ≥ 31, no leading zero digit) and have at most three
    following octets. -/
def readIdent (bs : Bytes) : Option (Ident × Nat) :=
  match bs with
  | [] => none
  | b :: rest =>
    let cls := b.toNat / 64
    let c := b.toNat / 32 % 2 == 1
    if b.toNat % 32 != 31 then some (⟨cls, c, b.toNat % 32⟩, 1)
    else
      match rest with
      | d1 :: r1 =>
        if d1.toNat < 128 then
          if d1.toNat ≥ 31 then some (⟨cls, c, d1.toNat⟩, 2) else none
        else if d1.toNat == 128 then none
        else match r1 with
          | d2 :: r2 =>
            if d2.toNat < 128 then some (⟨cls, c, (d1.toNat % 128) * 128 + d2.toNat⟩, 3)
            else match r2 with
              | d3 :: _ =>
                if d3.toNat < 128 then
                  some (⟨cls, c, ((d1.toNat % 128) * 128 + d2.toNat % 128) * 128 + d3.toNat⟩, 4)
                else none
              | [] => none
          | [] => none
      | [] => none

inductive Tree
  | prim (id : Ident) (content : Bytes)
  | cons (id : Ident) (indef : Bool) (kids : List Tree)
deriving Repr

inductive M | ber | cer | der
deriving DecidableEq, Repr

def M.isBer : M → Bool | .ber => true | _ => false

def isEocIdent (i : Ident) : Bool := i.cls == 0 && i.num == 0

mutual
/-- one value at the front of `bs`; returns the tree and what follows it -/
def parseValue (m : M) : Nat → Bytes → Option (Tree × Bytes)
  | 0, _ => none
  | fuel + 1, bs =>
    match readIdent bs with
    | none => none
    | some (id, k) =>
      if isEocIdent id then none else
      match readLen m.isBer (bs.drop k) with
      | none => none
      | some (some n, kl) =>
        let body := bs.drop (k + kl)
        if body.length < n then none
        else if !id.constructed then some (.prim id (body.take n), body.drop n)
        else if m == .cer then none
        else match parseAll m fuel (body.take n) with
          | some kids => some (.cons id false kids, body.drop n)
          | none => none
      | some (none, kl) =>
        if !id.constructed || m == .der then none
        else match parseUntilEoc m fuel (bs.drop (k + kl)) with
          | some (kids, rest) => some (.cons id true kids, rest)
          | none => none

/-- the whole of `bs` is a sequence of values -/
def parseAll (m : M) : Nat → Bytes → Option (List Tree)
  | 0, _ => none
  | fuel + 1, bs =>
    if bs.isEmpty then some []
    else match parseValue m fuel bs with
      | some (t, rest) => (parseAll m fuel rest).map (t :: ·)
      | none => none

/-- values followed by end-of-contents; returns what follows the end-of-contents -/
def parseUntilEoc (m : M) : Nat → Bytes → Option (List Tree × Bytes)
  | 0, _ => none
  | fuel + 1, bs =>
    match readIdent bs with
    | none => none
    | some (id, k) =>
      if isEocIdent id then
        if id.constructed then none
        else match readLen m.isBer (bs.drop k) with
          | some (some 0, kl) => some ([], bs.drop (k + kl))
          | _ => none
      else match parseValue m fuel bs with
        | some (t, rest) =>
          match parseUntilEoc m fuel rest with
          | some (ts, rest') => some (t :: ts, rest')
          | none => none
        | none => none
end

/-! ## octet strings (X.690 8.7, 9.2, 10.2) as trees -/

/-- content of a tree made of string values only: the outermost value has universal tag `num`,
    everything nested is OCTET STRING (universal 4) -/
def osContent (num : Nat) : Nat → Tree → Option Bytes
  | _, .prim id c => if id.cls == 0 && id.num == num then some c else none
  | 0, .cons _ _ _ => none
  | fuel + 1, .cons id _ kids =>
    if !(id.cls == 0 && id.num == num) then none
    else kids.foldl (fun acc k =>
      match acc, osContent 4 fuel k with
      | some a, some c => some (a ++ c)
      | _, _ => none) (some [])

/-- the primitive leaves in order -/
def osSegments : Nat → Tree → List Bytes
  | _, .prim _ c => [c]
  | 0, .cons _ _ _ => []
  | fuel + 1, .cons _ _ kids => kids.flatMap (osSegments fuel)

/-- is this tree an acceptable OCTET STRING encoding in the mode (given that it parsed in that mode)? -/
def osAccept (m : M) (t : Tree) : Bool :=
  match m, t with
  | .der, .prim _ _ => true
  | .der, .cons _ _ _ => false
  | .ber, _ => true
  | .cer, .prim _ c => c.length ≤ 1000
  | .cer, .cons _ indef kids =>
    indef &&
    kids.all (fun k => match k with | .prim _ c => c.length ≤ 1000 | _ => false) &&
    (kids.dropLast.all fun k => match k with | .prim _ c => c.length == 1000 | _ => false)

end Bcder.Spec
