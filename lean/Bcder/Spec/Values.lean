/-
  Bcder.Spec.Values — reference definitions for value-level properties (C14–C20),
  written from X.690 / RFC 3629 / the property texts.  Core Lean only.
-/
import Bcder.Spec.X690
namespace Bcder.Spec
open Bcder

/-! ## integer ranges -/
def inRange (signed : Bool) (w : Nat) (v : Int) : Bool :=
  if signed then decide (-(2 : Int) ^ (8 * w - 1) ≤ v) && decide (v < (2 : Int) ^ (8 * w - 1))
  else decide (0 ≤ v) && decide (v < (2 : Int) ^ (8 * w))

/-- what a fixed-width accessor must return for content `c`: the value iff `c` is the minimal
    two's complement form of a number in range -/
def decodeInt (signed : Bool) (w : Nat) (c : Bytes) : Option Int :=
  if isMinimalTC c && inRange signed w (tcValue c) then some (tcValue c) else none

/-- BOOLEAN content -/
def decodeBool (ber : Bool) (c : Bytes) : Option Bool :=
  match c with
  | [b] => if ber then some (b != 0) else if b == 0 then some false else if b == 0xFF then some true else none
  | _ => none

/-! ## bit strings -/
/-- bits of an octet, most significant first -/
def bitsOfByte (b : UInt8) : List Bool :=
  [7, 6, 5, 4, 3, 2, 1, 0].map fun i => (b.toNat / 2 ^ i) % 2 == 1
def bitsOf (bs : Bytes) : List Bool := bs.flatMap bitsOfByte
/-- the bits a BIT STRING with `unused` unused bits denotes -/
def specBits (unused : Nat) (data : Bytes) : List Bool := (bitsOf data).take (8 * data.length - unused)

/-! ## object identifiers (X.690 8.19) -/
/-- content octets of the arcs `a₀.a₁.a₂…` -/
def arcsToContent : List Nat → Bytes
  | a0 :: a1 :: rest => ((40 * a0 + a1) :: rest).flatMap base128
  | _ => []

/-- split content into sub-identifiers (each ends at an octet with bit 8 clear);
    `none` if the last octet does not end one or the content is empty -/
def subIdsAux : Bytes → Bytes → Option (List Bytes)
  | [], [] => some []
  | [], _ :: _ => none
  | b :: rest, cur =>
    if b.toNat < 128 then (subIdsAux rest []).map ((cur ++ [b]) :: ·)
    else subIdsAux rest (cur ++ [b])
def subIds (c : Bytes) : Option (List Bytes) := if c.isEmpty then none else subIdsAux c []

def subIdValue (s : Bytes) : Nat := s.foldl (fun acc b => acc * 128 + b.toNat % 128) 0

/-- the arcs of an accepted content -/
def contentToArcs (c : Bytes) : Option (List Nat) :=
  match subIds c with
  | some (s0 :: rest) =>
    let v := subIdValue s0
    let (a0, a1) := if v < 40 then (0, v) else if v < 80 then (1, v - 40) else (2, v - 80)
    some (a0 :: a1 :: rest.map subIdValue)
  | _ => none

/-- decimal digits of a natural number as ASCII octets -/
def decimalAux : Nat → Nat → Bytes
  | 0, _ => []
  | fuel + 1, n => (if n < 10 then [] else decimalAux fuel (n / 10)) ++ [UInt8.ofNat (48 + n % 10)]
def decimal (n : Nat) : Bytes := decimalAux (n + 1) n

def dotted : List Nat → Bytes
  | [] => []
  | [a] => decimal a
  | a :: rest => decimal a ++ [0x2E] ++ dotted rest

/-- parse one decimal arc the way the property allows: ASCII digits (an optional leading `+`
    is what Rust's integer parser accepts), value below 2^32 -/
def parseArc (s : Bytes) : Option Nat :=
  let ds := match s with
    | b :: rest => if b == 0x2B then rest else s
    | [] => []
  if ds.isEmpty || !ds.all (fun d => d.toNat ≥ 48 && d.toNat ≤ 57) then none
  else
    let v := ds.foldl (fun acc d => acc * 10 + (d.toNat - 48)) 0
    if v < 2 ^ 32 then some v else none

def splitOn (sep : UInt8) : Bytes → List Bytes
  | [] => [[]]
  | b :: rest =>
    match splitOn sep rest with
    | [] => [[b]]
    | cur :: more => if b == sep then [] :: cur :: more else (b :: cur) :: more

/-- what parsing dotted-decimal text must give: the content octets, or `none` -/
def parseOid (text : Bytes) : Option Bytes :=
  match (splitOn 0x2E text).mapM parseArc with
  | some (a0 :: a1 :: rest) =>
    if a0 > 2 then none
    else if a0 < 2 && a1 ≥ 40 then none
    else if 40 * a0 + a1 ≥ 2 ^ 32 then none
    else some (arcsToContent (a0 :: a1 :: rest))
  | _ => none

/-! ## UTF-8 (RFC 3629) and the restricted character sets -/
def isScalar (c : Nat) : Bool := c < 0xD800 || (0xE000 ≤ c && c ≤ 0x10FFFF)

/-- the RFC 3629 encoding table -/
def utf8Encode (c : Nat) : Bytes :=
  if c < 0x80 then [UInt8.ofNat c]
  else if c < 0x800 then [UInt8.ofNat (0xC0 + c / 64), UInt8.ofNat (0x80 + c % 64)]
  else if c < 0x10000 then
    [UInt8.ofNat (0xE0 + c / 4096), UInt8.ofNat (0x80 + c / 64 % 64), UInt8.ofNat (0x80 + c % 64)]
  else
    [UInt8.ofNat (0xF0 + c / 262144), UInt8.ofNat (0x80 + c / 4096 % 64),
     UInt8.ofNat (0x80 + c / 64 % 64), UInt8.ofNat (0x80 + c % 64)]

/-- candidate code point of the first `k` octets by the bit layout -/
def utf8Candidate (bs : Bytes) : Option Nat :=
  match bs with
  | [a] => some a.toNat
  | [a, b] => some ((a.toNat % 32) * 64 + b.toNat % 64)
  | [a, b, c] => some ((a.toNat % 16) * 4096 + (b.toNat % 64) * 64 + c.toNat % 64)
  | [a, b, c, d] => some ((a.toNat % 8) * 262144 + (b.toNat % 64) * 4096 + (c.toNat % 64) * 64 + d.toNat % 64)
  | _ => none

/-- decode the scalar sequence: at each position the unique `k ∈ 1..4` such that the next `k`
    octets are `utf8Encode` of a scalar value -/
def utf8Decode : Nat → Bytes → Option (List Nat)
  | 0, _ => none
  | fuel + 1, bs =>
    if bs.isEmpty then some []
    else
      let tryK (k : Nat) : Option (Nat × Bytes) :=
        match utf8Candidate (bs.take k) with
        | some c => if (bs.take k).length == k && isScalar c && utf8Encode c == bs.take k then some (c, bs.drop k) else none
        | none => none
      match (tryK 1).orElse fun _ => (tryK 2).orElse fun _ => (tryK 3).orElse fun _ => tryK 4 with
      | some (c, rest) => (utf8Decode fuel rest).map (c :: ·)
      | none => none

inductive CS | utf8 | numeric | printable | ia5

def printableSet : List Nat :=
  (List.range 26).map (· + 65) ++ (List.range 26).map (· + 97) ++ (List.range 10).map (· + 48) ++
  [32, 39, 40, 41, 43, 44, 45, 46, 47, 58, 61, 63]

/-- the characters of `bs` in character set `cs`, or `none` if `bs` is not valid -/
def csDecode (cs : CS) (bs : Bytes) : Option (List Nat) :=
  match cs with
  | .utf8 => utf8Decode (bs.length + 1) bs
  | .numeric => if bs.all (fun b => b.toNat == 32 || (48 ≤ b.toNat && b.toNat ≤ 57)) then some (bs.map (·.toNat)) else none
  | .printable => if bs.all (fun b => printableSet.contains b.toNat) then some (bs.map (·.toNat)) else none
  | .ia5 => if bs.all (fun b => b.toNat < 128) then some (bs.map (·.toNat)) else none

/-! ## lexicographic order on octet strings -/
def lexCompare : Bytes → Bytes → Ordering
  | [], [] => .eq
  | [], _ => .lt
  | _, [] => .gt
  | a :: as, b :: bs => if a.toNat < b.toNat then .lt else if a.toNat > b.toNat then .gt else lexCompare as bs

end Bcder.Spec
