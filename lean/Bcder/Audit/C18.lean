import Bcder.Props.C18
#print axioms Bcder.Props.C18.chars_eq_spec
#print axioms Bcder.Props.C18.check_eq_spec
#print axioms Bcder.Props.C18.fromStr_eq_spec
#print axioms Bcder.Props.C18.fromStr_utf8
#print axioms Bcder.Props.C18.fromStr_wellformed
#print axioms Bcder.Props.C18.utf8_decode_iff
#print axioms Bcder.Props.C18.numeric_decode_iff
#print axioms Bcder.Props.C18.printable_decode_iff
#print axioms Bcder.Props.C18.ia5_decode_iff
#print axioms Bcder.Props.C18.chars_scalar
#print axioms Bcder.Props.C18.new_eq_spec
#print axioms Bcder.Props.C18.new_octets_err
#print axioms Bcder.Props.C18.rs_chars_eq_spec
#print axioms Bcder.Props.C18.chars_of_new
#print axioms Bcder.Props.C18.segmentation_irrelevant
#print axioms Bcder.Props.C18.fromContent_eq
