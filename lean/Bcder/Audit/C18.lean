import Bcder.Props.C18
