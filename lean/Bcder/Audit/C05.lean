import Bcder.Props.C05
