import Bcder.Props.C10
