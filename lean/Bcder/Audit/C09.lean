import Bcder.Props.C09
import Bcder.Props.C11c
#print axioms Bcder.Props.C09.tag_takeFromIf0
#print axioms Bcder.Props.C09.pnvE_eq
#print axioms Bcder.Props.C09.absent_untouched_if
#print axioms Bcder.Props.C09.absent_untouched_if_ne
#print axioms Bcder.Props.C09.absent_untouched
#print axioms Bcder.Props.C09.absent_iff_if
#print axioms Bcder.Props.C09.reread
#print axioms Bcder.Props.C09.present_if
#print axioms Bcder.Props.C09.mandatory_run
#print axioms Bcder.Props.C09.primitive_on_constructed
#print axioms Bcder.Props.C09.constructed_on_primitive
#print axioms Bcder.Props.C02.pnv_eq
#print axioms Bcder.Props.C11c.framable_pnv
#print axioms Bcder.Props.C11c.absent_untouched_framed
#print axioms Bcder.Props.C11c.absent_untouched_if_framed
