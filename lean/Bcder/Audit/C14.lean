import Bcder.Props.C14
