import Bcder.Props.C06
