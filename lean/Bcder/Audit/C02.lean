import Bcder.Props.C02
import Bcder.Props.C02b
#print axioms Bcder.Props.C02.refines
#print axioms Bcder.Props.C02.decode_run
#print axioms Bcder.Props.C02.accepts_iff
#print axioms Bcder.Props.C02.accepts_consumes
#print axioms Bcder.Props.C02.rejects
#print axioms Bcder.Props.C02.accepts_runG
#print axioms Bcder.Props.C02.rejects_runG
#print axioms Bcder.Props.C02.definite_parent
#print axioms Bcder.Props.C02.indefinite_parent
#print axioms Bcder.Props.C02.suffix_lemma
#print axioms Bcder.Props.C02.pnv_eq
#print axioms Bcder.Props.C02.body_rel_sw
#print axioms Bcder.Props.C02.vs_sw
#print axioms Bcder.Props.C02.parseSwitched_same
#print axioms Bcder.Props.C02b.take_value_spec
#print axioms Bcder.Props.C02b.readN_spec
#print axioms Bcder.Props.C02b.readN_top
#print axioms Bcder.Props.C02b.switched_spec
