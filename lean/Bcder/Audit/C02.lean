import Bcder.Props.C02
#print axioms Bcder.Props.C02.refines
#print axioms Bcder.Props.C02.decode_run
#print axioms Bcder.Props.C02.accepts_iff
#print axioms Bcder.Props.C02.accepts_consumes
#print axioms Bcder.Props.C02.rejects
#print axioms Bcder.Props.C02.accepts_runG
#print axioms Bcder.Props.C02.rejects_runG
#print axioms Bcder.Props.C02.definite_parent
#print axioms Bcder.Props.C02.indefinite_parent
#print axioms Bcder.Props.C02.suffix_lemma
#print axioms Bcder.Props.C02.pnv_eq
