import Bcder.Props.C01
import Bcder.Props.C01b
#print axioms Bcder.Props.C01.generic_total
#print axioms Bcder.Props.C01.generic_never_panics
#print axioms Bcder.Props.C01.nested_never_panics_definite
#print axioms Bcder.Props.C01.nested_never_panics_indefinite
#print axioms Bcder.Props.C01.fuel_adequate
#print axioms Bcder.Props.C01.generic_terminates
#print axioms Bcder.Props.C01.leaves_run
#print axioms Bcder.Props.C01.stepG0_err_panic
#print axioms Bcder.Props.C01.parseValue_consumes
#print axioms Bcder.Props.C01b.int_total
#print axioms Bcder.Props.C01b.bool_total
#print axioms Bcder.Props.C01b.null_total
#print axioms Bcder.Props.C01b.integer_total
#print axioms Bcder.Props.C01b.unsigned_total
#print axioms Bcder.Props.C01b.oid_total
#print axioms Bcder.Props.C01b.bits_total
#print axioms Bcder.Props.C01b.octets_prim_total
#print axioms Bcder.Props.C01b.octets_cons_der_total
#print axioms Bcder.Props.C01b.octets_cons_ber_total
#print axioms Bcder.Props.C01b.chars_total
#print axioms Bcder.Props.C01b.skip_total
