import Bcder.Props.C01
