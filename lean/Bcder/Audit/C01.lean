import Bcder.Props.C01
#print axioms Bcder.Props.C01.generic_total
#print axioms Bcder.Props.C01.generic_never_panics
#print axioms Bcder.Props.C01.nested_never_panics_definite
#print axioms Bcder.Props.C01.nested_never_panics_indefinite
#print axioms Bcder.Props.C01.fuel_adequate
#print axioms Bcder.Props.C01.generic_terminates
#print axioms Bcder.Props.C01.leaves_run
#print axioms Bcder.Props.C01.stepG0_err_panic
#print axioms Bcder.Props.C01.parseValue_consumes
