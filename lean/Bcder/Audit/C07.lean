import Bcder.Props.C07
#print axioms Bcder.Props.C07.source_independence
#print axioms Bcder.Props.C07.source_independence_closed
#print axioms Bcder.Props.C07.capture_one_independent
#print axioms Bcder.Props.C07.octet_string_independent
#print axioms Bcder.Props.C07.stingy_conforming
#print axioms Bcder.Props.C07.chunked_conforming
#print axioms Bcder.Props.C07.generic_read_independent
#print axioms Bcder.Props.C07.skip_all_independent
#print axioms Bcder.Props.C07.take_int_independent
