import Bcder.Props.C07
import Bcder.Props.C07b
#print axioms Bcder.Props.C07.source_independence
#print axioms Bcder.Props.C07b.ossPol_conforming
#print axioms Bcder.Props.C07b.request_exact
#print axioms Bcder.Props.C07b.request_sim
#print axioms Bcder.Props.C07b.slice_sim
#print axioms Bcder.Props.C07b.advance_sim
#print axioms Bcder.Props.C07b.advance_past
#print axioms Bcder.Props.C07b.calls_sim
#print axioms Bcder.Props.C07b.oss_is_conforming_source
#print axioms Bcder.Props.C07b.oss_prim_is_conforming_source
#print axioms Bcder.Props.C07.source_independence_closed
#print axioms Bcder.Props.C07.capture_one_independent
#print axioms Bcder.Props.C07.octet_string_independent
#print axioms Bcder.Props.C07.stingy_conforming
#print axioms Bcder.Props.C07.chunked_conforming
#print axioms Bcder.Props.C07.generic_read_independent
#print axioms Bcder.Props.C07.skip_all_independent
#print axioms Bcder.Props.C07.take_int_independent
