import Bcder.Props.C04
