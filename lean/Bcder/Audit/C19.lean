import Bcder.Props.C19
