import Bcder.Props.C15
