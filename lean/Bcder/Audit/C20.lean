import Bcder.Props.C20
