import Bcder.Props.C08
#print axioms Bcder.Props.C08.fault_surfaces
#print axioms Bcder.Props.C08.first_request_fails
#print axioms Bcder.Props.C08.generic_read_fault
#print axioms Bcder.Props.C08.octet_string_fault
