import Bcder.Props.C16
