import Bcder.Props.C12
import Bcder.Props.C12b
#print axioms Bcder.Props.C12.new_octets
#print axioms Bcder.Props.C12.new_number_class
#print axioms Bcder.Props.C12.write_eq_spec
#print axioms Bcder.Props.C12.takeOptFrom_eq_spec
#print axioms Bcder.Props.C12.takeFrom_eq_spec
#print axioms Bcder.Props.C12.tagOf_inj
#print axioms Bcder.Props.C12.takeFromIf_eq_spec
#print axioms Bcder.Props.C12.consts_universal
#print axioms Bcder.Props.C12.consts_distinct
#print axioms Bcder.Props.C12.low_tag_octets
#print axioms Bcder.Props.C12b.read_write
#print axioms Bcder.Props.C12b.write_prefix_free
