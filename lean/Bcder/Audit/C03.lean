import Bcder.Props.C03
#print axioms Bcder.Props.C03.content_isolation
#print axioms Bcder.Props.C03.result_independent_of_rest
#print axioms Bcder.Props.C03.consumes_only_content
#print axioms Bcder.Props.C03.exhausted_iff
#print axioms Bcder.Props.C03.short_read_fails
#print axioms Bcder.Props.C03.full_read_state
#print axioms Bcder.Props.C03.scripts_are_window
