import Bcder.Props.C17
#print axioms Bcder.Props.C17.lexCmp_eq_spec
#print axioms Bcder.Props.C17.lexCompare_eq_iff
#print axioms Bcder.Props.C17.eq_iff_content
#print axioms Bcder.Props.C17.cmp_content
#print axioms Bcder.Props.C17.eqSlice_content
#print axioms Bcder.Props.C17.cmpSlice_content
#print axioms Bcder.Props.C17.len_content
#print axioms Bcder.Props.C17.hash_content
#print axioms Bcder.Props.C17.hashFeed_content
#print axioms Bcder.Props.C17.lexCompare_swap
#print axioms Bcder.Props.C17.lexCompare_trans_lt
#print axioms Bcder.Props.C17.cmp_swap
#print axioms Bcder.Props.C17.cmp_trans
#print axioms Bcder.Props.C17.cmp_eq_iff_eq
