import Bcder.Props.C13
#print axioms Bcder.Props.C13.write_eq_spec
#print axioms Bcder.Props.C13.write_len
#print axioms Bcder.Props.C13.written_minimal
#print axioms Bcder.Props.C13.read_write
#print axioms Bcder.Props.C13.read_eq_spec
#print axioms Bcder.Props.C13.total_len
#print axioms Bcder.Props.C13.write_prefix_free
#print axioms Bcder.Props.C13.write_inj
