import Bcder.Props.C13
open Bcder.Props.C13
#print axioms write_eq_spec
#print axioms write_len
#print axioms written_minimal
#print axioms read_write
#print axioms read_eq_spec
#print axioms total_len
