import Bcder.Props.C11
import Bcder.Props.C11b
import Bcder.Props.C11c
#print axioms Bcder.Props.C11.capture_exact
#print axioms Bcder.Props.C11c.framable_bind
#print axioms Bcder.Props.C11c.capture_run1
#print axioms Bcder.Props.C11c.framable_pnv
#print axioms Bcder.Props.C11c.framable_asConstructed
#print axioms Bcder.Props.C11c.framable_capture
#print axioms Bcder.Props.C11c.good_pnv
#print axioms Bcder.Props.C11c.good_pnvIf
#print axioms Bcder.Props.C11c.good_mandatory
#print axioms Bcder.Props.C11c.good_seq
#print axioms Bcder.Props.C11c.good_skipOpt
#print axioms Bcder.Props.C11c.good_skipOne
#print axioms Bcder.Props.C11c.good_skipAll
#print axioms Bcder.Props.C11c.good_capture
#print axioms Bcder.Props.C11c.good_captureOne
#print axioms Bcder.Props.C11c.good_captureAll
#print axioms Bcder.Props.C11c.capture_no_marker
#print axioms Bcder.Props.C11c.d12b_example
#print axioms Bcder.Props.C11.capture_exact_tracks
#print axioms Bcder.Props.C11.tracks_bind
#print axioms Bcder.Props.C11.tracks_capture
#print axioms Bcder.Props.C11.nested_capture_exact
#print axioms Bcder.Props.C11.nested_example
#print axioms Bcder.Props.C11.capture_one_exact
#print axioms Bcder.Props.C11.capture_all_exact
#print axioms Bcder.Props.C11.eoc_not_captured
#print axioms Bcder.Props.C11b.capture_one_value
#print axioms Bcder.Props.C11b.capture_all_indef_values
#print axioms Bcder.Props.C11b.untilEoc_values
#print axioms Bcder.Props.C11b.parse_prefix
#print axioms Bcder.Props.C11b.captured_value_decodes
#print axioms Bcder.Props.C11b.captured_value_read_later
#print axioms Bcder.Props.C11b.decode_later_same
#print axioms Bcder.Props.C11b.reencode_unchanged
