import Bcder.Props.C11
#print axioms Bcder.Props.C11.capture_exact
#print axioms Bcder.Props.C11.capture_one_exact
#print axioms Bcder.Props.C11.capture_all_exact
#print axioms Bcder.Props.C11.eoc_counterexample
