/-
  C13 — Length octets are written minimally and read back exactly, per mode.
  Property theorems only; helper lemmas live in Bcder/Lemmas.
-/
import Bcder.Model.Length
import Bcder.Spec.X690
import Bcder.Lemmas.Bytes
import Bcder.Lemmas.RunG
namespace Bcder.Props.C13
open Bcder Bcder.Spec

/-! ### the reference digits, explicitly, for every size class below 2^32 -/

theorem be256_zero (f : Nat) : be256 f 0 = [] := by cases f <;> simp [be256]

theorem be256_fuel : ∀ (f g n : Nat), n < f → n < g → be256 f n = be256 g n := by
  intro f
  induction f with
  | zero => intro g n h; omega
  | succ f ih =>
    intro g n hf hg
    cases g with
    | zero => omega
    | succ g =>
      simp only [be256]
      by_cases h0 : n = 0
      · simp [h0]
      · simp only [h0, if_false]
        have : n / 256 < n := Nat.div_lt_self (by omega) (by omega)
        rw [ih g (n / 256) (by omega) (by omega)]

theorem be256_1 (n : Nat) (h0 : 0 < n) (h : n < 256) : be256 (n + 1) n = [UInt8.ofNat n] := by
  have hd : n / 256 = 0 := by omega
  have hm : n % 256 = n := by omega
  simp [be256, hd, hm, be256_zero]; omega

theorem be256_step (n : Nat) (h : 256 ≤ n) :
    be256 (n + 1) n = be256 (n / 256 + 1) (n / 256) ++ [UInt8.ofNat (n % 256)] := by
  have h0 : n ≠ 0 := by omega
  have : n / 256 < n := Nat.div_lt_self (by omega) (by omega)
  rw [show be256 (n + 1) n
        = (if n = 0 then [] else be256 n (n / 256) ++ [UInt8.ofNat (n % 256)]) from rfl]
  simp only [h0, if_false]
  rw [be256_fuel n (n / 256 + 1) (n / 256) this (by omega)]

theorem be256_2 (n : Nat) (h0 : 256 ≤ n) (h : n < 65536) :
    be256 (n + 1) n = [UInt8.ofNat (n / 256), UInt8.ofNat n] := by
  rw [be256_step n h0, be256_1 (n / 256) (by omega) (by omega), ofNat_mod256]; rfl

theorem be256_3 (n : Nat) (h0 : 65536 ≤ n) (h : n < 16777216) :
    be256 (n + 1) n = [UInt8.ofNat (n / 65536), UInt8.ofNat (n / 256), UInt8.ofNat n] := by
  rw [be256_step n (by omega), be256_2 (n / 256) (by omega) (by omega), ofNat_mod256]
  have : n / 256 / 256 = n / 65536 := by omega
  rw [this]; rfl

theorem be256_4 (n : Nat) (h0 : 16777216 ≤ n) (h : n < 4294967296) :
    be256 (n + 1) n =
      [UInt8.ofNat (n / 16777216), UInt8.ofNat (n / 65536), UInt8.ofNat (n / 256), UInt8.ofNat n] := by
  rw [be256_step n (by omega), be256_3 (n / 256) (by omega) (by omega), ofNat_mod256]
  have h1 : n / 256 / 65536 = n / 16777216 := by omega
  have h2 : n / 256 / 256 = n / 65536 := by omega
  rw [h1, h2]; rfl

/-- C13.1 — the writer emits exactly the reference (shortest) definite form -/
theorem write_eq_spec (n : Nat) (h : n < 2 ^ 32) :
    (Length.definite n).write = .ok (lenOctets n) := by
  have h' : n < 4294967296 := by simpa using h
  unfold Length.write lenOctets
  by_cases h1 : n < 0x80
  · simp [h1]
  · by_cases h2 : n < 0x100
    ·       simp [h1, h2, be256_1 n (by omega) (by omega)]
    · by_cases h3 : n < 0x10000
      ·         simp [h1, h2, h3, be256_2 n (by omega) (by omega), Nat.shiftRight_eq_div_pow]
      · by_cases h4 : n < 0x1000000
        ·           simp [h1, h2, h3, h4, be256_3 n (by omega) (by omega), Nat.shiftRight_eq_div_pow]
        ·           simp [h1, h2, h3, h4, h', be256_4 n (by omega) (by omega), Nat.shiftRight_eq_div_pow]

/-- C13.1 — the reported size is the size written -/
theorem write_len (n : Nat) (h : n < 2 ^ 32) :
    (Length.definite n).encodedLen = .ok (lenOctets n).length := by
  have h' : n < 4294967296 := by simpa using h
  unfold Length.encodedLen lenOctets
  by_cases h1 : n < 0x80
  · simp [h1]
  · by_cases h2 : n < 0x100
    ·       simp [h1, h2, be256_1 n (by omega) (by omega)]
    · by_cases h3 : n < 0x10000
      ·         simp [h1, h2, h3, be256_2 n (by omega) (by omega)]
      · by_cases h4 : n < 0x1000000
        ·           simp [h1, h2, h3, h4, be256_3 n (by omega) (by omega)]
        ·           simp [h1, h2, h3, h4, h', be256_4 n (by omega) (by omega)]

/-- C13.4 — `total_encoded_len` is header octets written plus content length -/
theorem total_len (tag : Tag) (c : Bool) (n : Nat) (h : n < 2 ^ 32) :
    ∃ hdr, writeHeader tag c n = .ok hdr ∧ totalEncodedLen tag n = .ok (hdr.length + n) := by
  refine ⟨tag.write c ++ lenOctets n, ?_, ?_⟩
  · simp [writeHeader, write_eq_spec n h, bind, Except.bind, pure, Except.pure]
  · have hl : (tag.write c).length = tag.encodedLen := by
      simp only [Tag.write, Tag.encodedLen]
      split <;> (try split) <;> (try split) <;> simp
    simp [totalEncodedLen, write_len n h, bind, Except.bind, pure, Except.pure, hl]

end Bcder.Props.C13

namespace Bcder.Props.C13
open Bcder Bcder.Spec

/-- how a reference result is expressed as a result of the model reader on a plain source -/
def specResult (bs : Bytes) : Option (Option Nat × Nat) → Res (Length × G)
  | none => .error .content
  | some (some n, k) => .ok (.definite n, G.plain (bs.drop k))
  | some (none, k) => .ok (.indefinite, G.plain (bs.drop k))

theorem lenOctets_1 (v : Nat) (h : v < 128) : lenOctets v = [UInt8.ofNat v] := by
  simp [lenOctets, h]
theorem lenOctets_2 (v : Nat) (h0 : 128 ≤ v) (h : v < 256) : lenOctets v = [0x81, UInt8.ofNat v] := by
  have : ¬ v < 128 := by omega
  simp [lenOctets, this, be256_1 v (by omega) h]
theorem lenOctets_3 (v : Nat) (h0 : 256 ≤ v) (h : v < 65536) :
    lenOctets v = [0x82, UInt8.ofNat (v / 256), UInt8.ofNat v] := by
  have : ¬ v < 128 := by omega
  simp [lenOctets, this, be256_2 v h0 h]
theorem lenOctets_4 (v : Nat) (h0 : 65536 ≤ v) (h : v < 16777216) :
    lenOctets v = [0x83, UInt8.ofNat (v / 65536), UInt8.ofNat (v / 256), UInt8.ofNat v] := by
  have : ¬ v < 128 := by omega
  simp [lenOctets, this, be256_3 v h0 h]
theorem lenOctets_5 (v : Nat) (h0 : 16777216 ≤ v) (h : v < 4294967296) :
    lenOctets v = [0x84, UInt8.ofNat (v / 16777216), UInt8.ofNat (v / 65536), UInt8.ofNat (v / 256),
                   UInt8.ofNat v] := by
  have : ¬ v < 128 := by omega
  simp [lenOctets, this, be256_4 v h0 h]

theorem lenOctets_length_le (v : Nat) (h : v < 4294967296) : (lenOctets v).length ≤ 5 := by
  by_cases h1 : v < 128
  · simp [lenOctets_1 v h1]
  · by_cases h2 : v < 256
    · simp [lenOctets_2 v (by omega) h2]
    · by_cases h3 : v < 65536
      · simp [lenOctets_3 v (by omega) h3]
      · by_cases h4 : v < 16777216
        · simp [lenOctets_4 v (by omega) h4]
        · simp [lenOctets_5 v (by omega) h]

end Bcder.Props.C13

namespace Bcder.Props.C13
open Bcder Bcder.Spec Prog

theorem shl8 (a b : Nat) (h : b < 256) : (a <<< 8) ||| b = a * 256 + b := shl_or a b 8 h
theorem shl16 (a b c : Nat) (hb : b < 256) (hc : c < 256) :
    (a <<< 16) ||| (b <<< 8) ||| c = a * 65536 + b * 256 + c := by
  rw [Nat.or_assoc, shl8 b c hc, shl_or a (b * 256 + c) 16 (by omega)]; omega
theorem shl24 (a b c d : Nat) (hb : b < 256) (hc : c < 256) (hd : d < 256) :
    (a <<< 24) ||| (b <<< 16) ||| (c <<< 8) ||| d = a * 16777216 + b * 65536 + c * 256 + d := by
  rw [Nat.or_assoc, Nat.or_assoc, ← Nat.or_assoc (b <<< 16), shl16 b c d hc hd,
      shl_or a (b * 65536 + c * 256 + d) 24 (by omega)]
  omega

/-- the reader on a plain source, one case per first octet, in arithmetic form -/
theorem takeFrom_cons (m : Mode) (b : UInt8) (rest : Bytes) :
    runG (Length.takeFrom m) (G.plain (b :: rest)) =
      if b.toNat < 128 then .ok (.definite b.toNat, G.plain rest)
      else if b.toNat = 128 then .ok (.indefinite, G.plain rest)
      else if b.toNat = 129 then
        match rest with
        | a :: r =>
          if m.isBer || decide (127 < a.toNat) then .ok (.definite a.toNat, G.plain r) else .error .content
        | [] => .error .content
      else if b.toNat = 130 then
        match rest with
        | a :: c :: r =>
          if m.isBer || decide (255 < a.toNat * 256 + c.toNat)
          then .ok (.definite (a.toNat * 256 + c.toNat), G.plain r) else .error .content
        | _ => .error .content
      else if b.toNat = 131 then
        match rest with
        | a :: c :: d :: r =>
          if m.isBer || decide (65535 < a.toNat * 65536 + c.toNat * 256 + d.toNat)
          then .ok (.definite (a.toNat * 65536 + c.toNat * 256 + d.toNat), G.plain r)
          else .error .content
        | _ => .error .content
      else if b.toNat = 132 then
        match rest with
        | a :: c :: d :: e :: r =>
          if m.isBer || decide (16777215 < a.toNat * 16777216 + c.toNat * 65536 + d.toNat * 256 + e.toNat)
          then .ok (.definite (a.toNat * 16777216 + c.toNat * 65536 + d.toNat * 256 + e.toNat), G.plain r)
          else .error .content
        | _ => .error .content
      else .error .content := by
  unfold Length.takeFrom
  simp only [byte_and80_eq0]
  simp only [runG_bind, runG_takeU8_plain_cons, byte_beq_iff]
  have c128 : (0x80 : UInt8).toNat = 128 := rfl
  have c129 : (0x81 : UInt8).toNat = 129 := rfl
  have c130 : (0x82 : UInt8).toNat = 130 := rfl
  have c131 : (0x83 : UInt8).toNat = 131 := rfl
  have c132 : (0x84 : UInt8).toNat = 132 := rfl
  simp only [c128, c129, c130, c131, c132]
  by_cases h0 : b.toNat < 128
  · simp [h0]
  · simp only [h0, decide_false, decide_true, Bool.false_eq_true, if_false]
    by_cases h1 : b.toNat = 128
    · simp [h1]
    · simp only [h1, decide_false, Bool.false_eq_true, if_false]
      by_cases h2 : b.toNat = 129
      · simp only [h2, decide_true, if_true]
        cases rest with
        | nil => simp [runG_bind]
        | cons a r => simp [runG_bind, runG_ite]
      · simp only [h2, decide_false, Bool.false_eq_true, if_false]
        by_cases h3 : b.toNat = 130
        · simp only [h3, decide_true, if_true]
          match rest with
          | [] => simp [runG_bind]
          | [a] => simp [runG_bind]
          | a :: c :: r => simp [runG_bind, runG_ite, shl8 _ _ (byte_lt_256 c)]
        · simp only [h3, decide_false, Bool.false_eq_true, if_false]
          by_cases h4 : b.toNat = 131
          · simp only [h4, decide_true, if_true]
            match rest with
            | [] => simp [runG_bind]
            | [a] => simp [runG_bind]
            | [a, c] => simp [runG_bind]
            | a :: c :: d :: r =>
              simp [runG_bind, runG_ite, shl16 _ _ _ (byte_lt_256 c) (byte_lt_256 d)]
          · simp only [h4, decide_false, Bool.false_eq_true, if_false]
            by_cases h5 : b.toNat = 132
            · simp only [h5, decide_true, if_true]
              match rest with
              | [] => simp [runG_bind]
              | [a] => simp [runG_bind]
              | [a, c] => simp [runG_bind]
              | [a, c, d] => simp [runG_bind]
              | a :: c :: d :: e :: r =>
                simp [runG_bind, runG_ite, shl24 _ _ _ _ (byte_lt_256 c) (byte_lt_256 d) (byte_lt_256 e)]
            · simp [h5]

theorem takeFrom_nil (m : Mode) : runG (Length.takeFrom m) (G.plain []) = .error .content := by
  simp [Length.takeFrom, runG_bind]

/-- C13.2 — every mode reads the written form back as the same number, consuming exactly it -/
theorem read_write (m : Mode) (n : Nat) (rest : Bytes) (h : n < 2 ^ 32) :
    runG (Length.takeFrom m) (G.plain (lenOctets n ++ rest)) = .ok (.definite n, G.plain rest) := by
  have h' : n < 4294967296 := by simpa using h
  by_cases h1 : n < 128
  · rw [lenOctets_1 n h1]
    have e : n % 256 = n := by omega
    simp [takeFrom_cons, toNat_ofNat, e, h1]
  · by_cases h2 : n < 256
    · rw [lenOctets_2 n (by omega) h2]
      have e : n % 256 = n := by omega
      have g : 127 < n := by omega
      simp [takeFrom_cons, toNat_ofNat, e, g]
    · by_cases h3 : n < 65536
      · rw [lenOctets_3 n (by omega) h3]
        have e : (n / 256 % 256) * 256 + n % 256 = n := by omega
        have g : 255 < n := by omega
        simp [takeFrom_cons, toNat_ofNat, e, g]
      · by_cases h4 : n < 16777216
        · rw [lenOctets_4 n (by omega) h4]
          have e : (n / 65536 % 256) * 65536 + (n / 256 % 256) * 256 + n % 256 = n := by omega
          have g : 65535 < n := by omega
          simp [takeFrom_cons, toNat_ofNat, e, g]
        · rw [lenOctets_5 n (by omega) h']
          have e : (n / 16777216 % 256) * 16777216 + (n / 65536 % 256) * 65536
              + (n / 256 % 256) * 256 + n % 256 = n := by omega
          have g : 16777215 < n := by omega
          simp [takeFrom_cons, toNat_ofNat, e, g]

end Bcder.Props.C13

namespace Bcder.Props.C13
open Bcder Bcder.Spec Prog

theorem byte_of_toNat (b : UInt8) (n : Nat) (h : b.toNat = n) : b = UInt8.ofNat n := by
  rw [← h, ofNat_toNat]

/-- the minimal-form test of the reference, per size class -/
theorem minimal_1 (b a : UInt8) (hb : b.toNat = 129) :
    (lenOctets a.toNat = [b, a]) ↔ 127 < a.toNat := by
  have ha := byte_lt_256 a
  constructor
  · intro h
    by_cases h1 : a.toNat < 128
    · rw [lenOctets_1 _ h1] at h; simp at h
    · omega
  · intro h
    rw [lenOctets_2 _ (by omega) ha, ofNat_toNat, byte_of_toNat b 129 hb]; rfl

theorem minimal_2 (b a c : UInt8) (hb : b.toNat = 130) :
    (lenOctets (a.toNat * 256 + c.toNat) = [b, a, c]) ↔ 255 < a.toNat * 256 + c.toNat := by
  have ha := byte_lt_256 a; have hc := byte_lt_256 c
  constructor
  · intro h
    by_cases h1 : a.toNat * 256 + c.toNat < 128
    · rw [lenOctets_1 _ h1] at h; simp at h
    · by_cases h2 : a.toNat * 256 + c.toNat < 256
      · rw [lenOctets_2 _ (by omega) h2] at h; simp at h
      · omega
  · intro h
    rw [lenOctets_3 _ (by omega) (by omega), byte_of_toNat b 130 hb]
    have e1 : (a.toNat * 256 + c.toNat) / 256 = a.toNat := by omega
    have e2 : UInt8.ofNat (a.toNat * 256 + c.toNat) = c := by
      rw [← ofNat_mod256]; have : (a.toNat * 256 + c.toNat) % 256 = c.toNat := by omega
      rw [this, ofNat_toNat]
    rw [e1, e2, ofNat_toNat]; rfl

theorem minimal_3 (b a c d : UInt8) (hb : b.toNat = 131) :
    (lenOctets (a.toNat * 65536 + c.toNat * 256 + d.toNat) = [b, a, c, d])
      ↔ 65535 < a.toNat * 65536 + c.toNat * 256 + d.toNat := by
  have ha := byte_lt_256 a; have hc := byte_lt_256 c; have hd := byte_lt_256 d
  constructor
  · intro h
    by_cases h1 : a.toNat * 65536 + c.toNat * 256 + d.toNat < 128
    · rw [lenOctets_1 _ h1] at h; simp at h
    · by_cases h2 : a.toNat * 65536 + c.toNat * 256 + d.toNat < 256
      · rw [lenOctets_2 _ (by omega) h2] at h; simp at h
      · by_cases h3 : a.toNat * 65536 + c.toNat * 256 + d.toNat < 65536
        · rw [lenOctets_3 _ (by omega) h3] at h; simp at h
        · omega
  · intro h
    rw [lenOctets_4 _ (by omega) (by omega), byte_of_toNat b 131 hb]
    have e1 : (a.toNat * 65536 + c.toNat * 256 + d.toNat) / 65536 = a.toNat := by omega
    have e2 : UInt8.ofNat ((a.toNat * 65536 + c.toNat * 256 + d.toNat) / 256) = c := by
      rw [← ofNat_mod256]
      have : (a.toNat * 65536 + c.toNat * 256 + d.toNat) / 256 % 256 = c.toNat := by omega
      rw [this, ofNat_toNat]
    have e3 : UInt8.ofNat (a.toNat * 65536 + c.toNat * 256 + d.toNat) = d := by
      rw [← ofNat_mod256]
      have : (a.toNat * 65536 + c.toNat * 256 + d.toNat) % 256 = d.toNat := by omega
      rw [this, ofNat_toNat]
    rw [e1, e2, e3, ofNat_toNat]; rfl

theorem minimal_4 (b a c d e : UInt8) (hb : b.toNat = 132) :
    (lenOctets (a.toNat * 16777216 + c.toNat * 65536 + d.toNat * 256 + e.toNat) = [b, a, c, d, e])
      ↔ 16777215 < a.toNat * 16777216 + c.toNat * 65536 + d.toNat * 256 + e.toNat := by
  have ha := byte_lt_256 a; have hc := byte_lt_256 c; have hd := byte_lt_256 d
  have he := byte_lt_256 e
  constructor
  · intro h
    by_cases h1 : a.toNat * 16777216 + c.toNat * 65536 + d.toNat * 256 + e.toNat < 128
    · rw [lenOctets_1 _ h1] at h; simp at h
    · by_cases h2 : a.toNat * 16777216 + c.toNat * 65536 + d.toNat * 256 + e.toNat < 256
      · rw [lenOctets_2 _ (by omega) h2] at h; simp at h
      · by_cases h3 : a.toNat * 16777216 + c.toNat * 65536 + d.toNat * 256 + e.toNat < 65536
        · rw [lenOctets_3 _ (by omega) h3] at h; simp at h
        · by_cases h4 : a.toNat * 16777216 + c.toNat * 65536 + d.toNat * 256 + e.toNat < 16777216
          · rw [lenOctets_4 _ (by omega) h4] at h; simp at h
          · omega
  · intro h
    rw [lenOctets_5 _ (by omega) (by omega), byte_of_toNat b 132 hb]
    have e1 : (a.toNat * 16777216 + c.toNat * 65536 + d.toNat * 256 + e.toNat) / 16777216 = a.toNat := by
      omega
    have e2 : UInt8.ofNat ((a.toNat * 16777216 + c.toNat * 65536 + d.toNat * 256 + e.toNat) / 65536) = c := by
      rw [← ofNat_mod256]
      have : (a.toNat * 16777216 + c.toNat * 65536 + d.toNat * 256 + e.toNat) / 65536 % 256 = c.toNat := by
        omega
      rw [this, ofNat_toNat]
    have e3 : UInt8.ofNat ((a.toNat * 16777216 + c.toNat * 65536 + d.toNat * 256 + e.toNat) / 256) = d := by
      rw [← ofNat_mod256]
      have : (a.toNat * 16777216 + c.toNat * 65536 + d.toNat * 256 + e.toNat) / 256 % 256 = d.toNat := by
        omega
      rw [this, ofNat_toNat]
    have e4 : UInt8.ofNat (a.toNat * 16777216 + c.toNat * 65536 + d.toNat * 256 + e.toNat) = e := by
      rw [← ofNat_mod256]
      have : (a.toNat * 16777216 + c.toNat * 65536 + d.toNat * 256 + e.toNat) % 256 = e.toNat := by omega
      rw [this, ofNat_toNat]
    rw [e1, e2, e3, e4, ofNat_toNat]; rfl

/-- C13.3 — on EVERY input the reader does what the reference says: big-endian value in BER,
    only the shortest form in CER/DER, 0x80 indefinite, more than four length octets or a
    truncated form rejected, and exactly the length octets are consumed. -/
theorem read_eq_spec (m : Mode) (bs : Bytes) :
    runG (Length.takeFrom m) (G.plain bs) = specResult bs (readLen m.isBer bs) := by
  cases bs with
  | nil => simp [takeFrom_nil, readLen, specResult]
  | cons b rest =>
    rw [takeFrom_cons]
    have hb := byte_lt_256 b
    by_cases h0 : b.toNat < 128
    · simp [h0, readLen, specResult]
    · by_cases h1 : b.toNat = 128
      · simp [h1, readLen, specResult]
      · by_cases h2 : b.toNat = 129
        · match rest with
          | [] => simp [h2, readLen, specResult]
          | a :: r =>
            have := minimal_1 b a h2
            cases hm : m.isBer <;>
              by_cases hv : 127 < a.toNat <;>
                simp [h2, readLen, specResult, beValue, hm, hv, this]
        · by_cases h3 : b.toNat = 130
          · match rest with
            | [] => simp [h3, readLen, specResult]
            | [a] => simp [h3, readLen, specResult]
            | a :: c :: r =>
              have := minimal_2 b a c h3
              have hl : ¬ r.length + 1 + 1 < 2 := by omega
              cases hm : m.isBer <;>
                by_cases hv : 255 < a.toNat * 256 + c.toNat <;>
                  simp [h3, readLen, specResult, beValue, hm, hv, this, hl]
          · by_cases h4 : b.toNat = 131
            · match rest with
              | [] => simp [h4, readLen, specResult]
              | [a] => simp [h4, readLen, specResult]
              | [a, c] => simp [h4, readLen, specResult]
              | a :: c :: d :: r =>
                have := minimal_3 b a c d h4
                have hl : ¬ r.length + 1 + 1 + 1 < 3 := by omega
                have e : (a.toNat * 256 + c.toNat) * 256 + d.toNat
                    = a.toNat * 65536 + c.toNat * 256 + d.toNat := by omega
                cases hm : m.isBer <;>
                  by_cases hv : 65535 < a.toNat * 65536 + c.toNat * 256 + d.toNat <;>
                    simp [h4, readLen, specResult, beValue, hm, hv, this, e, hl]
            · by_cases h5 : b.toNat = 132
              · match rest with
                | [] => simp [h5, readLen, specResult]
                | [a] => simp [h5, readLen, specResult]
                | [a, c] => simp [h5, readLen, specResult]
                | [a, c, d] => simp [h5, readLen, specResult]
                | a :: c :: d :: e :: r =>
                  have := minimal_4 b a c d e h5
                  have hl : ¬ r.length + 1 + 1 + 1 + 1 < 4 := by omega
                  have eq : ((a.toNat * 256 + c.toNat) * 256 + d.toNat) * 256 + e.toNat
                      = a.toNat * 16777216 + c.toNat * 65536 + d.toNat * 256 + e.toNat := by omega
                  cases hm : m.isBer <;>
                    by_cases hv : 16777215 < a.toNat * 16777216 + c.toNat * 65536 + d.toNat * 256 + e.toNat <;>
                      simp [h5, readLen, specResult, beValue, hm, hv, this, eq, hl]
              · have : 4 < b.toNat - 128 := by omega
                simp [h0, h1, h2, h3, h4, h5, readLen, specResult, this]

/-- C13.1 (minimality) — no definite form with the same value is shorter than what is written -/
theorem written_minimal (bs : Bytes) (n k : Nat) (h : readLen true bs = some (some n, k)) (hn : n < 2 ^ 32) :
    (lenOctets n).length ≤ k := by
  have h32 : n < 4294967296 := by simpa using hn
  cases bs with
  | nil => simp [readLen] at h
  | cons b rest =>
    simp only [readLen] at h
    split at h
    · simp at h; obtain ⟨h1, h2⟩ := h
      have : n < 128 := by omega
      rw [lenOctets_1 n this]; simp [← h2]
    · split at h
      · simp at h
      · split at h
        · simp at h
        · split at h
          · simp at h
          · simp at h
            obtain ⟨hv, hk⟩ := h
            -- the value of j octets is below 256^j
            have hlen : (rest.take (b.toNat - 128)).length = b.toNat - 128 := by
              simp [List.length_take]; omega
            have bound : ∀ (l : Bytes), beValue l < 256 ^ l.length := by
              intro l
              have : ∀ (l : Bytes) (acc : Nat), l.foldl (fun acc b => acc * 256 + b.toNat) acc
                  < (acc + 1) * 256 ^ l.length := by
                intro l
                induction l with
                | nil => intro acc; simp
                | cons x xs ih =>
                  intro acc
                  have hx := byte_lt_256 x
                  have := ih (acc * 256 + x.toNat)
                  simp only [List.foldl, List.length_cons, Nat.pow_succ]
                  calc _ < (acc * 256 + x.toNat + 1) * 256 ^ xs.length := this
                    _ ≤ ((acc + 1) * 256) * 256 ^ xs.length := Nat.mul_le_mul_right _ (by omega)
                    _ = (acc + 1) * (256 ^ xs.length * 256) := by rw [Nat.mul_assoc, Nat.mul_comm 256]
              cases l with
              | nil => simp [beValue]
              | cons x xs => simpa [beValue] using this (x :: xs) 0
            have hb := bound (rest.take (b.toNat - 128))
            rw [hlen, hv] at hb
            by_cases h1 : n < 128
            · rw [lenOctets_1 n h1]; simp; omega
            · by_cases h2 : n < 256
              · rw [lenOctets_2 n (by omega) h2]; simp; omega
              · have k2 : 2 ≤ b.toNat - 128 := by
                  rcases Nat.lt_or_ge (b.toNat - 128) 2 with hh | hh
                  · have : b.toNat - 128 = 0 ∨ b.toNat - 128 = 1 := by omega
                    rcases this with e | e <;> rw [e] at hb <;> omega
                  · exact hh
                by_cases h3 : n < 65536
                · rw [lenOctets_3 n (by omega) h3]; simp; omega
                · have k3 : 3 ≤ b.toNat - 128 := by
                    rcases Nat.lt_or_ge (b.toNat - 128) 3 with hh | hh
                    · have : b.toNat - 128 = 2 := by omega
                      rw [this] at hb; omega
                    · exact hh
                  by_cases h4 : n < 16777216
                  · rw [lenOctets_4 n (by omega) h4]; simp; omega
                  · have k4 : 4 ≤ b.toNat - 128 := by
                      rcases Nat.lt_or_ge (b.toNat - 128) 4 with hh | hh
                      · have : b.toNat - 128 = 3 := by omega
                        rw [this] at hb; omega
                      · exact hh
                    rw [lenOctets_5 n (by omega) h32]; simp; omega

/-- the premises of `written_minimal` are satisfiable: a non-minimal BER form of 5 -/
example : readLen true [0x82, 0x00, 0x05] = some (some 5, 3) ∧ (lenOctets 5).length ≤ 3 := by
  decide


/-! ### the written forms are self-delimiting (session 5) -/

/-- C13 — the written length octets are self-delimiting: if the forms of two lengths below 2^32,
each followed by anything, give the same octets, the lengths are equal and so is what follows
(no written form is a proper prefix of another: a header can be cut off a stream unambiguously). -/
theorem write_prefix_free (n k : Nat) (r s : Bytes) (hn : n < 2 ^ 32) (hk : k < 2 ^ 32)
    (h : lenOctets n ++ r = lenOctets k ++ s) : n = k ∧ r = s := by
  have a := read_write .der n r hn
  have b := read_write .der k s hk
  rw [h, b] at a
  injection a with a
  simp only [Prod.mk.injEq, Length.definite.injEq] at a
  refine ⟨a.1.symm, ?_⟩
  have := a.2
  simpa [G.plain] using this.symm

/-- distinct lengths are written differently -/
theorem write_inj (n k : Nat) (hn : n < 2 ^ 32) (hk : k < 2 ^ 32)
    (h : lenOctets n = lenOctets k) : n = k :=
  (write_prefix_free n k [] [] hn hk (by rw [h])).1

example : lenOctets 127 ++ [0x81, 0x80] ≠ lenOctets 128 ++ [0x7F] := by decide

end Bcder.Props.C13
