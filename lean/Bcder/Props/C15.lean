/-
  C15 — Arbitrary-size integers behave like the numbers they encode.

  An `Integer` / `Unsigned` of src/int.rs is represented in the model by its content octets
  (`Bytes`).  Decoding only ever produces minimal two's complement forms (`Spec.isMinimalTC`; for
  `Unsigned` additionally non-negative) — that is `integerFromPrimitive_spec` /
  `unsignedFromPrimitive_spec` below — and `Unsigned::from_bytes` / `From<iN>` produce such forms too
  (`unsignedFromBytes_spec`, `encInt_spec`), so `isMinimalTC a` is the invariant of the type and the
  hypothesis of the theorems.  Everything is proved for ALL octet strings of ANY length (no size
  bound; induction over the list), with the number given by the reference `Spec.tcValue : Bytes → Int`.

  Main theorems
  * toolkit: `beValue_cons`, `beValue_lt`, `beValue_append`, `beValue_inj`, `cmpZip_eq_compare`
    (the `zip` loop of `Ord` on equal lengths is `compare` of the big-endian values),
    `tcValue_range` (n octets: value in [-2^(8n-1), 2^(8n-1))), `minimal_magnitude` (minimal n ≥ 2
    octets: value ≥ 2^(8n-9) resp. < -2^(8n-9)), `longer_larger_magnitude`.
  * `cmp_eq_value`: `Ord::cmp` on minimal forms is `compare` of the numbers (never panics).
  * `eq_iff_value` / `minimal_inj`: `PartialEq` (octet equality, which is also what `Hash` feeds) holds
    exactly when the numbers are equal: minimal forms are unique, so equal numbers have equal hashes.
  * `isZero_iff_value`, `isPositive_eq_value`, `isNegative_eq_value`: the three predicates.
  * `unsignedFromBytes_spec`, `unsignedFromBytes_nil`, `unsignedFromBytes_of_minimal`:
    `Unsigned::from_bytes/from_slice/try_from` on EVERY non-empty magnitude (any number of leading
    zeros, all zeros included) returns the minimal form of exactly that number and never panics;
    the empty magnitude is refused.
  * `integerFromPrimitive_spec`, `unsignedFromPrimitive_spec` (under `runG0`, content window
    `St (c ++ rest) (some c.length)`): accepted iff minimal (and non-negative), value kept verbatim,
    content fully consumed, otherwise a content error.
  * `sliceToSigned_value`, `sliceToUnsigned_value` (+ `_decodeInt` forms against `Spec.decodeInt`):
    `TryFrom<&Integer/&Unsigned> for iN/uN` for every width `w ≥ 1` (any `w` for unsigned): `Some` of
    the number exactly when `Spec.inRange` holds, else the overflow error, never a panic.
  * `encInt_spec`, `from_then_toSigned`, `from_then_toUnsigned`: `From<iN/uN>` writes the minimal
    form of exactly the number, for all ten builtin types and every value of the type.

  Hypotheses / NOT covered
  * On non-minimal octets (e.g. `00 00`) `cmp`, `eq`, `is_positive` do NOT agree with the numbers
    (examples at the end): such values are unreachable through the safe constructors modelled
    here; `from_bytes_unchecked` (which skips the check) is out of scope.
  * On the empty list `is_positive`, `is_negative`, `cmp`, the `TryFrom` conversions index out of
    bounds (the model returns `.panic`); `isMinimalTC [] = false` excludes it, and no modelled
    constructor produces it.
  * `Hash` itself is not modelled beyond "hashes the content octets"; `PartialOrd`, `Display`
    etc. are not modelled.  The link `r = Spec.minimalTC n` (the *constructive* minimal form) is not
    proved here; `isMinimalTC r ∧ tcValue r = n` determines `r` uniquely by `minimal_inj`.
  * `sliceToSigned_value` needs `w ≥ 1` only because `Spec.inRange true 0` is the degenerate
    range [-1, 1) (example at the end); the Rust types have `w ∈ {1,2,4,8,16}`.
-/
import Bcder.Model.Int
import Bcder.Spec.Values
import Bcder.Lemmas.Bytes
import Bcder.Lemmas.G0
import Bcder.Props.C02
namespace Bcder.Props.C15
open Bcder Bcder.Spec
open Bcder.Props.C02 (St run_takeAll run_limitedExhausted run_getLimit run_need)

theorem beValue_eq_foldl (bs : Bytes) :
    beValue bs = bs.foldl (fun acc b => acc * 256 + b.toNat) 0 := by
  cases bs <;> rfl

theorem foldl_acc (bs : Bytes) (acc : Nat) :
    bs.foldl (fun acc b => acc * 256 + b.toNat) acc
      = acc * 256 ^ bs.length + bs.foldl (fun acc b => acc * 256 + b.toNat) 0 := by
  induction bs generalizing acc with
  | nil => simp
  | cons b s ih =>
    simp only [List.foldl_cons, List.length_cons]
    rw [ih (acc * 256 + b.toNat), ih (0 * 256 + b.toNat), Nat.pow_succ]
    grind

theorem beValue_cons (a : UInt8) (s : Bytes) :
    beValue (a :: s) = a.toNat * 256 ^ s.length + beValue s := by
  rw [beValue_eq_foldl, beValue_eq_foldl, List.foldl_cons, foldl_acc]; simp

theorem beValue_nil : beValue [] = 0 := rfl

theorem beValue_lt (s : Bytes) : beValue s < 256 ^ s.length := by
  induction s with
  | nil => simp [beValue_nil]
  | cons a s ih =>
    rw [beValue_cons, List.length_cons, Nat.pow_succ]
    have := byte_lt_256 a
    have h : (a.toNat + 1) * 256 ^ s.length ≤ 256 * 256 ^ s.length := Nat.mul_le_mul_right _ (by omega)
    rw [Nat.add_mul] at h
    omega

theorem beValue_append (a b : Bytes) :
    beValue (a ++ b) = beValue a * 256 ^ b.length + beValue b := by
  induction a with
  | nil => simp [beValue_nil]
  | cons x a ih =>
    rw [List.cons_append, beValue_cons, beValue_cons, ih, List.length_append, Nat.pow_add]
    grind

theorem beValue_replicate_zero (k : Nat) : beValue (List.replicate k (0 : UInt8)) = 0 := by
  induction k with
  | zero => rfl
  | succ k ih => rw [List.replicate_succ, beValue_cons, ih]; simp

theorem beValue_replicate_ff (k : Nat) : beValue (List.replicate k (0xFF : UInt8)) + 1 = 256 ^ k := by
  induction k with
  | zero => rfl
  | succ k ih =>
    rw [List.replicate_succ, beValue_cons, List.length_replicate, Nat.pow_succ]
    have : (0xFF : UInt8).toNat = 255 := rfl
    rw [this]; omega

theorem lex_lt (x y p a b : Nat) (hxy : x < y) (ha : a < p) : x * p + a < y * p + b := by
  have h : (x + 1) * p ≤ y * p := Nat.mul_le_mul_right p hxy
  rw [Nat.add_mul] at h
  omega

theorem cmpZip_eq_compare (a b : Bytes) (h : a.length = b.length) :
    BigInt.cmpZip a b = compare (beValue a) (beValue b) := by
  induction a generalizing b with
  | nil =>
    cases b with
    | nil => rfl
    | cons _ _ => simp at h
  | cons x a ih =>
    cases b with
    | nil => simp at h
    | cons y b =>
      have hl : a.length = b.length := by simpa using h
      have ha := beValue_lt a
      have hb := beValue_lt b
      rw [BigInt.cmpZip, beValue_cons, beValue_cons, hl]
      rw [hl] at ha
      by_cases h1 : x < y
      · rw [if_pos h1]
        symm; rw [Nat.compare_eq_lt]
        exact lex_lt _ _ _ _ _ (UInt8.lt_iff_toNat_lt.mp h1) ha
      · rw [if_neg h1]
        by_cases h2 : x > y
        · rw [if_pos h2]
          symm; rw [Nat.compare_eq_gt]
          exact lex_lt _ _ _ _ _ (UInt8.lt_iff_toNat_lt.mp h2) hb
        · rw [if_neg h2]
          have : x.toNat = y.toNat := by
            have h1' : ¬ x.toNat < y.toNat := fun h => h1 (UInt8.lt_iff_toNat_lt.mpr h)
            have h2' : ¬ y.toNat < x.toNat := fun h => h2 (UInt8.lt_iff_toNat_lt.mpr h)
            omega
          rw [this, ih b hl]
          generalize y.toNat * 256 ^ b.length = q
          simp only [compare, compareOfLessAndEq]
          have e1 : (q + beValue a < q + beValue b) = (beValue a < beValue b) := by
            apply propext; omega
          have e2 : (q + beValue a = q + beValue b) = (beValue a = beValue b) := by
            apply propext; omega
          simp only [e1, e2]

theorem beValue_lb (x : UInt8) (t : Bytes) (k : Nat) (h : k ≤ x.toNat) :
    k * 256 ^ t.length ≤ beValue (x :: t) := by
  rw [beValue_cons]
  have := Nat.mul_le_mul_right (256 ^ t.length) h
  omega

theorem beValue_ub (x : UInt8) (t : Bytes) (k : Nat) (h : x.toNat < k) :
    beValue (x :: t) < k * 256 ^ t.length := by
  rw [beValue_cons]
  have h1 : (x.toNat + 1) * 256 ^ t.length ≤ k * 256 ^ t.length := Nat.mul_le_mul_right _ h
  have := beValue_lt t
  rw [Nat.add_mul] at h1
  omega

theorem pow256 (m : Nat) : 256 ^ m = 2 ^ (8 * m) := by
  rw [Nat.pow_mul]

theorem pow_pos256 (m : Nat) : 0 < 256 ^ m := Nat.pow_pos (by decide)

theorem tcValue_nil : tcValue [] = 0 := rfl

theorem tcValue_of_lt (b : UInt8) (s : Bytes) (h : b.toNat < 128) :
    tcValue (b :: s) = (beValue (b :: s) : Int) := by
  simp only [tcValue]; rw [if_neg (by omega)]

theorem tcValue_of_ge (b : UInt8) (s : Bytes) (h : 128 ≤ b.toNat) :
    tcValue (b :: s) = (beValue (b :: s) : Int) - ((256 ^ (s.length + 1) : Nat) : Int) := by
  simp only [tcValue]; rw [if_pos h]; simp [Int.natCast_pow]

/-- non-negative forms: `0 ≤ v < 128·256^(n-1)` -/
theorem tcValue_bounds_of_lt (b : UInt8) (s : Bytes) (h : b.toNat < 128) :
    0 ≤ tcValue (b :: s) ∧ tcValue (b :: s) < ((128 * 256 ^ s.length : Nat) : Int) := by
  rw [tcValue_of_lt b s h]
  have := beValue_ub b s 128 h
  omega

/-- negative forms: `-128·256^(n-1) ≤ v < 0` -/
theorem tcValue_bounds_of_ge (b : UInt8) (s : Bytes) (h : 128 ≤ b.toNat) :
    -((128 * 256 ^ s.length : Nat) : Int) ≤ tcValue (b :: s) ∧ tcValue (b :: s) < 0 := by
  rw [tcValue_of_ge b s h]
  have h1 := beValue_lb b s 128 h
  have h2 := beValue_lt (b :: s)
  rw [List.length_cons] at h2
  rw [Nat.pow_succ] at *
  omega

theorem tcValue_neg_iff (b : UInt8) (s : Bytes) : tcValue (b :: s) < 0 ↔ 128 ≤ b.toNat := by
  by_cases h : 128 ≤ b.toNat
  · have := tcValue_bounds_of_ge b s h; omega
  · have := tcValue_bounds_of_lt b s (by omega); omega

theorem minimal_cons2 (a b : UInt8) (s : Bytes) :
    isMinimalTC (a :: b :: s) = true ↔
      ¬ (a.toNat = 0 ∧ b.toNat < 128) ∧ ¬ (a.toNat = 255 ∧ 128 ≤ b.toNat) := by
  have h0 : (0 : UInt8).toNat = 0 := rfl
  have hff : (0xFF : UInt8).toNat = 255 := rfl
  simp only [isMinimalTC, byte_beq_iff, h0, hff, Bool.not_eq_true', Bool.or_eq_false_iff,
    Bool.and_eq_false_iff, decide_eq_false_iff_not, ge_iff_le, not_and]
  constructor
  · rintro ⟨h1, h2⟩; constructor
    · intro e; cases h1 with | inl h => exact absurd e h | inr h => exact h
    · intro e; cases h2 with | inl h => exact absurd e h | inr h => exact h
  · rintro ⟨h1, h2⟩; constructor
    · by_cases e : a.toNat = 0
      · exact Or.inr (h1 e)
      · exact Or.inl e
    · by_cases e : a.toNat = 255
      · exact Or.inr (h2 e)
      · exact Or.inl e

/-- minimal non-negative form of `n ≥ 2` octets: `v ≥ 128·256^(n-2)` -/
theorem minimal_lower_of_lt (a b : UInt8) (s : Bytes) (hm : isMinimalTC (a :: b :: s) = true)
    (h : a.toNat < 128) : ((128 * 256 ^ s.length : Nat) : Int) ≤ tcValue (a :: b :: s) := by
  rw [tcValue_of_lt a _ h]
  have ⟨h1, _⟩ := (minimal_cons2 a b s).mp hm
  by_cases ha : a.toNat = 0
  · have hb : 128 ≤ b.toNat := by omega
    have := beValue_lb b s 128 hb
    rw [beValue_cons, ha]; omega
  · have := beValue_lb a (b :: s) 1 (by omega)
    rw [List.length_cons, Nat.pow_succ] at this
    omega

/-- minimal negative form of `n ≥ 2` octets: `v < -128·256^(n-2)` -/
theorem minimal_upper_of_ge (a b : UInt8) (s : Bytes) (hm : isMinimalTC (a :: b :: s) = true)
    (h : 128 ≤ a.toNat) : tcValue (a :: b :: s) < -((128 * 256 ^ s.length : Nat) : Int) := by
  rw [tcValue_of_ge a _ h]
  have ⟨_, h2⟩ := (minimal_cons2 a b s).mp hm
  have hlt := byte_lt_256 a
  by_cases ha : a.toNat = 255
  · have hb : b.toNat < 128 := by omega
    have := beValue_ub b s 128 hb
    rw [beValue_cons a, ha]
    simp only [List.length_cons, Nat.pow_succ] at *
    omega
  · have := beValue_ub a (b :: s) 255 (by omega)
    simp only [List.length_cons, Nat.pow_succ] at *
    omega

theorem compare_shift (m n : Nat) (c : Int) :
    compare ((m : Int) - c) ((n : Int) - c) = compare m n := by
  rcases Nat.lt_trichotomy m n with h | h | h
  · rw [Nat.compare_eq_lt.mpr h, Int.compare_eq_lt]; omega
  · rw [Nat.compare_eq_eq.mpr h, Int.compare_eq_eq]; omega
  · rw [Nat.compare_eq_gt.mpr h, Int.compare_eq_gt]; omega

theorem compare_cast (m n : Nat) : compare (m : Int) (n : Int) = compare m n := by
  have := compare_shift m n 0; simpa using this

/-- among non-negative forms, a longer *minimal* one is larger -/
theorem longer_larger_of_lt (x : UInt8) (s : Bytes) (y : UInt8) (t : Bytes)
    (hb : isMinimalTC (y :: t) = true) (hl : (x :: s).length < (y :: t).length)
    (hx : x.toNat < 128) (hy : y.toNat < 128) : tcValue (x :: s) < tcValue (y :: t) := by
  cases t with
  | nil => simp at hl
  | cons z t =>
    have h1 := (tcValue_bounds_of_lt x s hx).2
    have h2 := minimal_lower_of_lt y z t hb hy
    have hle : s.length ≤ t.length := by simp at hl; omega
    have := Nat.pow_le_pow_right (n := 256) (by decide) hle
    omega

/-- among negative forms, a longer *minimal* one is smaller -/
theorem longer_smaller_of_ge (x : UInt8) (s : Bytes) (y : UInt8) (t : Bytes)
    (hb : isMinimalTC (y :: t) = true) (hl : (x :: s).length < (y :: t).length)
    (hx : 128 ≤ x.toNat) (hy : 128 ≤ y.toNat) : tcValue (y :: t) < tcValue (x :: s) := by
  cases t with
  | nil => simp at hl
  | cons z t =>
    have h1 := (tcValue_bounds_of_ge x s hx).1
    have h2 := minimal_upper_of_ge y z t hb hy
    have hle : s.length ≤ t.length := by simp at hl; omega
    have := Nat.pow_le_pow_right (n := 256) (by decide) hle
    omega

theorem isNegative_cons (x : UInt8) (s : Bytes) :
    BigInt.isNegative (x :: s) = .ok (decide (128 ≤ x.toNat)) := by
  simp only [BigInt.isNegative, byte_and80_eq80]

theorem cmp_cons (x : UInt8) (s : Bytes) (y : UInt8) (t : Bytes)
    (ha : isMinimalTC (x :: s) = true) (hb : isMinimalTC (y :: t) = true) :
    BigInt.cmp (x :: s) (y :: t) = .ok (compare (tcValue (x :: s)) (tcValue (y :: t))) := by
  simp only [BigInt.cmp, isNegative_cons, bind, Except.bind, pure, Except.pure]
  by_cases hx : 128 ≤ x.toNat <;> by_cases hy : 128 ≤ y.toNat
  · simp only [hx, hy, decide_true]
    rcases Nat.lt_trichotomy (x :: s).length (y :: t).length with h | h | h
    · rw [Nat.compare_eq_lt.mpr h]
      have := longer_smaller_of_ge x s y t hb h hx hy
      rw [Int.compare_eq_gt.mpr this]
    · rw [Nat.compare_eq_eq.mpr h, cmpZip_eq_compare _ _ h, tcValue_of_ge x s hx, tcValue_of_ge y t hy]
      have : s.length = t.length := by simpa using h
      rw [this, compare_shift]
    · rw [Nat.compare_eq_gt.mpr h]
      have := longer_smaller_of_ge y t x s ha h hy hx
      rw [Int.compare_eq_lt.mpr this]
  · simp only [hx, hy, decide_true, decide_false]
    have h1 := (tcValue_bounds_of_ge x s hx).2
    have h2 := (tcValue_bounds_of_lt y t (by omega)).1
    rw [Int.compare_eq_lt.mpr (by omega)]
  · simp only [hx, hy, decide_true, decide_false]
    have h1 := (tcValue_bounds_of_ge y t hy).2
    have h2 := (tcValue_bounds_of_lt x s (by omega)).1
    rw [Int.compare_eq_gt.mpr (by omega)]
  · simp only [hx, hy, decide_false]
    have hx' : x.toNat < 128 := by omega
    have hy' : y.toNat < 128 := by omega
    rcases Nat.lt_trichotomy (x :: s).length (y :: t).length with h | h | h
    · rw [Nat.compare_eq_lt.mpr h]
      have := longer_larger_of_lt x s y t hb h hx' hy'
      rw [Int.compare_eq_lt.mpr this]
    · rw [Nat.compare_eq_eq.mpr h, cmpZip_eq_compare _ _ h, tcValue_of_lt x s hx', tcValue_of_lt y t hy',
        compare_cast]
    · rw [Nat.compare_eq_gt.mpr h]
      have := longer_larger_of_lt y t x s ha h hy' hx'
      rw [Int.compare_eq_gt.mpr this]

theorem minimal_ne_nil (a : Bytes) (h : isMinimalTC a = true) : a ≠ [] := by
  intro e; subst e; simp [isMinimalTC] at h

/-- **C15 ordering.** -/
theorem cmp_eq_value (a b : Bytes) (ha : isMinimalTC a = true) (hb : isMinimalTC b = true) :
    BigInt.cmp a b = .ok (compare (tcValue a) (tcValue b)) := by
  cases a with
  | nil => exact absurd rfl (minimal_ne_nil _ ha)
  | cons x s =>
    cases b with
    | nil => exact absurd rfl (minimal_ne_nil _ hb)
    | cons y t => exact cmp_cons x s y t ha hb

/-- octet strings of the same length with the same big-endian value are equal -/
theorem beValue_inj (a b : Bytes) (hl : a.length = b.length) (h : beValue a = beValue b) : a = b := by
  induction a generalizing b with
  | nil => cases b with
    | nil => rfl
    | cons _ _ => simp at hl
  | cons x a ih =>
    cases b with
    | nil => simp at hl
    | cons y b =>
      have hl' : a.length = b.length := by simpa using hl
      have ha := beValue_lt a
      have hb := beValue_lt b
      rw [beValue_cons, beValue_cons, hl'] at h
      rw [hl'] at ha
      have hxy : x.toNat = y.toNat := by
        rcases Nat.lt_trichotomy x.toNat y.toNat with l | e | g
        · have := lex_lt _ _ _ _ (beValue b) l ha; omega
        · exact e
        · have := lex_lt _ _ _ _ (beValue a) g hb; omega
      have : x = y := UInt8.toNat_inj.mp hxy
      subst this
      have : beValue a = beValue b := by omega
      rw [ih b hl' this]

/-- minimal forms are unique: the value determines the octets -/
theorem minimal_inj (a b : Bytes) (ha : isMinimalTC a = true) (hb : isMinimalTC b = true)
    (h : tcValue a = tcValue b) : a = b := by
  cases a with
  | nil => exact absurd rfl (minimal_ne_nil _ ha)
  | cons x s =>
  cases b with
  | nil => exact absurd rfl (minimal_ne_nil _ hb)
  | cons y t =>
  by_cases hx : 128 ≤ x.toNat
  · have hy : 128 ≤ y.toNat := by
      have := (tcValue_neg_iff x s).mpr hx
      exact (tcValue_neg_iff y t).mp (by omega)
    rcases Nat.lt_trichotomy (x :: s).length (y :: t).length with l | e | g
    · have := longer_smaller_of_ge x s y t hb l hx hy; omega
    · apply beValue_inj _ _ e
      rw [tcValue_of_ge x s hx, tcValue_of_ge y t hy] at h
      have : s.length = t.length := by simpa using e
      rw [this] at h; omega
    · have := longer_smaller_of_ge y t x s ha g hy hx; omega
  · have hx' : x.toNat < 128 := by omega
    have hy' : y.toNat < 128 := by
      have := tcValue_neg_iff x s
      have := tcValue_neg_iff y t
      omega
    rcases Nat.lt_trichotomy (x :: s).length (y :: t).length with l | e | g
    · have := longer_larger_of_lt x s y t hb l hx' hy'; omega
    · apply beValue_inj _ _ e
      rw [tcValue_of_lt x s hx', tcValue_of_lt y t hy'] at h
      omega
    · have := longer_larger_of_lt y t x s ha g hy' hx'; omega

/-- **C15 equality / hashing.** -/
theorem eq_iff_value (a b : Bytes) (ha : isMinimalTC a = true) (hb : isMinimalTC b = true) :
    BigInt.eq a b = true ↔ tcValue a = tcValue b := by
  simp only [BigInt.eq, beq_iff_eq]
  exact ⟨fun h => by rw [h], minimal_inj a b ha hb⟩

/-! ### predicates -/

theorem isZero_iff_beValue (a : Bytes) : BigInt.isZero a = true ↔ beValue a = 0 := by
  induction a with
  | nil => simp [BigInt.isZero, beValue_nil]
  | cons x s ih =>
    have hp := pow_pos256 s.length
    simp only [BigInt.isZero, List.all_cons, Bool.and_eq_true] at ih ⊢
    rw [ih, beValue_cons, byte_beq_iff]
    have h0 : (0 : UInt8).toNat = 0 := rfl
    simp only [h0, decide_eq_true_eq]
    constructor
    · rintro ⟨h1, h2⟩; rw [h1, h2]; simp
    · intro h
      have h1 : x.toNat = 0 := by
        rcases Nat.eq_zero_or_pos x.toNat with e | p
        · exact e
        · have := Nat.mul_le_mul_right (256 ^ s.length) p; omega
      rw [h1] at h; omega

/-- **C15 `is_zero`.**  (`isMinimalTC [] = false`, so the empty list is excluded.) -/
theorem isZero_iff_value (a : Bytes) (ha : isMinimalTC a = true) :
    BigInt.isZero a = true ↔ tcValue a = 0 := by
  rw [isZero_iff_beValue]
  cases a with
  | nil => exact absurd rfl (minimal_ne_nil _ ha)
  | cons x s =>
    by_cases hx : 128 ≤ x.toNat
    · have h1 := (tcValue_bounds_of_ge x s hx).2
      have h2 := beValue_lb x s 128 hx
      have := pow_pos256 s.length
      omega
    · rw [tcValue_of_lt x s (by omega)]; omega

theorem isNegative_eq_value (a : Bytes) (ha : a ≠ []) :
    BigInt.isNegative a = .ok (decide (tcValue a < 0)) := by
  cases a with
  | nil => exact absurd rfl ha
  | cons x s =>
    rw [isNegative_cons]
    have := tcValue_neg_iff x s
    by_cases h : 128 ≤ x.toNat <;> simp [h, this.mpr] <;> omega

theorem isPositive_eq_value (a : Bytes) (ha : isMinimalTC a = true) :
    BigInt.isPositive a = .ok (decide (tcValue a > 0)) := by
  cases a with
  | nil => exact absurd rfl (minimal_ne_nil _ ha)
  | cons x s =>
    have h0 : (0 : UInt8).toNat = 0 := rfl
    simp only [BigInt.isPositive, byte_and80_eq0]
    simp only [byte_beq_iff, h0]
    by_cases hx : 128 ≤ x.toNat
    · have h1 := (tcValue_bounds_of_ge x s hx).2
      have e1 : ¬ x.toNat = 0 := by omega
      have e2 : ¬ x.toNat < 128 := by omega
      have e3 : ¬ tcValue (x :: s) > 0 := by omega
      simp [e1, e2, e3]
    · have hx' : x.toNat < 128 := by omega
      cases s with
      | nil =>
        have : tcValue [x] = (x.toNat : Int) := by
          rw [tcValue_of_lt x [] hx', beValue_cons]; simp [beValue_nil]
        rw [this]
        by_cases e : x.toNat = 0
        · simp [e]
        · simp [e, hx']; omega
      | cons y t =>
        have h1 := minimal_lower_of_lt x y t ha hx'
        have := pow_pos256 t.length
        have : tcValue (x :: y :: t) > 0 := by omega
        simp [hx', this]

/-! ### `Unsigned::from_bytes` -/

theorem takeWhile_zero_split (bytes : Bytes) :
    ∃ (k : Nat) (v : Bytes), bytes = List.replicate k (0 : UInt8) ++ v ∧
      (bytes.takeWhile (· == 0)).length = k ∧ (∀ v0 rest, v = v0 :: rest → v0 ≠ 0) := by
  induction bytes with
  | nil => exact ⟨0, [], rfl, rfl, by intro _ _ h; cases h⟩
  | cons x bs ih =>
    by_cases hx : x = 0
    · obtain ⟨k, v, h1, h2, h3⟩ := ih
      refine ⟨k + 1, v, ?_, ?_, h3⟩
      · rw [List.replicate_succ, List.cons_append, ← h1, hx]
      · subst hx; simp [h2]
    · refine ⟨0, x :: bs, rfl, ?_, ?_⟩
      · simp [hx]
      · intro v0 rest h; cases h; exact hx

/-- the result of `from_bytes` on `k` zero octets followed by `v` (`v` empty or starting non-zero) -/
def fromBytesResult (v : Bytes) : Bytes :=
  match v with
  | [] => [0]
  | v0 :: _ => if v0.toNat < 128 then v else 0 :: v

theorem unsignedFromBytes_split (k : Nat) (v : Bytes) (hne : List.replicate k (0 : UInt8) ++ v ≠ [])
    (hv : ∀ v0 rest, v = v0 :: rest → v0 ≠ 0) :
    unsignedFromBytes (List.replicate k (0 : UInt8) ++ v) = .ok (some (fromBytesResult v)) := by
  have hnz : ((List.replicate k (0 : UInt8) ++ v).takeWhile (· == 0)).length = k := by
    cases v with
    | nil => simp
    | cons v0 rest =>
      have := hv v0 rest rfl
      rw [List.takeWhile_append_of_pos (by simp)]
      simp [this]
  have hemp : (List.replicate k (0 : UInt8) ++ v).isEmpty = false := by
    cases h : (List.replicate k (0 : UInt8) ++ v) with
    | nil => exact absurd h hne
    | cons _ _ => rfl
  unfold unsignedFromBytes
  rw [hemp]
  simp only [hnz, Bool.false_eq_true, if_false]
  cases v with
  | nil =>
    have hk : k ≠ 0 := by intro e; subst e; simp at hne
    obtain ⟨j, rfl⟩ := Nat.exists_eq_succ_of_ne_zero hk
    simp [fromBytesResult, List.replicate_succ]
  | cons v0 rest =>
    have hlen : (k == (List.replicate k (0 : UInt8) ++ v0 :: rest).length) = false := by
      simp
    rw [hlen]
    simp only [Bool.false_eq_true, if_false]
    have hdrop : (List.replicate k (0 : UInt8) ++ v0 :: rest).drop k = v0 :: rest := by
      rw [List.drop_append_of_le_length (by simp)]; simp
    rw [hdrop]
    simp only [byte_and80_eq0, fromBytesResult]
    by_cases h : v0.toNat < 128
    · simp [h]
    · simp only [h, decide_false, Bool.false_eq_true, if_false]
      by_cases hk : k > 0
      · rw [if_pos hk]
        obtain ⟨j, rfl⟩ := Nat.exists_eq_succ_of_ne_zero (by omega : k ≠ 0)
        have : (List.replicate (j + 1) (0 : UInt8) ++ v0 :: rest).drop (j + 1 - 1)
            = 0 :: v0 :: rest := by
          rw [Nat.add_sub_cancel, List.replicate_succ']
          rw [List.append_assoc, List.drop_append_of_le_length (by simp)]; simp
        rw [this]
      · rw [if_neg hk]

theorem fromBytesResult_spec (v : Bytes) (hv : ∀ v0 rest, v = v0 :: rest → v0 ≠ 0) :
    isMinimalTC (fromBytesResult v) = true ∧ tcValue (fromBytesResult v) = (beValue v : Int) := by
  cases v with
  | nil => exact ⟨rfl, rfl⟩
  | cons v0 rest =>
    have hne : v0.toNat ≠ 0 := by
      intro e; exact hv v0 rest rfl (UInt8.toNat_inj.mp e)
    simp only [fromBytesResult]
    by_cases h : v0.toNat < 128
    · rw [if_pos h]
      refine ⟨?_, tcValue_of_lt v0 rest h⟩
      cases rest with
      | nil => rfl
      | cons y t => rw [minimal_cons2]; omega
    · rw [if_neg h]
      have h0 : (0 : UInt8).toNat = 0 := rfl
      refine ⟨?_, ?_⟩
      · rw [minimal_cons2]; omega
      · rw [tcValue_of_lt 0 _ (by decide), beValue_cons 0, h0]; simp

/-- **C15 `Unsigned::from_bytes`**: every non-empty big-endian magnitude (any number of leading
    zeros, zero itself included) is accepted, never panics, and yields the minimal two's complement
    form of exactly that number. -/
theorem unsignedFromBytes_spec (bytes : Bytes) (hne : bytes ≠ []) :
    ∃ r, unsignedFromBytes bytes = .ok (some r) ∧ isMinimalTC r = true ∧
      tcValue r = (beValue bytes : Int) := by
  obtain ⟨k, v, h1, _, h3⟩ := takeWhile_zero_split bytes
  subst h1
  refine ⟨fromBytesResult v, unsignedFromBytes_split k v hne h3, (fromBytesResult_spec v h3).1, ?_⟩
  rw [(fromBytesResult_spec v h3).2, beValue_append, beValue_replicate_zero]; simp

/-- the empty magnitude is refused with `InvalidInteger` (no panic) -/
theorem unsignedFromBytes_nil : unsignedFromBytes [] = .ok none := rfl

/-- `from_bytes` is the identity on content that already is a minimal non-negative form -/
theorem unsignedFromBytes_of_minimal (c : Bytes) (hm : isMinimalTC c = true) (h0 : 0 ≤ tcValue c) :
    unsignedFromBytes c = .ok (some c) := by
  obtain ⟨r, h1, h2, h3⟩ := unsignedFromBytes_spec c (minimal_ne_nil c hm)
  have : tcValue r = tcValue c := by
    rw [h3]
    cases c with
    | nil => rfl
    | cons x s =>
      have := tcValue_neg_iff x s
      rw [tcValue_of_lt x s (by omega)]
  rw [h1, minimal_inj r c h2 hm this]

/-! ### acceptance by decoding -/

theorem run_peek2 (g : G0) :
    runG0 Prog.peek2 g = .ok ((min 2 g.view.length, g.view[0]?, g.view[1]?), g) := by
  simp [Prog.peek2, runG0, stepG0]

theorem St_view_content (c rest : Bytes) : (St (c ++ rest) (some c.length)).view = c := by
  simp [G0.view]

theorem run_takeAll_content (c rest : Bytes) :
    runG0 Prim.takeAll (St (c ++ rest) (some c.length)) = .ok (c, St rest (some 0)) := by
  rw [run_takeAll, if_pos (by simp)]; simp

/-- **C15 acceptance (`Integer::from_primitive`)**: the content `c` of a primitive value is accepted
    exactly when it is a minimal two's complement form (X.690 8.3.2; in particular non-empty), the
    `Integer` then holds exactly `c` and the content is fully consumed; otherwise a content error. -/
theorem integerFromPrimitive_spec (c rest : Bytes) :
    runG0 integerFromPrimitive (St (c ++ rest) (some c.length)) =
      if isMinimalTC c = true then .ok (c, St rest (some 0)) else .error .content := by
  unfold integerFromPrimitive
  rw [runG0_bind, run_takeAll_content]
  simp only
  match c with
  | [] => rfl
  | [x] =>
    simp only [List.head?_cons, List.tail_cons, List.head?_nil, Option.map_none, isMinimalTC, if_true]
    rfl
  | x :: y :: t =>
    simp only [List.head?_cons, List.tail_cons, Option.map_some, byte_and80_ne0]
    by_cases hm : isMinimalTC (x :: y :: t) = true
    · rw [if_pos hm]
      have ⟨h1, h2⟩ := (minimal_cons2 x y t).mp hm
      split
      · next e1 e2 =>
        have : x.toNat = 0 := by cases e1; rfl
        have : ¬ 128 ≤ y.toNat := by simpa using e2
        omega
      · next e1 e2 =>
        have : x.toNat = 255 := by cases e1; rfl
        have : 128 ≤ y.toNat := by simpa using e2
        omega
      · next e1 => cases e1
      · rfl
    · rw [if_neg hm]
      have hn : ¬ (¬ (x.toNat = 0 ∧ y.toNat < 128) ∧ ¬ (x.toNat = 255 ∧ 128 ≤ y.toNat)) :=
        fun h => hm ((minimal_cons2 x y t).mpr h)
      split
      · rfl
      · rfl
      · rfl
      · next n1 n2 n3 =>
        exfalso
        by_cases hx0 : x.toNat = 0
        · have : x = 0 := UInt8.toNat_inj.mp hx0
          subst this
          exact n2 rfl (by simp; omega)
        · have hx1 : x.toNat = 255 := by omega
          have : x = 0xFF := UInt8.toNat_inj.mp hx1
          subst this
          exact n3 rfl (by simp; omega)

theorem checkHeadUnsigned_spec (c rest : Bytes) :
    runG0 checkHeadUnsigned (St (c ++ rest) (some c.length)) =
      if isMinimalTC c = true ∧ 0 ≤ tcValue c then .ok ((), St (c ++ rest) (some c.length))
      else .error .content := by
  unfold checkHeadUnsigned
  rw [runG0_bind, run_peek2, St_view_content]
  simp only
  match c with
  | [] => rfl
  | [x] =>
    have hx := tcValue_neg_iff x []
    have hmin : (min 2 (0 + 1) == 0) = false := by decide
    simp only [List.length_cons, List.length_nil, List.getElem?_cons_zero, hmin,
      Bool.false_eq_true, if_false, byte_and80_ne0, isMinimalTC, true_and]
    have h1 : ([x] : Bytes)[1]? = none := rfl
    rw [h1]
    simp only [Option.map_none, decide_eq_true_eq]
    by_cases h : 128 ≤ x.toNat
    · rw [if_pos h, if_neg (by omega)]; rfl
    · rw [if_neg h, if_pos (by omega)]; rfl
  | x :: y :: t =>
    have hx := tcValue_neg_iff x (y :: t)
    have hmin : (min 2 (t.length + 1 + 1) == 0) = false := by
      have : min 2 (t.length + 1 + 1) = 2 := by omega
      rw [this]; rfl
    have h1 : (x :: y :: t)[1]? = some y := rfl
    simp only [List.length_cons, List.getElem?_cons_zero, hmin,
      Bool.false_eq_true, if_false, h1, Option.map_some, byte_and80_ne0, decide_eq_true_eq]
    by_cases hm : isMinimalTC (x :: y :: t) = true
    · have ⟨m1, m2⟩ := (minimal_cons2 x y t).mp hm
      split
      · next e1 e2 =>
        have : x.toNat = 0 := by cases e1; rfl
        have : ¬ 128 ≤ y.toNat := by simpa using e2
        omega
      · next e1 e2 =>
        have : x.toNat = 255 := by cases e1; rfl
        have : 128 ≤ y.toNat := by simpa using e2
        omega
      · by_cases h : 128 ≤ x.toNat
        · rw [if_pos h, if_neg (by omega)]; rfl
        · rw [if_neg h, if_pos ⟨hm, by omega⟩]; rfl
    · have hnm : ¬ (isMinimalTC (x :: y :: t) = true ∧ 0 ≤ tcValue (x :: y :: t)) := fun h => hm h.1
      rw [if_neg hnm]
      have hn : ¬ (¬ (x.toNat = 0 ∧ y.toNat < 128) ∧ ¬ (x.toNat = 255 ∧ 128 ≤ y.toNat)) :=
        fun h => hm ((minimal_cons2 x y t).mpr h)
      split
      · rfl
      · rfl
      · next n2 n3 =>
        exfalso
        by_cases hx0 : x.toNat = 0
        · have : x = 0 := UInt8.toNat_inj.mp hx0
          subst this
          exact n2 rfl (by simp; omega)
        · have hx1 : x.toNat = 255 := by omega
          have : x = 0xFF := UInt8.toNat_inj.mp hx1
          subst this
          exact n3 rfl (by simp; omega)

/-- **C15 acceptance (`Unsigned::from_primitive`)**: accepted exactly when the content is a minimal
    two's complement form of a non-negative number; the `Unsigned` then holds exactly `c`. -/
theorem unsignedFromPrimitive_spec (c rest : Bytes) :
    runG0 unsignedFromPrimitive (St (c ++ rest) (some c.length)) =
      if isMinimalTC c = true ∧ 0 ≤ tcValue c then .ok (c, St rest (some 0)) else .error .content := by
  unfold unsignedFromPrimitive
  rw [runG0_bind, checkHeadUnsigned_spec]
  by_cases h : isMinimalTC c = true ∧ 0 ≤ tcValue c
  · rw [if_pos h, if_pos h]
    simp only
    rw [integerFromPrimitive_spec, if_pos h.1]
  · rw [if_neg h, if_neg h]

/-! ### conversions to fixed-width types -/

theorem two_pow_sub1 (m : Nat) (h : 0 < m) : 2 ^ (8 * m - 1) = 128 * 256 ^ (m - 1) := by
  obtain ⟨j, hj⟩ : ∃ j, m = j + 1 := ⟨m - 1, by omega⟩
  subst hj
  have : 8 * (j + 1) - 1 = 8 * j + 7 := by omega
  rw [this, Nat.add_sub_cancel, Nat.pow_add, pow256]; omega

theorem int_two_pow (n : Nat) : (2 : Int) ^ n = ((2 ^ n : Nat) : Int) := by
  rw [Int.natCast_pow]; rfl

/-- sign extension does not change the value (`iN::from_be_bytes` of the padded octets) -/
theorem signedOfBE_extend (b : UInt8) (t : Bytes) (k : Nat) :
    signedOfBE (List.replicate k (if b.toNat < 128 then (0 : UInt8) else 0xFF) ++ b :: t)
      = tcValue (b :: t) := by
  have hlen : (List.replicate k (if b.toNat < 128 then (0 : UInt8) else 0xFF) ++ b :: t).length
      = k + t.length + 1 := by simp; omega
  have hp : 2 ^ (8 * (k + t.length + 1) - 1) = 128 * 256 ^ (k + t.length) :=
    two_pow_sub1 (k + t.length + 1) (by omega)
  have hmono : 256 ^ t.length ≤ 256 ^ (k + t.length) := Nat.pow_le_pow_right (by decide) (by omega)
  simp only [signedOfBE, hlen, hp, int_two_pow, ← pow256]
  rw [beValue_append]
  by_cases h : b.toNat < 128
  · simp only [h, if_true, beValue_replicate_zero, Nat.zero_mul, Nat.zero_add]
    have := beValue_ub b t 128 h
    rw [if_neg (by omega), tcValue_of_lt b t h]
  · simp only [h, if_false]
    have h' : 128 ≤ b.toNat := by omega
    have h1 := beValue_lb b t 128 h'
    have h2 := beValue_lt (b :: t)
    have h3 := beValue_replicate_ff k
    have h4 : (beValue (List.replicate k (0xFF : UInt8)) + 1) * 256 ^ (b :: t).length
        = 256 ^ (k + t.length + 1) := by
      rw [h3, ← Nat.pow_add]; simp [Nat.add_assoc]
    rw [Nat.add_mul] at h4
    rw [tcValue_of_ge b t h']
    generalize beValue (List.replicate k (0xFF : UInt8)) * 256 ^ (b :: t).length = R at *
    simp only [List.length_cons, Nat.pow_succ] at *
    rw [if_pos (by omega)]
    omega

theorem inRange_signed_iff (w : Nat) (hw : 1 ≤ w) (v : Int) :
    inRange true w v = true ↔
      -((128 * 256 ^ (w - 1) : Nat) : Int) ≤ v ∧ v < ((128 * 256 ^ (w - 1) : Nat) : Int) := by
  simp only [inRange, if_true, Bool.and_eq_true, decide_eq_true_eq, int_two_pow,
    two_pow_sub1 w (by omega)]

theorem inRange_unsigned_iff (w : Nat) (v : Int) :
    inRange false w v = true ↔ 0 ≤ v ∧ v < ((256 ^ w : Nat) : Int) := by
  simp only [inRange, Bool.false_eq_true, if_false, Bool.and_eq_true, decide_eq_true_eq,
    int_two_pow, ← pow256]

/-- **C15 conversion to `iN`** (`w` octets wide, `w ≥ 1`): for a minimal form the conversion
    succeeds exactly when the number fits the type, and returns the number. -/
theorem sliceToSigned_value (w : Nat) (hw : 1 ≤ w) (a : Bytes) (ha : isMinimalTC a = true) :
    sliceToSigned w a =
      .ok (if inRange true w (tcValue a) = true then some (tcValue a) else none) := by
  unfold sliceToSigned
  by_cases hl : a.length > w
  · rw [if_pos hl]
    match a, ha, hl with
    | [x], _, hl => simp at hl; omega
    | x :: y :: t, ha, hl =>
      have hle : w - 1 ≤ t.length := by simp at hl; omega
      have hmono : 256 ^ (w - 1) ≤ 256 ^ t.length := Nat.pow_le_pow_right (by decide) hle
      have hnot : ¬ inRange true w (tcValue (x :: y :: t)) = true := by
        rw [inRange_signed_iff w hw]
        by_cases hx : 128 ≤ x.toNat
        · have := minimal_upper_of_ge x y t ha hx; omega
        · have := minimal_lower_of_lt x y t ha (by omega); omega
      rw [if_neg hnot]
  · rw [if_neg hl]
    match a, ha, hl with
    | x :: t, ha, hl =>
      have hle : t.length ≤ w - 1 := by simp at hl; omega
      have hmono : 256 ^ t.length ≤ 256 ^ (w - 1) := Nat.pow_le_pow_right (by decide) hle
      have hin : inRange true w (tcValue (x :: t)) = true := by
        rw [inRange_signed_iff w hw]
        by_cases hx : 128 ≤ x.toNat
        · have := tcValue_bounds_of_ge x t hx; omega
        · have := tcValue_bounds_of_lt x t (by omega); omega
      rw [if_pos hin]
      simp only [byte_and80_eq0, decide_eq_true_eq, signedOfBE_extend]

/-- **C15 conversion to `uN`**: succeeds exactly when the number is in `[0, 256^w)`. -/
theorem sliceToUnsigned_value (w : Nat) (a : Bytes) (ha : isMinimalTC a = true) :
    sliceToUnsigned w a =
      .ok (if inRange false w (tcValue a) = true then some (tcValue a).toNat else none) := by
  match a, ha with
  | x :: rest, ha =>
    have h0 : (0 : UInt8).toNat = 0 := rfl
    simp only [sliceToUnsigned, byte_and80_ne0, decide_eq_true_eq]
    by_cases hx : 128 ≤ x.toNat
    · rw [if_pos hx]
      have := (tcValue_bounds_of_ge x rest hx).2
      have hnot : ¬ inRange false w (tcValue (x :: rest)) = true := by
        rw [inRange_unsigned_iff]; omega
      rw [if_neg hnot]
    · rw [if_neg hx]
      have hx' : x.toNat < 128 := by omega
      have hv := tcValue_of_lt x rest hx'
      by_cases hz : x = 0
      · subst hz
        simp only [beq_self_eq_true, if_true]
        cases rest with
        | nil =>
          have hb : beValue [0] = 0 := rfl
          rw [hb] at hv
          have hin : inRange false w (tcValue [0]) = true := by
            rw [inRange_unsigned_iff, hv]
            have := pow_pos256 w
            omega
          rw [if_pos hin, hv]; rfl
        | cons y t =>
          have hy : 128 ≤ y.toNat := by
            have := ((minimal_cons2 0 y t).mp ha).1; rw [h0] at this; omega
          have hb : beValue (0 :: y :: t) = beValue (y :: t) := by
            rw [beValue_cons 0, h0]; simp
          rw [hb] at hv
          have hne : ((y :: t).length == 0) = false := by simp
          simp only [hne, Bool.false_eq_true, if_false]
          by_cases hl : (y :: t).length > w
          · rw [if_pos hl]
            have hle : w ≤ t.length := by simp at hl; omega
            have hmono : 256 ^ w ≤ 256 ^ t.length := Nat.pow_le_pow_right (by decide) hle
            have := beValue_lb y t 128 hy
            have hnot : ¬ inRange false w (tcValue (0 :: y :: t)) = true := by
              rw [inRange_unsigned_iff, hv]; omega
            rw [if_neg hnot]
          · rw [if_neg hl]
            have hle : (y :: t).length ≤ w := by omega
            have hmono : 256 ^ (y :: t).length ≤ 256 ^ w := Nat.pow_le_pow_right (by decide) hle
            have := beValue_lt (y :: t)
            have hin : inRange false w (tcValue (0 :: y :: t)) = true := by
              rw [inRange_unsigned_iff, hv]; omega
            rw [if_pos hin, beValue_append, beValue_replicate_zero, hv]; simp
      · have hz' : (x == 0) = false := by simp [hz]
        have hz'' : 1 ≤ x.toNat := by
          have : x.toNat ≠ 0 := fun e => hz (UInt8.toNat_inj.mp e)
          omega
        simp only [hz', Bool.false_eq_true, if_false]
        have hne : ((x :: rest).length == 0) = false := by simp
        simp only [hne, Bool.false_eq_true, if_false]
        by_cases hl : (x :: rest).length > w
        · rw [if_pos hl]
          have hle : w ≤ rest.length := by simp at hl; omega
          have hmono : 256 ^ w ≤ 256 ^ rest.length := Nat.pow_le_pow_right (by decide) hle
          have := beValue_lb x rest 1 hz''
          have hnot : ¬ inRange false w (tcValue (x :: rest)) = true := by
            rw [inRange_unsigned_iff, hv]; omega
          rw [if_neg hnot]
        · rw [if_neg hl]
          have hle : (x :: rest).length ≤ w := by omega
          have hmono : 256 ^ (x :: rest).length ≤ 256 ^ w := Nat.pow_le_pow_right (by decide) hle
          have := beValue_lt (x :: rest)
          have hin : inRange false w (tcValue (x :: rest)) = true := by
            rw [inRange_unsigned_iff, hv]; omega
          rw [if_pos hin, beValue_append, beValue_replicate_zero, hv]; simp

theorem sliceToSigned_decodeInt (w : Nat) (hw : 1 ≤ w) (a : Bytes) (ha : isMinimalTC a = true) :
    sliceToSigned w a = .ok (decodeInt true w a) := by
  rw [sliceToSigned_value w hw a ha]; simp only [decodeInt, ha, Bool.true_and]

theorem sliceToUnsigned_decodeInt (w : Nat) (a : Bytes) (ha : isMinimalTC a = true) :
    sliceToUnsigned w a = .ok ((decodeInt false w a).map Int.toNat) := by
  rw [sliceToUnsigned_value w a ha]; simp only [decodeInt, ha, Bool.true_and]
  split <;> rfl

/-! ### conversions from fixed-width types (`From<iN> for Integer`, `From<uN> for Unsigned`):
    the content is `val.to_encoded_bytes()`, i.e. `encInt` -/

theorem toBE_length (w n : Nat) : (toBE w n).length = w := by
  induction w generalizing n with
  | zero => rfl
  | succ w ih => simp [toBE, ih]

theorem beValue_toBE (w n : Nat) : beValue (toBE w n) = n % 256 ^ w := by
  induction w generalizing n with
  | zero => simp [toBE, beValue_nil, Nat.mod_one]
  | succ w ih =>
    have h1 : beValue [UInt8.ofNat (n % 256)] = n % 256 := by
      rw [beValue_cons, beValue_nil, toNat_ofNat]; simp
    rw [toBE, beValue_append, ih, h1, Nat.pow_succ, Nat.mul_comm (256 ^ w) 256, Nat.mod_mul]
    simp only [List.length_cons, List.length_nil, Nat.pow_succ, Nat.pow_zero]
    omega

theorem dropWhile_split (c : UInt8) (l : Bytes) :
    ∃ (k : Nat) (v : Bytes), l = List.replicate k c ++ v ∧ l.dropWhile (· == c) = v ∧
      (∀ v0 rest, v = v0 :: rest → v0 ≠ c) := by
  induction l with
  | nil => exact ⟨0, [], rfl, rfl, by intro _ _ h; cases h⟩
  | cons x bs ih =>
    by_cases hx : x = c
    · obtain ⟨k, v, h1, h2, h3⟩ := ih
      refine ⟨k + 1, v, ?_, ?_, h3⟩
      · rw [List.replicate_succ, List.cons_append, ← h1, hx]
      · subst hx; simp [h2]
    · refine ⟨0, x :: bs, rfl, ?_, ?_⟩
      · simp [hx]
      · intro v0 rest h; cases h; exact hx

theorem signedOfBE_eq_tcValue (l : Bytes) : signedOfBE l = tcValue l := by
  cases l with
  | nil => rfl
  | cons b t => exact signedOfBE_extend b t 0

/-- leading `FF` octets in front of a negative form do not change the value -/
theorem tcValue_ff_extend (k : Nat) (b : UInt8) (t : Bytes) (hb : 128 ≤ b.toNat) :
    tcValue (List.replicate k (0xFF : UInt8) ++ b :: t) = tcValue (b :: t) := by
  have := signedOfBE_extend b t k
  rw [if_neg (by omega)] at this
  rw [← signedOfBE_eq_tcValue, this]

/-- leading `00` octets in front of a non-negative form do not change the value -/
theorem tcValue_zero_extend (k : Nat) (b : UInt8) (t : Bytes) (hb : b.toNat < 128) :
    tcValue (List.replicate k (0 : UInt8) ++ b :: t) = tcValue (b :: t) := by
  have := signedOfBE_extend b t k
  rw [if_pos hb] at this
  rw [← signedOfBE_eq_tcValue, this]

/-- what `signed_content!` writes for a negative value whose `w` octets are `k` times `FF` then `v` -/
def negResult (v : Bytes) : Bytes :=
  match v with
  | [] => []
  | b :: _ => (if b.toNat < 128 then [0xFF] else []) ++ v

theorem negResult_spec (k : Nat) (v0 : UInt8) (rest : Bytes) (hv : v0 ≠ 0xFF)
    (hneg : tcValue (List.replicate k (0xFF : UInt8) ++ v0 :: rest) < 0) :
    isMinimalTC (negResult (v0 :: rest)) = true ∧
      tcValue (negResult (v0 :: rest)) = tcValue (List.replicate k (0xFF : UInt8) ++ v0 :: rest) := by
  have hff : (0xFF : UInt8).toNat = 255 := rfl
  have hne : v0.toNat ≠ 255 := fun e => hv (UInt8.toNat_inj.mp (e.trans hff.symm))
  simp only [negResult]
  by_cases h : v0.toNat < 128
  · rw [if_pos h]
    have hk : k ≠ 0 := by
      intro e; subst e
      have := (tcValue_neg_iff v0 rest).mp (by simpa using hneg)
      omega
    obtain ⟨j, rfl⟩ : ∃ j, k = j + 1 := ⟨k - 1, by omega⟩
    refine ⟨?_, ?_⟩
    · show isMinimalTC (0xFF :: v0 :: rest) = true
      rw [minimal_cons2]; omega
    · rw [List.replicate_succ', List.append_assoc]
      exact (tcValue_ff_extend j 0xFF (v0 :: rest) (by decide)).symm
  · rw [if_neg h]
    refine ⟨?_, (tcValue_ff_extend k v0 rest (by omega)).symm⟩
    show isMinimalTC (v0 :: rest) = true
    cases rest with
    | nil => rfl
    | cons y t => rw [minimal_cons2]; omega

theorem tcValue_toBE_signed (w : Nat) (hw : 1 ≤ w) (v : Int) (hr : inRange true w v = true) :
    tcValue (toBE w (v % (2 : Int) ^ (8 * w)).toNat) = v := by
  have ⟨h1, h2⟩ := (inRange_signed_iff w hw v).mp hr
  obtain ⟨j, rfl⟩ : ∃ j, w = j + 1 := ⟨w - 1, by omega⟩
  rw [Nat.add_sub_cancel] at h1 h2
  have hp : (2 : Int) ^ (8 * (j + 1)) = ((256 * 256 ^ j : Nat) : Int) := by
    rw [int_two_pow, ← pow256, Nat.pow_succ, Nat.mul_comm]
  rw [hp, ← signedOfBE_eq_tcValue]
  have hpos := pow_pos256 j
  generalize hm : (v % ((256 * 256 ^ j : Nat) : Int)).toNat = m
  have hmv : (m : Int) = if v < 0 then v + ((256 * 256 ^ j : Nat) : Int) else v := by
    rw [← hm]
    by_cases hv : v < 0
    · rw [if_pos hv, ← Int.add_mul_emod_self_left v _ 1, Int.mul_one,
        Int.emod_eq_of_lt (by omega) (by omega)]
      omega
    · rw [if_neg hv, Int.emod_eq_of_lt (by omega) (by omega)]; omega
  have hlt : m < 256 * 256 ^ j := by split at hmv <;> omega
  have hb : beValue (toBE (j + 1) m) = m := by
    rw [beValue_toBE, Nat.pow_succ, Nat.mul_comm, Nat.mod_eq_of_lt hlt]
  simp only [signedOfBE, hb, toBE_length, two_pow_sub1 (j + 1) (by omega), Nat.add_sub_cancel,
    int_two_pow, ← pow256, Nat.pow_succ, Nat.mul_comm (256 ^ j) 256]
  by_cases hv : v < 0
  · rw [if_pos hv] at hmv
    rw [if_pos ⟨by omega, by omega⟩]; omega
  · rw [if_neg hv] at hmv
    rw [if_neg (by omega)]; omega

/-- `unsigned_content!` and the non-negative branch of `signed_content!` write `fromBytesResult`
    of the stripped octets -/
theorem zero_result (b : UInt8) (t : Bytes) (f : UInt8 → Bool)
    (hf : ∀ b, f b = decide (128 ≤ b.toNat)) :
    (if f b = true then [0] else []) ++ b :: t = fromBytesResult (b :: t) := by
  simp only [fromBytesResult, hf, decide_eq_true_eq]
  by_cases h : b.toNat < 128
  · rw [if_neg (by omega), if_pos h]; rfl
  · rw [if_pos (by omega), if_neg h]; rfl

theorem strip_zero_spec (l : Bytes) :
    ∃ u, l.dropWhile (· == 0) = u ∧ (beValue l ≠ 0 → u ≠ []) ∧
      isMinimalTC (fromBytesResult u) = true ∧ tcValue (fromBytesResult u) = (beValue l : Int) := by
  obtain ⟨k, v, h1, h2, h3⟩ := dropWhile_split 0 l
  have hb : beValue l = beValue v := by
    rw [h1, beValue_append, beValue_replicate_zero]; simp
  refine ⟨v, h2, ?_, (fromBytesResult_spec v h3).1, by rw [(fromBytesResult_spec v h3).2, hb]⟩
  intro hl e; subst e; exact hl (hb.trans beValue_nil)

theorem encUnsigned_spec (w n : Nat) (hn : n < 256 ^ w) :
    isMinimalTC (encUnsigned w n) = true ∧ tcValue (encUnsigned w n) = (n : Int) := by
  unfold encUnsigned
  by_cases h0 : n = 0
  · subst h0; exact ⟨rfl, rfl⟩
  · have hz : (n == 0) = false := by simp [h0]
    rw [hz]; simp only [Bool.false_eq_true, if_false]
    have hb : beValue (toBE w n) = n := by rw [beValue_toBE, Nat.mod_eq_of_lt hn]
    obtain ⟨u, e1, e2, e3⟩ := strip_zero_spec (toBE w n)
    rw [e1]
    cases u with
    | nil => exact absurd rfl (e2 (by omega))
    | cons b t =>
      show isMinimalTC ((if ((b &&& 0x80) != 0) = true then [0] else []) ++ b :: t) = true ∧
        tcValue ((if ((b &&& 0x80) != 0) = true then [0] else []) ++ b :: t) = _
      rw [zero_result b t (fun b => (b &&& 0x80) != 0) byte_and80_ne0, ← hb]; exact e3

theorem encSigned_spec (w : Nat) (hw : 1 ≤ w) (v : Int) (hr : inRange true w v = true) :
    isMinimalTC (encSigned w v) = true ∧ tcValue (encSigned w v) = v := by
  unfold encSigned
  by_cases h0 : v = 0
  · subst h0; exact ⟨rfl, rfl⟩
  by_cases h1 : v = -1
  · subst h1; exact ⟨rfl, rfl⟩
  have hz : (v == 0) = false := by simp [h0]
  have hz1 : (v == -1) = false := by simp [h1]
  rw [hz, hz1]; simp only [Bool.false_eq_true, if_false]
  have hval := tcValue_toBE_signed w hw v hr
  generalize toBE w (v % (2 : Int) ^ (8 * w)).toNat = l at hval
  by_cases hv : v < 0
  · rw [if_pos hv]
    obtain ⟨k, u, e1, e2, e3⟩ := dropWhile_split 0xFF l
    rw [e2]
    cases u with
    | nil =>
      exfalso
      rw [List.append_nil] at e1
      have hbe := beValue_replicate_ff k
      cases k with
      | zero => subst e1; simp [tcValue] at hval; omega
      | succ j =>
        rw [List.replicate_succ] at e1
        rw [e1, tcValue_of_ge 0xFF _ (by decide), ← List.replicate_succ, List.length_replicate] at hval
        omega
    | cons v0 rest =>
      have hneg : tcValue (List.replicate k (0xFF : UInt8) ++ v0 :: rest) < 0 := by
        rw [← e1, hval]; exact hv
      have := negResult_spec k v0 rest (e3 v0 rest rfl) hneg
      simp only [byte_and80_ne80, negResult, decide_eq_true_eq] at this ⊢
      rw [← e1, hval] at this
      exact this
  · rw [if_neg hv]
    have hx : 0 ≤ tcValue l := by omega
    have hbe : tcValue l = (beValue l : Int) := by
      cases l with
      | nil => rfl
      | cons b t =>
        have := tcValue_neg_iff b t
        exact tcValue_of_lt b t (by omega)
    have hne : beValue l ≠ 0 := by omega
    obtain ⟨u, e1, e2, e3⟩ := strip_zero_spec l
    rw [e1]
    cases u with
    | nil => exact absurd rfl (e2 hne)
    | cons b t =>
      show isMinimalTC ((if ((b &&& 0x80) == 0x80) = true then [0] else []) ++ b :: t) = true ∧
        tcValue ((if ((b &&& 0x80) == 0x80) = true then [0] else []) ++ b :: t) = _
      rw [zero_result b t (fun b => (b &&& 0x80) == 0x80) byte_and80_eq80, ← hval, hbe]; exact e3

theorem encU8_spec (n : Nat) (hn : n < 256) :
    isMinimalTC (encU8 n) = true ∧ tcValue (encU8 n) = (n : Int) := by
  have h0 : (0 : UInt8).toNat = 0 := rfl
  have ht : (UInt8.ofNat n).toNat = n := by rw [toNat_ofNat]; omega
  unfold encU8
  by_cases h : n > 0x7F
  · rw [if_pos h]
    refine ⟨?_, ?_⟩
    · show isMinimalTC [0, UInt8.ofNat n] = true
      rw [minimal_cons2, ht]; omega
    · show tcValue [0, UInt8.ofNat n] = _
      rw [tcValue_of_lt 0 _ (by decide), beValue_cons, beValue_cons, beValue_nil, h0, ht]; simp
  · rw [if_neg h]
    refine ⟨rfl, ?_⟩
    show tcValue [UInt8.ofNat n] = _
    rw [tcValue_of_lt _ _ (by omega), beValue_cons, beValue_nil, ht]; simp

theorem encI8_spec (v : Int) (h1 : -128 ≤ v) (h2 : v < 128) :
    isMinimalTC (encI8 v) = true ∧ tcValue (encI8 v) = v := by
  refine ⟨rfl, ?_⟩
  unfold encI8
  have hm : (v % 256).toNat < 256 := by omega
  have ht : (UInt8.ofNat (v % 256).toNat).toNat = (v % 256).toNat := by
    rw [toNat_ofNat]; omega
  by_cases hv : v < 0
  · rw [tcValue_of_ge _ _ (by omega), beValue_cons, beValue_nil, ht]; simp; omega
  · rw [tcValue_of_lt _ _ (by omega), beValue_cons, beValue_nil, ht]; simp; omega

theorem encInt_unsigned_aux (w : Nat) (v : Int) (hr : inRange false w v = true) :
    isMinimalTC (encUnsigned w v.toNat) = true ∧ tcValue (encUnsigned w v.toNat) = v := by
  have hu := (inRange_unsigned_iff w v).mp hr
  have h := encUnsigned_spec w v.toNat (by omega)
  exact ⟨h.1, h.2.trans (by omega)⟩

/-- **C15 conversion from `iN` / `uN`** (`Integer::from`, `Unsigned::from`): for every value of
    the fixed-width type, the content written is the minimal form of exactly that number. -/
theorem encInt_spec (ty : IntTy) (v : Int) (hr : inRange ty.signed ty.width v = true) :
    isMinimalTC (encInt ty v) = true ∧ tcValue (encInt ty v) = v := by
  cases ty with
  | i8 =>
    have hr' : inRange true 1 v = true := hr
    have := (inRange_signed_iff 1 (by decide) v).mp hr'
    have e : encInt .i8 v = encI8 v := by simp only [encInt]
    rw [e]; exact encI8_spec v (by omega) (by omega)
  | u8 =>
    have hr' : inRange false 1 v = true := hr
    have := (inRange_unsigned_iff 1 v).mp hr'
    have h := encU8_spec v.toNat (by omega)
    have e : encInt .u8 v = encU8 v.toNat := by simp only [encInt]
    rw [e]; exact ⟨h.1, h.2.trans (by omega)⟩
  | i16 =>
    have hr' : inRange true 2 v = true := hr
    have e : encInt .i16 v = encSigned 2 v := by simp only [encInt, IntTy.signed, IntTy.width, if_true]
    rw [e]; exact encSigned_spec 2 (by decide) v hr'
  | i32 =>
    have hr' : inRange true 4 v = true := hr
    have e : encInt .i32 v = encSigned 4 v := by simp only [encInt, IntTy.signed, IntTy.width, if_true]
    rw [e]; exact encSigned_spec 4 (by decide) v hr'
  | i64 =>
    have hr' : inRange true 8 v = true := hr
    have e : encInt .i64 v = encSigned 8 v := by simp only [encInt, IntTy.signed, IntTy.width, if_true]
    rw [e]; exact encSigned_spec 8 (by decide) v hr'
  | i128 =>
    have hr' : inRange true 16 v = true := hr
    have e : encInt .i128 v = encSigned 16 v := by simp only [encInt, IntTy.signed, IntTy.width, if_true]
    rw [e]; exact encSigned_spec 16 (by decide) v hr'
  | u16 =>
    have hr' : inRange false 2 v = true := hr
    have e : encInt .u16 v = encUnsigned 2 v.toNat := by
      simp only [encInt, IntTy.signed, IntTy.width, Bool.false_eq_true, if_false]
    rw [e]; exact encInt_unsigned_aux 2 v hr'
  | u32 =>
    have hr' : inRange false 4 v = true := hr
    have e : encInt .u32 v = encUnsigned 4 v.toNat := by
      simp only [encInt, IntTy.signed, IntTy.width, Bool.false_eq_true, if_false]
    rw [e]; exact encInt_unsigned_aux 4 v hr'
  | u64 =>
    have hr' : inRange false 8 v = true := hr
    have e : encInt .u64 v = encUnsigned 8 v.toNat := by
      simp only [encInt, IntTy.signed, IntTy.width, Bool.false_eq_true, if_false]
    rw [e]; exact encInt_unsigned_aux 8 v hr'
  | u128 =>
    have hr' : inRange false 16 v = true := hr
    have e : encInt .u128 v = encUnsigned 16 v.toNat := by
      simp only [encInt, IntTy.signed, IntTy.width, Bool.false_eq_true, if_false]
    rw [e]; exact encInt_unsigned_aux 16 v hr'

/-- from a fixed-width type and back to any (signed) fixed-width type: succeeds exactly when the
    number fits the target, and returns the number -/
theorem from_then_toSigned (ty : IntTy) (v : Int) (hr : inRange ty.signed ty.width v = true)
    (w : Nat) (hw : 1 ≤ w) :
    sliceToSigned w (encInt ty v) = .ok (if inRange true w v = true then some v else none) := by
  have h := encInt_spec ty v hr
  rw [sliceToSigned_value w hw _ h.1, h.2]

theorem from_then_toUnsigned (ty : IntTy) (v : Int) (hr : inRange ty.signed ty.width v = true)
    (w : Nat) :
    sliceToUnsigned w (encInt ty v) = .ok (if inRange false w v = true then some v.toNat else none) := by
  have h := encInt_spec ty v hr
  rw [sliceToUnsigned_value w _ h.1, h.2]

/-! ### the bounds in powers of two, as in the property text -/

/-- any `n`-octet form (`n ≥ 1`) lies in `[-2^(8n-1), 2^(8n-1))` -/
theorem tcValue_range (s : Bytes) (h : s ≠ []) :
    -(2 : Int) ^ (8 * s.length - 1) ≤ tcValue s ∧ tcValue s < (2 : Int) ^ (8 * s.length - 1) := by
  match s, h with
  | b :: t, _ =>
    rw [int_two_pow, two_pow_sub1 _ (by simp), List.length_cons, Nat.add_sub_cancel]
    by_cases hb : 128 ≤ b.toNat
    · have := tcValue_bounds_of_ge b t hb; omega
    · have := tcValue_bounds_of_lt b t (by omega); omega

/-- a minimal form of `n ≥ 2` octets has magnitude beyond what `n - 1` octets can hold:
    `v ≥ 2^(8n-9)` if non-negative, `v < -2^(8n-9)` if negative -/
theorem minimal_magnitude (s : Bytes) (hm : isMinimalTC s = true) (h2 : 2 ≤ s.length) :
    (0 ≤ tcValue s → (2 : Int) ^ (8 * s.length - 9) ≤ tcValue s) ∧
    (tcValue s < 0 → tcValue s < -(2 : Int) ^ (8 * s.length - 9)) := by
  match s, hm, h2 with
  | [x], _, h2 => simp at h2
  | a :: b :: t, hm, _ =>
    have e : 8 * (a :: b :: t).length - 9 = 8 * (t.length + 1) - 1 := by simp; omega
    rw [int_two_pow, e, two_pow_sub1 _ (by omega), Nat.add_sub_cancel]
    have hs := tcValue_neg_iff a (b :: t)
    constructor
    · intro h; exact minimal_lower_of_lt a b t hm (by omega)
    · intro h; exact minimal_upper_of_ge a b t hm (by omega)

/-- for minimal forms of the same sign, longer means larger magnitude -/
theorem longer_larger_magnitude (a b : Bytes) (ha : a ≠ []) (hb : isMinimalTC b = true)
    (hl : a.length < b.length) :
    (0 ≤ tcValue a → 0 ≤ tcValue b → tcValue a < tcValue b) ∧
    (tcValue a < 0 → tcValue b < 0 → tcValue b < tcValue a) := by
  match a, ha, b, hb, hl with
  | x :: s, _, y :: t, hb, hl =>
    have h1 := tcValue_neg_iff x s
    have h2 := tcValue_neg_iff y t
    constructor
    · intro p q; exact longer_larger_of_lt x s y t hb hl (by omega) (by omega)
    · intro p q; exact longer_smaller_of_ge x s y t hb hl (by omega) (by omega)
  | _ :: _, _, [], hb, _ => exact absurd rfl (minimal_ne_nil _ hb)

/-! ### non-vacuity and the need for the hypotheses -/

example : isMinimalTC [0x00, 0x80] = true ∧ isMinimalTC [0x7F] = true ∧
    isMinimalTC [0xFF, 0x7F] = true ∧ isMinimalTC [0x80] = true := by decide
example : tcValue [0x00, 0x80] = 128 ∧ tcValue [0x7F] = 127 ∧ tcValue [0xFF, 0x7F] = -129 ∧
    tcValue [0x80] = -128 := by decide
/-- 00 80 = 128 > 7F = 127 although 00 < 7F octet-wise -/
example : BigInt.cmp [0x00, 0x80] [0x7F] = .ok .gt := rfl
/-- FF 7F = -129 < 80 = -128 -/
example : BigInt.cmp [0xFF, 0x7F] [0x80] = .ok .lt := rfl
example : BigInt.cmp [0x80] [0x7F] = .ok .lt := rfl
example : BigInt.cmp [0x01, 0x00] [0x00, 0xFF] = .ok .gt := rfl
/-- the general theorem applied to the first example -/
example : BigInt.cmp [0x00, 0x80] [0x7F] = .ok (compare (128 : Int) 127) :=
  cmp_eq_value [0x00, 0x80] [0x7F] rfl rfl
/-- without minimality the order is wrong (00 00 = 0 is not above 01 = 1): the hypothesis is needed;
    decoding (`integerFromPrimitive_spec`) never produces such a value -/
example : BigInt.cmp [0x00, 0x00] [0x01] = .ok .gt := rfl
example : tcValue [0x00, 0x00] < tcValue [0x01] := by decide
example : BigInt.isPositive [0x00, 0x00] = .ok true := rfl
example : BigInt.eq [0x00, 0x00] [0x00] = false ∧ tcValue [0x00, 0x00] = tcValue [0x00] := by decide
/-- on the empty list (never a decoded value: `isMinimalTC [] = false`) the Rust code indexes out
    of bounds -/
example : isMinimalTC [] = false := rfl
example : BigInt.isPositive [] = .error (.panic "index 0") := rfl
example : BigInt.isNegative [] = .error (.panic "index 0") := rfl
example : BigInt.cmp [] [0x01] = .error (.panic "index 0") := rfl
example : sliceToSigned 1 [] = .error (.panic "slice_to_builtin: index 0 of empty slice") := rfl
example : sliceToUnsigned 1 [] = .error (.panic "slice_to_builtin: index 0 of empty slice") := rfl
example : BigInt.isZero [0x00] = true ∧ BigInt.isZero [0x00, 0x80] = false := by decide
example : BigInt.isPositive [0x00, 0x80] = .ok true := rfl
example : BigInt.isPositive [0x00] = .ok false := rfl
example : BigInt.isNegative [0xFF, 0x7F] = .ok true := rfl
example : unsignedFromBytes [0, 0, 0x80] = .ok (some [0x00, 0x80]) := rfl
example : unsignedFromBytes [0x80] = .ok (some [0x00, 0x80]) := rfl
example : unsignedFromBytes [0, 0, 0] = .ok (some [0x00]) := rfl
example : unsignedFromBytes [0, 0x7F] = .ok (some [0x7F]) := rfl
example : sliceToSigned 1 [0x80] = .ok (some (-128)) := rfl
example : sliceToSigned 1 [0x00, 0x80] = .ok none := rfl
example : sliceToSigned 2 [0x00, 0x80] = .ok (some 128) := by
  rw [sliceToSigned_value 2 (by decide) _ rfl]; exact congrArg _ (by decide)
example : sliceToSigned 2 [0xFF, 0x7F] = .ok (some (-129)) := by
  rw [sliceToSigned_value 2 (by decide) _ rfl]; exact congrArg _ (by decide)
example : sliceToUnsigned 1 [0x00, 0x80] = .ok (some 128) := rfl
example : sliceToUnsigned 1 [0x01, 0x00] = .ok none := rfl
example : sliceToUnsigned 1 [0x80] = .ok none := rfl
/-- the `w ≥ 1` hypothesis of `sliceToSigned_value` is needed only because `inRange true 0` is the
    degenerate range `[-1, 1)` -/
example : sliceToSigned 0 [0x00] = .ok none := rfl
example : inRange true 0 (tcValue [0x00]) = true := by decide
example : encInt .i16 (-129) = [0xFF, 0x7F] ∧ encInt .u16 128 = [0x00, 0x80] ∧
    encInt .i8 (-128) = [0x80] ∧ encInt .u8 255 = [0x00, 0xFF] ∧ encInt .i16 (-32768) = [0x80, 0x00] := by
  decide
example : inRange IntTy.i16.signed IntTy.i16.width (-129) = true := by decide
example : runG0 integerFromPrimitive (St ([0x00, 0x80] ++ [0x05]) (some 2)) =
    .ok ([0x00, 0x80], St [0x05] (some 0)) := integerFromPrimitive_spec [0x00, 0x80] [0x05]
example : runG0 integerFromPrimitive (St ([0x00, 0x7F] ++ [0x05]) (some 2)) = .error .content :=
  integerFromPrimitive_spec [0x00, 0x7F] [0x05]
example : runG0 unsignedFromPrimitive (St ([0x80] ++ []) (some 1)) = .error .content :=
  unsignedFromPrimitive_spec [0x80] []


/-! ### `Ord` is a lawful total order (session 5) -/

theorem int_compare_swap (m n : Int) : compare n m = (compare m n).swap := by
  rcases Int.lt_trichotomy m n with h | h | h
  · rw [Int.compare_eq_lt.mpr h, Int.compare_eq_gt.mpr h]; rfl
  · subst h; simp
  · rw [Int.compare_eq_gt.mpr h, Int.compare_eq_lt.mpr h]; rfl

/-- C15 — `Ord` on arbitrary-size integers is a lawful total order: `cmp b a` is the reverse of
`cmp a b`, `Less` is transitive, and `Equal` exactly where `==` holds (what sorting and ordered
maps rely on). -/
theorem cmp_swap (a b : Bytes) (ha : isMinimalTC a = true) (hb : isMinimalTC b = true) :
    ∃ o, BigInt.cmp a b = .ok o ∧ BigInt.cmp b a = .ok o.swap :=
  ⟨_, cmp_eq_value a b ha hb, by rw [cmp_eq_value b a hb ha, int_compare_swap]⟩

theorem cmp_trans (a b c : Bytes) (ha : isMinimalTC a = true) (hb : isMinimalTC b = true)
    (hc : isMinimalTC c = true) (h1 : BigInt.cmp a b = .ok .lt) (h2 : BigInt.cmp b c = .ok .lt) :
    BigInt.cmp a c = .ok .lt := by
  rw [cmp_eq_value a b ha hb] at h1
  rw [cmp_eq_value b c hb hc] at h2
  rw [cmp_eq_value a c ha hc]
  injection h1 with h1; injection h2 with h2
  have h1' := Int.compare_eq_lt.mp h1
  have h2' := Int.compare_eq_lt.mp h2
  rw [Int.compare_eq_lt.mpr (by omega)]

theorem cmp_eq_iff_eq (a b : Bytes) (ha : isMinimalTC a = true) (hb : isMinimalTC b = true) :
    BigInt.cmp a b = .ok .eq ↔ BigInt.eq a b = true := by
  rw [cmp_eq_value a b ha hb, eq_iff_value a b ha hb]
  constructor
  · intro h; injection h with h; exact Int.compare_eq_eq.mp h
  · intro h; rw [Int.compare_eq_eq.mpr h]

example : isMinimalTC [0xFF, 0x7F] = true ∧ isMinimalTC [0x80] = true
    ∧ BigInt.cmp [0xFF, 0x7F] [0x80] = .ok .lt := ⟨rfl, rfl, rfl⟩

end Bcder.Props.C15
