import Bcder.Model.Restricted
import Bcder.Spec.Values
import Bcder.Lemmas.Bytes
namespace Bcder.Props.C18
open Bcder

/-- the obvious map from the model's character sets to the reference ones -/
def toSpec : CharSet → Spec.CS
  | .utf8 => .utf8
  | .numeric => .numeric
  | .printable => .printable
  | .ia5 => .ia5

/-! ## per-octet facts (all 256 values, by `decide`) -/

theorem numeric_octet (b : UInt8) :
    (b == 0x20 || CharSet.isAsciiDigit b) = (b.toNat == 32 || (48 ≤ b.toNat && b.toNat ≤ 57)) := by
  revert b; apply UInt8.forall_bv; decide
theorem printable_octet (b : UInt8) :
    CharSet.isPrintable b = Spec.printableSet.contains b.toNat := by
  revert b; apply UInt8.forall_bv; decide
theorem ia5_octet (b : UInt8) : decide (b < 0x80) = decide (b.toNat < 128) := by
  revert b; apply UInt8.forall_bv; decide

/-! ## the three single-octet character sets -/

/-- a decoder that accepts one octet at a time by a predicate `p` -/
theorem charsAux_simple (cs : CharSet) (p : UInt8 → Bool)
    (hnil : CharSet.nextChar cs [] = .ok none)
    (hcons : ∀ ch rest, CharSet.nextChar cs (ch :: rest)
                = if p ch then .ok (some (ch.toNat, rest)) else .error ()) :
    ∀ (bs : Bytes) (fuel : Nat), bs.length < fuel →
      CharSet.charsAux cs fuel bs = .ok (if bs.all p then some (bs.map (·.toNat)) else none) := by
  intro bs
  induction bs with
  | nil =>
    intro fuel hf
    cases fuel with
    | zero => omega
    | succ n => simp [CharSet.charsAux, hnil]
  | cons b rest ih =>
    intro fuel hf
    cases fuel with
    | zero => omega
    | succ n =>
      have hr : rest.length < n := by simp at hf; omega
      simp only [CharSet.charsAux, hcons]
      cases hp : p b with
      | false => simp [hp]
      | true =>
        simp only [if_true, ih n hr, bind, Except.bind, List.all_cons, hp, Bool.true_and, List.map_cons]
        cases rest.all p <;> rfl

end Bcder.Props.C18
