/-
  C18 — A restricted character string only ever holds characters of its character set.

  What is proved (for EVERY octet string `bs`, of any length, and all four character sets):

  * `chars_eq_spec`    `CharSet.chars cs bs = .ok (Spec.csDecode (toSpec cs) bs)`: the model of
                       `CharSet::next_char` iterated to the end never panics, never runs out of its
                       fuel, accepts exactly the valid encodings (digits and space; the
                       PrintableString repertoire; 7-bit ASCII; well-formed UTF-8 per RFC 3629) and
                       yields exactly the characters encoded.
  * `check_eq_spec`    `CharSet::check` returns `true` exactly on the valid encodings.
  * `fromStr_eq_spec`, `fromStr_utf8`, `fromStr_wellformed`   `CharSet::from_str`.
  * `new_eq_spec`, `rs_chars_eq_spec`, `chars_of_new`, `segmentation_irrelevant`,
    `fromContent_eq`   `RestrictedString::{new, chars/Display, from_content}`.
  * `csDecode_scalar`, `chars_scalar`   every character yielded is a Unicode scalar value.
  * `utf8_decode_iff`, `numeric_decode_iff`, `printable_decode_iff`, `ia5_decode_iff`
                       the reference decoder itself, characterised independently of how it searches:
                       `bs` decodes to `l` iff `bs` is the concatenation of the encodings of the
                       scalar values `l` (resp. `l` is `bs` octet by octet and every octet is in the
                       set).  These tie "accepted" to "a valid encoding in the character set" and
                       "yielded" to "the characters encoded".

  The UTF-8 part goes through one-step lemmas: `nextChar_sound` (a step of the model's decoder that
  yields `c` consumed exactly `utf8Encode c`, `c` scalar), `nextChar_complete` (on
  `utf8Encode c ++ rest` with `c` scalar the model yields `c` and `rest`), `enc_prefix_free` (an
  octet string starts with at most one encoding), hence `step_agree` (the model's step and the
  reference's "unique k ∈ 1..4" step coincide), then induction on the fuel.

  Segmentation: `RS.new` / `RS.chars` see an `OS` only through `OS.octets` (the concatenation of the
  segments of a constructed value, C16/C17), so every statement is about that octet sequence and
  holds whatever the segmentation — in particular when a multi-octet character straddles a segment
  boundary (see the last examples).

  NOT covered here:
  * that a Rust `str` is well-formed UTF-8 is Rust's guarantee, not a theorem: the model's
    `fromStr .utf8` returns its argument unconditionally (`fromStr_utf8`), as the Rust code does;
    `fromStr_wellformed` states the uniform "accepted iff valid" under that explicit hypothesis.
  * `OS.octets` producing `.ok bs` for every value built by `OctetString::from_content` is C16's
    subject; here it is a hypothesis (`new_octets_err` covers the other branch: the failure is passed
    on, nothing is accepted).
  * characters are modelled as their code points (`Nat`); the text rendering of `Display` beyond the
    sequence of characters is not modelled.
-/
import Bcder.Model.Restricted
import Bcder.Spec.Values
import Bcder.Lemmas.Bytes
namespace Bcder.Props.C18
open Bcder

/-- the obvious map from the model's character sets to the reference ones -/
def toSpec : CharSet → Spec.CS
  | .utf8 => .utf8
  | .numeric => .numeric
  | .printable => .printable
  | .ia5 => .ia5

/-! ## per-octet facts (all 256 values, by `decide`) -/

theorem numeric_octet (b : UInt8) :
    (b == 0x20 || CharSet.isAsciiDigit b) = (b.toNat == 32 || (48 ≤ b.toNat && b.toNat ≤ 57)) := by
  revert b; apply UInt8.forall_bv; decide
theorem printable_octet (b : UInt8) :
    CharSet.isPrintable b = Spec.printableSet.contains b.toNat := by
  revert b; apply UInt8.forall_bv; decide
theorem ia5_octet (b : UInt8) : decide (b < 0x80) = decide (b.toNat < 128) := by
  revert b; apply UInt8.forall_bv; decide

/-! ## the three single-octet character sets -/

/-- a decoder that accepts one octet at a time by a predicate `p` -/
theorem charsAux_simple (cs : CharSet) (p : UInt8 → Bool)
    (hnil : CharSet.nextChar cs [] = .ok none)
    (hcons : ∀ ch rest, CharSet.nextChar cs (ch :: rest)
                = if p ch then .ok (some (ch.toNat, rest)) else .error ()) :
    ∀ (bs : Bytes) (fuel : Nat), bs.length < fuel →
      CharSet.charsAux cs fuel bs = .ok (if bs.all p then some (bs.map (·.toNat)) else none) := by
  intro bs
  induction bs with
  | nil =>
    intro fuel hf
    cases fuel with
    | zero => omega
    | succ n => simp [CharSet.charsAux, hnil]
  | cons b rest ih =>
    intro fuel hf
    cases fuel with
    | zero => omega
    | succ n =>
      have hr : rest.length < n := by simp at hf; omega
      simp only [CharSet.charsAux, hcons]
      cases hp : p b with
      | false => simp [hp]
      | true =>
        simp only [if_true, ih n hr, bind, Except.bind, List.all_cons, hp, Bool.true_and, List.map_cons]
        cases rest.all p <;> rfl

/-! ## UTF-8: bit operations as arithmetic -/

theorem and3f (b : UInt8) : (b &&& 0x3F).toNat = b.toNat % 64 := by
  revert b; apply UInt8.forall_bv; decide
theorem and1f (b : UInt8) : (b &&& 0x1F).toNat = b.toNat % 32 := by
  revert b; apply UInt8.forall_bv; decide
theorem and0f (b : UInt8) : (b &&& 0x0F).toNat = b.toNat % 16 := by
  revert b; apply UInt8.forall_bv; decide
theorem and07 (b : UInt8) : (b &&& 0x07).toNat = b.toNat % 8 := by
  revert b; apply UInt8.forall_bv; decide
theorem isCont_iff (b : UInt8) :
    CharSet.isContinuation b = decide (128 ≤ b.toNat ∧ b.toNat < 192) := by
  revert b; apply UInt8.forall_bv; decide

/-- a multiple of `2^k` or-ed with something below `2^k` is their sum -/
theorem or_low (x y k : Nat) (hx : x % 2 ^ k = 0) (hy : y < 2 ^ k) : x ||| y = x + y := by
  rw [← Nat.mul_div_cancel' (Nat.dvd_of_mod_eq_zero hx)]
  exact (Nat.two_pow_add_eq_or_of_lt hy _).symm

theorem code2 (a b : Nat) (hb : b < 64) : (a <<< 6) ||| b = a * 64 + b := by
  rw [Nat.shiftLeft_eq]; exact or_low _ _ 6 (by omega) (by omega)
theorem code3 (a b c : Nat) (hb : b < 64) (hc : c < 64) :
    (a <<< 12) ||| (b <<< 6) ||| c = a * 4096 + b * 64 + c := by
  simp only [Nat.shiftLeft_eq]
  have h1 : a * 2 ^ 12 ||| b * 2 ^ 6 = a * 4096 + b * 64 := or_low _ _ 12 (by omega) (by omega)
  rw [h1]; exact or_low _ _ 6 (by omega) (by omega)
theorem code4 (a b c d : Nat) (hb : b < 64) (hc : c < 64) (hd : d < 64) :
    (a <<< 18) ||| (b <<< 12) ||| (c <<< 6) ||| d = a * 262144 + b * 4096 + c * 64 + d := by
  simp only [Nat.shiftLeft_eq]
  have h1 : a * 2 ^ 18 ||| b * 2 ^ 12 = a * 262144 + b * 4096 := or_low _ _ 18 (by omega) (by omega)
  have h2 : a * 262144 + b * 4096 ||| c * 2 ^ 6 = a * 262144 + b * 4096 + c * 64 :=
    or_low _ _ 12 (by omega) (by omega)
  rw [h1, h2]; exact or_low _ _ 6 (by omega) (by omega)

theorem isScalar_eq (c : Nat) : CharSet.isScalar c = Spec.isScalar c := by
  simp [CharSet.isScalar, Spec.isScalar]

theorem toChar_some (code min c : Nat) (h : CharSet.toChar code min = some c) :
    c = code ∧ min ≤ code ∧ Spec.isScalar code = true := by
  unfold CharSet.toChar at h
  split at h
  · cases h
  · split at h
    · rename_i h1 h2; rw [isScalar_eq] at h2; cases h; exact ⟨rfl, by omega, h2⟩
    · cases h

theorem lt_80 (b : UInt8) : (b < 0x80) = (b.toNat < 128) := by simp [UInt8.lt_iff_toNat_lt]
theorem lt_C0 (b : UInt8) : (b < 0xC0) = (b.toNat < 192) := by simp [UInt8.lt_iff_toNat_lt]
theorem lt_E0 (b : UInt8) : (b < 0xE0) = (b.toNat < 224) := by simp [UInt8.lt_iff_toNat_lt]
theorem lt_F0 (b : UInt8) : (b < 0xF0) = (b.toNat < 240) := by simp [UInt8.lt_iff_toNat_lt]
theorem gt_F7 (b : UInt8) : (b > 0xF7) = (247 < b.toNat) := by simp [GT.gt, UInt8.lt_iff_toNat_lt]

theorem code2' (f s : UInt8) :
    ((f &&& 0x1F).toNat <<< 6) ||| (s &&& 0x3F).toNat = f.toNat % 32 * 64 + s.toNat % 64 := by
  rw [and1f, and3f]; exact code2 _ _ (by omega)
theorem code3' (f s t : UInt8) :
    ((f &&& 0x0F).toNat <<< 12) ||| ((s &&& 0x3F).toNat <<< 6) ||| (t &&& 0x3F).toNat
      = f.toNat % 16 * 4096 + s.toNat % 64 * 64 + t.toNat % 64 := by
  rw [and0f, and3f, and3f]; exact code3 _ _ _ (by omega) (by omega)
theorem code4' (f s t u : UInt8) :
    ((f &&& 0x07).toNat <<< 18) ||| ((s &&& 0x3F).toNat <<< 12) ||| ((t &&& 0x3F).toNat <<< 6)
        ||| (u &&& 0x3F).toNat
      = f.toNat % 8 * 262144 + s.toNat % 64 * 4096 + t.toNat % 64 * 64 + u.toNat % 64 := by
  rw [and07, and3f, and3f, and3f]; exact code4 _ _ _ _ (by omega) (by omega) (by omega)

theorem enc1 (f : UInt8) (hf : f.toNat < 128) : Spec.utf8Encode f.toNat = [f] := by
  unfold Spec.utf8Encode
  rw [if_pos (by omega), ofNat_toNat]
theorem enc2 (f s : UInt8) (hf : 192 ≤ f.toNat ∧ f.toNat < 224) (hs : 128 ≤ s.toNat ∧ s.toNat < 192)
    (hmin : 128 ≤ f.toNat % 32 * 64 + s.toNat % 64) :
    Spec.utf8Encode (f.toNat % 32 * 64 + s.toNat % 64) = [f, s] := by
  unfold Spec.utf8Encode
  rw [if_neg (by omega), if_pos (by omega), ← byte_of_toNat f _ (by omega),
    ← byte_of_toNat s _ (by omega)]
theorem enc3 (f s t : UInt8) (hf : 224 ≤ f.toNat ∧ f.toNat < 240)
    (hs : 128 ≤ s.toNat ∧ s.toNat < 192) (ht : 128 ≤ t.toNat ∧ t.toNat < 192)
    (hmin : 2048 ≤ f.toNat % 16 * 4096 + s.toNat % 64 * 64 + t.toNat % 64) :
    Spec.utf8Encode (f.toNat % 16 * 4096 + s.toNat % 64 * 64 + t.toNat % 64) = [f, s, t] := by
  unfold Spec.utf8Encode
  rw [if_neg (by omega), if_neg (by omega), if_pos (by omega), ← byte_of_toNat f _ (by omega),
    ← byte_of_toNat s _ (by omega), ← byte_of_toNat t _ (by omega)]
theorem enc4 (f s t u : UInt8) (hf : 240 ≤ f.toNat ∧ f.toNat ≤ 247)
    (hs : 128 ≤ s.toNat ∧ s.toNat < 192) (ht : 128 ≤ t.toNat ∧ t.toNat < 192)
    (hu : 128 ≤ u.toNat ∧ u.toNat < 192)
    (hmin : 65536 ≤ f.toNat % 8 * 262144 + s.toNat % 64 * 4096 + t.toNat % 64 * 64 + u.toNat % 64) :
    Spec.utf8Encode (f.toNat % 8 * 262144 + s.toNat % 64 * 4096 + t.toNat % 64 * 64 + u.toNat % 64)
      = [f, s, t, u] := by
  unfold Spec.utf8Encode
  rw [if_neg (by omega), if_neg (by omega), if_neg (by omega), ← byte_of_toNat f _ (by omega),
    ← byte_of_toNat s _ (by omega), ← byte_of_toNat t _ (by omega), ← byte_of_toNat u _ (by omega)]

/-- (a) a successful step of the model's UTF-8 decoder yields a scalar value and has consumed
    exactly its RFC 3629 encoding -/
theorem nextChar_sound (it : Bytes) (c : Nat) (rest : Bytes)
    (h : CharSet.nextChar .utf8 it = .ok (some (c, rest))) :
    Spec.isScalar c = true ∧ it = Spec.utf8Encode c ++ rest := by
  unfold CharSet.nextChar at h
  simp only [lt_80, lt_C0, lt_E0, lt_F0, gt_F7, isCont_iff, code2', code3', code4'] at h
  split at h
  · cases h
  · rename_i f it1
    split at h
    · rename_i h1
      cases h
      refine ⟨by simp [Spec.isScalar]; omega, ?_⟩
      rw [enc1 f h1]; rfl
    · rename_i h1
      split at h
      · cases h
      · rename_i s it2
        split at h
        · cases h
        · rename_i h2
          simp only [Bool.or_eq_true, decide_eq_true_eq, Bool.not_eq_true',
            decide_eq_false_iff_not, not_or, Decidable.not_not] at h2
          split at h
          · rename_i h3
            split at h
            · rename_i c' hc
              cases h
              obtain ⟨rfl, hmin, hsc⟩ := toChar_some _ _ _ hc
              refine ⟨hsc, ?_⟩
              rw [enc2 f s (by omega) h2.2 hmin]; rfl
            · cases h
          · rename_i h3
            split at h
            · cases h
            · rename_i t it3
              split at h
              · cases h
              · rename_i h4
                simp only [Bool.not_eq_true', decide_eq_false_iff_not, Decidable.not_not] at h4
                split at h
                · rename_i h5
                  split at h
                  · rename_i c' hc
                    cases h
                    obtain ⟨rfl, hmin, hsc⟩ := toChar_some _ _ _ hc
                    refine ⟨hsc, ?_⟩
                    rw [enc3 f s t (by omega) h2.2 h4 hmin]; rfl
                  · cases h
                · rename_i h5
                  split at h
                  · cases h
                  · rename_i u it4
                    split at h
                    · cases h
                    · rename_i h6
                      simp only [Bool.or_eq_true, decide_eq_true_eq, Bool.not_eq_true',
                        decide_eq_false_iff_not, not_or, Decidable.not_not] at h6
                      split at h
                      · rename_i c' hc
                        cases h
                        obtain ⟨rfl, hmin, hsc⟩ := toChar_some _ _ _ hc
                        refine ⟨hsc, ?_⟩
                        rw [enc4 f s t u (by omega) h2.2 h4 h6.2 hmin]; rfl
                      · cases h

theorem toChar_ok (code min : Nat) (hmin : min ≤ code) (hsc : Spec.isScalar code = true) :
    CharSet.toChar code min = some code := by
  unfold CharSet.toChar
  rw [if_neg (by omega), isScalar_eq, if_pos hsc]

theorem nc1 (f : UInt8) (rest : Bytes) (hf : f.toNat < 128) :
    CharSet.nextChar .utf8 (f :: rest) = .ok (some (f.toNat, rest)) := by
  simp only [CharSet.nextChar, lt_80, if_pos hf]

theorem nc2 (f s : UInt8) (rest : Bytes) (c : Nat) (hf : 192 ≤ f.toNat ∧ f.toNat < 224)
    (hs : 128 ≤ s.toNat ∧ s.toNat < 192) (hc : f.toNat % 32 * 64 + s.toNat % 64 = c)
    (hmin : 128 ≤ c) (hsc : Spec.isScalar c = true) :
    CharSet.nextChar .utf8 (f :: s :: rest) = .ok (some (c, rest)) := by
  simp only [CharSet.nextChar, lt_80, lt_C0, lt_E0, isCont_iff, code2', hc]
  rw [if_neg (by omega), if_neg (by simp; omega), if_pos (by omega), toChar_ok _ _ hmin hsc]

theorem nc3 (f s t : UInt8) (rest : Bytes) (c : Nat) (hf : 224 ≤ f.toNat ∧ f.toNat < 240)
    (hs : 128 ≤ s.toNat ∧ s.toNat < 192) (ht : 128 ≤ t.toNat ∧ t.toNat < 192)
    (hc : f.toNat % 16 * 4096 + s.toNat % 64 * 64 + t.toNat % 64 = c)
    (hmin : 2048 ≤ c) (hsc : Spec.isScalar c = true) :
    CharSet.nextChar .utf8 (f :: s :: t :: rest) = .ok (some (c, rest)) := by
  simp only [CharSet.nextChar, lt_80, lt_C0, lt_E0, lt_F0, isCont_iff, code3', hc]
  rw [if_neg (by omega), if_neg (by simp; omega), if_neg (by omega), if_neg (by simp; omega),
    if_pos (by omega), toChar_ok _ _ hmin hsc]

theorem nc4 (f s t u : UInt8) (rest : Bytes) (c : Nat) (hf : 240 ≤ f.toNat ∧ f.toNat ≤ 247)
    (hs : 128 ≤ s.toNat ∧ s.toNat < 192) (ht : 128 ≤ t.toNat ∧ t.toNat < 192)
    (hu : 128 ≤ u.toNat ∧ u.toNat < 192)
    (hc : f.toNat % 8 * 262144 + s.toNat % 64 * 4096 + t.toNat % 64 * 64 + u.toNat % 64 = c)
    (hmin : 65536 ≤ c) (hsc : Spec.isScalar c = true) :
    CharSet.nextChar .utf8 (f :: s :: t :: u :: rest) = .ok (some (c, rest)) := by
  simp only [CharSet.nextChar, lt_80, lt_C0, lt_E0, lt_F0, gt_F7, isCont_iff, code4', hc]
  rw [if_neg (by omega), if_neg (by simp; omega), if_neg (by omega), if_neg (by simp; omega),
    if_neg (by omega), if_neg (by simp; omega), toChar_ok _ _ hmin hsc]

theorem scalar_le (c : Nat) (h : Spec.isScalar c = true) : c ≤ 0x10FFFF := by
  simp [Spec.isScalar] at h; omega

/-- (b) on the encoding of a scalar value followed by anything, the model's UTF-8 decoder yields
    that value and the remainder -/
theorem nextChar_complete (c : Nat) (rest : Bytes) (hsc : Spec.isScalar c = true) :
    CharSet.nextChar .utf8 (Spec.utf8Encode c ++ rest) = .ok (some (c, rest)) := by
  have hle := scalar_le c hsc
  unfold Spec.utf8Encode
  split
  · rename_i h
    have := nc1 (UInt8.ofNat c) rest (by rw [toNat_ofNat]; omega)
    rw [toNat_ofNat, Nat.mod_eq_of_lt (by omega)] at this
    exact this
  · split
    · exact nc2 _ _ rest c (by rw [toNat_ofNat]; omega) (by rw [toNat_ofNat]; omega)
        (by simp only [toNat_ofNat]; omega) (by omega) hsc
    · split
      · exact nc3 _ _ _ rest c (by rw [toNat_ofNat]; omega) (by rw [toNat_ofNat]; omega)
          (by rw [toNat_ofNat]; omega) (by simp only [toNat_ofNat]; omega) (by omega) hsc
      · exact nc4 _ _ _ _ rest c (by rw [toNat_ofNat]; omega) (by rw [toNat_ofNat]; omega)
          (by rw [toNat_ofNat]; omega) (by rw [toNat_ofNat]; omega)
          (by simp only [toNat_ofNat]; omega) (by omega) hsc

/-- the `tryK` of `Spec.utf8Decode`, named -/
def tryK (bs : Bytes) (k : Nat) : Option (Nat × Bytes) :=
  match Spec.utf8Candidate (bs.take k) with
  | some c =>
    if (bs.take k).length == k && Spec.isScalar c && Spec.utf8Encode c == bs.take k
    then some (c, bs.drop k) else none
  | none => none

/-- the reference's search for the unique `k ∈ 1..4` -/
def specStep (bs : Bytes) : Option (Nat × Bytes) :=
  (tryK bs 1).orElse fun _ => (tryK bs 2).orElse fun _ => (tryK bs 3).orElse fun _ => tryK bs 4

def decodeTail (fuel : Nat) : Option (Nat × Bytes) → Option (List Nat)
  | some (c, rest) => (Spec.utf8Decode fuel rest).map (c :: ·)
  | none => none

/-- one unfolding of the reference decoder, with its local search named `specStep` -/
theorem utf8Decode_succ (fuel : Nat) (bs : Bytes) :
    Spec.utf8Decode (fuel + 1) bs
      = if bs.isEmpty then some [] else decodeTail fuel (specStep bs) := by
  rw [Spec.utf8Decode]
  split
  · rfl
  · rfl

/-- a successful candidate length `k` in the reference search -/
theorem tryK_some (bs : Bytes) (k c : Nat) (r : Bytes) (h : tryK bs k = some (c, r)) :
    Spec.isScalar c = true ∧ bs = Spec.utf8Encode c ++ r ∧ (Spec.utf8Encode c).length = k := by
  unfold tryK at h
  split at h
  · split at h
    · rename_i c' _ hc
      simp only [Bool.and_eq_true, beq_iff_eq] at hc
      obtain ⟨⟨h1, h2⟩, h3⟩ := hc
      cases h
      refine ⟨h2, ?_, ?_⟩
      · rw [h3, List.take_append_drop]
      · rw [h3, h1]
    · cases h
  · cases h

/-- the bit-layout candidate of an encoding is the value encoded -/
theorem cand_enc (c : Nat) (h : Spec.isScalar c = true) :
    Spec.utf8Candidate (Spec.utf8Encode c) = some c := by
  have := scalar_le c h
  unfold Spec.utf8Encode
  split
  · simp only [Spec.utf8Candidate, toNat_ofNat]; congr 1; omega
  · split
    · simp only [Spec.utf8Candidate, toNat_ofNat]; congr 1; omega
    · split
      · simp only [Spec.utf8Candidate, toNat_ofNat]; congr 1; omega
      · simp only [Spec.utf8Candidate, toNat_ofNat]; congr 1; omega

/-- the length of an encoding as announced by its first octet -/
def lenOfFirst (f : UInt8) : Nat :=
  if f.toNat < 128 then 1 else if f.toNat < 224 then 2 else if f.toNat < 240 then 3 else 4

theorem enc_len_first (c : Nat) (h : Spec.isScalar c = true) :
    ∃ f t, Spec.utf8Encode c = f :: t ∧ (f :: t).length = lenOfFirst f := by
  have := scalar_le c h
  unfold Spec.utf8Encode
  split
  · exact ⟨_, _, rfl, by simp only [lenOfFirst, toNat_ofNat]; rw [if_pos (by omega)]; rfl⟩
  · split
    · exact ⟨_, _, rfl, by
        simp only [lenOfFirst, toNat_ofNat]; rw [if_neg (by omega), if_pos (by omega)]; rfl⟩
    · split
      · exact ⟨_, _, rfl, by
          simp only [lenOfFirst, toNat_ofNat]
          rw [if_neg (by omega), if_neg (by omega), if_pos (by omega)]; rfl⟩
      · exact ⟨_, _, rfl, by
          simp only [lenOfFirst, toNat_ofNat]
          rw [if_neg (by omega), if_neg (by omega), if_neg (by omega)]; rfl⟩

theorem enc_len_range (c : Nat) : 1 ≤ (Spec.utf8Encode c).length ∧ (Spec.utf8Encode c).length ≤ 4 := by
  unfold Spec.utf8Encode
  split
  · simp
  · split
    · simp
    · split <;> simp

/-- `utf8Encode` is prefix-free on scalar values: an octet string starts with at most one encoding -/
theorem enc_prefix_free (c c' : Nat) (r r' : Bytes) (h : Spec.isScalar c = true)
    (h' : Spec.isScalar c' = true) (e : Spec.utf8Encode c ++ r = Spec.utf8Encode c' ++ r') :
    c = c' ∧ r = r' := by
  obtain ⟨f, t, hf, hl⟩ := enc_len_first c h
  obtain ⟨f', t', hf', hl'⟩ := enc_len_first c' h'
  have e2 := e
  rw [hf, hf'] at e2
  have hff : f = f' := by simp only [List.cons_append, List.cons.injEq] at e2; exact e2.1
  have hlen : (Spec.utf8Encode c).length = (Spec.utf8Encode c').length := by
    rw [hf, hf', hl, hl', hff]
  obtain ⟨e3, e4⟩ := List.append_inj e hlen
  have h1 := cand_enc c h
  have h2 := cand_enc c' h'
  rw [e3, h2] at h1
  exact ⟨(Option.some.inj h1).symm, e4⟩

theorem tryK_complete (c : Nat) (rest : Bytes) (h : Spec.isScalar c = true) :
    tryK (Spec.utf8Encode c ++ rest) (Spec.utf8Encode c).length = some (c, rest) := by
  unfold tryK
  rw [List.take_left, List.drop_left, cand_enc c h]
  simp [h]

theorem specStep_some (bs : Bytes) (x : Nat × Bytes) (h : specStep bs = some x) :
    ∃ k, tryK bs k = some x := by
  unfold specStep at h
  cases h1 : tryK bs 1 with
  | some y => rw [h1] at h; exact ⟨1, by rw [h1]; exact h⟩
  | none =>
    cases h2 : tryK bs 2 with
    | some y => rw [h1, h2] at h; exact ⟨2, by rw [h2]; exact h⟩
    | none =>
      cases h3 : tryK bs 3 with
      | some y => rw [h1, h2, h3] at h; exact ⟨3, by rw [h3]; exact h⟩
      | none => rw [h1, h2, h3] at h; exact ⟨4, h⟩

theorem specStep_of_tryK (bs : Bytes) (k : Nat) (x : Nat × Bytes) (h : tryK bs k = some x)
    (hk : 1 ≤ k ∧ k ≤ 4) : ∃ y, specStep bs = some y := by
  unfold specStep
  cases h1 : tryK bs 1 with
  | some y => exact ⟨y, rfl⟩
  | none =>
    cases h2 : tryK bs 2 with
    | some y => exact ⟨y, rfl⟩
    | none =>
      cases h3 : tryK bs 3 with
      | some y => exact ⟨y, rfl⟩
      | none =>
        cases h4 : tryK bs 4 with
        | some y => exact ⟨y, rfl⟩
        | none =>
          exfalso
          have : k = 1 ∨ k = 2 ∨ k = 3 ∨ k = 4 := by omega
          rcases this with rfl | rfl | rfl | rfl <;> simp_all

theorem specStep_sound (bs : Bytes) (c : Nat) (r : Bytes) (h : specStep bs = some (c, r)) :
    Spec.isScalar c = true ∧ bs = Spec.utf8Encode c ++ r := by
  obtain ⟨k, hk⟩ := specStep_some bs _ h
  obtain ⟨h1, h2, _⟩ := tryK_some bs k c r hk
  exact ⟨h1, h2⟩

/-- (c) the reference's first-match search finds the encoding that is there -/
theorem specStep_complete (c : Nat) (rest : Bytes) (h : Spec.isScalar c = true) :
    specStep (Spec.utf8Encode c ++ rest) = some (c, rest) := by
  obtain ⟨⟨c', r'⟩, hy⟩ := specStep_of_tryK _ _ _ (tryK_complete c rest h) (enc_len_range c)
  obtain ⟨h1, h2⟩ := specStep_sound _ _ _ hy
  obtain ⟨rfl, rfl⟩ := enc_prefix_free c c' rest r' h h1 h2
  exact hy

/-- the model reports the end only at the end -/
theorem nextChar_none (bs : Bytes) (h : CharSet.nextChar .utf8 bs = .ok none) : bs = [] := by
  cases bs with
  | nil => rfl
  | cons f t =>
    exfalso
    simp only [CharSet.nextChar] at h
    repeat' (first | (cases h; done) | split at h)

/-- one step of the model's UTF-8 decoder is one step of the reference decoder -/
theorem step_agree (bs : Bytes) :
    (CharSet.nextChar .utf8 bs = .ok none ∧ bs = []) ∨
    (CharSet.nextChar .utf8 bs = .error () ∧ bs ≠ [] ∧ specStep bs = none) ∨
    (∃ c rest, CharSet.nextChar .utf8 bs = .ok (some (c, rest)) ∧ specStep bs = some (c, rest) ∧
      rest.length < bs.length) := by
  cases hn : CharSet.nextChar .utf8 bs with
  | error e =>
    right; left
    refine ⟨rfl, ?_, ?_⟩
    · rintro rfl; simp [CharSet.nextChar] at hn
    · cases hs : specStep bs with
      | none => rfl
      | some y =>
        obtain ⟨c, r⟩ := y
        obtain ⟨h1, h2⟩ := specStep_sound _ _ _ hs
        rw [h2, nextChar_complete c r h1] at hn
        cases hn
  | ok v =>
    cases v with
    | none =>
      left
      exact ⟨rfl, nextChar_none bs hn⟩
    | some y =>
      obtain ⟨c, r⟩ := y
      right; right
      obtain ⟨h1, h2⟩ := nextChar_sound _ _ _ hn
      refine ⟨c, r, rfl, ?_, ?_⟩
      · rw [h2]; exact specStep_complete c r h1
      · rw [h2, List.length_append]; have := enc_len_range c; omega

/-- the model's UTF-8 decoder and the reference decoder agree, given enough fuel -/
theorem charsAux_utf8 : ∀ (fuel : Nat) (bs : Bytes), bs.length < fuel →
    CharSet.charsAux .utf8 fuel bs = .ok (Spec.utf8Decode fuel bs) := by
  intro fuel
  induction fuel with
  | zero => intro bs h; omega
  | succ n ih =>
    intro bs hlen
    rw [utf8Decode_succ, CharSet.charsAux]
    rcases step_agree bs with ⟨h1, rfl⟩ | ⟨h1, h2, h3⟩ | ⟨c, rest, h1, h2, h3⟩
    · rw [h1]; rfl
    · rw [h1, h3]
      have : bs.isEmpty = false := by cases bs with | nil => exact absurd rfl h2 | cons _ _ => rfl
      simp [this, decodeTail]
    · rw [h1, h2]
      have : bs.isEmpty = false := by
        cases bs with
        | nil => simp at h3
        | cons _ _ => rfl
      simp only [ih rest (by omega), this, decodeTail, bind, Except.bind]
      cases Spec.utf8Decode n rest <;> rfl

/-! ## main theorems -/

/-- C18 (1) — for every character set and every octet string, of any length, the model's decoder
    (`CharSet::next_char` iterated to the end) terminates within its fuel, raises no panic, accepts
    exactly the valid encodings and yields exactly the characters the reference decoder yields -/
theorem chars_eq_spec (cs : CharSet) (bs : Bytes) :
    CharSet.chars cs bs = .ok (Spec.csDecode (toSpec cs) bs) := by
  unfold CharSet.chars
  cases cs with
  | utf8 => exact charsAux_utf8 (bs.length + 1) bs (by omega)
  | numeric =>
    rw [charsAux_simple .numeric (fun b => b == 0x20 || CharSet.isAsciiDigit b) rfl
      (fun _ _ => rfl) bs _ (by omega)]
    simp only [numeric_octet]; rfl
  | printable =>
    rw [charsAux_simple .printable CharSet.isPrintable rfl (fun _ _ => rfl) bs _ (by omega)]
    have : CharSet.isPrintable = fun b => Spec.printableSet.contains b.toNat :=
      funext printable_octet
    rw [this]; rfl
  | ia5 =>
    rw [charsAux_simple .ia5 (fun b => decide (b < 0x80)) rfl
      (fun _ _ => by simp only [CharSet.nextChar, decide_eq_true_eq]) bs _ (by omega)]
    simp only [ia5_octet]; rfl

/-- C18 (2) — `CharSet::check` accepts exactly the valid encodings -/
theorem check_eq_spec (cs : CharSet) (bs : Bytes) :
    CharSet.check cs bs = .ok (Spec.csDecode (toSpec cs) bs).isSome := by
  simp only [CharSet.check, chars_eq_spec, bind, Except.bind, pure, Except.pure]

/-- C18 (3a) — `from_str` for NumericString, PrintableString, IA5String accepts the string exactly
    when its octets are valid in the character set -/
theorem fromStr_eq_spec (cs : CharSet) (s : Bytes) (hcs : cs ≠ .utf8) :
    CharSet.fromStr cs s
      = .ok (if (Spec.csDecode (toSpec cs) s).isSome then some s else none) := by
  cases cs with
  | utf8 => exact absurd rfl hcs
  | numeric | printable | ia5 =>
    simp only [CharSet.fromStr, check_eq_spec, bind, Except.bind, pure, Except.pure]
    cases (Spec.csDecode _ s).isSome <;> rfl

/-- C18 (3b) — `from_str` for UTF8String is unconditional in the model: the octets of a Rust `str`
    are well-formed UTF-8 by the language's guarantee, and the Rust code does not re-check them -/
theorem fromStr_utf8 (s : Bytes) : CharSet.fromStr .utf8 s = .ok (some s) := rfl

/-- C18 (3) — uniform statement: on the octets of a Rust `str` (well-formed UTF-8, hypothesis `hs`)
    `from_str` accepts exactly when the octets are valid in the character set, for all four sets -/
theorem fromStr_wellformed (cs : CharSet) (s : Bytes)
    (hs : (Spec.csDecode .utf8 s).isSome = true) :
    CharSet.fromStr cs s
      = .ok (if (Spec.csDecode (toSpec cs) s).isSome then some s else none) := by
  cases cs with
  | utf8 => rw [fromStr_utf8]; simp only [toSpec, hs, if_true]
  | numeric => exact fromStr_eq_spec _ s (by decide)
  | printable => exact fromStr_eq_spec _ s (by decide)
  | ia5 => exact fromStr_eq_spec _ s (by decide)

/-! ## what an accepted string holds -/

theorem utf8Decode_sound : ∀ (fuel : Nat) (bs : Bytes) (l : List Nat),
    Spec.utf8Decode fuel bs = some l →
      (∀ c ∈ l, Spec.isScalar c = true) ∧ bs = l.flatMap Spec.utf8Encode := by
  intro fuel
  induction fuel with
  | zero => intro bs l h; simp [Spec.utf8Decode] at h
  | succ n ih =>
    intro bs l h
    rw [utf8Decode_succ] at h
    split at h
    · rename_i he
      cases h
      cases bs with
      | nil => simp
      | cons _ _ => simp at he
    · cases hs : specStep bs with
      | none => rw [hs] at h; simp [decodeTail] at h
      | some y =>
        obtain ⟨c, r⟩ := y
        rw [hs] at h
        simp only [decodeTail, Option.map_eq_some_iff] at h
        obtain ⟨l', hl', rfl⟩ := h
        obtain ⟨h1, h2⟩ := specStep_sound _ _ _ hs
        obtain ⟨h3, h4⟩ := ih r l' hl'
        refine ⟨?_, ?_⟩
        · intro x hx
          rcases List.mem_cons.mp hx with rfl | hx
          · exact h1
          · exact h3 x hx
        · rw [h2, h4]; rfl

theorem utf8Decode_complete : ∀ (l : List Nat) (fuel : Nat),
    (∀ c ∈ l, Spec.isScalar c = true) → (l.flatMap Spec.utf8Encode).length < fuel →
      Spec.utf8Decode fuel (l.flatMap Spec.utf8Encode) = some l := by
  intro l
  induction l with
  | nil =>
    intro fuel _ hf
    cases fuel with
    | zero => simp at hf
    | succ n => rw [utf8Decode_succ]; rfl
  | cons c l ih =>
    intro fuel hs hf
    cases fuel with
    | zero => omega
    | succ n =>
      have hc := hs c (List.mem_cons_self)
      have hne := enc_len_range c
      rw [utf8Decode_succ, List.flatMap_cons, specStep_complete c _ hc]
      rw [List.flatMap_cons, List.length_append] at hf
      have hemp : (Spec.utf8Encode c ++ l.flatMap Spec.utf8Encode).isEmpty = false := by
        cases he : Spec.utf8Encode c with
        | nil => rw [he] at hne; simp at hne
        | cons _ _ => rfl
      rw [hemp]
      simp only [decodeTail, Bool.false_eq_true, if_false]
      rw [ih n (fun x hx => hs x (List.mem_cons_of_mem _ hx)) (by omega)]
      rfl

/-- the reference UTF-8 decoder, characterised without reference to its search: `bs` decodes to
    `l` exactly when every element of `l` is a Unicode scalar value and `bs` is the concatenation
    of their RFC 3629 encodings.  So "the characters yielded" are "the characters encoded". -/
theorem utf8_decode_iff (bs : Bytes) (l : List Nat) :
    Spec.csDecode .utf8 bs = some l ↔
      (∀ c ∈ l, Spec.isScalar c = true) ∧ bs = l.flatMap Spec.utf8Encode := by
  constructor
  · exact utf8Decode_sound _ bs l
  · rintro ⟨h1, rfl⟩
    exact utf8Decode_complete l _ h1 (by omega)

theorem all_decode_iff (p : UInt8 → Bool) (q : Nat → Prop) (hpq : ∀ b, p b = true ↔ q b.toNat)
    (bs : Bytes) (l : List Nat) :
    (if bs.all p then some (bs.map (·.toNat)) else none) = some l ↔
      l = bs.map (·.toNat) ∧ ∀ c ∈ l, q c := by
  constructor
  · intro h
    split at h
    · rename_i ha
      cases h
      refine ⟨rfl, ?_⟩
      intro c hc
      obtain ⟨b, hb, rfl⟩ := List.mem_map.mp hc
      exact (hpq b).mp (List.all_eq_true.mp ha b hb)
    · cases h
  · rintro ⟨rfl, h⟩
    have : bs.all p = true :=
      List.all_eq_true.mpr fun b hb => (hpq b).mpr (h _ (List.mem_map.mpr ⟨b, hb, rfl⟩))
    rw [this]; rfl

/-- NumericString: the characters of an accepted string are its octets, each a digit or space -/
theorem numeric_decode_iff (bs : Bytes) (l : List Nat) :
    Spec.csDecode .numeric bs = some l ↔
      l = bs.map (·.toNat) ∧ ∀ c ∈ l, c = 32 ∨ (48 ≤ c ∧ c ≤ 57) :=
  all_decode_iff _ _ (fun b => by simp) bs l

/-- PrintableString: the characters of an accepted string are its octets, each in the repertoire -/
theorem printable_decode_iff (bs : Bytes) (l : List Nat) :
    Spec.csDecode .printable bs = some l ↔
      l = bs.map (·.toNat) ∧ ∀ c ∈ l, c ∈ Spec.printableSet :=
  all_decode_iff _ _ (fun b => by simp) bs l

/-- IA5String: the characters of an accepted string are its octets, each below 128 -/
theorem ia5_decode_iff (bs : Bytes) (l : List Nat) :
    Spec.csDecode .ia5 bs = some l ↔ l = bs.map (·.toNat) ∧ ∀ c ∈ l, c < 128 :=
  all_decode_iff _ _ (fun b => by simp) bs l

/-- C18 (4a) — whatever the character set, every character of a valid string is a Unicode scalar
    value (what Rust's `char` can hold): never a surrogate, never above U+10FFFF -/
theorem csDecode_scalar (cs : Spec.CS) (bs : Bytes) (l : List Nat)
    (h : Spec.csDecode cs bs = some l) : ∀ c ∈ l, Spec.isScalar c = true := by
  have small : ∀ (bs : Bytes) (c : Nat), c ∈ bs.map (·.toNat) → Spec.isScalar c = true := by
    intro bs c hc
    obtain ⟨b, _, rfl⟩ := List.mem_map.mp hc
    have := byte_lt_256 b
    simp [Spec.isScalar]; omega
  cases cs with
  | utf8 => exact ((utf8_decode_iff bs l).mp h).1
  | numeric => obtain ⟨rfl, _⟩ := (numeric_decode_iff bs l).mp h; exact small bs
  | printable => obtain ⟨rfl, _⟩ := (printable_decode_iff bs l).mp h; exact small bs
  | ia5 => obtain ⟨rfl, _⟩ := (ia5_decode_iff bs l).mp h; exact small bs

/-- C18 (4a) for the model: iterating never yields an invalid character value -/
theorem chars_scalar (cs : CharSet) (bs : Bytes) (l : List Nat)
    (h : CharSet.chars cs bs = .ok (some l)) : ∀ c ∈ l, Spec.isScalar c = true := by
  rw [chars_eq_spec] at h
  exact csDecode_scalar _ bs l (Except.ok.inj h)

/-! ## `RestrictedString` (any segmentation)

  `RS.new` and `RS.chars` look at an `OS` only through `OS.octets`, the concatenation of its
  segments (C16/C17).  The statements below are therefore in terms of that octet sequence `bs`
  alone: two values with the same content behave identically however either is segmented, and a
  multi-octet character that straddles a segment boundary is decoded like any other. -/

/-- C18 (4b) — `RestrictedString::new` accepts exactly when the content is valid -/
theorem new_eq_spec (cs : CharSet) (os : OS) (bs : Bytes) (h : os.octets = .ok bs) :
    RS.new cs os = .ok (if (Spec.csDecode (toSpec cs) bs).isSome then some os else none) := by
  simp only [RS.new, h, check_eq_spec, bind, Except.bind, pure, Except.pure]
  cases (Spec.csDecode (toSpec cs) bs).isSome <;> rfl

/-- if the octets of the value cannot be produced, `new` reports that same failure (it does not
    accept) -/
theorem new_octets_err (cs : CharSet) (os : OS) (e : Err) (h : os.octets = .error e) :
    RS.new cs os = .error e := by
  simp only [RS.new, h, bind, Except.bind]

/-- the result of iterating / displaying: -/
def charsResult : Option (List Nat) → Res (List Nat)
  | some l => .ok l
  | none => .error (.panic "next_char unwrap")

/-- C18 (4c) — `chars()` / `Display` on any value: the decoded characters if the content is valid,
    the `unwrap` panic if it is not (which `new` / `from_content` exclude, see `chars_of_new`) -/
theorem rs_chars_eq_spec (cs : CharSet) (os : OS) (bs : Bytes) (h : os.octets = .ok bs) :
    RS.chars cs os = charsResult (Spec.csDecode (toSpec cs) bs) := by
  simp only [RS.chars, h, chars_eq_spec, bind, Except.bind]
  cases Spec.csDecode (toSpec cs) bs <;> rfl

/-- C18 (4c) — an accepted string iterates to exactly the encoded characters: no panic, no fuel
    exhaustion, only scalar values -/
theorem chars_of_new (cs : CharSet) (os os' : OS) (h : RS.new cs os = .ok (some os')) :
    os' = os ∧ ∃ bs l, os.octets = .ok bs ∧ Spec.csDecode (toSpec cs) bs = some l ∧
      RS.chars cs os' = .ok l ∧ ∀ c ∈ l, Spec.isScalar c = true := by
  cases ho : os.octets with
  | error e => rw [new_octets_err cs os e ho] at h; cases h
  | ok bs =>
    rw [new_eq_spec cs os bs ho] at h
    cases hd : Spec.csDecode (toSpec cs) bs with
    | none => rw [hd] at h; simp at h
    | some l =>
      rw [hd] at h
      simp only [Option.isSome_some, if_true, Except.ok.injEq, Option.some.injEq] at h
      subst h
      refine ⟨rfl, bs, l, rfl, hd, ?_, csDecode_scalar _ bs l hd⟩
      rw [rs_chars_eq_spec cs os bs ho, hd]; rfl

/-- C18 — independence of segmentation: values with the same content are accepted or rejected
    alike and yield the same characters -/
theorem segmentation_irrelevant (cs : CharSet) (a b : OS) (bs : Bytes)
    (ha : a.octets = .ok bs) (hb : b.octets = .ok bs) :
    (RS.new cs a).map Option.isSome = (RS.new cs b).map Option.isSome ∧
      RS.chars cs a = RS.chars cs b := by
  rw [new_eq_spec cs a bs ha, new_eq_spec cs b bs hb, rs_chars_eq_spec cs a bs ha,
    rs_chars_eq_spec cs b bs hb]
  refine ⟨?_, rfl⟩
  cases (Spec.csDecode (toSpec cs) bs).isSome <;> rfl

/-- the continuation `from_content` runs on the octet string it has read -/
def accept (cs : CharSet) (p : OS × Content) : Prog (OS × Content) :=
  match p.1.octets with
  | .error e => .fail e
  | .ok bs => if (Spec.csDecode (toSpec cs) bs).isSome then pure p else Prog.contentErr

/-- C18 (decoding route) — `RestrictedString::from_content` is `OctetString::from_content`
    followed by the validity test: valid content is returned, invalid content is a content error -/
theorem fromContent_eq (cs : CharSet) (fuel : Nat) (content : Content) :
    RS.fromContent cs fuel content = (OS.fromContent fuel content).bind (accept cs) := by
  unfold RS.fromContent
  show Prog.bind _ _ = _
  congr 1
  funext p
  obtain ⟨os, c'⟩ := p
  simp only [accept]
  cases ho : os.octets with
  | error e => simp only [new_octets_err cs os e ho]
  | ok bs =>
    simp only [new_eq_spec cs os bs ho]
    cases (Spec.csDecode (toSpec cs) bs).isSome <;> rfl

/-! ## non-vacuity: concrete accepted and rejected inputs (model and reference agree on each) -/

/-- "a", U+00E9 (2 octets), U+20AC (3 octets), U+1F600 (4 octets) -/
example : CharSet.chars .utf8 [0x61, 0xC3, 0xA9, 0xE2, 0x82, 0xAC, 0xF0, 0x9F, 0x98, 0x80]
    = .ok (some [0x61, 0xE9, 0x20AC, 0x1F600]) := by and_intros <;> rfl
example : Spec.csDecode .utf8 [0x61, 0xC3, 0xA9, 0xE2, 0x82, 0xAC, 0xF0, 0x9F, 0x98, 0x80]
    = some [0x61, 0xE9, 0x20AC, 0x1F600] := by and_intros <;> rfl
/-- the edges of the scalar range: U+D7FF, U+E000, U+10FFFF are accepted -/
example : CharSet.chars .utf8 [0xED, 0x9F, 0xBF, 0xEE, 0x80, 0x80, 0xF4, 0x8F, 0xBF, 0xBF]
    = .ok (some [0xD7FF, 0xE000, 0x10FFFF]) := by and_intros <;> rfl
/-- overlong encoding of U+0000 -/
example : CharSet.chars .utf8 [0xC0, 0x80] = .ok none ∧ Spec.csDecode .utf8 [0xC0, 0x80] = none := by and_intros <;> rfl
/-- overlong 3- and 4-octet forms -/
example : CharSet.chars .utf8 [0xE0, 0x9F, 0xBF] = .ok none
    ∧ CharSet.chars .utf8 [0xF0, 0x8F, 0xBF, 0xBF] = .ok none := by and_intros <;> rfl
/-- a surrogate (U+D800) -/
example : CharSet.chars .utf8 [0xED, 0xA0, 0x80] = .ok none
    ∧ Spec.csDecode .utf8 [0xED, 0xA0, 0x80] = none := by and_intros <;> rfl
/-- above U+10FFFF -/
example : CharSet.chars .utf8 [0xF4, 0x90, 0x80, 0x80] = .ok none
    ∧ Spec.csDecode .utf8 [0xF4, 0x90, 0x80, 0x80] = none := by and_intros <;> rfl
/-- a stray continuation octet, a truncated character, a 5-octet lead -/
example : CharSet.chars .utf8 [0x61, 0x80] = .ok none ∧ Spec.csDecode .utf8 [0x61, 0x80] = none
    ∧ CharSet.chars .utf8 [0xE2, 0x82] = .ok none ∧ Spec.csDecode .utf8 [0xE2, 0x82] = none
    ∧ CharSet.chars .utf8 [0xF8, 0x88, 0x80, 0x80, 0x80] = .ok none := by and_intros <;> rfl
/-- the single-octet sets -/
example : CharSet.chars .numeric [0x31, 0x32, 0x20, 0x33] = .ok (some [0x31, 0x32, 0x20, 0x33])
    ∧ CharSet.chars .numeric [0x31, 0x61] = .ok none
    ∧ CharSet.chars .printable [0x41, 0x3D, 0x62, 0x3F] = .ok (some [0x41, 0x3D, 0x62, 0x3F])
    ∧ CharSet.chars .printable [0x61, 0x40] = .ok none
    ∧ CharSet.chars .printable [0x61, 0x2A] = .ok none
    ∧ CharSet.chars .ia5 [0x00, 0x40, 0x7F] = .ok (some [0x00, 0x40, 0x7F])
    ∧ CharSet.chars .ia5 [0x61, 0x80] = .ok none := by and_intros <;> rfl
/-- `from_str`: "12" is a NumericString, "é" (well-formed UTF-8, the hypothesis of
    `fromStr_wellformed`) is not -/
example : CharSet.fromStr .numeric [0x31, 0x32] = .ok (some [0x31, 0x32])
    ∧ (Spec.csDecode .utf8 [0xC3, 0xA9]).isSome = true
    ∧ CharSet.fromStr .numeric [0xC3, 0xA9] = .ok none
    ∧ CharSet.fromStr .ia5 [0xC3, 0xA9] = .ok none := by and_intros <;> rfl
/-- a constructed value whose two segments split U+00E9 between its octets, and U+1F600 split 1+3:
    the hypotheses of `new_eq_spec` / `segmentation_irrelevant` are satisfiable, the value is
    accepted and iterates to the characters encoded -/
example :
    let os := OS.cons [0x04, 0x02, 0x61, 0xC3, 0x04, 0x02, 0xA9, 0xF0, 0x04, 0x03, 0x9F, 0x98, 0x80]
    os.octets = .ok [0x61, 0xC3, 0xA9, 0xF0, 0x9F, 0x98, 0x80]
    ∧ (OS.prim [0x61, 0xC3, 0xA9, 0xF0, 0x9F, 0x98, 0x80]).octets
        = .ok [0x61, 0xC3, 0xA9, 0xF0, 0x9F, 0x98, 0x80]
    ∧ RS.new .utf8 os = .ok (some os)
    ∧ RS.chars .utf8 os = .ok [0x61, 0xE9, 0x1F600] := by and_intros <;> rfl
/-- a value that `new` rejects; iterating it anyway is the `unwrap` panic of the Rust code -/
example : RS.new .utf8 (.prim [0xC0, 0x80]) = .ok none
    ∧ RS.chars .utf8 (.prim [0xC0, 0x80]) = .error (.panic "next_char unwrap") := by and_intros <;> rfl

end Bcder.Props.C18
