/-
  C16b — which constructed OCTET STRING encodings `OctetString::from_content` accepts in BER
  (the part of C16 that Props/C16.lean leaves open), and that every accepted one is well-formed.

  Model: `OS.fromContent fuel (.cons c)` with `c.mode = .ber`, i.e. `OS.takeConstructedBer c fuel` =
  `capture c (fun c => berLoop c fuel fuel)`, `berLoop` = `while cons.skip_opt(filter)?.is_some() {}`
  with `berFilter` (Model/Octet.lean, Model/Content.lean; src/string/octet.rs, src/decode/content.rs).
  Reference: the X.690 grammar `Spec.parseValue / parseAll / parseUntilEoc` in BER, `Spec.osContent`,
  `Spec.osAccept`.  Everything is on `runG0` (SliceSource semantics) and for ALL inputs: any content
  octets, any number of values, any nesting depth, any fuel.  Built on C10 (`skip_opt` = grammar, both
  directions) and on `C16.capture_run0`.

  1. The filter (`runFilter_ber`, `allOS_iff_preorder`, `allOSL_iff_osContent`, `osTrees_iff_allOSL`):
     on the trace `preorder t d` of a tree whose identifiers are in the reader's range (`bdd`; true of
     every tree the grammar produces, `parse_good`), `berFilter` accepts iff `allOS t`: every
     identifier in the tree, at every depth, is universal 4 (`C12.tagOf 0 4 = Tag.OCTET_STRING`).
     For the kids `ts` of a parsed value, `allOSL ts` ⇔ `Spec.osContent 4 (f+1) (.cons _ _ ts) ≠ none`.

  2. The loop (`berLoop_def`, `berLoop_indef`, `berLoop_inv`, `berLoop_nopanic`, `skipOpt_nopanic`):
     * definite content (`g.limit = some l`, the `l` octets present, `parseAll` reads them as `ts`):
       the loop returns the `Cons` unchanged at `⟨data.drop l, some 0⟩` if `allOSL ts`, and is a
       content error otherwise (the first value containing a foreign tag stops it);
     * indefinite content (`parseUntilEoc` reads the view as `ts`, end-of-contents, `rest`): the loop
       returns state `done` behind the end-of-contents octets if `allOSL ts`, content error otherwise;
     * conversely (`berLoop_inv`, any state, any mode): whenever the loop returns, `C10.specAll` holds
       for trees that are `allOSL`, and the budgets sufficed;
     * `skip_opt` (any filter) and the loop never panic on a source without open capture when a
       definite `Constructed` sits on a limited source: every failure is `.content` or `.fuel`.
     Budget (`Budget fuel ts`): `inner` ≥ `hdrs t` for every value `t` (headers, end-of-contents
     included: one `skip_opt` iteration each), outer > number of values; `from_content` uses the same
     `fuel` for both; `hdrsL ts < fuel` always suffices (`budget_of_hdrsL`).  Rust has no such budget:
     `.fuel` is an artefact of the model's loop counters.

  3. `from_content` followed by the framework's exhaustion check (`C16.fromContentChecked`), for the
     two states the content of a constructed value can have:
     * `cD` = definite, on `St d (some l)`: `ber_def_run` (closed form on parsed content),
       `ber_def_accept_inv`, `ber_def_accept_iff`, `ber_def_accept_iff_spec`: accepted ⇔ the `l` octets
       are there, `parseAll .ber f (d.take l) = some ts` for some `f`, `allOSL ts` (⇔ `osContent`
       defined), budget; then the result is `.cons (d.take l)`, `Cons` unchanged, source
       `St (d.drop l) (some 0)`.
     * `cI` = indefinite, on any `St d lo`: `ber_indef_run`, `ber_indef_accept_inv`,
       `ber_indef_accept_iff`, `ber_indef_accept_iff_spec`: accepted ⇔ `parseUntilEoc .ber f view =
       some (ts, rest)`, `allOSL ts`, budget; then the state is `done`, the source is behind the
       end-of-contents octets, and the value holds the `n = view.length - rest.length` octets advanced
       over, THE END-OF-CONTENTS OCTETS INCLUDED (known finding D12, stated as it is:
       `ber_indef_captured` — the captured octets parse as values + end-of-contents + nothing, and
       `parseAll` rejects them).
     * `ber_accept_views`: in both cases the captured octets satisfy `C16.wfTrees f captured = some ts`
       (so `C16.WfOS`), hence by `C16.views_eq_concat` all views (segments, octets, len, is_empty)
       succeed and present the concatenation of the primitive segments (`ViewsOK`).
       Needs: the grammar only looks at what it consumes (`parse_ext`, `parse_restrict`,
       `readIdent_take`, `readLen_take`) and `parseAll_none_of_untilEoc`.

  4. Rejection (`ber_reject`, `fromContent_nopanic`, `ber_def_reject_foreign`,
     `ber_indef_reject_foreign`, `ber_def_reject_malformed`, `ber_indef_reject_malformed`): every
     failure is a content error or the budget, never a panic; content with a non-universal-4
     identifier at any depth, content that is not there, and content that is not a sequence of BER
     values (resp. values + end-of-contents) is never accepted, whatever the fuel; with a sufficient
     budget a foreign tag is exactly `.error .content` (`ber_def_run`, `ber_indef_run`).

  -- not covered:
  * sources with an open capture frame (a `capture` around the whole read) and sources other than
    SliceSource; the `runG` (contract-checking) layer — C16 has `cons_accept_captures_consumed` there;
  * states `unbounded`/`done` of the `Constructed` are covered by the loop lemmas (`berLoop_inv`,
    `berLoop_nopanic`, `fromContent_nopanic`) but not by closed forms: the content of a value is never
    in these states when `from_content` is called;
  * when the grammar rejects and the budget is small, WHICH of `.content` / `.fuel` comes out (as in C10);
  * DER/CER/primitive: in C16.lean.
-/
import Bcder.Props.C16
import Bcder.Props.C10
import Bcder.Props.C11b
namespace Bcder.Props.C16b
open Bcder Bcder.Spec Prog
open Bcder.Props.C02 (St run_getLimit run_need run_limitedExhausted suffix_lemma view_le_limit view_len)
open Bcder.Props.C10 (hdrs hdrsL preorder preorderL runFilter thenK specAll absentF)
open Bcder.Props.C16 (wfTrees WfOS osTrees fromContentChecked)

/-! ## 1. the filter of `take_constructed_ber` on the trace of a tree -/

mutual
/-- every value of the tree, at every depth, has the identifier universal 4 (OCTET STRING) -/
def allOS : Tree → Bool
  | .prim id _ => id.cls == 0 && id.num == 4
  | .cons id _ kids => (id.cls == 0 && id.num == 4) && allOSL kids
def allOSL : List Tree → Bool
  | [] => true
  | t :: ts => allOS t && allOSL ts
end

mutual
/-- identifiers as the identifier reader produces them: class ≤ 3, number ≤ 0x1fffff -/
def bdd : Tree → Prop
  | .prim id _ => id.cls ≤ 3 ∧ id.num ≤ 0x1fffff
  | .cons id _ kids => (id.cls ≤ 3 ∧ id.num ≤ 0x1fffff) ∧ bddL kids
def bddL : List Tree → Prop
  | [] => True
  | t :: ts => bdd t ∧ bddL ts
end

mutual
/-- nesting depth (a primitive value has depth 0) -/
def depth : Tree → Nat
  | .prim _ _ => 0
  | .cons _ _ kids => depthL kids + 1
def depthL : List Tree → Nat
  | [] => 0
  | t :: ts => max (depth t) (depthL ts)
end

theorem tag_os_iff (id : Ident) (hc : id.cls ≤ 3) (hn : id.num ≤ 0x1fffff) :
    C12.tagOf id.cls id.num = Tag.OCTET_STRING ↔ (id.cls == 0 && id.num == 4) = true := by
  rw [← C16.tagOf_os]
  constructor
  · intro h
    obtain ⟨h1, h2⟩ := C12.tagOf_inj _ _ _ _ hc (by omega) hn (by omega) h
    simp [h1, h2]
  · intro h
    simp only [Bool.and_eq_true, beq_iff_eq] at h
    rw [h.1, h.2]

theorem berFilter_eq (id : Ident) (hc : id.cls ≤ 3) (hn : id.num ≤ 0x1fffff) (b : Bool) (d : Nat) :
    OS.berFilter () (C12.tagOf id.cls id.num) b d = if (id.cls == 0 && id.num == 4) = true then some () else none := by
  unfold OS.berFilter
  by_cases h : (id.cls == 0 && id.num == 4) = true
  · rw [if_pos ((tag_os_iff id hc hn).mpr h), if_pos h]
  · rw [if_neg (fun h' => h ((tag_os_iff id hc hn).mp h')), if_neg h]

mutual
/-- **the BER filter accepts the trace of a value exactly when every nested value is an OCTET STRING** -/
theorem runFilter_ber : ∀ (t : Tree) (d : Nat), bdd t →
    runFilter OS.berFilter () (preorder t d) = if allOS t = true then some () else none
  | .prim id _, d, hb => by
    simp only [preorder, runFilter, bdd] at hb ⊢
    rw [berFilter_eq id hb.1 hb.2]
    simp only [allOS]
    by_cases h : (id.cls == 0 && id.num == 4) = true
    · simp [h]
    · simp [h]
  | .cons id _ kids, d, hb => by
    simp only [bdd] at hb
    simp only [preorder, runFilter]
    rw [berFilter_eq id hb.1.1 hb.1.2]
    simp only [allOS]
    by_cases h : (id.cls == 0 && id.num == 4) = true
    · simp only [h, if_true, Bool.true_and]
      exact runFilter_berL kids (d + 1) hb.2
    · simp [h]
theorem runFilter_berL : ∀ (ts : List Tree) (d : Nat), bddL ts →
    runFilter OS.berFilter () (preorderL ts d) = if allOSL ts = true then some () else none
  | [], _, _ => by simp [preorderL, runFilter, allOSL]
  | t :: ts, d, hb => by
    simp only [bddL] at hb
    simp only [preorderL, allOSL]
    rw [C10.runFilter_append, runFilter_ber t d hb.1]
    by_cases h : allOS t = true
    · simp only [h, if_true, Bool.true_and]
      exact runFilter_berL ts d hb.2
    · simp [h]
end

/-! ### trees produced by the grammar: identifiers in range, depth below the fuel -/

theorem parse_good (m : M) : ∀ f : Nat,
    (∀ v t rest, parseValue m f v = some (t, rest) → bdd t ∧ depth t + 1 ≤ f) ∧
    (∀ v ts, parseAll m f v = some ts → bddL ts ∧ depthL ts + 1 ≤ f) ∧
    (∀ v ts rest, parseUntilEoc m f v = some (ts, rest) → bddL ts ∧ depthL ts + 1 ≤ f) := by
  intro f
  induction f with
  | zero =>
    exact ⟨fun v t rest h => by simp [parseValue] at h, fun v ts h => by simp [parseAll] at h,
      fun v ts rest h => by simp [parseUntilEoc] at h⟩
  | succ f ih =>
    obtain ⟨ihV, ihA, ihE⟩ := ih
    refine ⟨?_, ?_, ?_⟩
    · intro v t rest h
      simp only [parseValue] at h
      cases hr : readIdent v with
      | none => simp [hr] at h
      | some r =>
        obtain ⟨id, k⟩ := r
        obtain ⟨hc, hn, _⟩ := C12.readIdent_bounds v id k hr
        simp only [hr] at h
        split at h
        · simp at h
        · cases hl : readLen m.isBer (v.drop k) with
          | none => simp [hl] at h
          | some r2 =>
            obtain ⟨len?, kl⟩ := r2
            simp only [hl] at h
            cases len? with
            | some n =>
              simp only at h
              split at h
              · simp at h
              · split at h
                · simp only [Option.some.injEq, Prod.mk.injEq] at h
                  obtain ⟨rfl, _⟩ := h
                  exact ⟨⟨hc, hn⟩, by simp [depth]⟩
                · split at h
                  · simp at h
                  · cases hp : parseAll m f ((v.drop (k + kl)).take n) with
                    | none => simp [hp] at h
                    | some kids =>
                      simp only [hp, Option.some.injEq, Prod.mk.injEq] at h
                      obtain ⟨rfl, _⟩ := h
                      obtain ⟨h1, h2⟩ := ihA _ _ hp
                      exact ⟨⟨⟨hc, hn⟩, h1⟩, by simp only [depth]; omega⟩
            | none =>
              simp only at h
              split at h
              · simp at h
              · cases hp : parseUntilEoc m f (v.drop (k + kl)) with
                | none => simp [hp] at h
                | some r3 =>
                  obtain ⟨kids, rest'⟩ := r3
                  simp only [hp, Option.some.injEq, Prod.mk.injEq] at h
                  obtain ⟨rfl, _⟩ := h
                  obtain ⟨h1, h2⟩ := ihE _ _ _ hp
                  exact ⟨⟨⟨hc, hn⟩, h1⟩, by simp only [depth]; omega⟩
    · intro v ts h
      simp only [parseAll] at h
      split at h
      · simp only [Option.some.injEq] at h
        subst h
        exact ⟨trivial, by simp [depthL]⟩
      · cases hp : parseValue m f v with
        | none => simp [hp] at h
        | some r =>
          obtain ⟨t, rest⟩ := r
          simp only [hp] at h
          cases hq : parseAll m f rest with
          | none => simp [hq] at h
          | some ts' =>
            simp only [hq, Option.map, Option.some.injEq] at h
            subst h
            obtain ⟨a1, a2⟩ := ihV _ _ _ hp
            obtain ⟨b1, b2⟩ := ihA _ _ hq
            exact ⟨⟨a1, b1⟩, by simp only [depthL]; omega⟩
    · intro v ts rest h
      simp only [parseUntilEoc] at h
      cases hr : readIdent v with
      | none => simp [hr] at h
      | some r =>
        obtain ⟨id, k⟩ := r
        simp only [hr] at h
        split at h
        · split at h
          · simp at h
          · cases hl : readLen m.isBer (v.drop k) with
            | none => simp [hl] at h
            | some r2 =>
              obtain ⟨len?, kl⟩ := r2
              simp only [hl] at h
              split at h
              · simp only [Option.some.injEq, Prod.mk.injEq] at h
                obtain ⟨rfl, _⟩ := h
                exact ⟨trivial, by simp [depthL]⟩
              · simp at h
        · cases hp : parseValue m f v with
          | none => simp [hp] at h
          | some r2 =>
            obtain ⟨t, rest1⟩ := r2
            simp only [hp] at h
            cases hq : parseUntilEoc m f rest1 with
            | none => simp [hq] at h
            | some r3 =>
              obtain ⟨ts', rest2⟩ := r3
              simp only [hq, Option.some.injEq, Prod.mk.injEq] at h
              obtain ⟨rfl, _⟩ := h
              obtain ⟨a1, a2⟩ := ihV _ _ _ hp
              obtain ⟨b1, b2⟩ := ihE _ _ _ hq
              exact ⟨⟨a1, b1⟩, by simp only [depthL]; omega⟩

/-! ### `allOS` against the reference content `Spec.osContent` -/

theorem allOS_of_osContent : ∀ (g : Nat) (t : Tree), (osContent 4 g t).isSome = true → allOS t = true := by
  intro g
  induction g with
  | zero =>
    intro t h
    cases t with
    | prim id c =>
      obtain ⟨h0, h4⟩ := C16.osContent_prim_some 0 id c h
      simp [allOS, h0, h4]
    | cons id b kids => simp [osContent] at h
  | succ g ih =>
    intro t h
    cases t with
    | prim id c =>
      obtain ⟨h0, h4⟩ := C16.osContent_prim_some _ id c h
      simp [allOS, h0, h4]
    | cons id b kids =>
      obtain ⟨g', hg, h0, h4, hk⟩ := C16.osContent_cons_some _ id b kids h
      have hg' : g' = g := by omega
      subst hg'
      simp only [allOS, h0, h4, beq_self_eq_true, Bool.and_self, Bool.true_and]
      simp only [osTrees, List.all_eq_true] at hk
      clear h
      induction kids with
      | nil => rfl
      | cons k ks ihk =>
        simp only [allOSL, Bool.and_eq_true]
        exact ⟨ih k (hk k (by simp)), ihk (fun x hx => hk x (by simp [hx]))⟩

theorem osContent_of_allOS : ∀ (g : Nat) (t : Tree), allOS t = true → depth t ≤ g → (osContent 4 g t).isSome = true := by
  intro g
  induction g with
  | zero =>
    intro t h hd
    cases t with
    | prim id c =>
      simp only [allOS] at h
      simp [osContent, h]
    | cons id b kids => simp [depth] at hd
  | succ g ih =>
    intro t h hd
    cases t with
    | prim id c =>
      simp only [allOS] at h
      simp [osContent, h]
    | cons id b kids =>
      simp only [allOS, Bool.and_eq_true] at h
      simp only [depth] at hd
      rw [C16.osContent_cons]
      simp only [h.1]
      rw [C16.foldl_accStep_all]
      · rfl
      · have hk := h.2
        have hdk : depthL kids ≤ g := by omega
        clear h hd
        induction kids with
        | nil => intro k hk'; simp at hk'
        | cons k ks ihk =>
          simp only [allOSL, Bool.and_eq_true] at hk
          simp only [depthL] at hdk
          intro x hx
          simp only [List.mem_cons] at hx
          rcases hx with rfl | hx
          · exact ih _ hk.1 (by omega)
          · exact ihk hk.2 (by omega) x hx

/-- for a list of trees within depth `g`: `C16.osTrees` is `allOSL` -/
theorem osTrees_iff_allOSL (g : Nat) : ∀ (ts : List Tree), depthL ts ≤ g → (osTrees g ts = allOSL ts) := by
  intro ts
  induction ts with
  | nil => intro _; rfl
  | cons t ts ih =>
    intro hd
    simp only [depthL] at hd
    rw [C16.osTrees_cons, allOSL, ih (by omega)]
    congr 1
    cases ha : allOS t with
    | true => exact osContent_of_allOS g t ha (by omega)
    | false =>
      cases hc : (osContent 4 g t).isSome with
      | false => rfl
      | true => rw [allOS_of_osContent g t hc] at ha; cases ha

/-- **`allOS` is `Spec.osContent` being defined**, for the tree of a whole constructed value whose
    kids the grammar produced with fuel `f` -/
theorem allOSL_iff_osContent (m : M) (f : Nat) (v : Bytes) (ts : List Tree) (indef : Bool)
    (hp : parseAll m f v = some ts ∨ ∃ rest, parseUntilEoc m f v = some (ts, rest)) :
    allOSL ts = true ↔ osContent 4 (f + 1) (.cons C16.cOS indef ts) ≠ none := by
  have hd : depthL ts ≤ f := by
    rcases hp with hp | ⟨rest, hp⟩
    · have := ((parse_good m f).2.1 v ts hp).2; omega
    · have := ((parse_good m f).2.2 v ts rest hp).2; omega
  have e : allOS (.cons C16.cOS indef ts) = allOSL ts := by simp [allOS]
  constructor
  · intro h
    have := osContent_of_allOS (f + 1) (.cons C16.cOS indef ts) (by rw [e]; exact h) (by simp only [depth]; omega)
    intro hn; rw [hn] at this; cases this
  · intro h
    rw [← e]
    apply allOS_of_osContent (f + 1)
    cases hc : osContent 4 (f + 1) (.cons C16.cOS indef ts) with
    | none => exact absurd hc h
    | some x => rfl

/-! ## 2. the loop of `take_constructed_ber` -/

theorem run_berLoop_succ (c : Cons) (inner N : Nat) (g : G0) :
    runG0 (OS.berLoop c inner (N + 1)) g =
      match runG0 (skipOpt c OS.berFilter () inner) g with
      | .ok ((some (), c', _), g') => runG0 (OS.berLoop c' inner N) g'
      | .ok ((none, c', _), g') => .ok (c', g')
      | .error e => .error e := by
  rw [OS.berLoop]
  simp only [runG0_bind]
  cases runG0 (skipOpt c OS.berFilter () inner) g with
  | error e => rfl
  | ok x =>
    obtain ⟨⟨r, c', u⟩, g'⟩ := x
    cases r with
    | none => rfl
    | some u' => rfl

theorem berLoop_zero (c : Cons) (inner : Nat) (g : G0) : runG0 (OS.berLoop c inner 0) g = .error .fuel := rfl

/-- one round on a value the grammar sees: consumed if it is all OCTET STRING, a content error if not -/
theorem ber_round_value (c : Cons) (g : G0) (hf : g.frames = []) (h1 : c.state ≠ .done)
    (h2 : ¬ (c.state = .definite ∧ g.limit = none)) (f : Nat) (t : Tree) (rest : Bytes)
    (hp : parseValue (toM c.mode) f g.view = some (t, rest)) (inner : Nat) (hN : hdrs t ≤ inner) :
    runG0 (skipOpt c OS.berFilter () inner) g =
      if allOS t = true then .ok ((some (), c, ()), g.adv (g.view.length - rest.length))
      else .error .content := by
  rw [C10.skip_value c OS.berFilter () g hf h1 h2 f t rest hp inner hN,
    runFilter_ber t 0 ((parse_good (toM c.mode) f).1 _ _ _ hp).1]
  by_cases ha : allOS t = true
  · simp only [ha, if_true, thenK]
  · simp only [ha, Bool.false_eq_true, if_false, thenK]

/-- one round where no value is left -/
theorem ber_round_absent (c : Cons) (g : G0) (hf : g.frames = []) (inner : Nat) (hN : 1 ≤ inner) (c' : Cons) (g' : G0)
    (h : absentF c g = some (c', g')) : runG0 (skipOpt c OS.berFilter () inner) g = .ok ((none, c', ()), g') :=
  (C10.skip_absent_iff c OS.berFilter () g hf inner hN c' () g').mpr ⟨h, rfl⟩

/-- **the loop on the content of a definite-length value**: if the `l` content octets are a sequence
    of values `ts` (all there), the loop consumes them one by one while they are all-OCTET-STRING
    and stops at limit 0 with the `Constructed` unchanged; the first value containing a foreign tag
    (at any depth) ends it with a content error.  Budget: `inner` ≥ the headers of each value,
    `N` > the number of values. -/
theorem berLoop_def : ∀ (f : Nat) (m : Mode) (g : G0) (l inner N : Nat) (ts : List Tree), g.frames = [] →
    g.limit = some l → l ≤ g.data.length → parseAll (toM m) f g.view = some ts →
    (∀ t ∈ ts, hdrs t ≤ inner) → 1 ≤ inner → ts.length < N →
    runG0 (OS.berLoop ⟨.definite, m, 0⟩ inner N) g =
      if allOSL ts = true then .ok (⟨.definite, m, 0⟩, ⟨g.data.drop l, some 0, []⟩) else .error .content := by
  intro f
  induction f with
  | zero => intro m g l inner N ts _ _ _ hp; simp [parseAll] at hp
  | succ f ih =>
    intro m g l inner N ts hf hl hle hp hI hI1 hN
    obtain ⟨N0, rfl⟩ : ∃ N0, N = N0 + 1 := ⟨N - 1, by omega⟩
    rw [run_berLoop_succ]
    simp only [parseAll] at hp
    by_cases hemp : g.view.isEmpty = true
    · have hl0 := C10.view_empty_limit g l hl hle hemp
      subst hl0
      simp only [hemp, if_true, Option.some.injEq] at hp
      subst hp
      have hab : absentF ⟨.definite, m, 0⟩ g = some (⟨.definite, m, 0⟩, g) := by
        unfold absentF; simp [hl]
      rw [ber_round_absent _ g hf inner hI1 _ _ hab]
      have : g = ⟨g.data.drop 0, some 0, []⟩ := by
        cases g with
        | mk d l fr => simp at hf hl; subst hf; subst hl; rfl
      simp only [allOSL, if_true]
      rw [← this]
    · simp only [hemp, Bool.false_eq_true, if_false] at hp
      cases hpv : parseValue (toM m) f g.view with
      | none => simp [hpv] at hp
      | some r =>
        obtain ⟨t, rest1⟩ := r
        simp only [hpv] at hp
        cases hpa : parseAll (toM m) f rest1 with
        | none => simp [hpa] at hp
        | some ts' =>
          simp only [hpa, Option.map, Option.some.injEq] at hp
          subst hp
          simp only [List.length_cons] at hN
          obtain ⟨n1, hn1, hr1⟩ := (suffix_lemma (toM m) f).1 _ _ _ hpv
          have hlen : g.view.length - rest1.length = n1 := by
            rw [hr1, List.length_drop]; omega
          rw [ber_round_value ⟨.definite, m, 0⟩ g hf (by simp) (by simp [hl]) f t rest1 hpv inner (hI t (by simp)), hlen]
          by_cases ha : allOS t = true
          · simp only [ha, if_true, allOSL, Bool.true_and]
            have hvl := view_le_limit g l hl
            have hvn : (g.adv n1).view = rest1 := by rw [G0.adv_view g n1 hn1, hr1]
            rw [ih m (g.adv n1) (l - n1) inner N0 ts' rfl (by show g.limit.map (· - n1) = some (l - n1); rw [hl]; rfl)
              (by show l - n1 ≤ (g.data.drop n1).length; rw [List.length_drop]; omega)
              (by rw [hvn]; exact hpa) (fun t' h' => hI t' (by simp [h'])) hI1 (by omega)]
            have hd : (g.adv n1).data.drop (l - n1) = g.data.drop l := by
              show (g.data.drop n1).drop (l - n1) = g.data.drop l
              rw [List.drop_drop]; congr 1; omega
            rw [hd]
          · simp [ha, allOSL]

/-- **the loop on the content of an indefinite-length value**: if the view is values `ts` followed
    by end-of-contents, the loop consumes the values while they are all-OCTET-STRING, then the
    end-of-contents octets, and stops with state `done` behind them; a value containing a foreign
    tag ends it with a content error. -/
theorem berLoop_indef : ∀ (f : Nat) (m : Mode) (e : Nat) (g : G0) (inner N : Nat) (ts : List Tree) (rest : Bytes), g.frames = [] →
    parseUntilEoc (toM m) f g.view = some (ts, rest) →
    (∀ t ∈ ts, hdrs t ≤ inner) → 1 ≤ inner → ts.length < N →
    runG0 (OS.berLoop ⟨.indefinite, m, e⟩ inner N) g =
      if allOSL ts = true then .ok (⟨.done, m, C02.eocLen (toM m) f g.view⟩, g.adv (g.view.length - rest.length))
      else .error .content := by
  intro f
  induction f with
  | zero => intro m e g inner N ts rest _ hp; simp [parseUntilEoc] at hp
  | succ f ih =>
    intro m e g inner N ts rest hf hp hI hI1 hN
    obtain ⟨N0, rfl⟩ : ∃ N0, N = N0 + 1 := ⟨N - 1, by omega⟩
    rw [run_berLoop_succ]
    simp only [parseUntilEoc] at hp
    cases hri : readIdent g.view with
    | none => simp [hri] at hp
    | some r =>
      obtain ⟨id, k⟩ := r
      simp only [hri] at hp
      by_cases he : isEocIdent id = true
      · simp only [he, if_true] at hp
        by_cases hcn : id.constructed = true
        · simp [hcn] at hp
        · simp only [hcn, Bool.false_eq_true, if_false] at hp
          cases hrl : readLen (toM m).isBer (g.view.drop k) with
          | none => simp [hrl] at hp
          | some r2 =>
            obtain ⟨len?, kl⟩ := r2
            rw [hrl] at hp
            obtain ⟨hH, hv2, hsum, hk1⟩ := C10.headerF_of m g id k len? kl hri hrl
            cases len? with
            | none => simp at hp
            | some n =>
              cases n with
              | succ n' => simp at hp
              | zero =>
                simp only [Option.some.injEq, Prod.mk.injEq] at hp
                obtain ⟨hk, hrest⟩ := hp
                subst hk; subst hrest
                have hel : C02.eocLen (toM m) (f + 1) g.view = k + kl := by
                  simp only [C02.eocLen, hri, he, if_true, hrl]
                have hab : absentF ⟨.indefinite, m, e⟩ g =
                    some (⟨.done, m, C02.eocLen (toM m) (f + 1) g.view⟩, g.adv (k + kl)) := by
                  unfold absentF
                  simp [hH, he, hcn, C10.adv_data_len g (k + kl) hsum, hel]
                rw [ber_round_absent _ g hf inner hI1 _ _ hab]
                simp only [List.length_drop, allOSL, if_true]
                have : g.view.length - (g.view.length - (k + kl)) = k + kl := by omega
                rw [this]
      · have he' : isEocIdent id = false := by simpa using he
        simp only [he', Bool.false_eq_true, if_false] at hp
        cases hpv : parseValue (toM m) f g.view with
        | none => simp [hpv] at hp
        | some r =>
          obtain ⟨t, rest1⟩ := r
          simp only [hpv] at hp
          cases hpe : parseUntilEoc (toM m) f rest1 with
          | none => simp [hpe] at hp
          | some r3 =>
            obtain ⟨ts', rest'⟩ := r3
            simp only [hpe, Option.some.injEq, Prod.mk.injEq] at hp
            obtain ⟨hk, hrest⟩ := hp
            subst hk; subst hrest
            simp only [List.length_cons] at hN
            obtain ⟨n1, hn1, hr1⟩ := (suffix_lemma (toM m) f).1 _ _ _ hpv
            obtain ⟨n2, hn2, hr2⟩ := (suffix_lemma (toM m) f).2 _ _ _ hpe
            have hlen : g.view.length - rest1.length = n1 := by
              rw [hr1, List.length_drop]; omega
            rw [ber_round_value ⟨.indefinite, m, e⟩ g hf (by simp) (by simp) f t rest1 hpv inner (hI t (by simp)), hlen]
            by_cases ha : allOS t = true
            · simp only [ha, if_true, allOSL, Bool.true_and]
              have hvn : (g.adv n1).view = rest1 := by rw [G0.adv_view g n1 hn1, hr1]
              have hel : C02.eocLen (toM m) (f + 1) g.view = C02.eocLen (toM m) f rest1 := by
                simp only [C02.eocLen, hri, he', Bool.false_eq_true, if_false, hpv]
              rw [ih m e (g.adv n1) inner N0 ts' rest' rfl (by rw [hvn]; exact hpe)
                (fun t' h' => hI t' (by simp [h'])) hI1 (by omega), G0.adv_adv, hvn, hel]
              have e : n1 + (rest1.length - rest'.length) = g.view.length - rest'.length := by
                rw [hr2, hr1] at *
                simp only [List.length_drop] at *
                omega
              rw [e]
            · simp [ha, allOSL]

/-! ### converse: whatever the loop accepts is a sequence of all-OCTET-STRING values -/

/-- **Converse for the loop**, any state, any mode, any source without open capture: whenever it
    returns, the grammar accepts the remaining content of the `Constructed` (`C10.specAll`: definite —
    the octets up to the limit, all present; indefinite — values then end-of-contents) as trees that
    are all OCTET STRING at every depth, state and source are where the grammar ends, and the
    budgets sufficed. -/
theorem berLoop_inv (inner : Nat) : ∀ (N : Nat) (c : Cons) (g : G0) (c' : Cons) (g' : G0), g.frames = [] →
    runG0 (OS.berLoop c inner N) g = .ok (c', g') →
    ∃ f ts, specAll c f g = some ((ts, c'), g') ∧ allOSL ts = true ∧ (∀ t ∈ ts, hdrs t ≤ inner) ∧ ts.length < N := by
  intro N
  induction N with
  | zero => intro c g c' g' _ h; cases h
  | succ N ih =>
    intro c g c' g' hf h
    rw [run_berLoop_succ] at h
    cases hs : runG0 (skipOpt c OS.berFilter () inner) g with
    | error e => rw [hs] at h; cases h
    | ok x =>
      obtain ⟨⟨r, c1, u⟩, g1⟩ := x
      rw [hs] at h
      cases r with
      | none =>
        simp only [Except.ok.injEq, Prod.mk.injEq] at h
        obtain ⟨rfl, rfl⟩ := h
        obtain ⟨hab, _⟩ := C10.skip_absent_inv c OS.berFilter () g hf inner c1 u g1 hs
        exact ⟨1, [], C10.absent_specAll c g hf c1 g1 hab, rfl, fun t ht => by simp at ht, by simp⟩
      | some u' =>
        simp only at h
        obtain ⟨f, t, rest, hp, hN, hc, hg, hfil, h1, h2⟩ := C10.skip_value_inv c OS.berFilter () g hf inner c1 u g1 hs
        subst hc; subst hg
        have ha : allOS t = true := by
          rw [runFilter_ber t 0 ((parse_good (toM c1.mode) f).1 _ _ _ hp).1] at hfil
          by_cases ha : allOS t = true
          · exact ha
          · simp [ha] at hfil
        obtain ⟨f2, ts2, hsp, hall, hI, hlen⟩ := ih c1 _ c' g' rfl h
        refine ⟨max f f2 + 1, t :: ts2, C10.specAll_cons c1 g f f2 t rest ts2 c' g' h1 hp hsp, ?_, ?_, ?_⟩
        · simp [allOSL, ha, hall]
        · intro t' ht'
          simp only [List.mem_cons] at ht'
          rcases ht' with rfl | ht'
          · exact hN
          · exact hI t' ht'
        · simp only [List.length_cons]; omega

/-! ### no panic: `skip_opt` and the loop fail only with a content error or for lack of fuel -/

section nopanic
variable {σ : Type} (c : Cons) (filter : σ → Tag → Bool → Nat → Option σ)

theorem afterK_nopanic (N : Nat)
    (ih : ∀ (stack : C10.Stack) (st : σ) (g : G0) (e : Err), g.frames = [] →
      runG0 (skipLoop c filter N stack st) g = .error e → e = .content ∨ e = .fuel) :
    ∀ (stack : C10.Stack) (st : σ) (g : G0) (e : Err), g.frames = [] →
      runG0 (C10.afterK c filter N stack st) g = .error e → e = .content ∨ e = .fuel := by
  intro stack
  induction stack with
  | nil => intro st g e _ h; rw [C10.run_afterK_nil] at h; cases h
  | cons top rest ihs =>
    intro st g e hf h
    cases top with
    | none =>
      rw [C10.run_afterK_indef] at h
      by_cases hl : g.limit = some 0
      · simp only [hl, if_true, Except.error.injEq] at h; exact Or.inl h.symm
      · simp only [hl, if_false] at h; exact ih _ _ _ _ hf h
    | some lim =>
      rw [C10.run_afterK_def] at h
      by_cases hl : g.limit = some 0
      · simp only [hl, if_true] at h; exact ihs st { g with limit := lim } e hf h
      · simp only [hl, if_false] at h; exact ih _ _ _ _ hf h

theorem skipLoop_nopanic : ∀ (N : Nat) (stack : C10.Stack) (st : σ) (g : G0) (e : Err), g.frames = [] →
    runG0 (skipLoop c filter N stack st) g = .error e → e = .content ∨ e = .fuel := by
  intro N
  induction N with
  | zero =>
    intro stack st g e _ h
    simp only [skipLoop, runG0_fail, Except.error.injEq] at h
    exact Or.inr h.symm
  | succ N ih =>
    intro stack st g e hf h
    have hA := afterK_nopanic c filter N ih
    rw [C10.skip_step c filter N stack st g hf] at h
    unfold C10.stepF at h
    split at h
    · cases h
    · cases hH : C02.headerF c.mode g with
      | none => simp only [hH, Except.error.injEq] at h; exact Or.inl h.symm
      | some r =>
        obtain ⟨⟨id, len?⟩, g2⟩ := r
        obtain ⟨k, kl, _, _, hg2, _⟩ := C10.headerF_inv _ _ _ _ _ hH
        have hf2 : g2.frames = [] := by rw [hg2]; rfl
        simp only [hH] at h
        unfold C10.sbodyF at h
        have hc : ∀ e', (Except.error e' : Res ((Option Unit × Cons × σ) × G0)) = .error e → e' = .content → e = .content ∨ e = .fuel := by
          intro e' h1 h2; cases h1; exact Or.inl h2
        repeat' split at h
        all_goals first
          | (cases h; done)
          | exact hc _ h rfl
          | (refine hA _ _ _ _ ?_ h; first | exact hf2 | rfl)
          | (refine ih _ _ _ _ ?_ h; first | exact hf2 | rfl)

/-- **`skip_opt` never panics** on a source without open capture, provided a definite `Constructed`
    sits on a limited source (as it always does): every failure is a content error or the budget -/
theorem skipOpt_nopanic (st : σ) (N : Nat) (g : G0) (e : Err) (hf : g.frames = [])
    (hd : c.state = .definite → g.limit ≠ none)
    (h : runG0 (skipOpt c filter st N) g = .error e) : e = .content ∨ e = .fuel := by
  rw [C10.run_skipOpt_note, C10.noteF_err_iff, C10.run_skipOpt0] at h
  by_cases h1 : c.state = .done
  · simp [h1] at h
  · by_cases h2 : c.state = .definite ∧ g.limit = none
    · exact absurd h2.2 (hd h2.1)
    · by_cases h3 : c.state = .definite ∧ g.limit = some 0
      · simp [h3] at h
      · simp only [h1, h2, h3, if_false] at h
        exact skipLoop_nopanic c filter N [] st g e hf h
end nopanic

/-- **the loop never panics** (same proviso) -/
theorem berLoop_nopanic (inner : Nat) : ∀ (N : Nat) (c : Cons) (g : G0) (e : Err), g.frames = [] →
    (c.state = .definite → g.limit ≠ none) →
    runG0 (OS.berLoop c inner N) g = .error e → e = .content ∨ e = .fuel := by
  intro N
  induction N with
  | zero => intro c g e _ _ h; rw [berLoop_zero] at h; cases h; exact Or.inr rfl
  | succ N ih =>
    intro c g e hf hd h
    rw [run_berLoop_succ] at h
    cases hs : runG0 (skipOpt c OS.berFilter () inner) g with
    | error e' =>
      rw [hs] at h
      simp only [Except.error.injEq] at h
      subst h
      exact skipOpt_nopanic c OS.berFilter () inner g _ hf hd hs
    | ok x =>
      obtain ⟨⟨r, c1, u⟩, g1⟩ := x
      rw [hs] at h
      cases r with
      | none => cases h
      | some u' =>
        simp only at h
        obtain ⟨f, t, rest, hp, hN, hc, hg, hfil, h1, h2⟩ := C10.skip_value_inv c OS.berFilter () g hf inner c1 u g1 hs
        subst hc; subst hg
        refine ih c1 _ e rfl ?_ h
        intro hdef
        have := hd hdef
        show g.limit.map _ ≠ none
        cases hl : g.limit with
        | none => exact absurd hl this
        | some l => simp

/-! ## 3. the grammar only looks at the octets it consumes -/

theorem readIdent_take (v : Bytes) (id : Ident) (k : Nat) (h : readIdent v = some (id, k)) :
    readIdent (v.take k) = some (id, k) := by
  match v, h with
  | [], h => simp [readIdent] at h
  | [b0], h =>
    by_cases h0 : b0.toNat % 32 = 31
    · simp [readIdent, h0] at h
    · simp [readIdent, h0] at h; obtain ⟨rfl, rfl⟩ := h; simp [readIdent, h0]
  | b0 :: d1 :: r, h =>
    by_cases h0 : b0.toNat % 32 = 31
    · by_cases h1 : d1.toNat < 128
      · by_cases h1' : 31 ≤ d1.toNat
        · simp [readIdent, h0, h1, h1'] at h; obtain ⟨rfl, rfl⟩ := h; simp [readIdent, h0, h1, h1']
        · simp [readIdent, h0, h1, h1'] at h
      · by_cases h2 : d1.toNat = 128
        · simp [readIdent, h0, h2] at h
        · match r, h with
          | [], h => simp [readIdent, h0, h1, h2] at h
          | d2 :: r2, h =>
            by_cases h3 : d2.toNat < 128
            · simp [readIdent, h0, h1, h2, h3] at h; obtain ⟨rfl, rfl⟩ := h; simp [readIdent, h0, h1, h2, h3]
            · match r2, h with
              | [], h => simp [readIdent, h0, h1, h2, h3] at h
              | d3 :: r3, h =>
                by_cases h4 : d3.toNat < 128
                · simp [readIdent, h0, h1, h2, h3, h4] at h; obtain ⟨rfl, rfl⟩ := h; simp [readIdent, h0, h1, h2, h3, h4]
                · simp [readIdent, h0, h1, h2, h3, h4] at h
    · simp [readIdent, h0] at h; obtain ⟨rfl, rfl⟩ := h; simp [readIdent, h0]

theorem readLen_take (ber : Bool) (v : Bytes) (x : Option Nat) (k : Nat) (h : readLen ber v = some (x, k)) :
    readLen ber (v.take k) = some (x, k) := by
  cases v with
  | nil => simp [readLen] at h
  | cons b rest =>
    simp only [readLen] at h
    split at h
    · rename_i h0
      simp only [Option.some.injEq, Prod.mk.injEq] at h
      obtain ⟨rfl, rfl⟩ := h
      simp [readLen, h0]
    · rename_i h0
      split at h
      · rename_i h1
        simp only [Option.some.injEq, Prod.mk.injEq] at h
        obtain ⟨rfl, rfl⟩ := h
        simp [readLen, h1]
      · rename_i h1
        split at h
        · simp at h
        · rename_i h2
          split at h
          · simp at h
          · rename_i h3
            have hk : k = 1 + (b.toNat - 128) := by
              split at h
              · simp at h; exact h.2.symm
              · split at h
                · simp at h; exact h.2.symm
                · simp at h
            rw [hk]
            have e : (b :: rest).take (1 + (b.toNat - 128)) = b :: rest.take (b.toNat - 128) := by
              rw [Nat.add_comm]; rfl
            have hl : ¬ (rest.take (b.toNat - 128)).length < b.toNat - 128 := by
              simp only [List.length_take]; omega
            rw [e]
            simp only [readLen]
            simp only [h0, if_false]
            simp only [h1, if_false]
            simp only [h2, if_false]
            simp only [hl, if_false]
            have tt : List.take (b.toNat - 128) (List.take (b.toNat - 128) rest) = List.take (b.toNat - 128) rest :=
              List.take_of_length_le (by rw [List.length_take]; omega)
            rw [tt, h, hk]

theorem parse_ext (m : M) : ∀ f : Nat,
    (∀ a b t r, parseValue m f a = some (t, r) → parseValue m f (a ++ b) = some (t, r ++ b)) ∧
    (∀ a b ts r, parseUntilEoc m f a = some (ts, r) → parseUntilEoc m f (a ++ b) = some (ts, r ++ b)) := by
  intro f
  induction f with
  | zero => exact ⟨fun a b t r h => by simp [parseValue] at h, fun a b ts r h => by simp [parseUntilEoc] at h⟩
  | succ f ih =>
    obtain ⟨ihV, ihE⟩ := ih
    constructor
    · intro a b t r h
      simp only [parseValue] at h
      cases hr : readIdent a with
      | none => simp [hr] at h
      | some x =>
        obtain ⟨id, k⟩ := x
        simp only [hr] at h
        have hk := C02.readIdent_le a id k hr
        have hr' := C16.readIdent_append a b id k hr
        have hd1 : (a ++ b).drop k = a.drop k ++ b := List.drop_append_of_le_length hk
        by_cases he : isEocIdent id = true
        · simp [he] at h
        · simp only [he, Bool.false_eq_true, if_false] at h
          cases hl : readLen m.isBer (a.drop k) with
          | none => simp [hl] at h
          | some y =>
            obtain ⟨len?, kl⟩ := y
            simp only [hl] at h
            have hkl := (readLen_bound _ _ _ _ hl).2
            simp only [List.length_drop] at hkl
            have hl' : readLen m.isBer ((a ++ b).drop k) = some (len?, kl) := by
              rw [hd1]; exact C16.readLen_append _ _ _ _ _ hl
            have hd2 : (a ++ b).drop (k + kl) = a.drop (k + kl) ++ b := List.drop_append_of_le_length (by omega)
            cases len? with
            | some n =>
              simp only at h
              by_cases hn : (a.drop (k + kl)).length < n
              · rw [if_pos hn] at h; cases h
              · rw [if_neg hn] at h
                have hn' : ¬ (a.drop (k + kl) ++ b).length < n := by rw [List.length_append]; omega
                have ht : (a.drop (k + kl) ++ b).take n = (a.drop (k + kl)).take n :=
                  List.take_append_of_le_length (by omega)
                have hdd : (a.drop (k + kl) ++ b).drop n = (a.drop (k + kl)).drop n ++ b :=
                  List.drop_append_of_le_length (by omega)
                simp only [parseValue, hr', he, Bool.false_eq_true, if_false, hl', hd2, hn', ht, hdd]
                split at h
                · rename_i hc
                  simp only [Option.some.injEq, Prod.mk.injEq] at h
                  obtain ⟨rfl, rfl⟩ := h
                  simp only [hc, if_true]
                · rename_i hc
                  simp only [hc, Bool.false_eq_true, if_false]
                  split at h
                  · cases h
                  · rename_i hcer
                    simp only [hcer, Bool.false_eq_true, if_false]
                    cases hp : parseAll m f ((a.drop (k + kl)).take n) with
                    | none => simp [hp] at h
                    | some kids =>
                      simp only [hp, Option.some.injEq, Prod.mk.injEq] at h ⊢
                      obtain ⟨rfl, rfl⟩ := h
                      constructor <;> rfl
            | none =>
              simp only at h
              simp only [parseValue, hr', he, Bool.false_eq_true, if_false, hl', hd2]
              split at h
              · cases h
              · rename_i hc
                simp only [hc, Bool.false_eq_true, if_false]
                cases hp : parseUntilEoc m f (a.drop (k + kl)) with
                | none => simp [hp] at h
                | some z =>
                  obtain ⟨kids, rest'⟩ := z
                  simp only [hp, Option.some.injEq, Prod.mk.injEq] at h
                  obtain ⟨rfl, rfl⟩ := h
                  simp only [ihE _ b _ _ hp]
    · intro a b ts r h
      simp only [parseUntilEoc] at h
      cases hr : readIdent a with
      | none => simp [hr] at h
      | some x =>
        obtain ⟨id, k⟩ := x
        simp only [hr] at h
        have hk := C02.readIdent_le a id k hr
        have hr' := C16.readIdent_append a b id k hr
        have hd1 : (a ++ b).drop k = a.drop k ++ b := List.drop_append_of_le_length hk
        by_cases he : isEocIdent id = true
        · simp only [he, if_true] at h
          split at h
          · cases h
          · rename_i hc
            cases hl : readLen m.isBer (a.drop k) with
            | none => simp [hl] at h
            | some y =>
              obtain ⟨len?, kl⟩ := y
              simp only [hl] at h
              have hkl := (readLen_bound _ _ _ _ hl).2
              simp only [List.length_drop] at hkl
              have hl' : readLen m.isBer ((a ++ b).drop k) = some (len?, kl) := by
                rw [hd1]; exact C16.readLen_append _ _ _ _ _ hl
              have hd2 : (a ++ b).drop (k + kl) = a.drop (k + kl) ++ b := List.drop_append_of_le_length (by omega)
              split at h
              · rename_i kl' heq
                simp only [Option.some.injEq, Prod.mk.injEq] at heq h
                obtain ⟨rfl, rfl⟩ := heq
                obtain ⟨rfl, rfl⟩ := h
                simp only [parseUntilEoc, hr', he, if_true, hc, Bool.false_eq_true, if_false, hl', hd2]
              · cases h
        · simp only [he, Bool.false_eq_true, if_false] at h
          cases hp : parseValue m f a with
          | none => simp [hp] at h
          | some z =>
            obtain ⟨t, rest1⟩ := z
            simp only [hp] at h
            cases hq : parseUntilEoc m f rest1 with
            | none => simp [hq] at h
            | some w =>
              obtain ⟨ts', rest2⟩ := w
              simp only [hq, Option.some.injEq, Prod.mk.injEq] at h
              obtain ⟨rfl, rfl⟩ := h
              simp only [parseUntilEoc, hr', he, Bool.false_eq_true, if_false, ihV _ b _ _ hp, ihE _ b _ _ hq]

theorem readIdent_of_append (a b : Bytes) (id : Ident) (k : Nat) (h : readIdent (a ++ b) = some (id, k))
    (hk : k ≤ a.length) : readIdent a = some (id, k) := by
  have h1 := readIdent_take _ _ _ h
  rw [List.take_append_of_le_length hk] at h1
  have h2 := C16.readIdent_append _ (a.drop k) _ _ h1
  rwa [List.take_append_drop] at h2

theorem readLen_of_append (ber : Bool) (a b : Bytes) (x : Option Nat) (k : Nat) (h : readLen ber (a ++ b) = some (x, k))
    (hk : k ≤ a.length) : readLen ber a = some (x, k) := by
  have h1 := readLen_take _ _ _ _ h
  rw [List.take_append_of_le_length hk] at h1
  have h2 := C16.readLen_append _ _ (a.drop k) _ _ h1
  rwa [List.take_append_drop] at h2

theorem parse_restrict (m : M) : ∀ f : Nat,
    (∀ a b t, parseValue m f (a ++ b) = some (t, b) → parseValue m f a = some (t, [])) ∧
    (∀ a b ts, parseUntilEoc m f (a ++ b) = some (ts, b) → parseUntilEoc m f a = some (ts, [])) := by
  intro f
  induction f with
  | zero => exact ⟨fun a b t h => by simp [parseValue] at h, fun a b ts h => by simp [parseUntilEoc] at h⟩
  | succ f ih =>
    obtain ⟨ihV, ihE⟩ := ih
    constructor
    · intro a b t h
      simp only [parseValue] at h
      cases hr : readIdent (a ++ b) with
      | none => simp [hr] at h
      | some x =>
        obtain ⟨id, k⟩ := x
        simp only [hr] at h
        have hk := C02.readIdent_le _ id k hr
        by_cases he : isEocIdent id = true
        · simp [he] at h
        · simp only [he, Bool.false_eq_true, if_false] at h
          cases hl : readLen m.isBer ((a ++ b).drop k) with
          | none => simp [hl] at h
          | some y =>
            obtain ⟨len?, kl⟩ := y
            simp only [hl] at h
            have hkl := (readLen_bound _ _ _ _ hl).2
            simp only [List.length_drop, List.length_append] at hkl hk
            cases len? with
            | some n =>
              simp only at h
              by_cases hn : ((a ++ b).drop (k + kl)).length < n
              · rw [if_pos hn] at h; cases h
              · rw [if_neg hn] at h
                simp only [List.length_drop, List.length_append] at hn
                have hb : b = (a ++ b).drop (k + kl + n) := by
                  split at h
                  · simp only [Option.some.injEq, Prod.mk.injEq, List.drop_drop] at h; exact h.2.symm
                  · split at h
                    · cases h
                    · cases hp : parseAll m f (((a ++ b).drop (k + kl)).take n) with
                      | none => simp [hp] at h
                      | some kids =>
                        simp only [hp, Option.some.injEq, Prod.mk.injEq, List.drop_drop] at h; exact h.2.symm
                have hlen : k + kl + n = a.length := by
                  have := congrArg List.length hb
                  simp only [List.length_drop, List.length_append] at this
                  omega
                have hra := readIdent_of_append a b id k hr (by omega)
                have hd1 : (a ++ b).drop k = a.drop k ++ b := List.drop_append_of_le_length (by omega)
                rw [hd1] at hl
                have hla := readLen_of_append _ _ _ _ _ hl (by rw [List.length_drop]; omega)
                have hd2 : (a ++ b).drop (k + kl) = a.drop (k + kl) ++ b := List.drop_append_of_le_length (by omega)
                have hn' : ¬ (a.drop (k + kl)).length < n := by rw [List.length_drop]; omega
                have ht : (a.drop (k + kl) ++ b).take n = (a.drop (k + kl)).take n :=
                  List.take_append_of_le_length (by rw [List.length_drop]; omega)
                have hdd : (a.drop (k + kl)).drop n = [] := by
                  apply List.drop_eq_nil_of_le; rw [List.length_drop]; omega
                rw [hd2, ht] at h
                simp only [parseValue, hra, he, Bool.false_eq_true, if_false, hla, hn', hdd]
                split at h
                · rename_i hc
                  simp only [Option.some.injEq, Prod.mk.injEq] at h
                  obtain ⟨rfl, _⟩ := h
                  simp only [hc, if_true]
                · rename_i hc
                  simp only [hc, Bool.false_eq_true, if_false]
                  split at h
                  · cases h
                  · rename_i hcer
                    simp only [hcer, Bool.false_eq_true, if_false]
                    cases hp : parseAll m f ((a.drop (k + kl)).take n) with
                    | none => simp [hp] at h
                    | some kids =>
                      simp only [hp, Option.some.injEq, Prod.mk.injEq] at h ⊢
                      obtain ⟨rfl, _⟩ := h
                      exact ⟨rfl, trivial⟩
            | none =>
              simp only at h
              split at h
              · cases h
              · rename_i hc
                cases hp : parseUntilEoc m f ((a ++ b).drop (k + kl)) with
                | none => simp [hp] at h
                | some z =>
                  obtain ⟨kids, rest'⟩ := z
                  simp only [hp, Option.some.injEq, Prod.mk.injEq] at h
                  obtain ⟨rfl, rfl⟩ := h
                  obtain ⟨n2, hn2, hr2⟩ := (C02.suffix_lemma m f).2 _ _ _ hp
                  have hlen : k + kl + n2 = a.length := by
                    have := congrArg List.length hr2
                    simp only [List.length_drop, List.length_append] at this hn2
                    omega
                  have hra := readIdent_of_append a rest' id k hr (by omega)
                  have hd1 : (a ++ rest').drop k = a.drop k ++ rest' := List.drop_append_of_le_length (by omega)
                  rw [hd1] at hl
                  have hla := readLen_of_append _ _ _ _ _ hl (by rw [List.length_drop]; omega)
                  have hd2 : (a ++ rest').drop (k + kl) = a.drop (k + kl) ++ rest' := List.drop_append_of_le_length (by omega)
                  rw [hd2] at hp
                  simp only [parseValue, hra, he, Bool.false_eq_true, if_false, hla, hc, ihE _ _ _ hp]
    · intro a b ts h
      simp only [parseUntilEoc] at h
      cases hr : readIdent (a ++ b) with
      | none => simp [hr] at h
      | some x =>
        obtain ⟨id, k⟩ := x
        simp only [hr] at h
        have hk := C02.readIdent_le _ id k hr
        by_cases he : isEocIdent id = true
        · simp only [he, if_true] at h
          split at h
          · cases h
          · rename_i hc
            cases hl : readLen m.isBer ((a ++ b).drop k) with
            | none => simp [hl] at h
            | some y =>
              obtain ⟨len?, kl⟩ := y
              simp only [hl] at h
              have hkl := (readLen_bound _ _ _ _ hl).2
              simp only [List.length_drop, List.length_append] at hkl hk
              split at h
              · rename_i kl' heq
                simp only [Option.some.injEq, Prod.mk.injEq] at heq h
                obtain ⟨rfl, rfl⟩ := heq
                obtain ⟨rfl, hb⟩ := h
                have hlen : k + kl = a.length := by
                  have := congrArg List.length hb
                  simp only [List.length_drop, List.length_append] at this
                  omega
                have hra := readIdent_of_append a b id k hr (by omega)
                have hd1 : (a ++ b).drop k = a.drop k ++ b := List.drop_append_of_le_length (by omega)
                rw [hd1] at hl
                have hla := readLen_of_append _ _ _ _ _ hl (by rw [List.length_drop]; omega)
                have hdd : a.drop (k + kl) = [] := List.drop_eq_nil_of_le (by omega)
                simp only [parseUntilEoc, hra, he, if_true, hc, Bool.false_eq_true, if_false, hla, hdd]
              · cases h
        · simp only [he, Bool.false_eq_true, if_false] at h
          cases hp : parseValue m f (a ++ b) with
          | none => simp [hp] at h
          | some z =>
            obtain ⟨t, rest1⟩ := z
            simp only [hp] at h
            cases hq : parseUntilEoc m f rest1 with
            | none => simp [hq] at h
            | some w =>
              obtain ⟨ts', rest2⟩ := w
              simp only [hq, Option.some.injEq, Prod.mk.injEq] at h
              obtain ⟨rfl, rfl⟩ := h
              obtain ⟨n1, hn1, hr1⟩ := (C02.suffix_lemma m f).1 _ _ _ hp
              obtain ⟨n2, hn2, hr2⟩ := (C02.suffix_lemma m f).2 _ _ _ hq
              have hlen : n1 + n2 = a.length := by
                have := congrArg List.length hr2
                rw [hr1] at this hn2
                simp only [List.length_drop, List.length_append] at this hn2 hn1
                omega
              have hr1' : rest1 = a.drop n1 ++ rest2 := by
                rw [hr1]; exact List.drop_append_of_le_length (by omega)
              have hsplit : a ++ rest2 = a.take n1 ++ (a.drop n1 ++ rest2) := by
                rw [← List.append_assoc, List.take_append_drop]
              rw [hsplit, hr1'] at hp
              have hv1 := ihV _ _ _ hp
              have hv2 := (parse_ext m f).1 _ (a.drop n1) _ _ hv1
              rw [List.take_append_drop, List.nil_append] at hv2
              rw [hr1'] at hq
              have he2 := ihE _ _ _ hq
              obtain ⟨id', k', hri', _⟩ := C10.parseValue_ident _ _ _ _ hv2
              have := C16.readIdent_append a rest2 id' k' hri'
              rw [hr] at this
              simp only [Option.some.injEq, Prod.mk.injEq] at this
              obtain ⟨rfl, rfl⟩ := this
              simp only [parseUntilEoc, hri', he, Bool.false_eq_true, if_false, hv2, he2]

/-- values followed by end-of-contents that end the input are not a plain sequence of values -/
theorem parseAll_none_of_untilEoc (m : M) : ∀ (f : Nat) (v : Bytes) (ts : List Tree) (rest : Bytes),
    parseUntilEoc m f v = some (ts, rest) → parseAll m f v = none := by
  intro f
  induction f with
  | zero => intro v ts rest h; simp [parseUntilEoc] at h
  | succ f ih =>
    intro v ts rest h
    simp only [parseUntilEoc] at h
    cases hr : readIdent v with
    | none => simp [hr] at h
    | some x =>
      obtain ⟨id, k⟩ := x
      simp only [hr] at h
      have hne : v.isEmpty = false := by
        cases v with
        | nil => simp [readIdent] at hr
        | cons _ _ => rfl
      rw [parseAll]
      simp only [hne, Bool.false_eq_true, if_false]
      by_cases he : isEocIdent id = true
      · have : parseValue m f v = none := by
          cases f with
          | zero => rfl
          | succ f' => simp only [parseValue, hr, he, if_true]
        simp only [this]
      · simp only [he, Bool.false_eq_true, if_false] at h
        cases hp : parseValue m f v with
        | none => rfl
        | some z =>
          obtain ⟨t, rest1⟩ := z
          simp only [hp] at h
          cases hq : parseUntilEoc m f rest1 with
          | none => simp [hq] at h
          | some w =>
            obtain ⟨ts', rest2⟩ := w
            simp only [ih _ _ _ hq, Option.map]

/-! ## 4. `OctetString::from_content` on a constructed value in BER -/

/-- the `Constructed` of a definite-length constructed value in BER (source `St d (some l)`) -/
abbrev cD : Cons := ⟨.definite, .ber, 0⟩
/-- … of an indefinite-length one (any source without open capture) -/
abbrev cI : Cons := ⟨.indefinite, .ber, 0⟩
/-- … after its end-of-contents octets have been read -/
abbrev cE (e : Nat) : Cons := ⟨.done, .ber, e⟩

/-- the loop budget given by `from_content`'s `fuel`: it covers the headers of every value (the
    budget of one `skip_opt`) and exceeds the number of values (the rounds of the `while`) -/
def Budget (fuel : Nat) (ts : List Tree) : Prop := (∀ t ∈ ts, hdrs t ≤ fuel) ∧ ts.length < fuel

instance (fuel : Nat) (ts : List Tree) : Decidable (Budget fuel ts) := by unfold Budget; exact inferInstance

theorem hdrsL_mem : ∀ (ts : List Tree) (t : Tree), t ∈ ts → hdrs t ≤ hdrsL ts := by
  intro ts
  induction ts with
  | nil => intro t h; simp at h
  | cons x xs ih =>
    intro t h
    simp only [List.mem_cons] at h
    simp only [hdrsL]
    rcases h with rfl | h
    · omega
    · have := ih t h; omega

theorem length_le_hdrsL : ∀ (ts : List Tree), ts.length ≤ hdrsL ts := by
  intro ts
  induction ts with
  | nil => simp [hdrsL]
  | cons x xs ih => have := C10.hdrs_pos x; simp only [hdrsL, List.length_cons]; omega

/-- a budget that always suffices: more than the total number of headers -/
theorem budget_of_hdrsL (fuel : Nat) (ts : List Tree) (h : hdrsL ts < fuel) : Budget fuel ts :=
  ⟨fun t ht => by have := hdrsL_mem ts t ht; omega, by have := length_le_hdrsL ts; omega⟩

/-- `from_content` in BER = `capture` around the loop, by `C16.capture_run0` -/
theorem fromContent_run (fuel : Nat) (st : CState) (d : Bytes) (lo : Option Nat) :
    runG0 (OS.fromContent fuel (.cons ⟨st, .ber, 0⟩)) (St d lo) =
      match runG0 (OS.berLoop ⟨st, .ber, 0⟩ fuel fuel) (St d lo) with
      | .error e => .error e
      | .ok (c', g') =>
        let k := d.length - g'.data.length
        let e := if c'.state = st then 0 else c'.eoc
        match lo with
        | some lim =>
          if lim < k then .error (.panic "advanced past end of limit")
          else .ok ((.cons (d.take (k - e)), .cons ⟨c'.state, .ber, c'.eoc⟩), St g'.data (some (lim - k)))
        | none => .ok ((.cons (d.take (k - e)), .cons ⟨c'.state, .ber, c'.eoc⟩), St g'.data none) := by
  have hfc : OS.fromContent fuel (.cons ⟨st, .ber, 0⟩) =
      (do let (os, c') ← OS.takeConstructedBer ⟨st, .ber, 0⟩ fuel; pure (os, Content.cons c')) := rfl
  rw [hfc]
  unfold OS.takeConstructedBer
  simp only [runG0_bind, C16.capture_run0 ⟨st, .ber, 0⟩ _ (fun c => C16.nocap_berLoop fuel fuel c)]
  cases runG0 (OS.berLoop ⟨st, .ber, 0⟩ fuel fuel) (St d lo) with
  | error e => rfl
  | ok r =>
    obtain ⟨c', g'⟩ := r
    cases lo with
    | none => rfl
    | some lim =>
      simp only
      by_cases hl : lim < d.length - g'.data.length
      · simp only [hl, if_true]
      · simp only [hl, if_false, runG0_pure]

/-- the framework's exhaustion check after a successful `from_content` finds nothing to complain
    about: the loop only stops at the end of the content -/
theorem checked_of_ok (fuel : Nat) (c : Cons) (g : G0) (os : OS) (c' : Cons) (g' : G0)
    (h : runG0 (OS.fromContent fuel (.cons c)) g = .ok ((os, .cons c'), g'))
    (hx : c'.state = .done ∨ (c'.state = .definite ∧ ∃ d, g' = St d (some 0))) :
    runG0 (fromContentChecked fuel (.cons c)) g = .ok ((os, .cons c'), g') := by
  unfold fromContentChecked
  simp only [runG0_bind, h, Content.exhausted, Cons.exhausted]
  rcases hx with hx | ⟨hx, d, rfl⟩
  · simp only [hx, runG0_pure]
  · simp only [hx, run_limitedExhausted, runG0_pure, if_true]

theorem checked_of_err (fuel : Nat) (c : Cons) (g : G0) (e : Err)
    (h : runG0 (OS.fromContent fuel (.cons c)) g = .error e) :
    runG0 (fromContentChecked fuel (.cons c)) g = .error e := by
  unfold fromContentChecked
  simp only [runG0_bind, h]

theorem checked_ok_inv (fuel : Nat) (c : Content) (g : G0) (r : (OS × Content) × G0)
    (h : runG0 (fromContentChecked fuel c) g = .ok r) :
    ∃ g1, runG0 (OS.fromContent fuel c) g = .ok (r.1, g1) := by
  unfold fromContentChecked at h
  simp only [runG0_bind] at h
  cases hr : runG0 (OS.fromContent fuel c) g with
  | error e => rw [hr] at h; cases h
  | ok x =>
    obtain ⟨a, g1⟩ := x
    rw [hr] at h
    simp only at h
    cases hx : runG0 a.2.exhausted g1 with
    | error e => rw [hx] at h; cases h
    | ok y =>
      rw [hx] at h
      simp only [runG0_pure, Except.ok.injEq] at h
      exact ⟨g1, by rw [← h]⟩

/-! ### definite length -/

theorem ber_def_fc (fuel : Nat) (d : Bytes) (l : Nat) (f : Nat) (ts : List Tree) (hle : l ≤ d.length)
    (hp : parseAll .ber f (d.take l) = some ts) (hb : Budget fuel ts) :
    runG0 (OS.fromContent fuel (.cons cD)) (St d (some l)) =
      if allOSL ts = true then .ok ((.cons (d.take l), .cons cD), St (d.drop l) (some 0))
      else .error .content := by
  have hloop := berLoop_def f .ber (St d (some l)) l fuel fuel ts rfl rfl hle hp hb.1 (by have := hb.2; omega) hb.2
  have hrun := fromContent_run fuel .definite d (some l)
  rw [hloop] at hrun
  by_cases ha : allOSL ts = true
  · simp only [ha, if_true] at hrun ⊢
    have hk : d.length - (d.drop l).length = l := by rw [List.length_drop]; omega
    simp only [hk, Nat.lt_irrefl, if_false, Nat.sub_self] at hrun
    exact hrun
  · simp only [ha, Bool.false_eq_true, if_false] at hrun ⊢
    exact hrun

/-- **C16 (BER, constructed, definite length — closed form on well-formed content).**  If the `l`
    content octets are there and are, by the BER grammar, the values `ts`, then `from_content`
    followed by the framework's exhaustion check (with a budget covering `ts`) succeeds exactly
    when every value in `ts`, at every depth, is an OCTET STRING; the value then holds exactly the
    `l` content octets, the source is left at the end of the content (limit 0) and the
    `Constructed` is unchanged.  A foreign tag anywhere inside is a content error. -/
theorem ber_def_run (fuel : Nat) (d : Bytes) (l : Nat) (f : Nat) (ts : List Tree) (hle : l ≤ d.length)
    (hp : parseAll .ber f (d.take l) = some ts) (hb : Budget fuel ts) :
    runG0 (fromContentChecked fuel (.cons cD)) (St d (some l)) =
      if allOSL ts = true then .ok ((.cons (d.take l), .cons cD), St (d.drop l) (some 0))
      else .error .content := by
  have hfc := ber_def_fc fuel d l f ts hle hp hb
  by_cases ha : allOSL ts = true
  · simp only [ha, if_true] at hfc ⊢
    exact checked_of_ok _ _ _ _ _ _ hfc (Or.inr ⟨rfl, _, rfl⟩)
  · simp only [ha, Bool.false_eq_true, if_false] at hfc ⊢
    exact checked_of_err _ _ _ _ hfc

theorem specAll_def_inv (m : Mode) (d : Bytes) (l f : Nat) (ts : List Tree) (c' : Cons) (g' : G0)
    (h : specAll ⟨.definite, m, 0⟩ f (St d (some l)) = some ((ts, c'), g')) :
    l ≤ d.length ∧ parseAll (toM m) f (d.take l) = some ts ∧ c' = ⟨.definite, m, 0⟩ ∧ g' = St (d.drop l) (some 0) := by
  unfold specAll at h
  simp only at h
  by_cases hle : l ≤ d.length
  · simp only [hle, if_true] at h
    cases hp : parseAll (toM m) f (St d (some l)).view with
    | none => simp [hp] at h
    | some ts' =>
      simp only [hp, Option.map, Option.some.injEq, Prod.mk.injEq] at h
      obtain ⟨⟨rfl, rfl⟩, rfl⟩ := h
      exact ⟨hle, hp, rfl, rfl⟩
  · simp [hle] at h

theorem ber_def_fc_inv (fuel : Nat) (d : Bytes) (l : Nat) (r : OS × Content) (g1 : G0)
    (h1 : runG0 (OS.fromContent fuel (.cons cD)) (St d (some l)) = .ok (r, g1)) :
    l ≤ d.length ∧ ∃ f ts, parseAll .ber f (d.take l) = some ts ∧ allOSL ts = true ∧ Budget fuel ts ∧
      r = (.cons (d.take l), .cons cD) ∧ g1 = St (d.drop l) (some 0) := by
  have hrun := fromContent_run fuel .definite d (some l)
  rw [h1] at hrun
  cases hloop : runG0 (OS.berLoop ⟨.definite, .ber, 0⟩ fuel fuel) (St d (some l)) with
  | error e => rw [hloop] at hrun; cases hrun
  | ok x =>
    obtain ⟨c', g2⟩ := x
    obtain ⟨f, ts, hsp, hall, hI, hN⟩ := berLoop_inv fuel fuel _ _ _ _ rfl hloop
    obtain ⟨hle, hp, rfl, rfl⟩ := specAll_def_inv _ _ _ _ _ _ _ hsp
    refine ⟨hle, f, ts, hp, hall, ⟨hI, hN⟩, ?_⟩
    have := ber_def_fc fuel d l f ts hle hp ⟨hI, hN⟩
    rw [h1, if_pos hall] at this
    simp only [Except.ok.injEq, Prod.mk.injEq] at this
    exact ⟨this.1, this.2⟩

/-- **C16 (BER, constructed, definite length — only those).**  Whatever `from_content` accepts has
    that shape: the content octets are all there and are a sequence of values that are OCTET STRINGs
    at every depth; the value holds exactly these octets; the budget sufficed. -/
theorem ber_def_accept_inv (fuel : Nat) (d : Bytes) (l : Nat) (os : OS) (ct : Content) (g' : G0)
    (h : runG0 (fromContentChecked fuel (.cons cD)) (St d (some l)) = .ok ((os, ct), g')) :
    l ≤ d.length ∧ ∃ f ts, parseAll .ber f (d.take l) = some ts ∧ allOSL ts = true ∧ Budget fuel ts ∧
      os = .cons (d.take l) ∧ ct = .cons cD ∧ g' = St (d.drop l) (some 0) := by
  obtain ⟨g1, h1⟩ := checked_ok_inv _ _ _ _ h
  obtain ⟨hle, f, ts, hp, hall, hb, _, _⟩ := ber_def_fc_inv fuel d l _ g1 h1
  refine ⟨hle, f, ts, hp, hall, hb, ?_⟩
  have := ber_def_run fuel d l f ts hle hp hb
  rw [h, if_pos hall] at this
  simp only [Except.ok.injEq, Prod.mk.injEq] at this
  exact ⟨this.1.1, this.1.2, this.2⟩

/-- **C16 (BER, constructed, definite length) as an equivalence.** -/
theorem ber_def_accept_iff (fuel : Nat) (d : Bytes) (l : Nat) :
    (∃ r, runG0 (fromContentChecked fuel (.cons cD)) (St d (some l)) = .ok r) ↔
      l ≤ d.length ∧ ∃ f ts, parseAll .ber f (d.take l) = some ts ∧ allOSL ts = true ∧ Budget fuel ts := by
  constructor
  · rintro ⟨⟨⟨os, ct⟩, g'⟩, h⟩
    obtain ⟨hle, f, ts, hp, ha, hb, _⟩ := ber_def_accept_inv fuel d l os ct g' h
    exact ⟨hle, f, ts, hp, ha, hb⟩
  · rintro ⟨hle, f, ts, hp, ha, hb⟩
    exact ⟨_, by rw [ber_def_run fuel d l f ts hle hp hb, if_pos ha]⟩

/-- … against the reference definitions: `Spec.osAccept .ber` (no restriction in BER) and
    `Spec.osContent` being defined on the tree of the whole value -/
theorem ber_def_accept_iff_spec (fuel : Nat) (d : Bytes) (l : Nat) :
    (∃ r, runG0 (fromContentChecked fuel (.cons cD)) (St d (some l)) = .ok r) ↔
      l ≤ d.length ∧ ∃ f ts, parseAll .ber f (d.take l) = some ts ∧
        osAccept .ber (.cons C16.cOS false ts) = true ∧ osContent 4 (f + 1) (.cons C16.cOS false ts) ≠ none ∧
        Budget fuel ts := by
  rw [ber_def_accept_iff]
  constructor
  · rintro ⟨hle, f, ts, hp, ha, hb⟩
    exact ⟨hle, f, ts, hp, rfl, (allOSL_iff_osContent .ber f _ ts false (Or.inl hp)).mp ha, hb⟩
  · rintro ⟨hle, f, ts, hp, _, hc, hb⟩
    exact ⟨hle, f, ts, hp, (allOSL_iff_osContent .ber f _ ts false (Or.inl hp)).mpr hc, hb⟩

/-! ### indefinite length -/

theorem ber_indef_fc (fuel : Nat) (d : Bytes) (lo : Option Nat) (f : Nat) (ts : List Tree) (rest : Bytes)
    (hp : parseUntilEoc .ber f (St d lo).view = some (ts, rest)) (hb : Budget fuel ts) :
    runG0 (OS.fromContent fuel (.cons cI)) (St d lo) =
      if allOSL ts = true then
        .ok ((.cons (d.take ((St d lo).view.length - rest.length - C02.eocLen .ber f (St d lo).view)), .cons (cE (C02.eocLen .ber f (St d lo).view))),
          St (d.drop ((St d lo).view.length - rest.length)) (lo.map (· - ((St d lo).view.length - rest.length))))
      else .error .content := by
  have hloop := berLoop_indef f .ber 0 (St d lo) fuel fuel ts rest rfl hp hb.1 (by have := hb.2; omega) hb.2
  have hrun := fromContent_run fuel .indefinite d lo
  rw [hloop] at hrun
  have hvd := (St d lo).view_length_le
  generalize hn : (St d lo).view.length - rest.length = n at hrun ⊢
  have hnv : n ≤ (St d lo).view.length := by omega
  by_cases ha : allOSL ts = true
  · simp only [ha, if_true] at hrun ⊢
    have hk : d.length - ((St d lo).adv n).data.length = n := by
      show d.length - (d.drop n).length = n
      have : n ≤ d.length := Nat.le_trans hnv hvd
      rw [List.length_drop]; omega
    simp only [hk] at hrun
    rw [hrun]
    cases lo with
    | none => rfl
    | some lim =>
      have := view_le_limit (St d (some lim)) lim rfl
      have hl : ¬ lim < n := by omega
      simp only [hl, if_false]
      rfl
  · simp only [ha, Bool.false_eq_true, if_false] at hrun ⊢
    exact hrun

/-- **C16 (BER, constructed, indefinite length — closed form on well-formed content).**  On any
    source without open capture (limited or not): if what is in view is, by the BER grammar, the
    values `ts` followed by the end-of-contents octets (and then `rest`), `from_content` followed
    by the exhaustion check succeeds exactly when every value in `ts`, at every depth, is an OCTET
    STRING.  The source is then left behind the end-of-contents octets, the `Constructed` is
    `done`, and the value holds exactly the octets advanced over — WITHOUT the end-of-contents octets
    (the repaired defect D12; `C02.eocLen` is their number).  A foreign tag anywhere inside is a
    content error. -/
theorem ber_indef_run (fuel : Nat) (d : Bytes) (lo : Option Nat) (f : Nat) (ts : List Tree) (rest : Bytes)
    (hp : parseUntilEoc .ber f (St d lo).view = some (ts, rest)) (hb : Budget fuel ts) :
    runG0 (fromContentChecked fuel (.cons cI)) (St d lo) =
      if allOSL ts = true then
        .ok ((.cons (d.take ((St d lo).view.length - rest.length - C02.eocLen .ber f (St d lo).view)), .cons (cE (C02.eocLen .ber f (St d lo).view))),
          St (d.drop ((St d lo).view.length - rest.length)) (lo.map (· - ((St d lo).view.length - rest.length))))
      else .error .content := by
  have hfc := ber_indef_fc fuel d lo f ts rest hp hb
  by_cases ha : allOSL ts = true
  · simp only [ha, if_true] at hfc ⊢
    exact checked_of_ok _ _ _ _ _ _ hfc (Or.inl rfl)
  · simp only [ha, Bool.false_eq_true, if_false] at hfc ⊢
    exact checked_of_err _ _ _ _ hfc

theorem specAll_indef_inv (m : Mode) (g : G0) (f : Nat) (ts : List Tree) (c' : Cons) (g' : G0)
    (h : specAll ⟨.indefinite, m, 0⟩ f g = some ((ts, c'), g')) :
    ∃ rest, parseUntilEoc (toM m) f g.view = some (ts, rest) ∧ c' = ⟨.done, m, C02.eocLen (toM m) f g.view⟩ ∧
      g' = g.adv (g.view.length - rest.length) := by
  unfold specAll at h
  simp only at h
  cases hp : parseUntilEoc (toM m) f g.view with
  | none => simp [hp] at h
  | some r =>
    obtain ⟨ts', rest⟩ := r
    simp only [hp, Option.map, Option.some.injEq, Prod.mk.injEq] at h
    obtain ⟨⟨rfl, rfl⟩, rfl⟩ := h
    exact ⟨rest, rfl, rfl, rfl⟩

theorem ber_indef_fc_inv (fuel : Nat) (d : Bytes) (lo : Option Nat) (r : OS × Content) (g1 : G0)
    (h1 : runG0 (OS.fromContent fuel (.cons cI)) (St d lo) = .ok (r, g1)) :
    ∃ f ts rest, parseUntilEoc .ber f (St d lo).view = some (ts, rest) ∧ allOSL ts = true ∧ Budget fuel ts ∧
      r = (.cons (d.take ((St d lo).view.length - rest.length - C02.eocLen .ber f (St d lo).view)), .cons (cE (C02.eocLen .ber f (St d lo).view))) ∧
      g1 = St (d.drop ((St d lo).view.length - rest.length)) (lo.map (· - ((St d lo).view.length - rest.length))) := by
  have hrun := fromContent_run fuel .indefinite d lo
  rw [h1] at hrun
  cases hloop : runG0 (OS.berLoop ⟨.indefinite, .ber, 0⟩ fuel fuel) (St d lo) with
  | error e => rw [hloop] at hrun; cases hrun
  | ok x =>
    obtain ⟨c', g2⟩ := x
    obtain ⟨f, ts, hsp, hall, hI, hN⟩ := berLoop_inv fuel fuel _ _ _ _ rfl hloop
    obtain ⟨rest, hp, rfl, rfl⟩ := specAll_indef_inv _ _ _ _ _ _ hsp
    refine ⟨f, ts, rest, hp, hall, ⟨hI, hN⟩, ?_⟩
    have := ber_indef_fc fuel d lo f ts rest hp ⟨hI, hN⟩
    rw [h1, if_pos hall] at this
    simp only [Except.ok.injEq, Prod.mk.injEq] at this
    exact ⟨this.1, this.2⟩

/-- **C16 (BER, constructed, indefinite length — only those).** -/
theorem ber_indef_accept_inv (fuel : Nat) (d : Bytes) (lo : Option Nat) (os : OS) (ct : Content) (g' : G0)
    (h : runG0 (fromContentChecked fuel (.cons cI)) (St d lo) = .ok ((os, ct), g')) :
    ∃ f ts rest, parseUntilEoc .ber f (St d lo).view = some (ts, rest) ∧ allOSL ts = true ∧ Budget fuel ts ∧
      os = .cons (d.take ((St d lo).view.length - rest.length - C02.eocLen .ber f (St d lo).view)) ∧ ct = .cons (cE (C02.eocLen .ber f (St d lo).view)) ∧
      g' = St (d.drop ((St d lo).view.length - rest.length)) (lo.map (· - ((St d lo).view.length - rest.length))) := by
  obtain ⟨g1, h1⟩ := checked_ok_inv _ _ _ _ h
  obtain ⟨f, ts, rest, hp, hall, hb, _, _⟩ := ber_indef_fc_inv fuel d lo _ g1 h1
  refine ⟨f, ts, rest, hp, hall, hb, ?_⟩
  have := ber_indef_run fuel d lo f ts rest hp hb
  rw [h, if_pos hall] at this
  simp only [Except.ok.injEq, Prod.mk.injEq] at this
  exact ⟨this.1.1, this.1.2, this.2⟩

/-- **C16 (BER, constructed, indefinite length) as an equivalence.** -/
theorem ber_indef_accept_iff (fuel : Nat) (d : Bytes) (lo : Option Nat) :
    (∃ r, runG0 (fromContentChecked fuel (.cons cI)) (St d lo) = .ok r) ↔
      ∃ f ts rest, parseUntilEoc .ber f (St d lo).view = some (ts, rest) ∧ allOSL ts = true ∧ Budget fuel ts := by
  constructor
  · rintro ⟨⟨⟨os, ct⟩, g'⟩, h⟩
    obtain ⟨f, ts, rest, hp, ha, hb, _⟩ := ber_indef_accept_inv fuel d lo os ct g' h
    exact ⟨f, ts, rest, hp, ha, hb⟩
  · rintro ⟨f, ts, rest, hp, ha, hb⟩
    exact ⟨_, by rw [ber_indef_run fuel d lo f ts rest hp hb, if_pos ha]⟩

/-- … against the reference definitions -/
theorem ber_indef_accept_iff_spec (fuel : Nat) (d : Bytes) (lo : Option Nat) :
    (∃ r, runG0 (fromContentChecked fuel (.cons cI)) (St d lo) = .ok r) ↔
      ∃ f ts rest, parseUntilEoc .ber f (St d lo).view = some (ts, rest) ∧
        osAccept .ber (.cons C16.cOS true ts) = true ∧ osContent 4 (f + 1) (.cons C16.cOS true ts) ≠ none ∧
        Budget fuel ts := by
  rw [ber_indef_accept_iff]
  constructor
  · rintro ⟨f, ts, rest, hp, ha, hb⟩
    exact ⟨f, ts, rest, hp, rfl, (allOSL_iff_osContent .ber f _ ts true (Or.inr ⟨rest, hp⟩)).mp ha, hb⟩
  · rintro ⟨f, ts, rest, hp, _, hc, hb⟩
    exact ⟨f, ts, rest, hp, (allOSL_iff_osContent .ber f _ ts true (Or.inr ⟨rest, hp⟩)).mpr hc, hb⟩

/-! ## 5. every accepted value is well-formed in the sense of C16: all views present the segments -/

theorem wf_of_parseAll (f : Nat) (c : Bytes) (ts : List Tree) (hp : parseAll .ber f c = some ts)
    (ha : allOSL ts = true) : wfTrees f c = some ts := by
  have hd := ((parse_good .ber f).2.1 c ts hp).2
  have hos : osTrees f ts = true := by rw [osTrees_iff_allOSL f ts (by omega)]; exact ha
  unfold wfTrees
  simp only [hp, hos, if_true]

theorem wf_of_untilEoc (f : Nat) (c : Bytes) (ts : List Tree) (hp : parseUntilEoc .ber f c = some (ts, []))
    (ha : allOSL ts = true) : wfTrees f c = some ts := by
  have hd := ((parse_good .ber f).2.2 c ts [] hp).2
  have hos : osTrees f ts = true := by rw [osTrees_iff_allOSL f ts (by omega)]; exact ha
  unfold wfTrees
  simp only [parseAll_none_of_untilEoc .ber f c ts [] hp, hp, hos, if_true]

/-- **What the capture of an indefinite-length value holds (finding D12).**  If the view `v` is the
    values `ts` followed by end-of-contents and then `rest`, the octets advanced over —
    `v.take (v.length - rest.length)`, which is what `from_content` stores — are, by the grammar,
    the same values followed by the end-of-contents octets and nothing else; in particular they are
    NOT a plain sequence of values (`parseAll` rejects them), which is why re-encoding them under a
    definite length is not well-formed (`C16.reencode_ber_d12`).  They are well-formed captured
    content in the sense of `C16.wfTrees` if the values are all OCTET STRING. -/
theorem ber_indef_captured (f : Nat) (v : Bytes) (ts : List Tree) (rest : Bytes)
    (hp : parseUntilEoc .ber f v = some (ts, rest)) :
    parseUntilEoc .ber f (v.take (v.length - rest.length)) = some (ts, []) ∧
    parseAll .ber f (v.take (v.length - rest.length)) = none ∧
    (allOSL ts = true → wfTrees f (v.take (v.length - rest.length)) = some ts) := by
  obtain ⟨n, hn, hr⟩ := (suffix_lemma .ber f).2 _ _ _ hp
  have hlen : v.length - rest.length = n := by rw [hr, List.length_drop]; omega
  rw [hlen]
  have hsplit : v = v.take n ++ rest := by rw [hr, List.take_append_drop]
  have h1 : parseUntilEoc .ber f (v.take n) = some (ts, []) := by
    apply (parse_restrict .ber f).2 (v.take n) rest ts
    rw [← hsplit]; exact hp
  exact ⟨h1, parseAll_none_of_untilEoc .ber f _ ts [] h1, fun ha => wf_of_untilEoc f _ ts h1 ha⟩

/-- the views of C16 (`C16.views_eq_concat`) as one predicate: every view of `os` presents the
    primitive segments of the trees `ts`, in order; their concatenation is the concatenation of
    the reference contents `Spec.osContent` -/
def ViewsOK (os : OS) (f : Nat) (ts : List Tree) : Prop :=
  OS.segments os = .ok (ts.flatMap (osSegments f)) ∧
  OS.octets os = .ok (ts.flatMap (osSegments f)).flatten ∧
  (ts.flatMap (osSegments f)).flatten = (ts.filterMap (osContent 4 f)).flatten ∧
  (ts.filterMap (osContent 4 f)).length = ts.length ∧
  OS.len os = .ok (ts.flatMap (osSegments f)).flatten.length ∧
  OS.isEmpty os = .ok (ts.flatMap (osSegments f)).flatten.isEmpty ∧
  OS.asSlice os = none

theorem views_of_wf (f : Nat) (c : Bytes) (ts : List Tree) (h : wfTrees f c = some ts) : ViewsOK (.cons c) f ts :=
  C16.views_eq_concat f c ts h

/-- **C16 (BER): every accepted constructed value is well-formed and all its views present the
    concatenation of the primitive segments.**  For a definite-length value (`c = cD`, limited
    source) and for an indefinite-length one (`c = cI`, any source): whenever `from_content` +
    exhaustion check succeeds, the value is `.cons captured` with `C16.wfTrees f captured = some ts`
    for the trees `ts` the grammar reads from the content — hence `C16.WfOS captured` — and the
    segment iterator, the octet iterator / `to_bytes`, `len`, `is_empty` succeed (no panic, no fuel
    problem) and present exactly the primitive leaves of `ts` in order. -/
theorem ber_accept_views (fuel : Nat) (c : Cons) (d : Bytes) (lo : Option Nat)
    (hc : (c = cD ∧ lo ≠ none) ∨ c = cI) (os : OS) (ct : Content) (g' : G0)
    (h : runG0 (fromContentChecked fuel (.cons c)) (St d lo) = .ok ((os, ct), g')) :
    ∃ f ts captured, os = .cons captured ∧ wfTrees f captured = some ts ∧ WfOS captured ∧ allOSL ts = true ∧
      (parseAll .ber f (St d lo).view = some ts ∨ ∃ rest, parseUntilEoc .ber f (St d lo).view = some (ts, rest)) ∧
      ViewsOK os f ts := by
  rcases hc with ⟨rfl, hlo⟩ | rfl
  · cases lo with
    | none => exact absurd rfl hlo
    | some l =>
      obtain ⟨hle, f, ts, hp, ha, hb, rfl, _, _⟩ := ber_def_accept_inv fuel d l os ct g' h
      have hw := wf_of_parseAll f _ ts hp ha
      exact ⟨f, ts, d.take l, rfl, hw, ⟨f, ts, hw⟩, ha, Or.inl hp, views_of_wf f _ ts hw⟩
  · obtain ⟨f, ts, rest, hp, ha, hb, rfl, _, _⟩ := ber_indef_accept_inv fuel d lo os ct g' h
    obtain ⟨_, hpa⟩ := C11b.untilEoc_values .ber f _ ts rest hp
    have hw := wf_of_parseAll f _ ts hpa ha
    have ht : (St d lo).view.take ((St d lo).view.length - rest.length - C02.eocLen .ber f (St d lo).view) =
        d.take ((St d lo).view.length - rest.length - C02.eocLen .ber f (St d lo).view) :=
      C10.take_view (St d lo) _ (by omega)
    rw [ht] at hw
    exact ⟨f, ts, _, rfl, hw, ⟨f, ts, hw⟩, ha, Or.inr ⟨rest, hp⟩, views_of_wf f _ ts hw⟩

/-- **C16 (BER): every accepted constructed value re-encodes as a well-formed value of the same
    content.**  Whenever `from_content` + exhaustion check accepts a constructed value (definite
    parent on a limited source, or indefinite parent), the captured octets parse as a SEQUENCE OF
    VALUES `ts` (never with a trailing end-of-contents marker), so — by
    `C16.reencode_ber_wellformed` — writing the value back in BER with the OCTET STRING tag yields
    one definite-length constructed universal-4 value with exactly the kids `ts`, whose reference
    content is what the octet view of the value presents. -/
theorem ber_accept_reencode (fuel : Nat) (c : Cons) (d : Bytes) (lo : Option Nat)
    (hc : (c = cD ∧ lo ≠ none) ∨ c = cI) (os : OS) (ct : Content) (g' : G0)
    (h : runG0 (fromContentChecked fuel (.cons c)) (St d lo) = .ok ((os, ct), g'))
    (hsz : d.length < 2 ^ 32) (rest : Bytes) :
    ∃ f ts captured out, os = .cons captured ∧ parseAll .ber f captured = some ts ∧
      Enc.write .ber (.octetString Tag.OCTET_STRING os) = .ok out ∧
      parseValue .ber (f + 1) (out ++ rest) = some (.cons ⟨0, true, 4⟩ false ts, rest) ∧
      ∃ x, OS.octets os = .ok x ∧ osContent 4 (f + 1) (.cons ⟨0, true, 4⟩ false ts) = some x := by
  have key : ∀ (f : Nat) (ts : List Tree) (captured : Bytes), captured.length ≤ d.length →
      parseAll .ber f captured = some ts → allOSL ts = true →
      ∃ out, Enc.write .ber (.octetString Tag.OCTET_STRING (.cons captured)) = .ok out ∧
        parseValue .ber (f + 1) (out ++ rest) = some (.cons ⟨0, true, 4⟩ false ts, rest) ∧
        ∃ x, OS.octets (.cons captured) = .ok x ∧ osContent 4 (f + 1) (.cons ⟨0, true, 4⟩ false ts) = some x := by
    intro f ts captured hlen hp ha
    have hd := ((parse_good .ber f).2.1 captured ts hp).2
    have hos : osTrees f ts = true := by rw [osTrees_iff_allOSL f ts (by omega)]; exact ha
    obtain ⟨out, h1, h2, h3⟩ := C16.reencode_ber_wellformed captured (by omega) f ts hp rest
    exact ⟨out, h1, h2, h3 hos⟩
  rcases hc with ⟨rfl, hlo⟩ | rfl
  · cases lo with
    | none => exact absurd rfl hlo
    | some l =>
      obtain ⟨hle, f, ts, hp, ha, hb, rfl, _, _⟩ := ber_def_accept_inv fuel d l os ct g' h
      obtain ⟨out, h1, h2, h3⟩ := key f ts (d.take l) (by simp [List.length_take]; omega) hp ha
      exact ⟨f, ts, _, out, rfl, hp, h1, h2, h3⟩
  · obtain ⟨f, ts, rest', hp, ha, hb, rfl, _, _⟩ := ber_indef_accept_inv fuel d lo os ct g' h
    obtain ⟨_, hpa⟩ := C11b.untilEoc_values .ber f _ ts rest' hp
    have ht : (St d lo).view.take ((St d lo).view.length - rest'.length - C02.eocLen .ber f (St d lo).view) =
        d.take ((St d lo).view.length - rest'.length - C02.eocLen .ber f (St d lo).view) :=
      C10.take_view (St d lo) _ (by omega)
    rw [ht] at hpa
    obtain ⟨out, h1, h2, h3⟩ := key f ts _ (by simp [List.length_take]; omega) hpa ha
    exact ⟨f, ts, _, out, rfl, hpa, h1, h2, h3⟩

/-! ## 6. rejection: a content error (or the budget), never a panic -/

theorem specAll_pos (c : Cons) (f : Nat) (g : G0) (ts : List Tree) (c' : Cons) (g' : G0)
    (h : specAll c f g = some ((ts, c'), g')) : ∃ k, k ≤ g.view.length ∧ g'.data = g.data.drop k := by
  obtain ⟨s, m⟩ := c
  unfold specAll at h
  cases s with
  | definite =>
    simp only at h
    cases hl : g.limit with
    | none => simp [hl] at h
    | some l =>
      simp only [hl] at h
      by_cases hle : l ≤ g.data.length
      · simp only [hle, if_true] at h
        cases hp : parseAll (toM m) f g.view with
        | none => simp [hp] at h
        | some ts' =>
          simp only [hp, Option.map, Option.some.injEq, Prod.mk.injEq] at h
          obtain ⟨_, rfl⟩ := h
          have := view_len g
          rw [hl] at this
          simp only at this
          exact ⟨l, by omega, rfl⟩
      · simp [hle] at h
  | indefinite =>
    simp only at h
    cases hp : parseUntilEoc (toM m) f g.view with
    | none => simp [hp] at h
    | some r =>
      simp only [hp, Option.map, Option.some.injEq, Prod.mk.injEq] at h
      obtain ⟨_, rfl⟩ := h
      exact ⟨_, Nat.sub_le _ _, rfl⟩
  | unbounded =>
    simp only at h
    cases hp : parseAll (toM m) f g.view with
    | none => simp [hp] at h
    | some ts' =>
      simp only [hp, Option.map, Option.some.injEq, Prod.mk.injEq] at h
      obtain ⟨_, rfl⟩ := h
      exact ⟨_, Nat.le_refl _, rfl⟩
  | done =>
    simp only [Option.some.injEq, Prod.mk.injEq] at h
    obtain ⟨_, rfl⟩ := h
    exact ⟨0, Nat.zero_le _, rfl⟩

/-- **`from_content` on a constructed value in BER never panics**: for every state of the
    `Constructed` (a definite one sitting on a limited source, as it always does), every content,
    every fuel, a failure is a content error or the exhausted budget -/
theorem fromContent_nopanic (fuel : Nat) (st : CState) (d : Bytes) (lo : Option Nat)
    (hc : st = .definite → lo ≠ none) (e : Err)
    (h : runG0 (OS.fromContent fuel (.cons ⟨st, .ber, 0⟩)) (St d lo) = .error e) : e = .content ∨ e = .fuel := by
  rw [fromContent_run] at h
  cases hloop : runG0 (OS.berLoop ⟨st, .ber, 0⟩ fuel fuel) (St d lo) with
  | error e' =>
    rw [hloop] at h
    simp only [Except.error.injEq] at h
    subst h
    exact berLoop_nopanic fuel fuel ⟨st, .ber, 0⟩ (St d lo) _ rfl hc hloop
  | ok x =>
    obtain ⟨c', g2⟩ := x
    rw [hloop] at h
    obtain ⟨f, ts, hsp, _⟩ := berLoop_inv fuel fuel _ _ _ _ rfl hloop
    obtain ⟨k, hk, hd⟩ := specAll_pos _ _ _ _ _ _ hsp
    cases lo with
    | none => cases h
    | some lim =>
      have h1 := view_le_limit (St d (some lim)) lim rfl
      have h2 := (St d (some lim)).view_length_le
      have hk' : d.length - g2.data.length = k := by
        rw [hd]; show d.length - (d.drop k).length = k; rw [List.length_drop]
        have : k ≤ d.length := Nat.le_trans hk h2
        omega
      have hl : ¬ lim < d.length - g2.data.length := by omega
      simp only [hl, if_false] at h
      cases h

/-- **C16 (BER, rejection).**  For a definite-length constructed value (limited source) and for an
    indefinite-length one (any source), whatever the content: if `from_content` + exhaustion check
    does not succeed, it fails with a content error or because the budget ran out — never a panic. -/
theorem ber_reject (fuel : Nat) (c : Cons) (d : Bytes) (lo : Option Nat)
    (hc : (c = cD ∧ lo ≠ none) ∨ c = cI) (e : Err)
    (h : runG0 (fromContentChecked fuel (.cons c)) (St d lo) = .error e) : e = .content ∨ e = .fuel := by
  cases hfc : runG0 (OS.fromContent fuel (.cons c)) (St d lo) with
  | error e' =>
    rw [checked_of_err _ _ _ _ hfc] at h
    simp only [Except.error.injEq] at h
    subst h
    rcases hc with ⟨rfl, hlo⟩ | rfl
    · exact fromContent_nopanic fuel .definite d lo (fun _ => hlo) _ hfc
    · exact fromContent_nopanic fuel .indefinite d lo (fun hh => by cases hh) _ hfc
  | ok x =>
    obtain ⟨r, g1⟩ := x
    rcases hc with ⟨rfl, hlo⟩ | rfl
    · cases lo with
      | none => exact absurd rfl hlo
      | some l =>
        obtain ⟨hle, f, ts, hp, ha, hb, _, _⟩ := ber_def_fc_inv fuel d l r g1 hfc
        rw [ber_def_run fuel d l f ts hle hp hb, if_pos ha] at h
        cases h
    · obtain ⟨f, ts, rest, hp, ha, hb, _, _⟩ := ber_indef_fc_inv fuel d lo r g1 hfc
      rw [ber_indef_run fuel d lo f ts rest hp hb, if_pos ha] at h
      cases h

mutual
/-- `allOS` spelled out on the trace: every identifier met, at every depth, is universal 4 -/
theorem allOS_iff_preorder : ∀ (t : Tree) (dep : Nat),
    allOS t = true ↔ ∀ p ∈ preorder t dep, p.1.cls = 0 ∧ p.1.num = 4
  | .prim id _, dep => by simp [allOS, preorder]
  | .cons id _ kids, dep => by
    simp only [allOS, preorder, Bool.and_eq_true, beq_iff_eq, List.mem_cons, forall_eq_or_imp]
    rw [allOSL_iff_preorderL kids (dep + 1)]
theorem allOSL_iff_preorderL : ∀ (ts : List Tree) (dep : Nat),
    allOSL ts = true ↔ ∀ p ∈ preorderL ts dep, p.1.cls = 0 ∧ p.1.num = 4
  | [], dep => by simp [allOSL, preorderL]
  | t :: ts, dep => by
    simp only [allOSL, preorderL, Bool.and_eq_true, List.mem_append]
    rw [allOS_iff_preorder t dep, allOSL_iff_preorderL ts dep]
    constructor
    · rintro ⟨h1, h2⟩ p (hp | hp)
      · exact h1 p hp
      · exact h2 p hp
    · intro h
      exact ⟨fun p hp => h p (Or.inl hp), fun p hp => h p (Or.inr hp)⟩
end

/-- **A foreign tag at any depth is rejected, whatever the budget** (definite length): if the
    content octets parse as values among which some identifier, at some depth, is not universal 4,
    `from_content` fails, with a content error or (if `fuel` is too small to get that far) the
    budget; with a sufficient budget it is a content error (`ber_def_run`). -/
theorem ber_def_reject_foreign (fuel : Nat) (d : Bytes) (l f : Nat) (ts : List Tree)
    (hp : parseAll .ber f (d.take l) = some ts)
    (hbad : ∃ p ∈ preorderL ts 0, ¬ (p.1.cls = 0 ∧ p.1.num = 4)) :
    ∃ e, runG0 (fromContentChecked fuel (.cons cD)) (St d (some l)) = .error e ∧ (e = .content ∨ e = .fuel) := by
  have hna : ¬ allOSL ts = true := by
    rw [allOSL_iff_preorderL ts 0]
    obtain ⟨p, hp1, hp2⟩ := hbad
    exact fun hh => hp2 (hh p hp1)
  cases hr : runG0 (fromContentChecked fuel (.cons cD)) (St d (some l)) with
  | error e => exact ⟨e, rfl, ber_reject fuel cD d (some l) (Or.inl ⟨rfl, by simp⟩) e hr⟩
  | ok x =>
    obtain ⟨⟨os, ct⟩, g'⟩ := x
    obtain ⟨_, f', ts', hp', ha', _⟩ := ber_def_accept_inv fuel d l os ct g' hr
    have e1 := C10.parseAll_mono .ber f (max f f') (Nat.le_max_left _ _) _ _ hp
    have e2 := C10.parseAll_mono .ber f' (max f f') (Nat.le_max_right _ _) _ _ hp'
    rw [e1] at e2
    simp only [Option.some.injEq] at e2
    subst e2
    exact absurd ha' hna

/-- the same for an indefinite-length value -/
theorem ber_indef_reject_foreign (fuel : Nat) (d : Bytes) (lo : Option Nat) (f : Nat) (ts : List Tree) (rest : Bytes)
    (hp : parseUntilEoc .ber f (St d lo).view = some (ts, rest))
    (hbad : ∃ p ∈ preorderL ts 0, ¬ (p.1.cls = 0 ∧ p.1.num = 4)) :
    ∃ e, runG0 (fromContentChecked fuel (.cons cI)) (St d lo) = .error e ∧ (e = .content ∨ e = .fuel) := by
  have hna : ¬ allOSL ts = true := by
    rw [allOSL_iff_preorderL ts 0]
    obtain ⟨p, hp1, hp2⟩ := hbad
    exact fun hh => hp2 (hh p hp1)
  cases hr : runG0 (fromContentChecked fuel (.cons cI)) (St d lo) with
  | error e => exact ⟨e, rfl, ber_reject fuel cI d lo (Or.inr rfl) e hr⟩
  | ok x =>
    obtain ⟨⟨os, ct⟩, g'⟩ := x
    obtain ⟨f', ts', rest', hp', ha', _⟩ := ber_indef_accept_inv fuel d lo os ct g' hr
    have e1 := C10.parseUntilEoc_mono .ber f (max f f') (Nat.le_max_left _ _) _ _ hp
    have e2 := C10.parseUntilEoc_mono .ber f' (max f f') (Nat.le_max_right _ _) _ _ hp'
    rw [e1] at e2
    simp only [Option.some.injEq, Prod.mk.injEq] at e2
    obtain ⟨rfl, _⟩ := e2
    exact absurd ha' hna

/-- **Malformed nested structure is rejected** (definite length): if the content octets are not all
    there, or are not a sequence of BER values for any parse fuel, `from_content` fails with a
    content error or the budget, for every fuel. -/
theorem ber_def_reject_malformed (fuel : Nat) (d : Bytes) (l : Nat)
    (hbad : d.length < l ∨ ∀ f, parseAll .ber f (d.take l) = none) :
    ∃ e, runG0 (fromContentChecked fuel (.cons cD)) (St d (some l)) = .error e ∧ (e = .content ∨ e = .fuel) := by
  cases hr : runG0 (fromContentChecked fuel (.cons cD)) (St d (some l)) with
  | error e => exact ⟨e, rfl, ber_reject fuel cD d (some l) (Or.inl ⟨rfl, by simp⟩) e hr⟩
  | ok x =>
    obtain ⟨⟨os, ct⟩, g'⟩ := x
    obtain ⟨hle, f', ts', hp', _⟩ := ber_def_accept_inv fuel d l os ct g' hr
    rcases hbad with hbad | hbad
    · omega
    · rw [hbad f'] at hp'; cases hp'

/-- the same for an indefinite-length value: no values-then-end-of-contents in view -/
theorem ber_indef_reject_malformed (fuel : Nat) (d : Bytes) (lo : Option Nat)
    (hbad : ∀ f, parseUntilEoc .ber f (St d lo).view = none) :
    ∃ e, runG0 (fromContentChecked fuel (.cons cI)) (St d lo) = .error e ∧ (e = .content ∨ e = .fuel) := by
  cases hr : runG0 (fromContentChecked fuel (.cons cI)) (St d lo) with
  | error e => exact ⟨e, rfl, ber_reject fuel cI d lo (Or.inr rfl) e hr⟩
  | ok x =>
    obtain ⟨⟨os, ct⟩, g'⟩ := x
    obtain ⟨f', ts', rest', hp', _⟩ := ber_indef_accept_inv fuel d lo os ct g' hr
    rw [hbad f'] at hp'; cases hp'

/-! ## non-vacuity -/

/-- the content octets of `24 80 04 02 61 62 00 00` (what `from_content` sees after the header of
    the indefinite-length constructed OCTET STRING), followed by other data -/
def exA : Bytes := [0x04, 0x02, 0x61, 0x62, 0x00, 0x00, 0xff]
theorem exA_parse : parseUntilEoc .ber 3 (St exA none).view = some ([.prim ⟨0, false, 4⟩ [0x61, 0x62]], [0xff]) := by rfl
theorem exA_budget : Budget 2 [.prim ⟨0, false, 4⟩ [0x61, 0x62]] := by decide
theorem exA_run : runG0 (fromContentChecked 2 (.cons cI)) (St exA none) =
    .ok ((.cons [0x04, 0x02, 0x61, 0x62], .cons (cE 2)), St [0xff] none) :=
  (ber_indef_run 2 exA none 3 _ _ exA_parse exA_budget).trans (by rfl)
/-- the captured octets do NOT include the `00 00` (former defect D12): they are a sequence of values -/
example : parseAll .ber 3 [0x04, 0x02, 0x61, 0x62] = some [.prim ⟨0, false, 4⟩ [0x61, 0x62]] := by rfl
/-- … and all views of the accepted value present `61 62` -/
example : ∃ f ts captured, (OS.cons [0x04, 0x02, 0x61, 0x62]) = .cons captured ∧
    wfTrees f captured = some ts ∧ WfOS captured ∧ allOSL ts = true ∧
    (parseAll .ber f (St exA none).view = some ts ∨ ∃ rest, parseUntilEoc .ber f (St exA none).view = some (ts, rest)) ∧
    ViewsOK (.cons [0x04, 0x02, 0x61, 0x62]) f ts :=
  ber_accept_views 2 cI exA none (Or.inr rfl) _ _ _ exA_run
example : OS.octets (.cons [0x04, 0x02, 0x61, 0x62]) = .ok [0x61, 0x62] := by rfl
/-- the whole value `24 80 04 02 61 62 00 00` through the framework's reader (by evaluation) -/
example : runG0 (takeValueIf ⟨.unbounded, .ber, 0⟩ Tag.OCTET_STRING (OS.fromContent 2))
    (St [0x24, 0x80, 0x04, 0x02, 0x61, 0x62, 0x00, 0x00] none) =
    .ok (((.cons [0x04, 0x02, 0x61, 0x62] : OS), ⟨.unbounded, .ber, 0⟩), St [] none) := by rfl

/-- constructed in constructed (an indefinite and a definite one, an empty segment), as the content
    of a definite-length value of 12 octets, followed by other data -/
def exB : Bytes := C16.ex2 ++ [0x09]
def exB_ts : List Tree :=
  [.cons ⟨0, true, 4⟩ true [.prim ⟨0, false, 4⟩ [0x61, 0x62]], .cons ⟨0, true, 4⟩ false [.prim ⟨0, false, 4⟩ []]]
theorem exB_parse : parseAll .ber 5 (exB.take 12) = some exB_ts := by rfl
theorem exB_budget : Budget 3 exB_ts := by decide
theorem exB_run : runG0 (fromContentChecked 3 (.cons cD)) (St exB (some 12)) =
    .ok ((.cons C16.ex2, .cons cD), St [0x09] (some 0)) :=
  (ber_def_run 3 exB 12 5 exB_ts (by decide) exB_parse exB_budget).trans (by rfl)
example : ∃ r, runG0 (fromContentChecked 3 (.cons cD)) (St exB (some 12)) = .ok r :=
  (ber_def_accept_iff_spec 3 exB 12).mpr ⟨by decide, 5, exB_ts, exB_parse, rfl, by decide, exB_budget⟩
example : OS.segments (.cons C16.ex2) = .ok [[0x61, 0x62], []] :=
  (views_of_wf 5 C16.ex2 exB_ts (wf_of_parseAll 5 _ _ exB_parse (by rfl))).1
/-- the budget is needed: with `fuel = 2` the first value (3 headers) does not fit -/
example : runG0 (fromContentChecked 2 (.cons cD)) (St exB (some 12)) = .error .fuel := by rfl

/-- three levels, all of indefinite length (`C16.ex3` = content of the outermost one, its
    end-of-contents included): 6 headers -/
def exC_ts : List Tree :=
  [.cons ⟨0, true, 4⟩ true [.cons ⟨0, true, 4⟩ true [.prim ⟨0, false, 4⟩ [0x61]], .prim ⟨0, false, 4⟩ [0x62]]]
theorem exC_parse : parseUntilEoc .ber 6 (St C16.ex3 none).view = some (exC_ts, []) := by rfl
example : runG0 (fromContentChecked 6 (.cons cI)) (St C16.ex3 none) =
    .ok ((.cons (C16.ex3.take 14), .cons (cE 2)), St [] none) :=
  (ber_indef_run 6 C16.ex3 none 6 _ _ exC_parse (by decide)).trans (by rfl)

/-- a foreign INTEGER at depth 1 inside an otherwise well-formed value: content error with a
    sufficient budget, never accepted with any budget -/
def exD : Bytes := [0x24, 0x80, 0x04, 0x01, 0x61, 0x02, 0x01, 0x05, 0x00, 0x00]
def exD_ts : List Tree := [.cons ⟨0, true, 4⟩ true [.prim ⟨0, false, 4⟩ [0x61], .prim ⟨0, false, 2⟩ [0x05]]]
theorem exD_parse : parseAll .ber 5 (exD.take 10) = some exD_ts := by rfl
example : runG0 (fromContentChecked 4 (.cons cD)) (St exD (some 10)) = .error .content :=
  (ber_def_run 4 exD 10 5 exD_ts (by decide) exD_parse (by decide)).trans (by rfl)
example (fuel : Nat) : ∃ e, runG0 (fromContentChecked fuel (.cons cD)) (St exD (some 10)) = .error e ∧
    (e = .content ∨ e = .fuel) :=
  ber_def_reject_foreign fuel exD 10 5 exD_ts exD_parse ⟨(⟨0, false, 2⟩, 1), by decide, by decide⟩
example : runFilter OS.berFilter () (preorderL exD_ts 0) = none ∧ allOSL exD_ts = false := ⟨by rfl, by rfl⟩
/-- the same as a whole value through the framework's reader (by evaluation) -/
example : runG0 (takeValueIf ⟨.unbounded, .ber, 0⟩ Tag.OCTET_STRING (OS.fromContent 5))
    (St (0x24 :: 0x0a :: exD) none) = .error .content := by rfl

/-- malformed: content shorter than the length says; an inner indefinite value that is never closed;
    nothing in view for an indefinite value -/
example (fuel : Nat) : ∃ e, runG0 (fromContentChecked fuel (.cons cD)) (St [0x04] (some 3)) = .error e ∧
    (e = .content ∨ e = .fuel) := ber_def_reject_malformed fuel [0x04] 3 (Or.inl (by decide))
example : runG0 (fromContentChecked 5 (.cons cD)) (St [0x24, 0x80, 0x04, 0x01, 0x61] (some 5)) = .error .content := by rfl
example (fuel : Nat) : ∃ e, runG0 (fromContentChecked fuel (.cons cI)) (St [] none) = .error e ∧
    (e = .content ∨ e = .fuel) := ber_indef_reject_malformed fuel [] none (fun f => by cases f <;> rfl)

end Bcder.Props.C16b
