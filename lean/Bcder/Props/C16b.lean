import Bcder.Props.C16
import Bcder.Props.C10
namespace Bcder.Props.C16b
open Bcder Bcder.Spec Prog
open Bcder.Props.C02 (St run_getLimit run_need run_limitedExhausted suffix_lemma view_le_limit view_len)
open Bcder.Props.C10 (hdrs hdrsL preorder preorderL runFilter thenK specAll absentF)
open Bcder.Props.C16 (wfTrees WfOS osTrees fromContentChecked)

/-! ## 1. the filter of `take_constructed_ber` on the trace of a tree -/

mutual
/-- every value of the tree, at every depth, has the identifier universal 4 (OCTET STRING) -/
def allOS : Tree → Bool
  | .prim id _ => id.cls == 0 && id.num == 4
  | .cons id _ kids => (id.cls == 0 && id.num == 4) && allOSL kids
def allOSL : List Tree → Bool
  | [] => true
  | t :: ts => allOS t && allOSL ts
end

mutual
/-- identifiers as the identifier reader produces them: class ≤ 3, number ≤ 0x1fffff -/
def bdd : Tree → Prop
  | .prim id _ => id.cls ≤ 3 ∧ id.num ≤ 0x1fffff
  | .cons id _ kids => (id.cls ≤ 3 ∧ id.num ≤ 0x1fffff) ∧ bddL kids
def bddL : List Tree → Prop
  | [] => True
  | t :: ts => bdd t ∧ bddL ts
end

mutual
/-- nesting depth (a primitive value has depth 0) -/
def depth : Tree → Nat
  | .prim _ _ => 0
  | .cons _ _ kids => depthL kids + 1
def depthL : List Tree → Nat
  | [] => 0
  | t :: ts => max (depth t) (depthL ts)
end

theorem tag_os_iff (id : Ident) (hc : id.cls ≤ 3) (hn : id.num ≤ 0x1fffff) :
    C12.tagOf id.cls id.num = Tag.OCTET_STRING ↔ (id.cls == 0 && id.num == 4) = true := by
  rw [← C16.tagOf_os]
  constructor
  · intro h
    obtain ⟨h1, h2⟩ := C12.tagOf_inj _ _ _ _ hc (by omega) hn (by omega) h
    simp [h1, h2]
  · intro h
    simp only [Bool.and_eq_true, beq_iff_eq] at h
    rw [h.1, h.2]

theorem berFilter_eq (id : Ident) (hc : id.cls ≤ 3) (hn : id.num ≤ 0x1fffff) (b : Bool) (d : Nat) :
    OS.berFilter () (C12.tagOf id.cls id.num) b d = if (id.cls == 0 && id.num == 4) = true then some () else none := by
  unfold OS.berFilter
  by_cases h : (id.cls == 0 && id.num == 4) = true
  · rw [if_pos ((tag_os_iff id hc hn).mpr h), if_pos h]
  · rw [if_neg (fun h' => h ((tag_os_iff id hc hn).mp h')), if_neg h]

mutual
/-- **the BER filter accepts the trace of a value exactly when every nested value is an OCTET STRING** -/
theorem runFilter_ber : ∀ (t : Tree) (d : Nat), bdd t →
    runFilter OS.berFilter () (preorder t d) = if allOS t = true then some () else none
  | .prim id _, d, hb => by
    simp only [preorder, runFilter, bdd] at hb ⊢
    rw [berFilter_eq id hb.1 hb.2]
    simp only [allOS]
    by_cases h : (id.cls == 0 && id.num == 4) = true <;> simp [h, runFilter]
  | .cons id _ kids, d, hb => by
    simp only [bdd] at hb
    simp only [preorder, runFilter]
    rw [berFilter_eq id hb.1.1 hb.1.2]
    simp only [allOS]
    by_cases h : (id.cls == 0 && id.num == 4) = true
    · simp only [h, if_true, Bool.true_and]
      exact runFilter_berL kids (d + 1) hb.2
    · simp [h]
theorem runFilter_berL : ∀ (ts : List Tree) (d : Nat), bddL ts →
    runFilter OS.berFilter () (preorderL ts d) = if allOSL ts = true then some () else none
  | [], _, _ => by simp [preorderL, runFilter, allOSL]
  | t :: ts, d, hb => by
    simp only [bddL] at hb
    simp only [preorderL, allOSL]
    rw [C10.runFilter_append, runFilter_ber t d hb.1]
    by_cases h : allOS t = true
    · simp only [h, if_true, Bool.true_and]
      exact runFilter_berL ts d hb.2
    · simp [h]
end

end Bcder.Props.C16b
