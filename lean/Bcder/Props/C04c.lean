/-
  C04c — captured values in the round trip.

  `Captured` is written by copying its octets (`Enc.captured`); it is read back by `capture_one`.
  `rt_captureOne`: if the octets are one complete value under the grammar of the mode, `capture_one`
  returns exactly them, in every context, with anything following, leaving the `Constructed` as it
  was.  The grammar extension lemma `parse_append` (a value at the front of `a` is the same value at
  the front of `a ++ b`) is what lets the statement about the octets alone be used on the source.
-/
import Bcder.Props.C04b
import Bcder.Props.C11b
namespace Bcder.Props.C04c
open Bcder Bcder.Spec Prog Bcder.Props.C02 Bcder.Props.C09 Bcder.Props.C04 Bcder.Props.C04b

/-! ### the grammar is insensitive to what follows a value -/

def PVapp (m : M) (f : Nat) : Prop := ∀ (a : Bytes) (t : Tree) (r b : Bytes),
  parseValue m f a = some (t, r) → parseValue m f (a ++ b) = some (t, r ++ b)
def PEapp (m : M) (f : Nat) : Prop := ∀ (a : Bytes) (ts : List Tree) (r b : Bytes),
  parseUntilEoc m f a = some (ts, r) → parseUntilEoc m f (a ++ b) = some (ts, r ++ b)

theorem drop_app (a b : Bytes) (k : Nat) (h : k ≤ a.length) : (a ++ b).drop k = a.drop k ++ b :=
  List.drop_append_of_le_length h

theorem pv_app_step (m : M) (f : Nat) (ihE : PEapp m f) : PVapp m (f + 1) := by
  intro a t r b h
  simp only [parseValue] at h ⊢
  cases hi : readIdent a with
  | none => rw [hi] at h; cases h
  | some x =>
    obtain ⟨id, k⟩ := x
    rw [hi] at h
    rw [C16.readIdent_append a b id k hi]
    simp only at h ⊢
    obtain ⟨_, _, _, hk, _⟩ := C12.readIdent_bounds a id k hi
    by_cases he : isEocIdent id = true
    · simp [he] at h
    · simp only [he, Bool.false_eq_true, if_false] at h ⊢
      rw [drop_app a b k hk]
      cases hl : readLen m.isBer (a.drop k) with
      | none => rw [hl] at h; cases h
      | some y =>
        obtain ⟨len?, kl⟩ := y
        rw [hl] at h
        rw [C16.readLen_append _ _ b _ _ hl]
        obtain ⟨_, hkl⟩ := readLen_bound _ _ _ _ hl
        simp only [List.length_drop] at hkl
        have e2 : (a ++ b).drop (k + kl) = a.drop (k + kl) ++ b := drop_app a b _ (by omega)
        cases len? with
        | some n =>
          simp only at h ⊢
          rw [e2]
          by_cases hlt : (a.drop (k + kl)).length < n
          · rw [if_pos hlt] at h; cases h
          · have hlt' : ¬ (a.drop (k + kl) ++ b).length < n := by simp only [List.length_append]; omega
            have hn : n ≤ (a.drop (k + kl)).length := by omega
            simp only [hlt, hlt', if_false] at h ⊢
            rw [List.take_append_of_le_length hn, List.drop_append_of_le_length hn]
            by_cases hc : (!id.constructed) = true
            · simp only [hc, if_true, Option.some.injEq, Prod.mk.injEq] at h ⊢
              exact ⟨h.1, by rw [h.2]⟩
            · simp only [hc, Bool.false_eq_true, if_false] at h ⊢
              by_cases hcer : (m == .cer) = true
              · simp [hcer] at h
              · simp only [hcer, Bool.false_eq_true, if_false] at h ⊢
                cases hp : parseAll m f ((a.drop (k + kl)).take n) with
                | none => rw [hp] at h; cases h
                | some kids =>
                  rw [hp] at h
                  simp only [Option.some.injEq, Prod.mk.injEq] at h ⊢
                  exact ⟨h.1, by rw [h.2]⟩
        | none =>
          simp only at h ⊢
          by_cases hc : (!id.constructed || m == .der) = true
          · simp [hc] at h
          · simp only [hc, Bool.false_eq_true, if_false] at h ⊢
            rw [e2]
            cases hp : parseUntilEoc m f (a.drop (k + kl)) with
            | none => rw [hp] at h; cases h
            | some z =>
              obtain ⟨kids, rest⟩ := z
              rw [hp] at h
              rw [ihE _ kids rest b hp]
              simp only [Option.some.injEq, Prod.mk.injEq] at h ⊢
              exact ⟨h.1, by rw [h.2]⟩

theorem pe_app_step (m : M) (f : Nat) (ihV : PVapp m f) (ihE : PEapp m f) : PEapp m (f + 1) := by
  intro a ts r b h
  simp only [parseUntilEoc] at h ⊢
  cases hi : readIdent a with
  | none => rw [hi] at h; cases h
  | some x =>
    obtain ⟨id, k⟩ := x
    rw [hi] at h
    rw [C16.readIdent_append a b id k hi]
    simp only at h ⊢
    obtain ⟨_, _, _, hk, _⟩ := C12.readIdent_bounds a id k hi
    by_cases he : isEocIdent id = true
    · simp only [he, if_true] at h ⊢
      by_cases hc : id.constructed = true
      · simp [hc] at h
      · simp only [hc, Bool.false_eq_true, if_false] at h ⊢
        rw [drop_app a b k hk]
        cases hl : readLen m.isBer (a.drop k) with
        | none => rw [hl] at h; cases h
        | some y =>
          obtain ⟨len?, kl⟩ := y
          rw [hl] at h
          rw [C16.readLen_append _ _ b _ _ hl]
          obtain ⟨_, hkl⟩ := readLen_bound _ _ _ _ hl
          simp only [List.length_drop] at hkl
          cases len? with
          | none => cases h
          | some n =>
            cases n with
            | succ n => cases h
            | zero =>
              simp only [Option.some.injEq, Prod.mk.injEq] at h ⊢
              refine ⟨h.1, ?_⟩
              rw [drop_app a b _ (by omega), h.2]
    · simp only [he, Bool.false_eq_true, if_false] at h ⊢
      cases hp : parseValue m f a with
      | none => rw [hp] at h; cases h
      | some z =>
        obtain ⟨t, rest⟩ := z
        rw [hp] at h
        rw [ihV a t rest b hp]
        simp only at h ⊢
        cases hq : parseUntilEoc m f rest with
        | none => rw [hq] at h; cases h
        | some w =>
          obtain ⟨ts', rest'⟩ := w
          rw [hq] at h
          rw [ihE rest ts' rest' b hq]
          simp only [Option.some.injEq, Prod.mk.injEq] at h ⊢
          exact ⟨h.1, by rw [h.2]⟩

/-- **a value at the front of `a` is the same value at the front of `a ++ b`** -/
theorem parse_append (m : M) : ∀ f, PVapp m f ∧ PEapp m f := by
  intro f
  induction f with
  | zero => exact ⟨fun a t r b h => by simp [parseValue] at h, fun a ts r b h => by simp [parseUntilEoc] at h⟩
  | succ f ih => exact ⟨pv_app_step m f ih.2, pe_app_step m f ih.1 ih.2⟩

/-! ### `capture_one` reads a written `Captured` back -/

/-- **captured values round-trip**: octets that are one complete value of the mode are returned
    unchanged by `capture_one` -/
theorem rt_captureOne (m : Mode) (bytes : Bytes) (f : Nat) (t : Tree)
    (hp : parseValue (toM m) f bytes = some (t, [])) (N : Nat) (hN : C10.hdrs t ≤ N) :
    RT m bytes (fun c => captureOne c N) bytes := by
  intro c tail lim hm hnd hdef hcov
  obtain ⟨t', hv⟩ := view_covers bytes tail lim hcov
  have hpv : parseValue (toM c.mode) f (St (bytes ++ tail) lim).view = some (t, t') := by
    rw [hv, hm]
    simpa using (parse_append (toM m) f).1 bytes t [] t' hp
  have hs := C10.skipOne_value c (St (bytes ++ tail) lim) rfl hnd (fun ⟨a, b⟩ => hdef a b) f t t' hpv N hN
  have hlen : (St (bytes ++ tail) lim).view.length - t'.length = bytes.length := by
    rw [hv]; simp
  rw [hlen] at hs
  unfold captureOne
  rw [C16.capture_run0 c _ (fun c => by
    have := nocap_mandatory _ (nocap_skipOne c N)
    nocap) (bytes ++ tail) lim]
  simp only [runG0_bind, C09.mandatory_run, hs, runG0_pure]
  have hk : (bytes ++ tail).length - ((St (bytes ++ tail) lim).adv bytes.length).data.length = bytes.length := by
    simp [G0.adv]
  simp only [hk, if_true, Nat.sub_zero]
  have hd : ((St (bytes ++ tail) lim).adv bytes.length).data = tail := by simp [G0.adv]
  rw [hd]
  cases lim with
  | none => simp
  | some l =>
    have := hcov l rfl
    have hl : ¬ l < bytes.length := by omega
    simp [hl]

/-- `Captured` / `capture_one` is in the round-trip algebra -/
theorem codecF_captured (m own : Mode) (bytes : Bytes) (f : Nat) (t : Tree)
    (hp : parseValue (toM m) f bytes = some (t, [])) (N : Nat) (hN : C10.hdrs t ≤ N) :
    CodecF m [] (.captured bytes own) (fun c => captureOne c N) bytes := by
  refine CodecF.sem [] _ _ _ ?_
  intro b hw
  have : b = bytes := by
    simp only [Enc.write, capturedGuard] at hw
    split at hw
    · cases hw
    · simp only [Bind.bind, Except.bind, Pure.pure, Except.pure, Except.ok.injEq] at hw
      exact hw.symm
  subst this
  exact rtf_of_rt m _ _ _ _ (rt_captureOne m b f t hp N hN)

/-! ### values wrapped in an OCTET STRING (`WrappingOctetStringEncoder` / `OctetString::decode`) -/

/-- `encode::Values::…` wrapped in an OCTET STRING writes a primitive OCTET STRING whose content is the
    inner encoding -/
theorem primLike_wrapped (m : Mode) (hm : m ≠ .cer) (own : Mode) (inner : Enc) (hi : C06.IntsOK inner = true)
    (ib : Bytes) (hw : inner.write own = .ok ib) :
    PrimLike m (.wrapped own inner) 0 4 ib := by
  intro bytes h
  rw [C06.write_wrapped m hm own inner hi, hw] at h
  simp only [Bind.bind, Except.bind, C06.tlvR] at h
  have e4 : Tag.OCTET_STRING = C12.tagOf 0 4 := by decide
  by_cases hl : ib.length < 2 ^ 32
  · rw [if_pos hl, e4, tagOf_write 0 4 (by omega) (by omega)] at h
    cases h
    exact ⟨hl, by simp [hdrOctets]⟩
  · rw [if_neg hl] at h; cases h

/-- **wrapped values round-trip**: the outer read returns the OCTET STRING holding exactly the inner
    encoding, and decoding that content (what `OctetString::decode` does: the octet string as a source,
    C07b) with the inner decoder returns the inner value with nothing left -/
theorem wrapped_roundtrip (m own : Mode) (hm : m ≠ .cer) (T : List (Nat × Nat)) {β : Type} (inner : Enc)
    (hi : C06.IntsOK inner = true) (dec : Cons → Prog (β × Cons)) (v : β) (h : CodecF own T inner dec v)
    (ib : Bytes) (hw : inner.write own = .ok ib) (fuel : Nat) :
    CodecF m [] (.wrapped own inner) (fun c => takeValueIf c (C12.tagOf 0 4) (OS.fromContent fuel)) (.prim ib) ∧
    runG0 (decodeTop own dec) (St ib none) = .ok (v, St [] none) :=
  ⟨CodecF.valueOf _ 0 4 ⟨by omega, by omega, by omega⟩ ib (primLike_wrapped m hm own inner hi ib hw) _ _
      (leaf_octets' m fuel ib (fun h => absurd h hm)),
   topF_roundtrip own T inner dec v h ib hw⟩

/-- non-vacuity: a captured SEQUENCE { NULL } inside a SEQUENCE, DER -/
def sampleC : Enc := .cons (C12.tagOf 0 16) (.seq .tuple [.captured [0x30, 0x02, 0x05, 0x00] .der])

example : sampleC.write .der = .ok [0x30, 0x04, 0x30, 0x02, 0x05, 0x00] := by rfl

theorem sampleC_roundtrip (bytes : Bytes) (hw : sampleC.write .der = .ok bytes) :
    runG0 (decodeTop .der (consD (C12.tagOf 0 16) (seqD (fun c => captureOne c 4) nilD))) (St bytes none) =
      .ok (([0x30, 0x02, 0x05, 0x00], ()), St [] none) := by
  have t1 : TagOK 0 16 := ⟨by omega, by omega, by omega⟩
  have c1 : CodecF .der [] (.seq .tuple [.captured [0x30, 0x02, 0x05, 0x00] .der])
      (seqD (fun c => captureOne c 4) nilD) ([0x30, 0x02, 0x05, 0x00], ()) :=
    CodecF.seqCons .tuple [] [] [] _ [] _ _ _ _
      (codecF_captured .der .der [0x30, 0x02, 0x05, 0x00] 3
        (.cons ⟨0, true, 16⟩ false [.prim ⟨0, false, 5⟩ []]) (by rfl) 4 (by decide))
      (CodecF.ofCodec _ _ _ (Codec.seqNil .tuple)) (by simp)
      (by intro b2 hw; simp only [Enc.write, Enc.writeList] at hw; cases hw; exact .inl ⟨rfl, by simp⟩)
  exact topF_roundtrip .der [] sampleC _ _ (CodecF.cons 0 16 t1 [] (by simp) _ rfl _ _ c1) bytes hw

end Bcder.Props.C04c
