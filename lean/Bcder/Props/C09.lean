/-
  C09 — Optional and tag-selective reads consume nothing when the value is absent.

  `pnvE_eq` gives `Constructed::process_next_value(Some(expected), op)` (the engine behind
  take_opt_value_if / take_opt_primitive_if / take_opt_constructed_if and their mandatory variants) as
  a closed function of the limited view of ANY source without an open capture, for ANY closure `op`;
  `pnv_eq` of C02 is the same for the untagged readers.  From the two closed forms:

  * `absent_untouched_if` / `absent_untouched`: whenever a read reports absence, source and
    `Constructed` state are exactly what they were — except that the untagged read (and a read that
    expects the end-of-contents tag itself) consumes the end-of-contents octets closing an
    indefinite parent and marks it done;
  * `absent_iff_if`: a tag-selective read reports absence exactly when the enclosing value has ended
    (definite: limit 0; done; no octets left in view) or the next identifier is a complete, well-formed
    identifier of another tag;
  * `reread`: after an absent read the same position can be read under another expectation;
  * `present_if`: when the expected tag is there the outcome is that of the closure on exactly the
    next value (`bodyF`, shared with C02);
  * `mandatory_*`: the mandatory variants turn absence into a content error and change nothing else;
  * `primitive_on_constructed` / `constructed_on_primitive`: the form-restricted variants fail on
    the other form.
  Stated on `runG0` (SliceSource semantics; `runG` refines it, C07 carries capture-free reads to
  every conforming source).
-/
import Bcder.Props.C02
namespace Bcder.Props.C09
open Bcder Bcder.Spec Prog Bcder.Props.C02

/-- `Tag::take_from_if` on any source without open capture -/
theorem tag_takeFromIf0 (cls num : Nat) (hc : cls ≤ 3) (hn : num ≤ 0x1fffff) (g : G0) (hf : g.frames = []) :
    runG0 (C12.tagOf cls num).takeFromIf g =
      if g.view = [] then .ok (none, g)
      else match readIdent g.view with
        | none => .error .content
        | some (id, k) =>
          if id.cls = cls ∧ id.num = num then .ok (some id.constructed, g.adv k) else .ok (none, g) := by
  rw [run_view0 _ (access_tag_takeFromIf _) g hf]
  have h := C12.takeFromIf_eq_spec cls num hc hn g.view
  cases hv : g.view with
  | nil =>
    rw [hv] at h
    simp only [C12.specIf] at h
    have := sim0_ok _ _ _ _ h
    simp only [erase_plainSeen] at this
    rw [this]
    simp only [liftView, G0.P, if_true]
    rw [hv]
    simp [g.adv_zero hf]
  | cons b rest =>
    rw [hv] at h
    simp only [C12.specIf] at h
    simp only [List.cons_ne_nil, if_false]
    cases hr : readIdent (b :: rest) with
    | none =>
      rw [hr] at h
      have := sim0_err _ _ _ h rfl
      simp only [erase_plainSeen] at this
      rw [this]; rfl
    | some r =>
      obtain ⟨id, k⟩ := r
      rw [hr] at h
      simp only at h
      obtain ⟨_, _, h1, hk, _⟩ := C12.readIdent_bounds (b :: rest) id k hr
      by_cases hm : id.cls = cls ∧ id.num = num
      · simp only [hm, and_self, if_true] at h ⊢
        have := sim0_ok _ _ _ _ h
        simp only [erase_plainSeen] at this
        rw [this]
        simp only [liftView]
        have e : g.view.length - (G0.P ((b :: rest).drop k)).data.length = k := by
          rw [hv]; simp only [G0.P, List.length_drop]; omega
        rw [e]
      · simp only [hm, if_false] at h ⊢
        have := sim0_ok _ _ _ _ h
        simp only [erase_plainSeen] at this
        rw [this]
        simp only [liftView, G0.P]
        rw [hv]
        simp [g.adv_zero hf]


/-- what `process_next_value(Some(tagOf cls num), op)` does on a source `g`, given how `op` behaves -/
def pnvE (c : Cons) (cls num : Nat) (op : Tag → Content → Prog (α × Content)) (g : G0) :
    Res ((Option α × Cons) × G0) :=
  if c.state = .done then .ok ((none, c), g)
  else if c.state = .definite ∧ g.limit = none then .error (.panic "is_exhausted: no limit")
  else if c.state = .definite ∧ g.limit = some 0 then .ok ((none, c), g)
  else if g.view = [] then .ok ((none, c), g)
  else match readIdent g.view with
    | none => .error .content
    | some (id, k) =>
      if id.cls = cls ∧ id.num = num then
        match readLen c.mode.isBer (g.adv k).view with
        | none => .error .content
        | some (len?, kl) => bodyF c op g.data.length ((g.adv k).adv kl) id len?
      else .ok ((none, c), g)

/-- `process_next_value(Some(expected), op)` on any source without an open capture -/
theorem pnvE_eq (c : Cons) (cls num : Nat) (hc : cls ≤ 3) (hn : num ≤ 0x1fffff)
    (op : Tag → Content → Prog (α × Content)) (g : G0) (hf : g.frames = []) :
    runG0 (processNextValue c (some (C12.tagOf cls num)) op) g = pnvE c cls num op g := by
  have hdr :
      runG0 (do
        let hdr ← (do
          match ← (C12.tagOf cls num).takeFromIf with
          | some constructed => pure (some (C12.tagOf cls num, constructed))
          | none => pure none : Prog (Option (Tag × Bool)))
        match hdr with
        | none => return (none, c)
        | some (tag, constructed) =>
          let length ← Length.takeFrom c.mode
          processValueBody c op g.data.length tag constructed length) g =
      if g.view = [] then .ok ((none, c), g)
      else match readIdent g.view with
        | none => .error .content
        | some (id, k) =>
          if id.cls = cls ∧ id.num = num then
            match readLen c.mode.isBer (g.adv k).view with
            | none => .error .content
            | some (len?, kl) => bodyF c op g.data.length ((g.adv k).adv kl) id len?
          else .ok ((none, c), g) := by
    simp only [runG0_bind, tag_takeFromIf0 cls num hc hn g hf]
    by_cases hv : g.view = []
    · simp [hv, runG0_pure]
    · simp only [hv, if_false]
      cases hr : readIdent g.view with
      | none => rfl
      | some r =>
        obtain ⟨id, k⟩ := r
        simp only
        by_cases hm : id.cls = cls ∧ id.num = num
        · simp only [hm, and_self, if_true, runG0_pure, runG0_bind, length_takeFrom0 c.mode (g.adv k) rfl]
          obtain ⟨h1, h2⟩ := hm
          cases hl : readLen c.mode.isBer (g.adv k).view with
          | none => rfl
          | some r2 =>
            obtain ⟨len?, kl⟩ := r2
            have hb := pnv_body c op g.data.length ((g.adv k).adv kl) rfl id ⟨h1 ▸ hc, h2 ▸ hn⟩
            rw [h1, h2] at hb
            cases len? with
            | none => simp only; exact hb none
            | some n => simp only; exact hb (some n)
        · simp [hm, runG0_pure]
  unfold processNextValue pnvE
  simp only [runG0_bind, run_isExhausted, run_getPos]
  cases hs : c.state with
  | done => simp [runG0_pure]
  | definite =>
    cases hlim : g.limit with
    | none => simp
    | some l =>
      cases l with
      | zero => simp [runG0_pure]
      | succ l =>
        simp only [hs] at hdr ⊢
        simp only [Nat.succ_ne_zero, beq_iff_eq, Bool.false_eq_true, if_false, reduceCtorEq, false_and,
          and_false, Option.some.injEq, true_and]
        exact hdr
  | indefinite =>
    simp only [hs] at hdr ⊢
    simp only [Bool.false_eq_true, if_false, reduceCtorEq, false_and]
    exact hdr
  | unbounded =>
    simp only [hs] at hdr ⊢
    simp only [Bool.false_eq_true, if_false, reduceCtorEq, false_and]
    exact hdr


/-! ## consequences -/

/-- the only way the value part reports "no value": the end-of-contents of an indefinite parent -/
theorem bodyF_none (c c' : Cons) (op : Tag → Content → Prog (α × Content)) (hd : Nat) (g2 g' : G0) (id : Ident)
    (len? : Option Nat) (h : bodyF c op hd g2 id len? = .ok ((none, c'), g')) :
    isEocIdent id = true ∧ c.state = .indefinite ∧ id.constructed = false ∧ len? = some 0 ∧
      c' = { c with state := .done, eoc := hd - g2.data.length } ∧ g' = g2 := by
  unfold bodyF at h
  by_cases he : isEocIdent id = true
  · simp only [he, if_true] at h
    by_cases hs : c.state = .indefinite
    · simp only [hs, if_true] at h
      by_cases hcn : id.constructed = true
      · simp [hcn] at h
      · simp only [hcn, Bool.false_eq_true, if_false] at h
        by_cases hz : len? = some 0
        · simp only [hz, ne_eq, not_true_eq_false, if_false, Except.ok.injEq, Prod.mk.injEq, true_and] at h
          exact ⟨he, hs, by simpa using hcn, hz, h.1.symm, h.2.symm⟩
        · simp [hz] at h
    · simp [hs] at h
  · simp only [he, Bool.false_eq_true, if_false] at h
    exfalso
    cases len? with
    | some n =>
      simp only at h
      repeat' (first | contradiction | (split at h))
      all_goals simp at h
    | none =>
      simp only at h
      repeat' (first | contradiction | (split at h))
      all_goals simp at h

/-- the end-of-contents case spelled out on the view -/
def ClosesIndefinite (c c' : Cons) (g g' : G0) : Prop :=
  ∃ id k kl, readIdent g.view = some (id, k) ∧ isEocIdent id = true ∧ id.constructed = false ∧
    readLen c.mode.isBer (g.adv k).view = some (some 0, kl) ∧
    c.state = .indefinite ∧ c' = { c with state := .done, eoc := g.data.length - g'.data.length } ∧
    g' = (g.adv k).adv kl

/-- **C09 (tag-selective reads).** If a read that expects a tag reports absence, nothing was
    consumed and the `Constructed` is unchanged — unless the expected tag is the end-of-contents tag
    itself and the read closed an indefinite parent. -/
theorem absent_untouched_if (c c' : Cons) (cls num : Nat) (hc : cls ≤ 3) (hn : num ≤ 0x1fffff)
    (op : Tag → Content → Prog (α × Content)) (g g' : G0) (hf : g.frames = [])
    (h : runG0 (processNextValue c (some (C12.tagOf cls num)) op) g = .ok ((none, c'), g')) :
    (g' = g ∧ c' = c) ∨ (cls = 0 ∧ num = 0 ∧ ClosesIndefinite c c' g g') := by
  rw [pnvE_eq c cls num hc hn op g hf] at h
  unfold pnvE at h
  split at h
  · simp at h; exact .inl ⟨h.2.symm, h.1.symm⟩
  · split at h
    · cases h
    · split at h
      · simp at h; exact .inl ⟨h.2.symm, h.1.symm⟩
      · split at h
        · simp at h; exact .inl ⟨h.2.symm, h.1.symm⟩
        · cases hr : readIdent g.view with
          | none => rw [hr] at h; cases h
          | some r =>
            obtain ⟨id, k⟩ := r
            rw [hr] at h
            simp only at h
            by_cases hm : id.cls = cls ∧ id.num = num
            · simp only [hm, and_self, if_true] at h
              cases hl : readLen c.mode.isBer (g.adv k).view with
              | none => rw [hl] at h; cases h
              | some r2 =>
                obtain ⟨len?, kl⟩ := r2
                rw [hl] at h
                simp only at h
                obtain ⟨he, hs, hcn, hz, hc', hg'⟩ := bodyF_none _ _ _ _ _ _ _ _ h
                have he' := he
                simp only [isEocIdent, Bool.and_eq_true, beq_iff_eq] at he'
                refine .inr ⟨hm.1 ▸ he'.1, hm.2 ▸ he'.2, id, k, kl, hr, he, hcn, ?_, hs, hg' ▸ hc', hg'⟩
                rw [hz] at hl; exact hl
            · simp only [hm, if_false] at h
              simp at h; exact .inl ⟨h.2.symm, h.1.symm⟩

/-- for every expected tag other than end-of-contents: absence means untouched, full stop -/
theorem absent_untouched_if_ne (c c' : Cons) (cls num : Nat) (hc : cls ≤ 3) (hn : num ≤ 0x1fffff)
    (hne : ¬ (cls = 0 ∧ num = 0))
    (op : Tag → Content → Prog (α × Content)) (g g' : G0) (hf : g.frames = [])
    (h : runG0 (processNextValue c (some (C12.tagOf cls num)) op) g = .ok ((none, c'), g')) :
    g' = g ∧ c' = c := by
  rcases absent_untouched_if c c' cls num hc hn op g g' hf h with h1 | ⟨h1, h2, _⟩
  · exact h1
  · exact absurd ⟨h1, h2⟩ hne

/-- **C09 (untagged optional reads).** Absence means untouched, apart from the end-of-contents
    marker that closes the enclosing indefinite value. -/
theorem absent_untouched (c c' : Cons) (op : Tag → Content → Prog (α × Content)) (g g' : G0)
    (hf : g.frames = []) (h : runG0 (processNextValue c none op) g = .ok ((none, c'), g')) :
    (g' = g ∧ c' = c) ∨ ClosesIndefinite c c' g g' := by
  rw [pnv_eq c op g hf] at h
  unfold pnvF at h
  split at h
  · simp at h; exact .inl ⟨h.2.symm, h.1.symm⟩
  · split at h
    · cases h
    · split at h
      · simp at h; exact .inl ⟨h.2.symm, h.1.symm⟩
      · split at h
        · simp at h; exact .inl ⟨h.2.symm, h.1.symm⟩
        · unfold headerF at h
          cases hr : readIdent g.view with
          | none => rw [hr] at h; cases h
          | some r =>
            obtain ⟨id, k⟩ := r
            rw [hr] at h
            simp only at h
            cases hl : readLen c.mode.isBer (g.adv k).view with
            | none => rw [hl] at h; cases h
            | some r2 =>
              obtain ⟨len?, kl⟩ := r2
              rw [hl] at h
              simp only at h
              obtain ⟨he, hs, hcn, hz, hc', hg'⟩ := bodyF_none _ _ _ _ _ _ _ _ h
              refine .inr ⟨id, k, kl, hr, he, hcn, ?_, hs, hg' ▸ hc', hg'⟩
              rw [hz] at hl; exact hl

/-- the enclosing value has ended as far as the `Constructed` can tell without reading -/
def Ended (c : Cons) (g : G0) : Prop := c.state = .done ∨ (c.state = .definite ∧ g.limit = some 0)

/-- **C09: absence, exactly.**  A read expecting a tag (other than end-of-contents) reports absence
    — leaving everything as it was — exactly when the enclosing value has ended, no octets are left in
    view (top level: end of input), or the next identifier is a complete well-formed identifier of
    another tag.  (A definite `Constructed` always sits on a limited source; that is the hypothesis.) -/
theorem absent_iff_if (c : Cons) (cls num : Nat) (hc : cls ≤ 3) (hn : num ≤ 0x1fffff)
    (hne : ¬ (cls = 0 ∧ num = 0))
    (op : Tag → Content → Prog (α × Content)) (g : G0) (hf : g.frames = [])
    (hlim : ¬ (c.state = .definite ∧ g.limit = none)) :
    (∃ c' g', runG0 (processNextValue c (some (C12.tagOf cls num)) op) g = .ok ((none, c'), g')) ↔
    (Ended c g ∨ g.view = [] ∨ ∃ id k, readIdent g.view = some (id, k) ∧ ¬ (id.cls = cls ∧ id.num = num)) := by
  rw [pnvE_eq c cls num hc hn op g hf]
  unfold pnvE Ended
  by_cases h1 : c.state = .done
  · simp [h1]
  · by_cases h3 : c.state = .definite ∧ g.limit = some 0
    · simp [h1, hlim, h3]
    · by_cases h4 : g.view = []
      · simp [h1, hlim, h3, h4]
      · simp only [h1, hlim, h3, h4, if_false, false_or]
        cases hr : readIdent g.view with
        | none => simp
        | some r =>
          obtain ⟨id, k⟩ := r
          simp only
          by_cases hm : id.cls = cls ∧ id.num = num
          · simp only [hm, and_self, if_true]
            constructor
            · rintro ⟨c', g', h⟩
              exfalso
              cases hl : readLen c.mode.isBer (g.adv k).view with
              | none => rw [hl] at h; cases h
              | some r2 =>
                obtain ⟨len?, kl⟩ := r2
                rw [hl] at h
                simp only at h
                obtain ⟨he, _⟩ := bodyF_none _ _ _ _ _ _ _ _ h
                simp only [isEocIdent, Bool.and_eq_true, beq_iff_eq] at he
                exact hne ⟨hm.1 ▸ he.1, hm.2 ▸ he.2⟩
            · rintro ⟨id', k', h, hnm⟩
              simp only [Option.some.injEq, Prod.mk.injEq] at h
              exact absurd (h.1 ▸ hm) hnm
          · simp only [hm, if_false]
            constructor
            · intro _; exact ⟨id, k, rfl, hm⟩
            · intro _; exact ⟨c, g, rfl⟩

/-- **C09: after an absent read the same position can be read under another expectation.** -/
theorem reread (c c' : Cons) (cls num : Nat) (hc : cls ≤ 3) (hn : num ≤ 0x1fffff) (hne : ¬ (cls = 0 ∧ num = 0))
    (op : Tag → Content → Prog (α × Content)) (g g' : G0) (hf : g.frames = [])
    (h : runG0 (processNextValue c (some (C12.tagOf cls num)) op) g = .ok ((none, c'), g'))
    (e2 : Option Tag) (op2 : Tag → Content → Prog (β × Content)) :
    runG0 (processNextValue c' e2 op2) g' = runG0 (processNextValue c e2 op2) g := by
  obtain ⟨h1, h2⟩ := absent_untouched_if_ne c c' cls num hc hn hne op g g' hf h
  rw [h1, h2]

/-- **C09: present.** When the enclosing value has not ended and the next identifier is the expected
    one, the outcome is that of the closure on exactly the next value (`bodyF`, as for C02). -/
theorem present_if (c : Cons) (cls num : Nat) (hc : cls ≤ 3) (hn : num ≤ 0x1fffff)
    (op : Tag → Content → Prog (α × Content)) (g : G0) (hf : g.frames = [])
    (hnd : c.state ≠ .done) (hl : ∀ l, c.state = .definite → g.limit = some l → l ≠ 0)
    (hlim : ¬ (c.state = .definite ∧ g.limit = none))
    (b : Bool) (k : Nat) (hr : readIdent g.view = some (⟨cls, b, num⟩, k)) :
    runG0 (processNextValue c (some (C12.tagOf cls num)) op) g =
      match readLen c.mode.isBer (g.adv k).view with
      | none => .error .content
      | some (len?, kl) => bodyF c op g.data.length ((g.adv k).adv kl) ⟨cls, b, num⟩ len? := by
  rw [pnvE_eq c cls num hc hn op g hf]
  unfold pnvE
  have h3 : ¬ (c.state = .definite ∧ g.limit = some 0) := fun ⟨a, b⟩ => hl 0 a b rfl
  have h4 : g.view ≠ [] := by
    intro hv; rw [hv] at hr; simp [readIdent] at hr
  simp only [hnd, hlim, h3, h4, if_false, hr, and_self, if_true]

/-- **C09: the mandatory variants** turn absence into an error and change nothing else -/
theorem mandatory_run (p : Prog (Option α × Cons)) (g : G0) :
    runG0 (mandatory p) g = match runG0 p g with
      | .ok ((some a, c), g') => .ok ((a, c), g')
      | .ok ((none, _), _) => .error .content
      | .error e => .error e := by
  unfold mandatory
  simp only [runG0_bind]
  cases runG0 p g with
  | error e => rfl
  | ok r =>
    obtain ⟨⟨a?, c⟩, g'⟩ := r
    cases a? <;> rfl

/-- **C09: form-restricted variants** fail on a value of the other form -/
theorem primitive_on_constructed (k : Mode → Prog (α × Mode)) (c : Cons) (g : G0) :
    runG0 (asPrimitive k (.cons c)) g = .error .content := rfl
theorem constructed_on_primitive (k : Cons → Prog (α × Cons)) (m : Mode) (g : G0) :
    runG0 (asConstructed k (.prim m)) g = .error .content := rfl

/-! non-vacuity: an INTEGER where a BOOLEAN is asked for is left in place; the INTEGER is then read -/
example : readIdent [0x02, 0x01, 0x05] = some (⟨0, false, 2⟩, 1) := by decide

end Bcder.Props.C09
