/-
  C16 — An octet string's content is the concatenation of its primitive segments. (header: see end of work)
-/
import Bcder.Model.Octet
import Bcder.Model.Encode
import Bcder.Spec.Tlv
import Bcder.Lemmas.Header
import Bcder.Props.C02
import Bcder.Props.C17
namespace Bcder.Props.C16
open Bcder Bcder.Spec Prog
open Bcder.Props.C02 (St run_getLimit run_need run_takeAll run_limitedExhausted)

theorem unwrapOn_tag (bs : Bytes) :
    OS.unwrapOn Tag.takeFrom bs =
      match readIdent bs with
      | none => .error (.panic "unwrap on Err")
      | some (id, k) => .ok ((C12.tagOf id.cls id.num, id.constructed), bs.drop k) := by
  unfold OS.unwrapOn
  have h := C12.takeFrom_eq_spec bs
  have e : ({ data := bs, limit := none } : G) = G.plain bs := rfl
  rw [e, h]
  cases readIdent bs with
  | none => rfl
  | some r => obtain ⟨id, k⟩ := r; rfl

theorem unwrapOn_len (bs : Bytes) :
    OS.unwrapOn (Length.takeFrom .ber) bs =
      match readLen true bs with
      | none => .error (.panic "unwrap on Err")
      | some (some n, k) => .ok (.definite n, bs.drop k)
      | some (none, k) => .ok (.indefinite, bs.drop k) := by
  unfold OS.unwrapOn
  have h := C13.read_eq_spec .ber bs
  have e : ({ data := bs, limit := none } : G) = G.plain bs := rfl
  have e2 : Mode.ber.isBer = true := rfl
  rw [e, h, e2]
  cases readLen true bs with
  | none => rfl
  | some r =>
    obtain ⟨x, k⟩ := r
    cases x <;> rfl

theorem tagOf_os : C12.tagOf 0 4 = Tag.OCTET_STRING := by rfl
theorem tagOf_eoc : C12.tagOf 0 0 = Tag.END_OF_VALUE := by rfl
theorem eoc_ne_os : ¬ Tag.END_OF_VALUE = Tag.OCTET_STRING := by decide

/-- the result of one round of `OctetStringIter::next` once the header at the front is known -/
def stepF (fuel : Nat) (bs : Bytes) (id : Ident) (k : Nat) (len? : Option Nat) (kl : Nat) :
    Res (Option (Bytes × Bytes)) :=
  if id.cls = 0 ∧ id.num = 4 then
    if id.constructed then OS.iterNextCons fuel (bs.drop (k + kl))
    else match len? with
      | some n =>
        if n > (bs.drop (k + kl)).length then .error (.panic "split_to out of range")
        else .ok (some ((bs.drop (k + kl)).take n, bs.drop (k + kl + n)))
      | none => .error (.panic "unreachable")
  else if id.cls = 0 ∧ id.num = 0 then OS.iterNextCons fuel (bs.drop (k + kl))
  else .error (.panic "unreachable")

theorem iter_step (fuel : Nat) (bs : Bytes) (id : Ident) (k : Nat) (len? : Option Nat) (kl : Nat)
    (hi : readIdent bs = some (id, k)) (hl : readLen true (bs.drop k) = some (len?, kl)) :
    OS.iterNextCons (fuel + 1) bs = stepF fuel bs id k len? kl := by
  obtain ⟨hc, hn, hk1, hk, _⟩ := C12.readIdent_bounds bs id k hi
  have hne : bs.isEmpty = false := by cases bs <;> simp_all
  have hos : C12.tagOf id.cls id.num = Tag.OCTET_STRING ↔ (id.cls = 0 ∧ id.num = 4) := by
    rw [← tagOf_os]
    constructor
    · exact C12.tagOf_inj _ _ _ _ hc (by omega) hn (by omega)
    · rintro ⟨h1, h2⟩; rw [h1, h2]
  have heoc : C12.tagOf id.cls id.num = Tag.END_OF_VALUE ↔ (id.cls = 0 ∧ id.num = 0) := by
    rw [← tagOf_eoc]
    constructor
    · exact C12.tagOf_inj _ _ _ _ hc (by omega) hn (by omega)
    · rintro ⟨h1, h2⟩; rw [h1, h2]
  unfold stepF
  cases len? with
  | none =>
    simp only [OS.iterNextCons, hne, Bool.false_eq_true, if_false, unwrapOn_tag, hi, Bind.bind, Except.bind,
      unwrapOn_len, hl, hos, heoc, List.drop_drop]
  | some n =>
    simp only [OS.iterNextCons, hne, Bool.false_eq_true, if_false, unwrapOn_tag, hi, Bind.bind, Except.bind,
      unwrapOn_len, hl, hos, heoc, List.drop_drop]

/-- the flat item structure the iterator walks over -/
inductive Items : Bytes → List Bytes → Prop
  | nil : Items [] []
  | hdr (bs : Bytes) (id : Ident) (k : Nat) (len? : Option Nat) (kl : Nat) (segs : List Bytes) :
      readIdent bs = some (id, k) → id.cls = 0 → id.num = 4 → id.constructed = true →
      readLen true (bs.drop k) = some (len?, kl) → Items (bs.drop (k + kl)) segs → Items bs segs
  | eoc (bs : Bytes) (id : Ident) (k : Nat) (len? : Option Nat) (kl : Nat) (segs : List Bytes) :
      readIdent bs = some (id, k) → id.cls = 0 → id.num = 0 →
      readLen true (bs.drop k) = some (len?, kl) → Items (bs.drop (k + kl)) segs → Items bs segs
  | seg (bs : Bytes) (id : Ident) (k : Nat) (n : Nat) (kl : Nat) (segs : List Bytes) :
      readIdent bs = some (id, k) → id.cls = 0 → id.num = 4 → id.constructed = false →
      readLen true (bs.drop k) = some (some n, kl) → n ≤ (bs.drop (k + kl)).length →
      Items (bs.drop (k + kl + n)) segs → Items bs ((bs.drop (k + kl)).take n :: segs)

theorem hdr_len (bs : Bytes) (id : Ident) (k : Nat) (len? : Option Nat) (kl : Nat)
    (hi : readIdent bs = some (id, k)) (hl : readLen true (bs.drop k) = some (len?, kl)) :
    1 ≤ k ∧ 1 ≤ kl ∧ k + kl ≤ bs.length := by
  obtain ⟨_, _, hk1, hk, _⟩ := C12.readIdent_bounds bs id k hi
  obtain ⟨h1, h2⟩ := readLen_bound _ _ _ _ hl
  simp only [List.length_drop] at h2
  omega

/-- what `next` returns on an item sequence -/
def NextOn (fuel : Nat) (bs : Bytes) : List Bytes → Prop
  | [] => OS.iterNextCons fuel bs = .ok none
  | s :: ss => ∃ rest, OS.iterNextCons fuel bs = .ok (some (s, rest)) ∧ Items rest ss ∧ rest.length + 2 ≤ bs.length

theorem iterNext_items (bs : Bytes) (segs : List Bytes) (h : Items bs segs) :
    ∀ fuel, bs.length < fuel → NextOn fuel bs segs := by
  induction h with
  | nil =>
    intro fuel hf
    cases fuel with
    | zero => omega
    | succ fuel => simp [NextOn, OS.iterNextCons]
  | hdr bs id k len? kl segs hi h0 h4 hc hl _ ih =>
    intro fuel hf
    obtain ⟨a1, a2, a3⟩ := hdr_len bs id k len? kl hi hl
    cases fuel with
    | zero => omega
    | succ fuel =>
      have hstep := iter_step fuel bs id k len? kl hi hl
      have e : stepF fuel bs id k len? kl = OS.iterNextCons fuel (bs.drop (k + kl)) := by
        simp [stepF, h0, h4, hc]
      have := ih fuel (by simp only [List.length_drop]; omega)
      cases segs with
      | nil => simp only [NextOn] at this ⊢; rw [hstep, e, this]
      | cons s ss =>
        simp only [NextOn] at this ⊢
        obtain ⟨rest, r1, r2, r3⟩ := this
        refine ⟨rest, by rw [hstep, e, r1], r2, ?_⟩
        simp only [List.length_drop] at r3; omega
  | eoc bs id k len? kl segs hi h0 h4 hl _ ih =>
    intro fuel hf
    obtain ⟨a1, a2, a3⟩ := hdr_len bs id k len? kl hi hl
    cases fuel with
    | zero => omega
    | succ fuel =>
      have hstep := iter_step fuel bs id k len? kl hi hl
      have e : stepF fuel bs id k len? kl = OS.iterNextCons fuel (bs.drop (k + kl)) := by
        simp [stepF, h0, h4]
      have := ih fuel (by simp only [List.length_drop]; omega)
      cases segs with
      | nil => simp only [NextOn] at this ⊢; rw [hstep, e, this]
      | cons s ss =>
        simp only [NextOn] at this ⊢
        obtain ⟨rest, r1, r2, r3⟩ := this
        refine ⟨rest, by rw [hstep, e, r1], r2, ?_⟩
        simp only [List.length_drop] at r3; omega
  | seg bs id k n kl segs hi h0 h4 hc hl hn hrest _ =>
    intro fuel hf
    obtain ⟨a1, a2, a3⟩ := hdr_len bs id k (some n) kl hi hl
    cases fuel with
    | zero => omega
    | succ fuel =>
      have hstep := iter_step fuel bs id k (some n) kl hi hl
      have hn' : ¬ n > (bs.drop (k + kl)).length := by omega
      have e : stepF fuel bs id k (some n) kl =
          .ok (some ((bs.drop (k + kl)).take n, bs.drop (k + kl + n))) := by
        simp only [stepF, h0, h4, hc, and_self, if_true, Bool.false_eq_true, if_false, hn']
      simp only [NextOn]
      refine ⟨_, by rw [hstep, e], hrest, ?_⟩
      simp only [List.length_drop]; omega


theorem segmentsCons_items : ∀ (fuel : Nat) (bs : Bytes) (segs : List Bytes), Items bs segs →
    bs.length < fuel → OS.segmentsCons fuel bs = .ok segs := by
  intro fuel
  induction fuel with
  | zero => intro bs segs _ hf; omega
  | succ fuel ih =>
    intro bs segs h hf
    have hn := iterNext_items bs segs h (bs.length + 2) (by omega)
    cases segs with
    | nil =>
      simp only [NextOn] at hn
      simp only [OS.segmentsCons, hn, Bind.bind, Except.bind, pure, Except.pure]
    | cons s ss =>
      simp only [NextOn] at hn
      obtain ⟨rest, r1, r2, r3⟩ := hn
      have := ih rest ss r2 (by omega)
      simp only [OS.segmentsCons, r1, Bind.bind, Except.bind, this, pure, Except.pure]

theorem any_nonempty (segs : List Bytes) :
    (!segs.any (fun x => !x.isEmpty)) = segs.flatten.isEmpty := by
  induction segs with
  | nil => rfl
  | cons s ss ih => cases s <;> simp_all

/-- every view of a constructed value whose captured content is an item sequence -/
theorem views_items (c : Bytes) (segs : List Bytes) (h : Items c segs) :
    OS.segments (.cons c) = .ok segs ∧
    OS.octets (.cons c) = .ok segs.flatten ∧
    OS.len (.cons c) = .ok segs.flatten.length ∧
    OS.isEmpty (.cons c) = .ok segs.flatten.isEmpty ∧
    OS.asSlice (.cons c) = none := by
  have hs : OS.segments (.cons c) = .ok segs := segmentsCons_items _ c segs h (by omega)
  have ho : OS.octets (.cons c) = .ok segs.flatten := by
    simp only [OS.octets, hs, Bind.bind, Except.bind, pure, Except.pure]
  refine ⟨hs, ho, C17.len_content _ _ ho, ?_, rfl⟩
  simp only [OS.isEmpty, hs, Bind.bind, Except.bind, pure, Except.pure]
  rw [any_nonempty]
theorem readIdent_append' (a b : Bytes) (h : readIdent a ≠ none) :
    readIdent (a ++ b) = readIdent a := by
  match a, h with
  | [], h => simp [readIdent] at h
  | [b0], h =>
    by_cases h0 : b0.toNat % 32 = 31
    · simp [readIdent, h0] at h
    · simp [readIdent, h0]
  | [b0, d1], h =>
    by_cases h0 : b0.toNat % 32 = 31
    · by_cases h1 : d1.toNat < 128
      · simp [readIdent, h0, h1]
      · by_cases h2 : d1.toNat = 128
        · simp [readIdent, h0, h2] at h
        · simp [readIdent, h0, h1, h2] at h
    · simp [readIdent, h0]
  | [b0, d1, d2], h =>
    by_cases h0 : b0.toNat % 32 = 31
    · by_cases h1 : d1.toNat < 128
      · simp [readIdent, h0, h1]
      · by_cases h2 : d1.toNat = 128
        · simp [readIdent, h0, h2] at h
        · by_cases h3 : d2.toNat < 128
          · simp [readIdent, h0, h1, h2, h3]
          · simp [readIdent, h0, h1, h2, h3] at h
    · simp [readIdent, h0]
  | b0 :: d1 :: d2 :: d3 :: r, h =>
    simp only [List.cons_append, readIdent]

theorem readIdent_append (a b : Bytes) (id : Ident) (k : Nat) (h : readIdent a = some (id, k)) :
    readIdent (a ++ b) = some (id, k) := by
  rw [← h]; exact readIdent_append' a b (by rw [h]; simp)

theorem readLen_append (ber : Bool) (a b : Bytes) (x : Option Nat) (k : Nat)
    (h : readLen ber a = some (x, k)) : readLen ber (a ++ b) = some (x, k) := by
  cases a with
  | nil => simp [readLen] at h
  | cons b0 rest =>
    simp only [readLen] at h
    simp only [List.cons_append, readLen]
    split at h
    · rename_i h0; simp only [h0, if_true]; exact h
    · rename_i h0
      simp only [h0, if_false]
      split at h
      · rename_i h1; simp only [h1, if_true]; exact h
      · rename_i h1
        simp only [h1, if_false]
        split at h
        · simp at h
        · rename_i h2
          simp only [h2, if_false]
          split at h
          · simp at h
          · rename_i h3
            have h3' : ¬ (rest ++ b).length < b0.toNat - 128 := by
              simp only [List.length_append]; omega
            have ht : (rest ++ b).take (b0.toNat - 128) = rest.take (b0.toNat - 128) :=
              List.take_append_of_le_length (by omega)
            simp only [h3', if_false, ht]
            exact h

theorem items_append (a b : Bytes) (sa sb : List Bytes) (ha : Items a sa) (hb : Items b sb) :
    Items (a ++ b) (sa ++ sb) := by
  induction ha with
  | nil => simpa using hb
  | hdr bs id k len? kl segs hi h0 h4 hc hl _ ih =>
    obtain ⟨a1, a2, a3⟩ := hdr_len bs id k len? kl hi hl
    have e1 : (bs ++ b).drop k = bs.drop k ++ b := List.drop_append_of_le_length (by omega)
    have e2 : (bs ++ b).drop (k + kl) = bs.drop (k + kl) ++ b := List.drop_append_of_le_length a3
    refine Items.hdr (bs ++ b) id k len? kl _ (readIdent_append _ _ _ _ hi) h0 h4 hc ?_ ?_
    · rw [e1]; exact readLen_append _ _ _ _ _ hl
    · rw [e2]; exact ih
  | eoc bs id k len? kl segs hi h0 h4 hl _ ih =>
    obtain ⟨a1, a2, a3⟩ := hdr_len bs id k len? kl hi hl
    have e1 : (bs ++ b).drop k = bs.drop k ++ b := List.drop_append_of_le_length (by omega)
    have e2 : (bs ++ b).drop (k + kl) = bs.drop (k + kl) ++ b := List.drop_append_of_le_length a3
    refine Items.eoc (bs ++ b) id k len? kl _ (readIdent_append _ _ _ _ hi) h0 h4 ?_ ?_
    · rw [e1]; exact readLen_append _ _ _ _ _ hl
    · rw [e2]; exact ih
  | seg bs id k n kl segs hi h0 h4 hc hl hn _ ih =>
    obtain ⟨a1, a2, a3⟩ := hdr_len bs id k (some n) kl hi hl
    simp only [List.length_drop] at hn
    have e1 : (bs ++ b).drop k = bs.drop k ++ b := List.drop_append_of_le_length (by omega)
    have e2 : (bs ++ b).drop (k + kl) = bs.drop (k + kl) ++ b := List.drop_append_of_le_length a3
    have e3 : (bs ++ b).drop (k + kl + n) = bs.drop (k + kl + n) ++ b :=
      List.drop_append_of_le_length (by omega)
    have e4 : ((bs ++ b).drop (k + kl)).take n = (bs.drop (k + kl)).take n := by
      rw [e2]; exact List.take_append_of_le_length (by simp only [List.length_drop]; omega)
    have := Items.seg (bs ++ b) id k n kl (segs ++ sb) (readIdent_append _ _ _ _ hi) h0 h4 hc
      (by rw [e1]; exact readLen_append _ _ _ _ _ hl)
      (by rw [e2]; simp only [List.length_append, List.length_drop]; omega)
      (by rw [e3]; exact ih)
    rw [e4] at this
    exact this

/-! ### trees of octet strings -/

/-- the accumulation step of `Spec.osContent` -/
def accStep (g : Tree → Option Bytes) (acc : Option Bytes) (k : Tree) : Option Bytes :=
  match acc, g k with
  | some a, some c => some (a ++ c)
  | _, _ => none

theorem osContent_cons (num fuel : Nat) (id : Ident) (b : Bool) (kids : List Tree) :
    osContent num (fuel + 1) (.cons id b kids) =
      if !(id.cls == 0 && id.num == num) then none
      else kids.foldl (accStep (osContent 4 fuel)) (some []) := rfl

theorem foldl_accStep_none (g : Tree → Option Bytes) (kids : List Tree) :
    kids.foldl (accStep g) none = none := by
  induction kids with
  | nil => rfl
  | cons k ks ih => simpa [List.foldl, accStep] using ih

/-- the fold succeeds exactly when every kid does, and then concatenates -/
theorem foldl_accStep_some (g : Tree → Option Bytes) : ∀ (kids : List Tree) (init r : Bytes),
    kids.foldl (accStep g) (some init) = some r →
      (∀ k ∈ kids, (g k).isSome) ∧ r = init ++ (kids.filterMap g).flatten := by
  intro kids
  induction kids with
  | nil => intro init r h; simp at h; simp [h]
  | cons k ks ih =>
    intro init r h
    simp only [List.foldl] at h
    cases hk : g k with
    | none => simp [accStep, hk, foldl_accStep_none] at h
    | some c =>
      simp only [accStep, hk] at h
      obtain ⟨h1, h2⟩ := ih _ _ h
      refine ⟨?_, ?_⟩
      · intro k' hk'
        simp only [List.mem_cons] at hk'
        rcases hk' with rfl | hk'
        · simp [hk]
        · exact h1 k' hk'
      · simp [h2, hk]

/-- all trees are OCTET STRING values (primitive, or constructed of such, to depth ≤ `g`) -/
def osTrees (g : Nat) (ts : List Tree) : Bool := ts.all fun t => (osContent 4 g t).isSome

theorem osTrees_cons (g : Nat) (t : Tree) (ts : List Tree) :
    osTrees g (t :: ts) = ((osContent 4 g t).isSome && osTrees g ts) := by simp [osTrees]

/-- an accepted constructed tree: universal 4, fuel left, and all kids accepted one level down -/
theorem osContent_cons_some (g : Nat) (id : Ident) (b : Bool) (kids : List Tree)
    (h : (osContent 4 g (.cons id b kids)).isSome) :
    ∃ g', g = g' + 1 ∧ id.cls = 0 ∧ id.num = 4 ∧ osTrees g' kids = true := by
  cases g with
  | zero => simp [osContent] at h
  | succ g' =>
    refine ⟨g', rfl, ?_⟩
    rw [osContent_cons] at h
    by_cases hid : (id.cls == 0 && id.num == 4) = true
    · simp only [hid, Bool.not_true, Bool.false_eq_true, if_false] at h
      cases hf : kids.foldl (accStep (osContent 4 g')) (some []) with
      | none => simp [hf] at h
      | some r =>
        obtain ⟨h1, _⟩ := foldl_accStep_some _ _ _ _ hf
        simp only [Bool.and_eq_true, beq_iff_eq] at hid
        refine ⟨hid.1, hid.2, ?_⟩
        simp only [osTrees, List.all_eq_true]
        exact h1
    · simp [hid] at h

theorem osContent_prim_some (g : Nat) (id : Ident) (c : Bytes)
    (h : (osContent 4 g (.prim id c)).isSome) : id.cls = 0 ∧ id.num = 4 := by
  cases g <;>
  · simp only [osContent] at h
    by_cases hid : (id.cls == 0 && id.num == 4) = true
    · simpa using hid
    · simp [hid] at h


theorem osSegments_prim (g : Nat) (id : Ident) (c : Bytes) : osSegments g (.prim id c) = [c] := by
  cases g <;> rfl

/-- parse results as item sequences, with what follows the parsed part as a continuation -/
def PV (f : Nat) : Prop := ∀ g, f ≤ g → ∀ bs t rest, parseValue .ber f bs = some (t, rest) →
  (osContent 4 g t).isSome → ∀ segs, Items rest segs → Items bs (osSegments g t ++ segs)
def PA (f : Nat) : Prop := ∀ g, f ≤ g → ∀ bs ts, parseAll .ber f bs = some ts →
  osTrees g ts = true → Items bs (ts.flatMap (osSegments g))
def PE (f : Nat) : Prop := ∀ g, f ≤ g → ∀ bs ts rest, parseUntilEoc .ber f bs = some (ts, rest) →
  osTrees g ts = true → ∀ segs, Items rest segs → Items bs (ts.flatMap (osSegments g) ++ segs)

theorem pv_step (f : Nat) (hA : PA f) (hE : PE f) : PV (f + 1) := by
  intro g hg bs t rest h hos segs hrest
  simp only [parseValue] at h
  cases hr : readIdent bs with
  | none => simp [hr] at h
  | some r =>
    obtain ⟨id, k⟩ := r
    simp only [hr] at h
    split at h
    · simp at h
    · have hb : M.ber.isBer = true := rfl
      rw [hb] at h
      cases hl : readLen true (bs.drop k) with
      | none => simp [hl] at h
      | some r2 =>
        obtain ⟨len?, kl⟩ := r2
        simp only [hl] at h
        cases len? with
        | some n =>
          simp only at h
          split at h
          · simp at h
          · rename_i hn
            split at h
            · rename_i hc
              simp only [Option.some.injEq, Prod.mk.injEq] at h
              obtain ⟨rfl, rfl⟩ := h
              obtain ⟨h0, h4⟩ := osContent_prim_some g id _ hos
              rw [osSegments_prim]
              rw [List.drop_drop] at hrest
              have hc' : id.constructed = false := by simpa using hc
              exact Items.seg bs id k n kl segs hr h0 h4 hc' hl (by omega) hrest
            · rename_i hc
              have hc' : id.constructed = true := by simpa using hc
              have hcer : (M.ber == M.cer) = false := rfl
              simp only [hcer, Bool.false_eq_true, if_false] at h
              cases hp : parseAll .ber f ((bs.drop (k + kl)).take n) with
              | none => simp [hp] at h
              | some kids =>
                simp only [hp, Option.some.injEq, Prod.mk.injEq] at h
                obtain ⟨rfl, rfl⟩ := h
                obtain ⟨g', rfl, h0, h4, hk⟩ := osContent_cons_some g id _ kids hos
                have e : osSegments (g' + 1) (.cons id false kids) = kids.flatMap (osSegments g') := rfl
                rw [e]
                have h1 := hA g' (by omega) _ kids hp hk
                have h2 := items_append _ _ _ _ h1 hrest
                rw [List.take_append_drop] at h2
                exact Items.hdr bs id k (some n) kl _ hr h0 h4 hc' hl h2
        | none =>
          simp only at h
          split at h
          · simp at h
          · rename_i hc
            have hc' : id.constructed = true := by
              cases hcc : id.constructed <;> simp [hcc] at hc ⊢
            cases hp : parseUntilEoc .ber f (bs.drop (k + kl)) with
            | none => simp [hp] at h
            | some r3 =>
              obtain ⟨kids, rest'⟩ := r3
              simp only [hp, Option.some.injEq, Prod.mk.injEq] at h
              obtain ⟨rfl, rfl⟩ := h
              obtain ⟨g', rfl, h0, h4, hk⟩ := osContent_cons_some g id _ kids hos
              have e : osSegments (g' + 1) (.cons id true kids) = kids.flatMap (osSegments g') := rfl
              rw [e]
              have h1 := hE g' (by omega) _ kids _ hp hk segs hrest
              exact Items.hdr bs id k none kl _ hr h0 h4 hc' hl h1

theorem pa_step (f : Nat) (hV : PV f) (hA : PA f) : PA (f + 1) := by
  intro g hg bs ts h hos
  simp only [parseAll] at h
  split at h
  · rename_i he
    simp only [Option.some.injEq] at h
    subst h
    have : bs = [] := by simpa using he
    subst this
    exact Items.nil
  · cases hp : parseValue .ber f bs with
    | none => simp [hp] at h
    | some r =>
      obtain ⟨t, rest⟩ := r
      simp only [hp] at h
      cases hq : parseAll .ber f rest with
      | none => simp [hq] at h
      | some ts' =>
        simp only [hq, Option.map, Option.some.injEq] at h
        subst h
        rw [osTrees_cons, Bool.and_eq_true] at hos
        have h1 := hA g (by omega) rest ts' hq hos.2
        have h2 := hV g (by omega) bs t rest hp hos.1 _ h1
        simpa [List.flatMap_cons] using h2

theorem pe_step (f : Nat) (hV : PV f) (hE : PE f) : PE (f + 1) := by
  intro g hg bs ts rest h hos segs hrest
  simp only [parseUntilEoc] at h
  cases hr : readIdent bs with
  | none => simp [hr] at h
  | some r =>
    obtain ⟨id, k⟩ := r
    simp only [hr] at h
    split at h
    · rename_i heoc
      split at h
      · simp at h
      · have hb : M.ber.isBer = true := rfl
        rw [hb] at h
        cases hl : readLen true (bs.drop k) with
        | none => simp [hl] at h
        | some r2 =>
          obtain ⟨len?, kl⟩ := r2
          simp only [hl] at h
          split at h
          · rename_i kl' heq
            simp only [Option.some.injEq, Prod.mk.injEq] at heq h
            obtain ⟨rfl, rfl⟩ := heq
            obtain ⟨rfl, rfl⟩ := h
            simp only [isEocIdent, Bool.and_eq_true, beq_iff_eq] at heoc
            simpa using Items.eoc bs id k (some 0) kl segs hr heoc.1 heoc.2 hl hrest
          · simp at h
    · cases hp : parseValue .ber f bs with
      | none => simp [hp] at h
      | some r2 =>
        obtain ⟨t, rest1⟩ := r2
        simp only [hp] at h
        cases hq : parseUntilEoc .ber f rest1 with
        | none => simp [hq] at h
        | some r3 =>
          obtain ⟨ts', rest2⟩ := r3
          simp only [hq, Option.some.injEq, Prod.mk.injEq] at h
          obtain ⟨rfl, rfl⟩ := h
          rw [osTrees_cons, Bool.and_eq_true] at hos
          have h1 := hE g (by omega) rest1 ts' _ hq hos.2 segs hrest
          have h2 := hV g (by omega) bs t rest1 hp hos.1 _ h1
          simpa [List.flatMap_cons, List.append_assoc] using h2

theorem parse_items : ∀ f, PV f ∧ PA f ∧ PE f := by
  intro f
  induction f with
  | zero =>
    refine ⟨?_, ?_, ?_⟩
    · intro g _ bs t rest h; simp [parseValue] at h
    · intro g _ bs ts h; simp [parseAll] at h
    · intro g _ bs ts rest h; simp [parseUntilEoc] at h
  | succ f ih =>
    obtain ⟨hV, hA, hE⟩ := ih
    exact ⟨pv_step f hA hE, pa_step f hV hA, pe_step f hV hE⟩


/-! ### the main statements for constructed values -/

theorem items_of_parseAll (f : Nat) (c : Bytes) (ts : List Tree) (h : parseAll .ber f c = some ts)
    (hos : osTrees f ts = true) : Items c (ts.flatMap (osSegments f)) :=
  (parse_items f).2.1 f (Nat.le_refl _) c ts h hos

theorem items_of_parseUntilEoc (f : Nat) (c : Bytes) (ts : List Tree)
    (h : parseUntilEoc .ber f c = some (ts, [])) (hos : osTrees f ts = true) :
    Items c (ts.flatMap (osSegments f)) := by
  simpa using (parse_items f).2.2 f (Nat.le_refl _) c ts [] h hos [] Items.nil

/-- Well-formed captured content of a constructed OCTET STRING, decidable for a given parse fuel `f`
    (any `f` larger than the nesting depth and the number of values will do):
    `captured` is, by the BER grammar, a sequence of values — or, for a value that was encoded with
    the indefinite length form, a sequence of values followed by the end-of-contents octets that the
    capture includes (finding D12) — all of which are OCTET STRING values (universal 4), primitive or
    constructed from such values to any depth.  Returns the trees. -/
def wfTrees (f : Nat) (captured : Bytes) : Option (List Tree) :=
  match parseAll .ber f captured with
  | some ts => if osTrees f ts then some ts else none
  | none =>
    match parseUntilEoc .ber f captured with
    | some (ts, []) => if osTrees f ts then some ts else none
    | _ => none

def WfOS (captured : Bytes) : Prop := ∃ f ts, wfTrees f captured = some ts

theorem wfTrees_cases (f : Nat) (c : Bytes) (ts : List Tree) (h : wfTrees f c = some ts) :
    (parseAll .ber f c = some ts ∨ parseUntilEoc .ber f c = some (ts, [])) ∧ osTrees f ts = true := by
  unfold wfTrees at h
  cases hp : parseAll .ber f c with
  | some ts' =>
    simp only [hp] at h
    split at h
    · rename_i ho; simp only [Option.some.injEq] at h; subst h; exact ⟨Or.inl rfl, ho⟩
    · simp at h
  | none =>
    simp only [hp] at h
    split at h
    · rename_i ts' hq
      split at h
      · rename_i ho; simp only [Option.some.injEq] at h; subst h; exact ⟨Or.inr hq, ho⟩
      · simp at h
    · simp at h

theorem items_of_wf (f : Nat) (c : Bytes) (ts : List Tree) (h : wfTrees f c = some ts) :
    Items c (ts.flatMap (osSegments f)) := by
  obtain ⟨h1, h2⟩ := wfTrees_cases f c ts h
  rcases h1 with h1 | h1
  · exact items_of_parseAll f c ts h1 h2
  · exact items_of_parseUntilEoc f c ts h1 h2


/-! ### the content of the trees is the concatenation of the primitive leaves -/

theorem content_list (g : Nat)
    (ih : ∀ t c, osContent 4 g t = some c → c = (osSegments g t).flatten) :
    ∀ ts : List Tree, (∀ t ∈ ts, (osContent 4 g t).isSome) →
      (ts.filterMap (osContent 4 g)).flatten = (ts.flatMap (osSegments g)).flatten := by
  intro ts
  induction ts with
  | nil => intro _; rfl
  | cons t ts iht =>
    intro h
    have h1 := h t (by simp)
    cases hc : osContent 4 g t with
    | none => simp [hc] at h1
    | some c =>
      have := ih t c hc
      have h2 := iht (fun t' ht' => h t' (by simp [ht']))
      simp only [List.filterMap_cons, hc, List.flatten_cons, List.flatMap_cons, List.flatten_append, h2, this]

theorem content_eq_segments : ∀ (g : Nat) (t : Tree) (c : Bytes), osContent 4 g t = some c →
    c = (osSegments g t).flatten := by
  intro g
  induction g with
  | zero =>
    intro t c h
    cases t with
    | prim id x =>
      simp only [osContent] at h
      split at h
      · simp only [Option.some.injEq] at h; subst h; simp [osSegments]
      · simp at h
    | cons id b kids => simp [osContent] at h
  | succ g ih =>
    intro t c h
    cases t with
    | prim id x =>
      simp only [osContent] at h
      split at h
      · simp only [Option.some.injEq] at h; subst h; simp [osSegments]
      · simp at h
    | cons id b kids =>
      rw [osContent_cons] at h
      split at h
      · simp at h
      · obtain ⟨h1, h2⟩ := foldl_accStep_some _ _ _ _ h
        rw [h2, List.nil_append, content_list g ih kids h1]
        rfl

/-- for a list of OCTET STRING trees: concatenating the contents of the trees is concatenating the
    primitive leaves -/
theorem contents_eq_segments (g : Nat) (ts : List Tree) (h : osTrees g ts = true) :
    (ts.filterMap (osContent 4 g)).flatten = (ts.flatMap (osSegments g)).flatten := by
  apply content_list g (content_eq_segments g)
  simpa [osTrees, List.all_eq_true] using h

/-! ## C16, views of a constructed value -/

/-- **C16 (views).**  For EVERY captured content `c` that is well-formed in the sense of `wfTrees`
    (any number of values, any nesting depth, any sizes), every view of the value `.cons c`
    succeeds — no panic, no fuel exhaustion — and presents exactly the contents of the primitive
    leaves of the parsed trees in encoding order:
    * the segment iterator yields every primitive leaf (including empty ones), in order;
    * the octet iterator / `to_bytes` / `into_bytes` yield their concatenation, which is the
      concatenation of the reference contents `Spec.osContent` of the trees;
    * `len` is the length of that concatenation, `is_empty` says whether it is empty;
    * `as_slice` is `None` for a constructed value. -/
theorem views_eq_concat (f : Nat) (c : Bytes) (ts : List Tree) (h : wfTrees f c = some ts) :
    OS.segments (.cons c) = .ok (ts.flatMap (osSegments f)) ∧
    OS.octets (.cons c) = .ok (ts.flatMap (osSegments f)).flatten ∧
    (ts.flatMap (osSegments f)).flatten = (ts.filterMap (osContent 4 f)).flatten ∧
    (ts.filterMap (osContent 4 f)).length = ts.length ∧
    OS.len (.cons c) = .ok (ts.flatMap (osSegments f)).flatten.length ∧
    OS.isEmpty (.cons c) = .ok (ts.flatMap (osSegments f)).flatten.isEmpty ∧
    OS.asSlice (.cons c) = none := by
  obtain ⟨v1, v2, v3, v4, v5⟩ := views_items c _ (items_of_wf f c ts h)
  have hos := (wfTrees_cases f c ts h).2
  refine ⟨v1, v2, (contents_eq_segments f ts hos).symm, ?_, v3, v4, v5⟩
  have hall : ∀ t ∈ ts, (osContent 4 f t).isSome := by simpa [osTrees, List.all_eq_true] using hos
  clear h v1 v2 v3 v4 v5 hos
  induction ts with
  | nil => rfl
  | cons t ts ih =>
    have h1 := hall t (by simp)
    cases hc : osContent 4 f t with
    | none => simp [hc] at h1
    | some x =>
      simp only [List.filterMap_cons, hc, List.length_cons]
      rw [ih (fun t' ht' => hall t' (by simp [ht']))]

/-- the same against the tree of the WHOLE value: if the content octets `c` of a constructed
    encoding parse to `kids` and the reference content of the value `.cons id indef kids`
    (outer tag universal 4) is `r`, then every view presents `r` -/
theorem octets_eq_osContent (f : Nat) (c : Bytes) (kids : List Tree) (id : Ident) (indef : Bool) (r : Bytes)
    (hp : parseAll .ber f c = some kids ∨ parseUntilEoc .ber f c = some (kids, []))
    (hc : osContent 4 (f + 1) (.cons id indef kids) = some r) :
    OS.octets (.cons c) = .ok r ∧ OS.len (.cons c) = .ok r.length ∧
    OS.isEmpty (.cons c) = .ok r.isEmpty ∧
    (∃ segs, OS.segments (.cons c) = .ok segs ∧ segs.flatten = r) := by
  obtain ⟨g', hg, _, _, hk⟩ := osContent_cons_some (f + 1) id indef kids (by rw [hc]; rfl)
  have hg' : g' = f := by omega
  subst hg'
  have hr : r = (kids.flatMap (osSegments g')).flatten := content_eq_segments (g' + 1) _ r hc
  have hi : Items c (kids.flatMap (osSegments g')) := by
    rcases hp with hp | hp
    · exact items_of_parseAll g' c kids hp hk
    · exact items_of_parseUntilEoc g' c kids hp hk
  obtain ⟨v1, v2, v3, v4, _⟩ := views_items c _ hi
  rw [hr]
  exact ⟨v2, v3, v4, _, v1, rfl⟩


/-! ## C16, the value as a decoding source (`OctetStringSource`) -/

theorem items_nil_inv (segs : List Bytes) (h : Items [] segs) : segs = [] := by
  cases h with
  | nil => rfl
  | hdr _ id k len? kl _ hi => simp [readIdent] at hi
  | eoc _ id k len? kl _ hi => simp [readIdent] at hi
  | seg _ id k n kl _ hi => simp [readIdent] at hi

/-- invariant of an `OctetStringSource`: the not yet delivered part of the value is `pend`;
    `current` holds a prefix of it, the rest is the leaves of the remaining captured octets -/
def SrcInv (s : OSS) (pend : Bytes) : Prop :=
  ∃ segs, Items s.remainder segs ∧ s.current ++ segs.flatten = pend

theorem srcInv_prefix (s : OSS) (pend : Bytes) (h : SrcInv s pend) : s.current <+: pend := by
  obtain ⟨segs, _, h2⟩ := h
  exact ⟨_, h2⟩

theorem new_inv_prim (b : Bytes) : SrcInv (OSS.new (.prim b)) b :=
  ⟨[], Items.nil, by simp [OSS.new]⟩

theorem new_inv_cons (c : Bytes) (segs : List Bytes) (h : Items c segs) :
    SrcInv (OSS.new (.cons c)) segs.flatten :=
  ⟨segs, h, by simp [OSS.new]⟩

/-- `next_current` on a remainder that is an item sequence -/
theorem nextCurrent_items (s : OSS) (segs : List Bytes) (h : Items s.remainder segs) :
    match segs with
    | [] => OSS.nextCurrent s = .ok none
    | x :: xs => ∃ rest, OSS.nextCurrent s = .ok (some (x, { s with remainder := rest })) ∧
        Items rest xs ∧ rest.length + 2 ≤ s.remainder.length := by
  have hn := iterNext_items s.remainder segs h (s.remainder.length + 2) (by omega)
  cases segs with
  | nil =>
    simp only [NextOn] at hn
    simp only [OSS.nextCurrent, hn, Bind.bind, Except.bind, pure, Except.pure]
  | cons x xs =>
    simp only [NextOn] at hn
    obtain ⟨rest, r1, r2, r3⟩ := hn
    exact ⟨rest, by simp only [OSS.nextCurrent, r1, Bind.bind, Except.bind, pure, Except.pure], r2, r3⟩

/-- the `while current.len() < len` loop -/
theorem fill_items (len : Nat) : ∀ (fuel : Nat) (s : OSS) (segs : List Bytes), Items s.remainder segs →
    s.remainder.length < fuel →
    ∃ s' segs', OSS.fill len fuel s = .ok s' ∧ Items s'.remainder segs' ∧
      s'.current ++ segs'.flatten = s.current ++ segs.flatten ∧
      s.current <+: s'.current ∧ (len ≤ s'.current.length ∨ segs' = []) := by
  intro fuel
  induction fuel with
  | zero => intro s segs _ hf; omega
  | succ fuel ih =>
    intro s segs h hf
    by_cases hlt : s.current.length < len
    · have hn := nextCurrent_items s segs h
      cases segs with
      | nil =>
        simp only at hn
        refine ⟨{ s with remainder := [] }, [], ?_, Items.nil, by simp, List.prefix_refl _, Or.inr rfl⟩
        simp only [OSS.fill, hlt, if_true, hn, Bind.bind, Except.bind, pure, Except.pure]
      | cons x xs =>
        simp only at hn
        obtain ⟨rest, r1, r2, r3⟩ := hn
        obtain ⟨s', segs', f1, f2, f3, f4, f5⟩ :=
          ih ⟨s.current ++ x, rest⟩ xs r2 (by simp only; omega)
        refine ⟨s', segs', ?_, f2, ?_, ?_, f5⟩
        · simp only [OSS.fill, hlt, if_true, r1, Bind.bind, Except.bind]
          exact f1
        · rw [f3]; simp [List.append_assoc]
        · exact List.IsPrefix.trans (List.prefix_append _ _) f4
    · refine ⟨s, segs, ?_, h, rfl, List.prefix_refl _, Or.inl (by omega)⟩
      simp only [OSS.fill, hlt, if_false, pure, Except.pure]

/-- **C16 (source, `request`).**  On a source whose pending content is `pend`, `request len`
    never fails; it returns the length of the (possibly extended) current slice, which is a prefix
    of `pend` extending the old one, nothing of `pend` is lost or reordered, and the slice holds at
    least `len` octets whenever `pend` has that many — otherwise it holds all of `pend`. -/
theorem request_inv (s : OSS) (pend : Bytes) (len : Nat) (h : SrcInv s pend) :
    ∃ s', OSS.request s len = .ok (s'.current.length, s') ∧ SrcInv s' pend ∧
      s.current <+: s'.current ∧ s'.current <+: pend ∧
      (len ≤ pend.length → len ≤ s'.current.length) ∧
      (pend.length < len → s'.current = pend) := by
  obtain ⟨segs, h1, h2⟩ := h
  by_cases hc : s.current.length < len ∧ s.remainder ≠ []
  · have hb : (decide (s.current.length < len) && !s.remainder.isEmpty) = true := by
      obtain ⟨c1, c2⟩ := hc
      cases hr : s.remainder with
      | nil => exact absurd hr c2
      | cons a b => simp [c1]
    obtain ⟨s', segs', f1, f2, f3, f4, f5⟩ := fill_items len (s.remainder.length + 2) s segs h1 (by omega)
    have hp : s'.current ++ segs'.flatten = pend := by rw [f3, h2]
    refine ⟨s', ?_, ⟨segs', f2, hp⟩, f4, ⟨_, hp⟩, ?_, ?_⟩
    · simp only [OSS.request, hb, if_true, f1, Bind.bind, Except.bind, pure, Except.pure]
    · intro hl
      rcases f5 with f5 | f5
      · exact f5
      · subst f5; simp at hp; rw [hp]; exact hl
    · intro hl
      rcases f5 with f5 | f5
      · have := congrArg List.length hp
        simp only [List.length_append] at this; omega
      · subst f5; simpa using hp
  · have hb : (decide (s.current.length < len) && !s.remainder.isEmpty) = false := by
      by_cases c1 : s.current.length < len
      · have c2 : s.remainder = [] := by
          cases hr : s.remainder with
          | nil => rfl
          | cons a b => exact absurd ⟨c1, by simp [hr]⟩ hc
        simp [c2]
      · simp [c1]
    refine ⟨s, ?_, ⟨segs, h1, h2⟩, List.prefix_refl _, ⟨_, h2⟩, ?_, ?_⟩
    · simp only [OSS.request, hb, Bool.false_eq_true, if_false, pure, Except.pure]
    · intro hl
      by_cases c1 : s.current.length < len
      · have c2 : s.remainder = [] := by
          cases hr : s.remainder with
          | nil => rfl
          | cons a b => exact absurd ⟨c1, by simp [hr]⟩ hc
        rw [c2] at h1
        have := items_nil_inv segs h1
        subst this
        simp at h2; rw [h2]; exact hl
      · omega
    · intro hl
      have c1 : s.current.length < len := by
        have := congrArg List.length h2
        simp only [List.length_append] at this; omega
      have c2 : s.remainder = [] := by
        cases hr : s.remainder with
        | nil => rfl
        | cons a b => exact absurd ⟨c1, by simp [hr]⟩ hc
      rw [c2] at h1
      have := items_nil_inv segs h1
      subst this
      simpa using h2

/-- **C16 (source, `advance`).**  Advancing within the current slice drops exactly that many
    octets from the front of the pending content; advancing past it is a panic (contract breach). -/
theorem advance_inv (s : OSS) (pend : Bytes) (n : Nat) (h : SrcInv s pend) :
    (n ≤ s.current.length → ∃ s', OSS.advance s n = .ok s' ∧ SrcInv s' (pend.drop n) ∧
        s'.current = s.current.drop n) ∧
    (s.current.length < n → OSS.advance s n = .error (.panic "advance past current")) := by
  obtain ⟨segs, h1, h2⟩ := h
  constructor
  · intro hn
    refine ⟨{ s with current := s.current.drop n }, by simp [OSS.advance, hn], ⟨segs, h1, ?_⟩, rfl⟩
    rw [← h2, List.drop_append_of_le_length hn]
  · intro hn
    have : ¬ n ≤ s.current.length := by omega
    simp [OSS.advance, this]

/-- reading a whole value through the source: a request for at least as many octets as the value
    holds makes the current slice the whole content -/
theorem request_all (s : OSS) (pend : Bytes) (len : Nat) (h : SrcInv s pend) (hl : pend.length ≤ len) :
    ∃ s', OSS.request s len = .ok (pend.length, s') ∧ s'.current = pend ∧ SrcInv s' pend := by
  obtain ⟨s', r1, r2, r3, r4, r5, r6⟩ := request_inv s pend len h
  have : s'.current = pend := by
    by_cases he : pend.length = len
    · have hge := r5 (by omega)
      obtain ⟨t, ht⟩ := r4
      have hlen := congrArg List.length ht
      simp only [List.length_append] at hlen
      have : t = [] := by
        cases t with
        | nil => rfl
        | cons a b => simp at hlen; omega
      subst this; simpa using ht
    · exact r6 (by omega)
  exact ⟨s', by rw [r1, this], this, r2⟩

end Bcder.Props.C16
